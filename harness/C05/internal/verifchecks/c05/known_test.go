//go:build verif

package c05

import (
	"context"
	"fmt"
	"strings"
	"testing"

	fnv1 "github.com/crossplane/crossplane/apis/apiextensions/fn/proto/v1"
	"github.com/crossplane/crossplane/internal/controller/apiextensions/composite"
	"github.com/crossplane/crossplane/internal/verifkit"
	"github.com/crossplane/crossplane/internal/verifsim"
)

// knownDesiredStatusKey is the known-findings key of the second channel through which a
// function can supply conditions: status.conditions of the desired composite resource.
// FunctionComposer.Compose server-side-applies the desired XR status verbatim, so a
// function-supplied Ready=True is STORED on the XR by that patch (every reconcile) until the
// reconciler's final status update replaces it, and a function-supplied Healthy stays for good.
// The random and exhaustive generators never write status.conditions into the desired XR, i.e.
// this class is excluded from them by construction; this test is its pinned reproducer.
const knownDesiredStatusKey = "desired-xr-status-conditions"

func TestVerifC05KnownDesiredStatusChannel(t *testing.T) {
	rec := verifkit.New(t, "C05", "pinned reproducer: the function writes forged Ready=True and Healthy=True into desired.composite.resource.status.conditions while its only composed resource is unready")
	rec.Eval()
	sc := scenario{Pipeline: true, Steps: 1, N: 1, Seed: 3, Prev: []prevCond{{"Ready", "False"}, {"Synced", "True"}}, Rounds: []round{{FatalStep: -1, Res: []resRound{{FnReady: 2}}}, {FatalStep: -1, Res: []resRound{{FnReady: 2}}}}}
	w := newWorld(sc)
	inner := w.runner()
	w.env.Runner = composite.FunctionRunnerFn(func(ctx context.Context, name string, req *fnv1.RunFunctionRequest) (*fnv1.RunFunctionResponse, error) {
		rsp, err := inner.RunFunction(ctx, name, req)
		rsp.Desired.Composite.Resource = mustStruct(map[string]any{"apiVersion": "example.org/v1", "kind": "XThing", "status": map[string]any{
			"conditions": []any{
				map[string]any{"type": "Ready", "status": "True", "reason": forgedWhy, "message": forgedMsg, "lastTransitionTime": "2024-01-01T00:00:00Z"},
				map[string]any{"type": "Healthy", "status": "True", "reason": forgedWhy, "message": forgedMsg, "lastTransitionTime": "2024-01-01T00:00:00Z"},
			}}})
		return rsp, err
	})
	var found []string
	w.env.Sim.AddMonitor(func(_ *verifsim.View, wr *verifsim.Write) {
		if wr.Key != w.env.XRKey(xrName) || wr.Err != "" || wr.DryRun || !wr.Changed {
			return
		}
		if c := condsOf(wr.After)["Ready"]; c.Status == "True" && c.Reason == forgedWhy {
			found = append(found, fmt.Sprintf("write #%d (%s/%s by %s, field manager %q) stores the function's Ready=True while the only composed resource is unready", wr.Seq, wr.Verb, wr.Sub, wr.Actor, wr.Manager))
		}
	})
	for i := range sc.Rounds {
		o := w.reconcile(i, &sc.Rounds[i])
		tr := w.truthOf(&sc.Rounds[i], o)
		for _, v := range w.judge(&sc.Rounds[i], o, tr) {
			found = append(found, fmt.Sprintf("after reconcile %d: %s", i, v))
		}
	}
	if len(found) == 0 {
		return
	}
	what := "function-supplied status.conditions in the desired XR are server-side-applied verbatim: " + strings.Join(found, "; ")
	if verifkit.OpenFinding("C05", knownDesiredStatusKey) {
		rec.KnownReproduced(fmt.Sprintf("key=%s %d observations, first: %s", knownDesiredStatusKey, len(found), found[0]))
		return
	}
	t.Fatalf("C05 violated: %s", what)
}
