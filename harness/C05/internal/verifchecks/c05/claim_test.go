//go:build verif

package c05

import (
	"context"
	"fmt"
	"strings"
	"testing"

	"k8s.io/apimachinery/pkg/apis/meta/v1/unstructured"
	"k8s.io/apimachinery/pkg/types"
	utilrand "k8s.io/apimachinery/pkg/util/rand"
	"pgregory.net/rapid"
	"sigs.k8s.io/controller-runtime/pkg/client"
	"sigs.k8s.io/controller-runtime/pkg/reconcile"

	"github.com/crossplane/crossplane-runtime/pkg/resource"

	"github.com/crossplane/crossplane/internal/controller/apiextensions/claim"
	"github.com/crossplane/crossplane/internal/names"
	"github.com/crossplane/crossplane/internal/verifenv"
	"github.com/crossplane/crossplane/internal/verifkit"
	"github.com/crossplane/crossplane/internal/verifsim"
)

// Last clause of C05: a claim is reported Ready=True only by a reconcile that
// observed its bound XR Ready=True.

const (
	claimActor = "claim-controller"
	boundXR    = "x1"
)

type claimRound struct {
	XRReady   string `json:"xrReady,omitempty"`   // Ready status the XR controller stored before this claim reconcile: "", True, False, Unknown
	XRCustom  bool   `json:"xrCustom,omitempty"`  // the XR also carries CustomA=True and lists it in status.claimConditionTypes
	// Custom, if set, is the status of the XR's claim-targeted CustomA condition ("True", "False", "Unknown" = left
	// Unknown/FatalError by an XR reconcile that failed fatally without re-asserting it, "Absent" = listed in
	// status.claimConditionTypes but the XR has no such condition).
	Custom string `json:"custom,omitempty"`
	Rebind    int    `json:"rebind,omitempty"`    // before this reconcile somebody rewrites the XR's claimRef: 0 leave, 1 this claim, 2 another claim, 3 remove
}

type claimScenario struct {
	SSA        bool         `json:"ssa"`
	HasRef     bool         `json:"hasRef"`     // claim.spec.resourceRef names x1
	XRExists   bool         `json:"xrExists"`   // x1 exists
	XRClaimRef int          `json:"xrClaimRef"` // x1's claimRef: 0 none, 1 this claim, 2 claim "c2", 3 same name in another namespace
	PrevReady  string       `json:"prevReady,omitempty"` // claim's Ready condition from earlier reconciles
	Rounds     []claimRound `json:"rounds"`
	Seed       int64        `json:"seed"`
}

func genClaimScenario() *rapid.Generator[claimScenario] {
	return rapid.Custom(func(t *rapid.T) claimScenario {
		sc := claimScenario{
			SSA:        rapid.Bool().Draw(t, "ssa"),
			HasRef:     rapid.IntRange(0, 3).Draw(t, "hasref") != 0,
			XRExists:   rapid.IntRange(0, 3).Draw(t, "xrexists") != 0,
			XRClaimRef: rapid.SampledFrom([]int{0, 1, 1, 1, 2, 3}).Draw(t, "xrclaimref"),
			PrevReady:  rapid.SampledFrom([]string{"", "True", "False"}).Draw(t, "prevready"),
			Seed:       rapid.Int64Range(1, 1<<40).Draw(t, "nameseed"),
		}
		n := rapid.IntRange(1, 3).Draw(t, "rounds")
		for i := 0; i < n; i++ {
			sc.Rounds = append(sc.Rounds, claimRound{
				XRReady:  rapid.SampledFrom([]string{"", "True", "True", "False", "Unknown"}).Draw(t, "xrready"),
				XRCustom: rapid.Bool().Draw(t, "xrcustom"),
				Custom:   rapid.SampledFrom([]string{"", "True", "False", "Unknown", "Unknown", "Absent"}).Draw(t, "custom"),
				Rebind:   rapid.SampledFrom([]int{0, 0, 0, 0, 1, 2, 3}).Draw(t, "rebind"),
			})
		}
		return sc
	})
}

func claimReconciler(c client.Client, ssa bool) *claim.Reconciler {
	var o []claim.ReconcilerOption
	if ssa {
		// as offered.Reconciler does with the claim SSA feature enabled
		o = append(o,
			claim.WithCompositeSyncer(claim.NewServerSideCompositeSyncer(c, names.NewNameGenerator(c))),
			claim.WithManagedFieldsUpgrader(claim.NewPatchingManagedFieldsUpgrader(c)),
		)
	}
	return claim.NewReconciler(c, resource.CompositeClaimKind(verifenv.ClaimGVKDefault), resource.CompositeKind(verifenv.XRGVKDefault), o...)
}

func xrKeyOf(name string) verifsim.Key {
	return verifsim.Key{Group: verifenv.XRGVKDefault.Group, Kind: verifenv.XRGVKDefault.Kind, Name: name}
}

func refFor(code int) map[string]any {
	switch code {
	case 1:
		return claimRefMap(claimNS, claimName)
	case 2:
		return claimRefMap(claimNS, "c2")
	case 3:
		return claimRefMap("elsewhere", claimName)
	}
	return nil
}

func namesThisClaim(xr verifsim.Obj) bool {
	m, _ := verifsim.Nested(xr, "spec", "claimRef").(map[string]any)
	if m == nil {
		return false
	}
	gv, _ := m["apiVersion"].(string)
	return strings.HasPrefix(gv, verifenv.ClaimGVKDefault.Group+"/") && m["kind"] == verifenv.ClaimGVKDefault.Kind && m["namespace"] == claimNS && m["name"] == claimName
}

func runClaimScenario(sc claimScenario, rec *verifkit.Recorder, fail func(string, ...any)) *verifsim.Sim {
	utilrand.Seed(sc.Seed)
	sim := verifsim.New(verifsim.NewScheme())
	ctx := context.Background()
	user := sim.Client("user")
	if sc.XRExists {
		xr := verifenv.NewUnstructuredXR(verifenv.XRGVKDefault, boundXR)
		_ = unstructured.SetNestedMap(xr.Object, map[string]any{}, "spec")
		if r := refFor(sc.XRClaimRef); r != nil {
			_ = unstructured.SetNestedMap(xr.Object, r, "spec", "claimRef")
		}
		sim.MustCreate("user", xr)
	}
	cm := newClaim(claimName)
	if sc.HasRef {
		_ = unstructured.SetNestedMap(cm.Object, map[string]any{"apiVersion": "example.org/v1", "kind": verifenv.XRGVKDefault.Kind, "name": boundXR}, "spec", "resourceRef")
	}
	sim.MustCreate("user", cm)
	if sc.PrevReady != "" {
		u := verifsim.U(sim.Get(claimKey()))
		_ = unstructured.SetNestedSlice(u.Object, []any{map[string]any{"type": "Ready", "status": sc.PrevReady, "reason": "Earlier", "lastTransitionTime": "2024-01-01T00:00:00Z"}}, "status", "conditions")
		if err := sim.Client("earlier-reconcile").Status().Update(ctx, u); err != nil {
			panic(err)
		}
	}
	for i, rd := range sc.Rounds {
		// The XR the claim currently points at (if any) gets the status its controller would have stored.
		refName, _ := verifsim.Nested(sim.Get(claimKey()), "spec", "resourceRef", "name").(string)
		if cur := sim.Get(xrKeyOf(refName)); refName != "" && cur != nil {
			u := verifsim.U(cur)
			var conds []any
			if rd.XRReady != "" {
				conds = append(conds, map[string]any{"type": "Ready", "status": rd.XRReady, "reason": "XRController", "lastTransitionTime": "2024-01-01T00:00:00Z"})
			}
			st := map[string]any{}
			cst := rd.Custom
			if cst == "" && rd.XRCustom {
				cst = "True"
			}
			if cst != "" {
				if cst == "Unknown" {
					// exactly what the XR reconciler stores for a custom condition a fatally failed pipeline did not re-assert
					conds = append(conds, map[string]any{"type": typeCustomA, "status": "Unknown", "reason": "FatalError", "message": "A fatal error occurred before the status of this condition could be determined.", "lastTransitionTime": "2024-01-01T00:00:00Z"})
				} else if cst != "Absent" {
					conds = append(conds, map[string]any{"type": typeCustomA, "status": cst, "reason": customWhy, "lastTransitionTime": "2024-01-01T00:00:00Z"})
				}
				st["claimConditionTypes"] = []any{typeCustomA}
			}
			if conds != nil {
				st["conditions"] = conds
			}
			_ = unstructured.SetNestedMap(u.Object, st, "status")
			if err := sim.Client(xrActor).Status().Update(ctx, u); err != nil {
				panic(err)
			}
			if rd.Rebind != 0 {
				u = verifsim.U(sim.Get(xrKeyOf(refName)))
				if r := refFor(rd.Rebind); r != nil {
					_ = unstructured.SetNestedMap(u.Object, r, "spec", "claimRef")
				} else {
					unstructured.RemoveNestedField(u.Object, "spec", "claimRef")
				}
				if err := user.Update(ctx, u); err != nil {
					panic(err)
				}
			}
		}
		xrBefore := sim.Get(xrKeyOf(refName))
		before := condsOf(sim.Get(claimKey()))
		logStart := sim.LogLen()
		run := sim.NewRun(claimActor, nil)
		_, err := claimReconciler(run.Client(), sc.SSA).Reconcile(ctx, reconcile.Request{NamespacedName: types.NamespacedName{Namespace: claimNS, Name: claimName}})
		cmAfter := sim.Get(claimKey())
		after := condsOf(cmAfter)
		statusWritten := false
		for _, wr := range sim.Log()[logStart:] {
			if wr.Actor == claimActor && wr.Key == claimKey() && wr.Sub == "status" && wr.Err == "" && !wr.DryRun {
				statusWritten = true
			}
		}
		// What the reconcile could observe: nothing else runs, and the claim reconciler never writes XR status,
		// so the XR's stored Ready after the reconcile is the Ready of every version it read.
		refAfter, _ := verifsim.Nested(cmAfter, "spec", "resourceRef", "name").(string)
		xrAfter := sim.Get(xrKeyOf(refAfter))
		xrReady := xrAfter != nil && condsOf(xrAfter)["Ready"].Status == "True"
		bound := xrAfter != nil && namesThisClaim(xrAfter)
		// The reconcile is expected to stop at the "not bound" guard if the XR it was pointed at belongs to someone else.
		foreign := xrBefore != nil && verifsim.Nested(xrBefore, "spec", "claimRef") != nil && !namesThisClaim(xrBefore)

		if rec != nil {
			rec.Labelf("claim: ssa=%v", sc.SSA)
			rec.Labelf("claim: xr exists=%v ready=%v bound=%v foreign=%v -> claim Ready %q->%q", xrAfter != nil, xrReady, bound, foreign, before["Ready"].Status, after["Ready"].Status)
			if !statusWritten {
				rec.Label("claim: no status write")
			}
			if !xrReady || !bound || xrBefore == nil {
				rec.NonTrivial(fmt.Sprintf("claim|%s|%d", verifkit.JSON(sc), i), func() any { return map[string]any{"claimScenario": sc, "round": i} })
			}
		}
		// A claim's custom conditions mirror its XR's: after a claim reconcile that reports success, every condition type the
		// XR lists in status.claimConditionTypes and carries has the same status and reason on the claim - in particular a
		// condition the XR marked Unknown after a fatal error is Unknown on the claim, not a stale True/False.
		if statusWritten && after["Synced"].Status == "True" && !foreign && xrAfter != nil {
			xc := condsOf(xrAfter)
			types, _ := verifsim.Nested(xrAfter, "status", "claimConditionTypes").([]any)
			for _, ty := range types {
				tn, _ := ty.(string)
				x, has := xc[tn]
				if !has || tn == "Ready" || tn == "Synced" {
					continue
				}
				if rec != nil {
					rec.Labelf("claim: claim-targeted custom condition on XR=%s, claim %q->%q", x.Status, before[tn].Status, after[tn].Status)
					if x.Status == "Unknown" && before[tn].Status != "" && before[tn].Status != "Unknown" {
						rec.Label("claim: XR custom condition Unknown(FatalError) while the claim carries an older True/False")
					}
				}
				if c := after[tn]; c.Status != x.Status || c.Reason != x.Reason {
					fail("C05 violated: CLAIM-CUSTOM-NOT-MIRRORED: the claim reconcile reports success but claim condition %s is %q (reason %q) while its XR's claim-targeted condition is %q (reason %q); the claim had %q before\n  scenario %s reconcile %d\n  claim conditions after: %v\n  XR conditions: %v", tn, c.Status, c.Reason, x.Status, x.Reason, before[tn].Status, verifkit.JSON(sc), i, fmtConds(after), fmtConds(xc))
				}
			}
		}
		if after["Ready"].Status != "True" {
			continue
		}
		ctxMsg := func() string {
			return fmt.Sprintf("claim reconcile %d of scenario %s\n  claim conditions before: %v\n  claim conditions after:  %v\n  XR %q after: exists=%v conditions=%v claimRef=%v\n  reconcile error: %v statusWritten=%v", i, verifkit.JSON(sc), fmtConds(before), fmtConds(after), refAfter, xrAfter != nil, fmtConds(condsOf(xrAfter)), verifsim.Nested(xrAfter, "spec", "claimRef"), err, statusWritten)
		}
		// "observed its bound XR Ready=True": the XR version the reconcile read must not have belonged to another
		// claim (an unbound XR may be bound by this very reconcile), and the XR must be Ready and name this claim.
		ok := xrReady && bound && !foreign
		switch {
		case before["Ready"].Status != "True" && !ok:
			fail("C05 violated: CLAIM-READY-TURNED: the claim went Ready %q -> True but its XR is ready=%v bound-to-this-claim=%v, and the XR version it read belonged to another claim=%v\n  %s", before["Ready"].Status, xrReady, bound, foreign, ctxMsg())
		case before["Ready"].Status == "True" && statusWritten && !foreign && !ok:
			fail("C05 violated: CLAIM-READY-KEPT: the claim reconcile completed and stored Ready=True but its XR is ready=%v bound-to-this-claim=%v\n  %s", xrReady, bound, ctxMsg())
		case before["Ready"].Status == "True" && statusWritten && foreign && bound:
			fail("C05 violated: CLAIM-READY-KEPT: the claim reconcile read an XR that belonged to another claim, went on to bind it and stored Ready=True\n  %s", ctxMsg())
		}
	}
	return sim
}

func TestVerifC05Claim(t *testing.T) {
	rec := verifkit.New(t, "C05", "claim scenario = syncer {client-side, server-side} x claim resourceRef {none, x1} x XR x1 {absent, present} x XR claimRef {none, this claim, other claim, same name other namespace} x claim's earlier Ready x 1-3 rounds of (XR Ready {absent,True,False,Unknown}, custom claim condition, claimRef rewritten) then a claim reconcile; non-trivial = the XR is not ready, not bound to this claim, or did not exist")
	rapid.Check(t, func(t *rapid.T) {
		sc := genClaimScenario().Draw(t, "claimScenario")
		rec.Eval()
		runClaimScenario(sc, rec, func(f string, a ...any) { t.Fatalf(f, a...) })
	})
}

// TestVerifC05ClaimExhaustive enumerates all single-round claim scenarios.
func TestVerifC05ClaimExhaustive(t *testing.T) {
	rec := verifkit.New(t, "C05", "all single-round claim scenarios (both syncers x resourceRef x XR exists x claimRef 4 x earlier Ready 3 x XR Ready 4 x claim-targeted custom condition {none,True,False,Unknown(FatalError),Absent} x rebind 4), each preceded by a reconcile in which the XR's custom condition was True")
	idx := 0
	for _, ssa := range []bool{false, true} {
		for _, hasRef := range []bool{false, true} {
			for _, exists := range []bool{false, true} {
				for cr := 0; cr < 4; cr++ {
					for _, prev := range []string{"", "True", "False"} {
						for _, xrReady := range []string{"", "True", "False", "Unknown"} {
							for _, custom := range []string{"", "True", "False", "Unknown", "Absent"} {
								for rebind := 0; rebind < 4; rebind++ {
									idx++
									if sh, n := verifkit.Shard(); idx%n != sh {
										continue
									}
									sc := claimScenario{SSA: ssa, HasRef: hasRef, XRExists: exists, XRClaimRef: cr, PrevReady: prev, Seed: int64(idx),
										Rounds: []claimRound{{XRReady: xrReady, Custom: "True"}, {XRReady: xrReady, Custom: custom, Rebind: rebind}}}
									rec.Eval()
									runClaimScenario(sc, rec, func(f string, a ...any) { t.Errorf(f, a...) })
									if t.Failed() {
										t.FailNow()
									}
								}
							}
						}
					}
				}
			}
		}
	}
	rec.Extra("exhaustive_claim_product_size", idx)
}

// TestVerifC05ClaimSanity: the claim really becomes Ready when its bound XR is Ready, and not before.
func TestVerifC05ClaimSanity(t *testing.T) {
	for _, ssa := range []bool{false, true} {
		sc := claimScenario{SSA: ssa, Seed: 5, Rounds: []claimRound{{}, {XRReady: "False"}, {XRReady: "True"}, {XRReady: "Unknown"}}}
		var got []string
		// replay through the judged path, collecting the claim's Ready after each round
		rec := &readyTrace{}
		runClaimScenarioTraced(sc, rec, func(f string, a ...any) { t.Errorf(f, a...) })
		got = rec.ready
		want := []string{"False", "False", "True", "False"}
		if fmt.Sprint(got) != fmt.Sprint(want) {
			t.Errorf("HARNESS SANITY ssa=%v: claim Ready after each round = %v, expected %v", ssa, got, want)
		}
	}
}

type readyTrace struct{ ready []string }

// runClaimScenarioTraced runs the scenario one round at a time so that the sanity test can see each stored Ready.
func runClaimScenarioTraced(sc claimScenario, tr *readyTrace, fail func(string, ...any)) {
	// Re-running prefixes is deterministic (seeded names, fresh simulated server each time).
	for n := 1; n <= len(sc.Rounds); n++ {
		p := sc
		p.Rounds = sc.Rounds[:n]
		sim := runClaimScenario(p, nil, fail)
		tr.ready = append(tr.ready, condsOf(sim.Get(claimKey()))["Ready"].Status)
	}
}

// TestVerifC05ClaimCustomPinned: a function set CustomA=True for composite-and-claim and the claim copied it; a later
// XR reconcile failed fatally without re-asserting it (XR: Unknown/FatalError); the next claim reconcile must show Unknown.
func TestVerifC05ClaimCustomPinned(t *testing.T) {
	for _, ssa := range []bool{false, true} {
		for _, ready := range []string{"True", "False"} {
			sc := claimScenario{SSA: ssa, HasRef: true, XRExists: true, XRClaimRef: 1, Seed: 51, Rounds: []claimRound{
				{XRReady: ready, Custom: "True"}, {XRReady: ready, Custom: "Unknown"}, {XRReady: ready, Custom: "False"}, {XRReady: ready, Custom: "Unknown"}}}
			sim := runClaimScenario(sc, nil, func(f string, a ...any) { t.Errorf(f, a...) })
			if got := condsOf(sim.Get(claimKey()))[typeCustomA].Status; got != "Unknown" {
				t.Errorf("ssa=%v: after the history True, Unknown(FatalError), False, Unknown(FatalError) on the XR the claim's %s is %q", ssa, typeCustomA, got)
			}
		}
	}
}
