//go:build verif

// Package c05 decides property C05: Ready and Synced never overstate the
// truth, and functions cannot forge them.
//
// The real XR reconciler (both composers) and the real claim reconciler (both
// syncers) run against the simulated API server. Every reconcile is judged on
// the TRANSITION of the stored status (before -> after), so a stale condition
// left behind by a reconcile that failed is never mis-read as a new claim.
package c05

import (
	"context"
	"encoding/json"
	"fmt"
	"sort"
	"strings"
	"testing"

	kerrors "k8s.io/apimachinery/pkg/api/errors"
	"k8s.io/apimachinery/pkg/apis/meta/v1/unstructured"
	"k8s.io/apimachinery/pkg/runtime"
	"k8s.io/apimachinery/pkg/types"
	utilrand "k8s.io/apimachinery/pkg/util/rand"
	"k8s.io/apimachinery/pkg/util/validation/field"
	"k8s.io/utils/ptr"
	"pgregory.net/rapid"

	"google.golang.org/protobuf/types/known/structpb"

	xpv1 "github.com/crossplane/crossplane-runtime/apis/common/v1"

	fnv1 "github.com/crossplane/crossplane/apis/apiextensions/fn/proto/v1"
	v1 "github.com/crossplane/crossplane/apis/apiextensions/v1"
	"github.com/crossplane/crossplane/internal/controller/apiextensions/composite"
	"github.com/crossplane/crossplane/internal/verifenv"
	"github.com/crossplane/crossplane/internal/verifkit"
	"github.com/crossplane/crossplane/internal/verifsim"
)

const (
	annName    = "crossplane.io/composition-resource-name"
	xrName     = "xr1"
	xrActor    = "xr-controller"
	claimName  = "c1"
	claimNS    = "default"
	forgedWhy  = "ForgedByFunction"
	forgedMsg  = "forged-by-function"
	customWhy  = "FromFunction"
	typeCustomA = "CustomA"
	typeCustomB = "CustomB"
)

// ---------------------------------------------------------------------------
// scenario model

type outcome int

const (
	oOK         outcome = iota // rendered and applied
	oInvalid                   // the API server rejects the apply as invalid (422)
	oHardErr                   // the apply call fails with a 500, refused by the server before any effect (admission)
	oHardFault                 // the apply call fails with a 500 injected as a verifsim ErrBefore "server" fault
	oRenderFail                // P&T only: a Required patch has no source
)

func (o outcome) String() string {
	return [...]string{"ok", "invalid", "harderr", "hardfault", "renderfail"}[o]
}

// provider status the "provider" writes on a composed resource (P&T readiness checks read it).
type provStatus struct {
	Cond  string `json:"cond,omitempty"`  // Ready condition status: "", "True", "False"
	State string `json:"state,omitempty"` // status.state: "", "up", "down"
	N     int64  `json:"n,omitempty"`     // status.n: 0 (absent), 3, 4
	Flag  int    `json:"flag,omitempty"`  // status.flag: 0 absent, 1 true, 2 false
}

type checkKind int

const (
	ckDefault checkKind = iota // no readiness checks in the template: Ready condition must be True
	ckMatchCondition           // MatchCondition Ready=True
	ckNonEmpty                 // NonEmpty status.state
	ckMatchString              // MatchString status.state == "up"
	ckMatchInteger             // MatchInteger status.n == 3
	ckMatchTrue                // MatchTrue status.flag
	ckMatchFalse               // MatchFalse status.flag
	ckNone                     // None: always ready
	ckTwo                      // NonEmpty status.state AND MatchCondition Ready=True
	nCheckKinds
)

func (k checkKind) String() string {
	return [...]string{"default", "matchcondition", "nonempty", "matchstring", "matchinteger", "matchtrue", "matchfalse", "none", "two"}[k]
}

// refReady is the reference meaning of the readiness checks (from the API
// documentation of v1.ReadinessCheck), evaluated on the stored status.
func refReady(k checkKind, st map[string]any) bool {
	condReady := ""
	if l, ok := st["conditions"].([]any); ok {
		for _, e := range l {
			if m, ok := e.(map[string]any); ok && m["type"] == "Ready" {
				condReady, _ = m["status"].(string)
			}
		}
	}
	state, hasState := st["state"].(string)
	flag, hasFlag := st["flag"].(bool)
	var n int64
	hasN := false
	switch x := st["n"].(type) {
	case int64:
		n, hasN = x, true
	case float64:
		n, hasN = int64(x), true
	}
	switch k {
	case ckDefault, ckMatchCondition:
		return condReady == "True"
	case ckNonEmpty:
		return hasState && state != ""
	case ckMatchString:
		return hasState && state == "up"
	case ckMatchInteger:
		return hasN && n == 3
	case ckMatchTrue:
		return hasFlag && flag
	case ckMatchFalse:
		return hasFlag && !flag
	case ckNone:
		return true
	case ckTwo:
		return hasState && state != "" && condReady == "True"
	}
	return false
}

func (k checkKind) v1() []v1.ReadinessCheck {
	mc := v1.ReadinessCheck{Type: v1.ReadinessCheckTypeMatchCondition, MatchCondition: &v1.MatchConditionReadinessCheck{Type: xpv1.TypeReady, Status: "True"}}
	switch k {
	case ckMatchCondition:
		return []v1.ReadinessCheck{mc}
	case ckNonEmpty:
		return []v1.ReadinessCheck{{Type: v1.ReadinessCheckTypeNonEmpty, FieldPath: "status.state"}}
	case ckMatchString:
		return []v1.ReadinessCheck{{Type: v1.ReadinessCheckTypeMatchString, FieldPath: "status.state", MatchString: "up"}}
	case ckMatchInteger:
		return []v1.ReadinessCheck{{Type: v1.ReadinessCheckTypeMatchInteger, FieldPath: "status.n", MatchInteger: 3}}
	case ckMatchTrue:
		return []v1.ReadinessCheck{{Type: v1.ReadinessCheckTypeMatchTrue, FieldPath: "status.flag"}}
	case ckMatchFalse:
		return []v1.ReadinessCheck{{Type: v1.ReadinessCheckTypeMatchFalse, FieldPath: "status.flag"}}
	case ckNone:
		return []v1.ReadinessCheck{{Type: v1.ReadinessCheckTypeNone}}
	case ckTwo:
		return []v1.ReadinessCheck{{Type: v1.ReadinessCheckTypeNonEmpty, FieldPath: "status.state"}, mc}
	}
	return nil
}

// resRound is what happens to one desired composed resource in one reconcile.
type resRound struct {
	Outcome outcome     `json:"outcome"`
	FnReady int         `json:"fnReady,omitempty"` // pipeline: fnv1.Ready value (0 unspecified, 1 true, 2 false)
	Prov    *provStatus `json:"prov,omitempty"`    // P&T: status the provider writes before this reconcile (if the object exists)
}

// fnCond is one condition a function returns.
type fnCond struct {
	Type   string `json:"type"`
	Status int    `json:"status"` // fnv1.Status value (0 unspecified, 1 unknown, 2 true, 3 false)
	Target int    `json:"target"` // fnv1.Target value (0 unspecified, 1 composite, 2 composite and claim)
	Step   int    `json:"step"`
}

type round struct {
	Res       []resRound `json:"res"`
	XRReady   int        `json:"xrReady,omitempty"` // pipeline: fnv1.Ready value of desired.composite.ready in the FINAL desired state
	// XRScript, if set, says what each pipeline step does to desired.composite.ready (len == steps):
	// xrPass hands on what it received, xrSetTrue / xrSetFalse state an opinion, xrReset rebuilds
	// desired.composite without copying ready (READY_UNSPECIFIED). XRReady is then the result after the
	// last step. Without a script only the last step touches it (sets XRReady).
	XRScript []int `json:"xrScript,omitempty"`
	Conds     []fnCond   `json:"conds,omitempty"`
	FatalStep int        `json:"fatalStep"` // pipeline: step that returns a fatal result (-1: none)
}

const (
	xrPass = iota
	xrSetTrue
	xrSetFalse
	xrReset
)

var xrActNames = [...]string{"pass", "TRUE", "FALSE", "reset"}

// foldXRScript is the contract of run_function.proto: the XR's readiness opinion is the one in the
// desired state handed back by the LAST step; each step receives its predecessor's desired state.
func foldXRScript(script []int) int {
	v := int(fnv1.Ready_READY_UNSPECIFIED)
	for _, a := range script {
		switch a {
		case xrSetTrue:
			v = int(fnv1.Ready_READY_TRUE)
		case xrSetFalse:
			v = int(fnv1.Ready_READY_FALSE)
		case xrReset:
			v = int(fnv1.Ready_READY_UNSPECIFIED)
		}
	}
	return v
}

// staleOpinion reports the class "an earlier step said READY_TRUE, the final desired state says nothing".
func staleOpinion(script []int) bool {
	sawTrue := false
	for _, a := range script {
		if a == xrSetTrue {
			sawTrue = true
		}
	}
	return sawTrue && foldXRScript(script) == int(fnv1.Ready_READY_UNSPECIFIED)
}

type prevCond struct {
	Type   string `json:"type"`
	Status string `json:"status"`
}

type scenario struct {
	Pipeline bool        `json:"pipeline"`
	Steps    int         `json:"steps,omitempty"`
	N        int         `json:"n"`
	Checks   []checkKind `json:"checks,omitempty"` // P&T: readiness checks of template i
	Anon     bool        `json:"anon,omitempty"`   // P&T: ALL templates are unnamed (the composer associates by position)
	Prev     []prevCond  `json:"prev,omitempty"`   // XR status conditions left by earlier reconciles (seeded)
	Claim    int         `json:"claim"`            // 0 no claimRef, 1 claimRef and the claim exists, 2 claimRef to a missing claim
	Rounds   []round     `json:"rounds"`
	Seed     int64       `json:"seed"`
}

func rname(i int) string { return fmt.Sprintf("r%d", i) }

// desiredName tells which desired resource a composed object is. Named templates and functions
// stamp the composition-resource-name annotation; objects of anonymous templates carry no such
// annotation and are recognised by the marker value every base/desired resource has in spec.forProvider.v.
func desiredName(o verifsim.Obj) string {
	if n := verifsim.Annotations(o)[annName]; n != "" {
		return n
	}
	v, _ := verifsim.Nested(o, "spec", "forProvider", "v").(string)
	return v
}

var condTypes = []string{"Ready", "Synced", "Healthy", typeCustomA, typeCustomB}

func genProv() *rapid.Generator[*provStatus] {
	return rapid.Custom(func(t *rapid.T) *provStatus {
		if rapid.IntRange(0, 5).Draw(t, "noprov") == 0 {
			return nil
		}
		return &provStatus{
			Cond:  rapid.SampledFrom([]string{"", "True", "True", "False"}).Draw(t, "cond"),
			State: rapid.SampledFrom([]string{"", "up", "up", "down"}).Draw(t, "state"),
			N:     rapid.SampledFrom([]int64{0, 3, 3, 4}).Draw(t, "n"),
			Flag:  rapid.IntRange(0, 2).Draw(t, "flag"),
		}
	})
}

func drawRound(t *rapid.T, sc *scenario) round {
	{
		rd := round{FatalStep: -1}
		// Half of the rounds are calm (everything applies), otherwise Ready/Synced=True would hardly ever be at stake.
		calm := rapid.Bool().Draw(t, "calm")
		for i := 0; i < sc.N; i++ {
			rr := resRound{}
			oc := 9
			if !calm {
				oc = rapid.IntRange(0, 9).Draw(t, "outcome")
			}
			switch oc {
			case 0, 1:
				rr.Outcome = oInvalid
			case 2:
				rr.Outcome = oHardErr
			case 3:
				rr.Outcome = oHardFault
			case 4:
				if !sc.Pipeline {
					rr.Outcome = oRenderFail
				}
			}
			if sc.Pipeline {
				rr.FnReady = rapid.SampledFrom([]int{1, 1, 1, 2, 0}).Draw(t, "fnready")
			} else {
				rr.Prov = genProv().Draw(t, "prov")
				if rapid.Bool().Draw(t, "provready") {
					// the provider reports what this template's readiness checks wait for
					rr.Prov = &provStatus{Cond: "True", State: "up", N: 3, Flag: 1}
					if sc.Checks[i] == ckMatchFalse {
						rr.Prov.Flag = 2
					}
				}
			}
			rd.Res = append(rd.Res, rr)
		}
		if sc.Pipeline {
			if rapid.IntRange(0, 3).Draw(t, "scripted") == 0 {
				rd.XRReady = rapid.IntRange(0, 2).Draw(t, "xrready")
			} else {
				for i := 0; i < sc.Steps; i++ {
					rd.XRScript = append(rd.XRScript, rapid.IntRange(xrPass, xrReset).Draw(t, "xrstep"))
				}
				rd.XRReady = foldXRScript(rd.XRScript)
			}
			nc := rapid.SampledFrom([]int{0, 1, 1, 2, 3}).Draw(t, "nconds")
			for i := 0; i < nc; i++ {
				rd.Conds = append(rd.Conds, fnCond{
					Type:   rapid.SampledFrom(condTypes).Draw(t, "ctype"),
					Status: rapid.IntRange(0, 3).Draw(t, "cstatus"),
					Target: rapid.IntRange(0, 2).Draw(t, "ctarget"),
					Step:   rapid.IntRange(0, sc.Steps-1).Draw(t, "cstep"),
				})
			}
			if rapid.IntRange(0, 3).Draw(t, "fatal") == 0 {
				rd.FatalStep = rapid.IntRange(0, sc.Steps-1).Draw(t, "fatalstep")
			}
		}
		return rd
	}
}

func genPrev() *rapid.Generator[[]prevCond] {
	return rapid.Custom(func(t *rapid.T) []prevCond {
		var out []prevCond
		for _, ty := range []string{"Ready", "Synced", typeCustomA, typeCustomB} {
			if s := rapid.SampledFrom([]string{"", "", "True", "False", "Unknown"}).Draw(t, "prev"+ty); s != "" {
				out = append(out, prevCond{Type: ty, Status: s})
			}
		}
		return out
	})
}

func genScenario() *rapid.Generator[scenario] {
	return rapid.Custom(func(t *rapid.T) scenario {
		sc := scenario{Pipeline: rapid.Bool().Draw(t, "pipeline"), Seed: rapid.Int64Range(1, 1<<40).Draw(t, "nameseed")}
		sc.N = rapid.SampledFrom([]int{0, 1, 1, 2, 2, 2, 3, 3}).Draw(t, "n")
		if !sc.Pipeline && sc.N == 0 {
			sc.N = 1 // a Resources-mode Composition without resources is refused as invalid before composing
		}
		if sc.Pipeline {
			sc.Steps = rapid.IntRange(1, 3).Draw(t, "steps")
		} else {
			for i := 0; i < sc.N; i++ {
				sc.Checks = append(sc.Checks, checkKind(rapid.IntRange(0, int(nCheckKinds)-1).Draw(t, "check")))
			}
			sc.Anon = rapid.IntRange(0, 2).Draw(t, "anon") == 0
		}
		sc.Prev = genPrev().Draw(t, "prev")
		sc.Claim = rapid.SampledFrom([]int{0, 1, 1, 2}).Draw(t, "claim")
		nr := rapid.IntRange(1, 4).Draw(t, "rounds")
		for i := 0; i < nr; i++ {
			sc.Rounds = append(sc.Rounds, drawRound(t, &sc))
		}
		return sc
	})
}

// ---------------------------------------------------------------------------
// world

type world struct {
	env     *verifenv.XREnv
	sc      scenario
	cur     *round
	xrUID   string
	refused map[string]bool // desired resource names the admission hook refused in the current reconcile
}

func mustStruct(m map[string]any) *structpb.Struct {
	s, err := structpb.NewStruct(m)
	if err != nil {
		panic(err)
	}
	return s
}

// runner is the scripted function: it returns exactly what the current round says.
func (w *world) runner() composite.FunctionRunner {
	return composite.FunctionRunnerFn(func(_ context.Context, name string, req *fnv1.RunFunctionRequest) (*fnv1.RunFunctionResponse, error) {
		var step int
		fmt.Sscanf(name, "fn-%d", &step)
		rd := w.cur
		d := req.GetDesired()
		if d == nil {
			d = &fnv1.State{}
		}
		if d.Resources == nil {
			d.Resources = map[string]*fnv1.Resource{}
		}
		if step == 0 {
			for i, rr := range rd.Res {
				d.Resources[rname(i)] = &fnv1.Resource{
					Resource: mustStruct(map[string]any{
						"apiVersion": "example.org/v1", "kind": "KindA", "metadata": map[string]any{},
						"spec": map[string]any{"forProvider": map[string]any{"v": rname(i)}},
					}),
					Ready: fnv1.Ready(rr.FnReady),
				}
			}
		}
		newComposite := func() *fnv1.Resource {
			return &fnv1.Resource{Resource: mustStruct(map[string]any{"apiVersion": "example.org/v1", "kind": "XThing"})}
		}
		if rd.XRScript != nil {
			switch rd.XRScript[step] {
			case xrSetTrue, xrSetFalse:
				if d.Composite == nil {
					d.Composite = newComposite()
				}
				d.Composite.Ready = fnv1.Ready_READY_TRUE
				if rd.XRScript[step] == xrSetFalse {
					d.Composite.Ready = fnv1.Ready_READY_FALSE
				}
			case xrReset:
				// a function that rebuilds desired.composite from the observed XR and does not copy ready
				d.Composite = newComposite()
			}
			if step == w.sc.Steps-1 && d.Composite == nil {
				d.Composite = newComposite()
			}
		} else if step == w.sc.Steps-1 {
			if d.Composite == nil {
				d.Composite = newComposite()
			}
			d.Composite.Ready = fnv1.Ready(rd.XRReady)
		}
		rsp := &fnv1.RunFunctionResponse{Desired: d, Context: req.GetContext()}
		for _, c := range rd.Conds {
			if c.Step != step {
				continue
			}
			fc := &fnv1.Condition{Type: c.Type, Status: fnv1.Status(c.Status), Reason: customWhy}
			if xpv1.IsSystemConditionType(xpv1.ConditionType(c.Type)) {
				fc.Reason = forgedWhy
				fc.Message = ptr.To(forgedMsg)
			}
			if c.Target != 0 {
				fc.Target = ptr.To(fnv1.Target(c.Target))
			}
			rsp.Conditions = append(rsp.Conditions, fc)
		}
		if rd.FatalStep == step {
			rsp.Results = append(rsp.Results, &fnv1.Result{Severity: fnv1.Severity_SEVERITY_FATAL, Message: "scripted fatal result"})
		}
		return rsp, nil
	})
}

func (sc scenario) composition() *v1.Composition {
	c := &v1.Composition{}
	c.SetName("comp")
	c.Spec.CompositeTypeRef = v1.TypeReference{APIVersion: "example.org/v1", Kind: "XThing"}
	if sc.Pipeline {
		c.Spec.Mode = ptr.To(v1.CompositionModePipeline)
		for i := 0; i < sc.Steps; i++ {
			c.Spec.Pipeline = append(c.Spec.Pipeline, v1.PipelineStep{Step: fmt.Sprintf("step-%d", i), FunctionRef: v1.FunctionReference{Name: fmt.Sprintf("fn-%d", i)}})
		}
		return c
	}
	c.Spec.Mode = ptr.To(v1.CompositionModeResources)
	for i := 0; i < sc.N; i++ {
		base, _ := json.Marshal(map[string]any{"apiVersion": "example.org/v1", "kind": "KindA", "spec": map[string]any{"forProvider": map[string]any{"v": rname(i)}}})
		pol := v1.FromFieldPathPolicyRequired
		ct := v1.ComposedTemplate{
			Base: runtime.RawExtension{Raw: base},
			Patches: []v1.Patch{{
				Type: v1.PatchTypeFromCompositeFieldPath, FromFieldPath: ptr.To("spec.params.p" + fmt.Sprint(i)), ToFieldPath: ptr.To("spec.forProvider.p"),
				Policy: &v1.PatchPolicy{FromFieldPath: &pol},
			}},
			ReadinessChecks: sc.Checks[i].v1(),
		}
		if !sc.Anon {
			ct.Name = ptr.To(rname(i))
		}
		c.Spec.Resources = append(c.Spec.Resources, ct)
	}
	return c
}

func claimKey() verifsim.Key {
	return verifsim.Key{Group: verifenv.ClaimGVKDefault.Group, Kind: verifenv.ClaimGVKDefault.Kind, Namespace: claimNS, Name: claimName}
}

func newClaim(name string) *unstructured.Unstructured {
	u := &unstructured.Unstructured{}
	u.SetGroupVersionKind(verifenv.ClaimGVKDefault)
	u.SetNamespace(claimNS)
	u.SetName(name)
	_ = unstructured.SetNestedMap(u.Object, map[string]any{}, "spec")
	return u
}

func claimRefMap(ns, name string) map[string]any {
	return map[string]any{"apiVersion": "example.org/v1", "kind": verifenv.ClaimGVKDefault.Kind, "namespace": ns, "name": name}
}

func newWorld(sc scenario) *world {
	utilrand.Seed(sc.Seed)
	env := verifenv.NewXREnv()
	w := &world{env: env, sc: sc}
	env.Runner = w.runner()
	env.InstallComposition(sc.composition(), 1)
	xr := env.NewXR(xrName, "comp")
	params := map[string]any{}
	for i := 0; i < sc.N; i++ {
		params[fmt.Sprintf("p%d", i)] = fmt.Sprintf("v%d", i)
	}
	_ = unstructured.SetNestedMap(xr.Object, params, "spec", "params")
	if sc.Claim != 0 {
		_ = unstructured.SetNestedMap(xr.Object, claimRefMap(claimNS, claimName), "spec", "claimRef")
	}
	if sc.Claim == 1 {
		env.Sim.MustCreate("user", newClaim(claimName))
	}
	env.Sim.MustCreate("user", xr)
	w.xrUID = string(xr.GetUID())
	if len(sc.Prev) > 0 {
		var l []any
		for _, p := range sc.Prev {
			l = append(l, map[string]any{"type": p.Type, "status": p.Status, "reason": "Earlier", "lastTransitionTime": "2024-01-01T00:00:00Z"})
		}
		u := verifsim.U(env.Sim.Get(env.XRKey(xrName)))
		_ = unstructured.SetNestedSlice(u.Object, l, "status", "conditions")
		if err := env.Sim.Client("earlier-reconcile").Status().Update(context.Background(), u); err != nil {
			panic(err)
		}
	}
	env.Sim.AddAdmission(w.admission)
	return w
}

// admission models the API server refusing a composed resource: 422 Invalid
// (schema/validation) or 500 (storage failure). Only the XR controller's writes
// of composed resources are judged.
func (w *world) admission(_ *verifsim.View, op verifsim.Op) error {
	if op.Actor != xrActor || w.cur == nil || op.New == nil || op.Sub != "" {
		return nil
	}
	n := desiredName(op.New)
	if n == "" || verifsim.ControllerUID(op.New) != w.xrUID {
		return nil
	}
	var i int
	if _, err := fmt.Sscanf(n, "r%d", &i); err != nil || i >= len(w.cur.Res) {
		return nil
	}
	switch w.cur.Res[i].Outcome {
	case oInvalid:
		w.refused[n] = true
		return kerrors.NewInvalid(op.GVK.GroupKind(), op.Key.Name, field.ErrorList{field.Invalid(field.NewPath("spec", "forProvider", "v"), "x", "rejected by the simulated schema")})
	case oHardErr:
		w.refused[n] = true
		return kerrors.NewInternalError(fmt.Errorf("simulated storage failure"))
	}
	return nil
}

// composedKey finds the live composed resource for desired resource name n.
func (w *world) composedKey(n string) (verifsim.Key, verifsim.Obj) {
	for _, k := range w.env.Sim.Keys(verifsim.Key{Group: "example.org", Kind: "KindA"}.GK()) {
		o := w.env.Sim.Get(k)
		if desiredName(o) == n && verifsim.ControllerUID(o) == w.xrUID {
			return k, o
		}
	}
	return verifsim.Key{}, nil
}

// prepare lets the environment act before the reconcile of round rd: the user
// removes/restores patch sources, the provider writes status.
func (w *world) prepare(rd *round) {
	ctx := context.Background()
	if w.sc.Pipeline {
		return
	}
	uc := w.env.Sim.Client("user")
	xr := verifenv.NewUnstructuredXR(w.env.XRGVK, xrName)
	if err := uc.Get(ctx, types.NamespacedName{Name: xrName}, xr); err != nil {
		panic(err)
	}
	changed := false
	for i, rr := range rd.Res {
		p := fmt.Sprintf("p%d", i)
		_, has, _ := unstructured.NestedString(xr.Object, "spec", "params", p)
		if rr.Outcome == oRenderFail && has {
			unstructured.RemoveNestedField(xr.Object, "spec", "params", p)
			changed = true
		}
		if rr.Outcome != oRenderFail && !has {
			_ = unstructured.SetNestedField(xr.Object, fmt.Sprintf("v%d", i), "spec", "params", p)
			changed = true
		}
	}
	if changed {
		if err := uc.Update(ctx, xr); err != nil {
			panic(err)
		}
	}
	pc := w.env.Sim.Client("provider")
	for i, rr := range rd.Res {
		if rr.Prov == nil {
			continue
		}
		_, o := w.composedKey(rname(i))
		if o == nil {
			continue
		}
		st := map[string]any{}
		if rr.Prov.Cond != "" {
			st["conditions"] = []any{map[string]any{"type": "Ready", "status": rr.Prov.Cond, "reason": "Provider", "lastTransitionTime": "2024-01-01T00:00:00Z"}}
		}
		if rr.Prov.State != "" {
			st["state"] = rr.Prov.State
		}
		if rr.Prov.N != 0 {
			st["n"] = rr.Prov.N
		}
		if rr.Prov.Flag != 0 {
			st["flag"] = rr.Prov.Flag == 1
		}
		u := verifsim.U(o)
		_ = unstructured.SetNestedMap(u.Object, st, "status")
		if err := pc.Status().Update(ctx, u); err != nil {
			panic(err)
		}
	}
}

type cnd struct{ Status, Reason, Message string }

func condsOf(o verifsim.Obj) map[string]cnd {
	out := map[string]cnd{}
	l, _ := verifsim.Nested(o, "status", "conditions").([]any)
	for _, e := range l {
		if m, ok := e.(map[string]any); ok {
			ty, _ := m["type"].(string)
			c := cnd{}
			c.Status, _ = m["status"].(string)
			c.Reason, _ = m["reason"].(string)
			c.Message, _ = m["message"].(string)
			out[ty] = c
		}
	}
	return out
}

// observation of one reconcile.
type obs struct {
	before, after  map[string]cnd
	statusWritten  bool            // the reconcile made a successful status-subresource write on the XR
	applied        map[string]bool // desired resource names with a successful write in this reconcile
	rejected       map[string]bool // desired resource names with a refused write in this reconcile
	composeFailed  bool            // the reconciler reported "cannot compose resources" (generator health only)
	faultInjected  bool
	err            error
}

var writeVerbs = []string{"create ", "patch:", "update "}

// reconcile runs round rd's reconcile and observes it.
func (w *world) reconcile(idx int, rd *round) obs {
	w.cur = rd
	w.prepare(rd)
	sim := w.env.Sim
	var plan map[int]verifsim.Fault
	seed := w.sc.Seed + int64(idx)*7919
	// An ErrBefore fault needs the index of the apply call: learn it from a fault-free probe on a snapshot.
	faultIdx := -1
	for i, rr := range rd.Res {
		if rr.Outcome == oHardFault {
			faultIdx = i
			break
		}
	}
	for i := range rd.Res {
		// Only one ErrBefore fault per reconcile; further ones are refused by admission instead.
		if rd.Res[i].Outcome == oHardFault && i != faultIdx {
			rd.Res[i].Outcome = oHardErr
		}
	}
	if faultIdx >= 0 {
		snap := sim.Snapshot()
		utilrand.Seed(seed)
		probe := sim.NewRun(xrActor, nil)
		w.refused = map[string]bool{}
		_, _ = w.env.Reconcile(probe, xrName)
		k, _ := w.composedKey(rname(faultIdx))
		at := -1
		if k.Name != "" {
			for ci, c := range probe.Calls {
				if !strings.HasSuffix(c, " "+k.String()) {
					continue
				}
				for _, v := range writeVerbs {
					if strings.HasPrefix(c, v) {
						at = ci
					}
				}
				if at >= 0 {
					break
				}
			}
		}
		sim.Restore(snap)
		w.env.Recorder.Reset()
		w.refused = map[string]bool{}
		if at >= 0 {
			plan = map[int]verifsim.Fault{at: {Kind: verifsim.ErrBefore, Err: "server"}}
		} else {
			// The reconcile never gets to apply this resource (earlier failure): nothing to inject.
			// The resource is then simply not refused; it counts as ok if it is reached at all.
			rd.Res[faultIdx].Outcome = oOK
		}
	}
	utilrand.Seed(seed)
	o := obs{before: condsOf(sim.Get(w.env.XRKey(xrName))), applied: map[string]bool{}, rejected: map[string]bool{}, faultInjected: plan != nil}
	logStart := sim.LogLen()
	w.env.Recorder.Reset()
	w.refused = o.rejected
	run := sim.NewRun(xrActor, plan)
	_, o.err = w.env.Reconcile(run, xrName)
	o.after = condsOf(sim.Get(w.env.XRKey(xrName)))
	xk := w.env.XRKey(xrName)
	for _, wr := range sim.Log()[logStart:] {
		if wr.Actor != xrActor || wr.DryRun {
			continue
		}
		if wr.Key == xk {
			if wr.Sub == "status" && wr.Err == "" {
				o.statusWritten = true
			}
			continue
		}
		if wr.Key.Kind != "KindA" {
			continue
		}
		if wr.Err == "" {
			o.applied[desiredName(wr.After)] = true
		}
	}
	for _, e := range w.env.Recorder.Warnings() {
		if strings.HasPrefix(e.Message, "cannot compose resources") {
			o.composeFailed = true
		}
	}
	return o
}

// truth about one round, derived from the scenario (and, for P&T readiness,
// from the status the provider stored), never from the reconciler's output.
type truth struct {
	failed     bool   // composition fails: a fatal function result or a hard apply error
	fatal      bool   // ... because of a fatal function result
	allApplied bool   // every desired resource is rendered and accepted by the API server
	ready      []bool // per desired resource
	allReady   bool
	mayBeReady bool            // the property's condition for Ready=True
	seen       map[string]bool // custom condition types re-asserted by the functions that ran
	forged     bool            // some function condition has a system type
}

func (w *world) truthOf(rd *round, o obs) truth {
	t := truth{allApplied: true, allReady: true, seen: map[string]bool{}}
	t.fatal = w.sc.Pipeline && rd.FatalStep >= 0
	t.failed = t.fatal
	for i, rr := range rd.Res {
		if rr.Outcome != oOK {
			t.allApplied = false
		}
		if rr.Outcome == oHardErr || (rr.Outcome == oHardFault && o.faultInjected) {
			t.failed = true
		}
		var rdy bool
		if w.sc.Pipeline {
			// The function's word is the readiness of a composed resource in a pipeline.
			rdy = rr.FnReady == int(fnv1.Ready_READY_TRUE)
		} else {
			// P&T: a resource that was not rendered, or that the API server refused, is not ready;
			// otherwise the template's readiness checks decide, on the status stored by the provider.
			_, ob := w.composedKey(rname(i))
			st, _ := ob["status"].(map[string]any)
			rdy = rr.Outcome == oOK && ob != nil && refReady(w.sc.Checks[i], st)
		}
		t.ready = append(t.ready, rdy)
		if !rdy {
			t.allReady = false
		}
	}
	switch {
	case w.sc.Pipeline && rd.XRReady == int(fnv1.Ready_READY_TRUE):
		t.mayBeReady = true
	case w.sc.Pipeline && rd.XRReady == int(fnv1.Ready_READY_FALSE):
		t.mayBeReady = false
	default:
		t.mayBeReady = t.allReady
	}
	for _, c := range rd.Conds {
		if xpv1.IsSystemConditionType(xpv1.ConditionType(c.Type)) {
			t.forged = true
			continue
		}
		// A function's conditions are delivered if its step ran, i.e. up to and including the fatal step.
		// A hard apply error discards the whole pipeline output.
		if t.fatal && c.Step <= rd.FatalStep {
			t.seen[c.Type] = true
		}
		if !t.failed {
			t.seen[c.Type] = true
		}
	}
	return t
}

// judge applies the property to one observed reconcile. It returns the violations.
func (w *world) judge(rd *round, o obs, t truth) []string {
	var v []string
	bad := func(f string, a ...any) { v = append(v, fmt.Sprintf(f, a...)) }
	bR, aR := o.before["Ready"].Status, o.after["Ready"].Status
	aS := o.after["Synced"].Status

	// Ready=True only if the pipeline marked the XR ready, or did not mark it unready and every desired resource is ready.
	if aR == "True" {
		switch {
		case bR != "True" && t.failed:
			bad("READY-TURNED-BY-FAILED-RECONCILE: composition failed in this reconcile, yet Ready went %q -> True", bR)
		case bR != "True" && !t.mayBeReady:
			bad("READY-OVERSTATED: Ready went %q -> True but the final desired composite ready is %d (per-step script %v) and per-resource readiness is %v", bR, rd.XRReady, scriptNames(rd.XRScript), t.ready)
		case bR == "True" && o.statusWritten && !t.failed && !o.composeFailed && !t.mayBeReady:
			bad("READY-KEPT-OVERSTATED: composition completed and stored status with Ready=True but the final desired composite ready is %d (per-step script %v) and per-resource readiness is %v", rd.XRReady, scriptNames(rd.XRScript), t.ready)
		}
	}
	// Synced=True only if every desired resource was rendered and applied in that same reconcile.
	if aS == "True" && o.statusWritten {
		if t.failed {
			bad("SYNCED-AFTER-FAILURE: composition failed in this reconcile but the stored status says Synced=True")
		}
		if !t.allApplied {
			bad("SYNCED-OVERSTATED: stored Synced=True but the outcomes of the desired resources were %v", outcomes(rd))
		}
		for i := range rd.Res {
			if !o.applied[rname(i)] || o.rejected[rname(i)] {
				bad("SYNCED-WITHOUT-APPLY: stored Synced=True but desired resource %s has no successful apply in this reconcile's write log (applied=%v rejected=%v)", rname(i), o.applied, o.rejected)
			}
		}
	}
	// A failed composition stores Synced=False.
	if t.failed && o.statusWritten && aS != "False" {
		bad("FAILURE-NOT-REPORTED: composition failed and status was stored, but Synced=%q", aS)
	}
	// System conditions cannot be forged.
	for _, ty := range []string{"Ready", "Synced", "Healthy"} {
		c, ok := o.after[ty]
		if !ok {
			continue
		}
		if c.Reason == forgedWhy || c.Message == forgedMsg {
			bad("FORGED: stored system condition %s=%s carries the function-supplied reason/message (%q/%q)", ty, c.Status, c.Reason, c.Message)
		}
		if ty == "Healthy" {
			bad("FORGED: the XR reconciler never sets Healthy, yet the stored XR has Healthy=%s (%q)", c.Status, c.Reason)
		}
	}
	// Custom conditions not re-asserted because of a fatal error become Unknown.
	if t.failed && o.statusWritten {
		for ty, b := range o.before {
			if xpv1.IsSystemConditionType(xpv1.ConditionType(ty)) || t.seen[ty] {
				continue
			}
			if a, ok := o.after[ty]; !ok || a.Status != "Unknown" {
				bad("CUSTOM-NOT-UNKNOWN: custom condition %s=%s was present, was not re-asserted in a reconcile that failed fatally, and is now %q (want Unknown)", ty, b.Status, a.Status)
			}
		}
	}
	return v
}

func scriptNames(script []int) []string {
	var out []string
	for _, a := range script {
		out = append(out, xrActNames[a])
	}
	return out
}

func outcomes(rd *round) []string {
	var out []string
	for _, r := range rd.Res {
		out = append(out, r.Outcome.String())
	}
	return out
}

func nonTrivial(rd *round, t truth) bool {
	if !t.allApplied || !t.allReady || t.forged || rd.XRReady != 0 || staleOpinion(rd.XRScript) {
		return true
	}
	return false
}

// runScenario plays all rounds and judges each reconcile.
func runScenario(sc scenario, rec *verifkit.Recorder, fail func(string, ...any)) {
	w := newWorld(sc)
	for i := range sc.Rounds {
		rd := &sc.Rounds[i]
		if rd.XRScript != nil {
			if len(rd.XRScript) != sc.Steps {
				panic("harness: XRScript must have one entry per pipeline step")
			}
			rd.XRReady = foldXRScript(rd.XRScript)
		}
		o := w.reconcile(i, rd)
		t := w.truthOf(rd, o)
		if rec != nil {
			labels(rec, sc, rd, o, t)
			if nonTrivial(rd, t) {
				rec.NonTrivial(fmt.Sprintf("%v|%v|%d|%v|%s|%s", sc.Pipeline, sc.Anon, sc.N, sc.Checks, verifkit.JSON(rd), verifkit.JSON(o.before)), func() any {
					return map[string]any{"scenario": sc, "round": i, "before": o.before, "after": o.after}
				})
			}
		}
		if v := w.judge(rd, o, t); len(v) > 0 {
			fail("C05 violated in reconcile %d of scenario %s\n  %s\n  XR conditions before: %v\n  XR conditions after:  %v\n  reconcile error: %v; statusWritten=%v applied=%v rejected=%v", i, verifkit.JSON(sc), strings.Join(v, "\n  "), fmtConds(o.before), fmtConds(o.after), o.err, o.statusWritten, o.applied, o.rejected)
		}
	}
}

func fmtConds(m map[string]cnd) string {
	ks := make([]string, 0, len(m))
	for k := range m {
		ks = append(ks, k)
	}
	sort.Strings(ks)
	var sb strings.Builder
	for _, k := range ks {
		fmt.Fprintf(&sb, "%s=%s(%s) ", k, m[k].Status, m[k].Reason)
	}
	return sb.String()
}

func labels(rec *verifkit.Recorder, sc scenario, rd *round, o obs, t truth) {
	mode := "pt"
	if sc.Pipeline {
		mode = "pipeline"
	}
	if sc.Anon {
		rec.Label("pt: anonymous templates")
		for _, r := range rd.Res {
			rec.Labelf("pt anonymous: outcome=%s", r.Outcome)
		}
	}
	rec.Labelf("reconcile mode=%s", mode)
	rec.Labelf("%s: failed=%v", mode, t.failed)
	for _, r := range rd.Res {
		rec.Labelf("%s: outcome=%s", mode, r.Outcome)
	}
	if !sc.Pipeline {
		for i, c := range sc.Checks {
			rec.Labelf("pt: check=%s ready=%v", c, t.ready[i])
		}
	} else {
		rec.Labelf("pipeline: xrReady=%d", rd.XRReady)
		if rd.XRScript != nil {
			rec.Labelf("pipeline: per-step composite ready script, steps=%d", len(rd.XRScript))
			if staleOpinion(rd.XRScript) {
				rec.Label("pipeline: earlier step READY_TRUE, final desired state UNSPECIFIED")
				if !t.allReady && !t.failed {
					rec.Labelf("pipeline: earlier TRUE, final UNSPECIFIED, some resource unready, composition completed -> Ready=%s", o.after["Ready"].Status)
				}
			}
			early := false
			for _, a := range rd.XRScript[:len(rd.XRScript)-1] {
				early = early || a == xrSetTrue || a == xrSetFalse
			}
			if early && foldXRScript(rd.XRScript) != foldXRScript(rd.XRScript[:len(rd.XRScript)-1]) {
				rec.Label("pipeline: last step overrides an earlier opinion")
			}
		}
		if t.forged {
			rec.Label("pipeline: forged system condition")
		}
		if t.fatal {
			rec.Label("pipeline: fatal result")
		}
	}
	if !o.statusWritten {
		rec.Labelf("%s: no status write", mode)
	}
	if o.composeFailed != t.failed {
		rec.Labelf("%s: UNPLANNED compose failure mismatch planned=%v observed=%v", mode, t.failed, o.composeFailed)
	}
	// converse (generator health only, never asserted)
	if !t.failed && o.statusWritten {
		rec.Labelf("%s: completed mayBeReady=%v -> Ready=%s Synced=%s (allApplied=%v)", mode, t.mayBeReady, o.after["Ready"].Status, o.after["Synced"].Status, t.allApplied)
	}
	if !t.failed && o.statusWritten && t.allApplied && o.after["Synced"].Status != "True" {
		m := o.after["Synced"].Message
		if len(m) > 70 {
			m = m[:70]
		}
		rec.Labelf("%s: n=%d completed, all applied, but Synced=%s: %s", mode, sc.N, o.after["Synced"].Status, m)
	}
	if t.failed && o.statusWritten && o.before["Ready"].Status == "True" {
		rec.Labelf("%s: failed reconcile keeps stale Ready=True", mode)
	}
	if t.failed && o.statusWritten {
		for ty := range o.before {
			if !xpv1.IsSystemConditionType(xpv1.ConditionType(ty)) && !t.seen[ty] {
				rec.Labelf("%s: unseen custom condition at failure", mode)
				break
			}
		}
	}
}

// ---------------------------------------------------------------------------
// tests: XR

const xrRule = "scenario = XR (+claimRef/claim, seeded earlier conditions) + Composition (pipeline of scripted functions | named P&T templates with Required patch and readiness checks) + 1-4 rounds; each round draws per desired resource an outcome {ok, 422 invalid, 500 by admission, 500 by ErrBefore fault, render failure} x readiness (function flag | provider status vs readiness checks), XR ready {unset,true,false}, 0-3 function conditions {Ready,Synced,Healthy,CustomA,CustomB} x status x target x step, fatal result at a step; oracle on stored status transitions; non-trivial = some resource unready/unsynced, or a forged system condition, or explicit XR readiness"

func TestVerifC05XR(t *testing.T) {
	rec := verifkit.New(t, "C05", xrRule)
	rapid.Check(t, func(t *rapid.T) {
		sc := genScenario().Draw(t, "scenario")
		rec.Eval()
		runScenario(sc, rec, func(f string, a ...any) { t.Fatalf(f, a...) })
	})
}

// ---------------------------------------------------------------------------
// exhaustive product (small scope): every combination, not a sample

var prevFamilies = [][]prevCond{
	nil,
	{{"Ready", "True"}, {"Synced", "True"}, {typeCustomA, "True"}, {typeCustomB, "False"}},
	{{"Ready", "False"}, {"Synced", "False"}, {typeCustomA, "True"}},
}

// stride thins the exhaustive product in the quick tier (1 = everything).
func stride() int {
	if verifkit.Tier() == "thorough" {
		return 1
	}
	return 12
}

// mine reports whether case number idx belongs to this shard (and, in the quick tier, to this seed's sample).
func mine(idx int) bool {
	sh, n := verifkit.Shard()
	st := stride()
	if idx%n != sh {
		return false
	}
	return (idx/n)%st == int(verifkit.Seed()%int64(st)+int64(st))%st
}

// TestVerifC05ExhaustivePipeline enumerates, for n <= 2 desired resources, the full product
// per-resource {ok, invalid, hard error} x {READY_TRUE, READY_FALSE, READY_UNSPECIFIED}
// x XR ready {unset, true, false} x {no function condition, one of 5 types x 3 statuses x 2 targets}
// x {no fatal result, fatal result} x 3 families of earlier conditions.
func TestVerifC05ExhaustivePipeline(t *testing.T) {
	rec := verifkit.New(t, "C05", "exhaustive product for the function pipeline, n<=2 (thorough: all cases; quick: every 12th, offset by seed); "+xrRule)
	ocs := []outcome{oOK, oInvalid, oHardErr}
	var resCombos [][]resRound
	resCombos = append(resCombos, nil)
	for _, o1 := range ocs {
		for r1 := 0; r1 < 3; r1++ {
			resCombos = append(resCombos, []resRound{{Outcome: o1, FnReady: r1}})
			for _, o2 := range ocs {
				for r2 := 0; r2 < 3; r2++ {
					resCombos = append(resCombos, []resRound{{Outcome: o1, FnReady: r1}, {Outcome: o2, FnReady: r2}})
				}
			}
		}
	}
	conds := [][]fnCond{nil}
	for _, ty := range condTypes {
		for st := 1; st <= 3; st++ {
			for tg := 1; tg <= 2; tg++ {
				conds = append(conds, []fnCond{{Type: ty, Status: st, Target: tg}})
			}
		}
	}
	idx, ran := 0, 0
	for _, res := range resCombos {
		for xr := 0; xr < 3; xr++ {
			for _, cs := range conds {
				for fatal := -1; fatal <= 0; fatal++ {
					for pi, prev := range prevFamilies {
						idx++
						if !mine(idx) {
							continue
						}
						ran++
						sc := scenario{Pipeline: true, Steps: 1, N: len(res), Prev: prev, Claim: 1, Seed: int64(idx),
							Rounds: []round{{Res: append([]resRound(nil), res...), XRReady: xr, Conds: cs, FatalStep: fatal}}}
						rec.Eval()
						rec.Labelf("prev family %d", pi)
						runScenario(sc, rec, func(f string, a ...any) { t.Errorf(f, a...) })
						if t.Failed() {
							t.FailNow()
						}
					}
				}
			}
		}
	}
	// Per-step composite readiness: every script of 2 steps (16) x every per-resource combination for n<=2 (91)
	// x 3 families of earlier conditions, and every script of 3 steps (64) x n<=1 (10).
	for _, res := range resCombos {
		for a := xrPass; a <= xrReset; a++ {
			for b := xrPass; b <= xrReset; b++ {
				for pi, prev := range prevFamilies {
					idx++
					if !mine(idx) {
						continue
					}
					ran++
					sc := scenario{Pipeline: true, Steps: 2, N: len(res), Prev: prev, Seed: int64(idx),
						Rounds: []round{{Res: append([]resRound(nil), res...), XRScript: []int{a, b}, FatalStep: -1}}}
					rec.Eval()
					rec.Labelf("prev family %d", pi)
					runScenario(sc, rec, func(f string, a ...any) { t.Errorf(f, a...) })
					if t.Failed() {
						t.FailNow()
					}
				}
				if len(res) > 1 {
					continue
				}
				for c := xrPass; c <= xrReset; c++ {
					idx++
					if !mine(idx) {
						continue
					}
					ran++
					sc := scenario{Pipeline: true, Steps: 3, N: len(res), Prev: prevFamilies[2], Seed: int64(idx),
						Rounds: []round{{Res: append([]resRound(nil), res...), XRScript: []int{a, b, c}, FatalStep: -1}}}
					rec.Eval()
					runScenario(sc, rec, func(f string, a ...any) { t.Errorf(f, a...) })
					if t.Failed() {
						t.FailNow()
					}
				}
			}
		}
	}
	rec.Extra("exhaustive_pipeline_product_size", idx)
	rec.AddExtra("exhaustive_pipeline_cases_run", ran)
}

// TestVerifC05ExhaustivePT enumerates for P&T: first a calm reconcile creates the resources, then
// the provider writes status and the judged reconcile sees per-resource
// {ok, invalid, render failure, hard error} x provider status. Family A: n<=2 with the default
// readiness check x {ready, unready, no status}; family B: n=1 x all 9 check kinds x all 81 provider statuses.
func TestVerifC05ExhaustivePT(t *testing.T) {
	rec := verifkit.New(t, "C05", "exhaustive product for P&T after a calm first reconcile (thorough: all; quick: every 12th, offset by seed); "+xrRule)
	ocs := []outcome{oOK, oInvalid, oRenderFail, oHardErr}
	provs := []*provStatus{{Cond: "True", State: "up", N: 3, Flag: 1}, {Cond: "False", State: "down", N: 4, Flag: 2}, nil}
	idx, ran := 0, 0
	run := func(base scenario) {
		for _, anon := range []bool{false, true} {
			idx++
			if !mine(idx) {
				continue
			}
			ran++
			b, _ := json.Marshal(base) // deep copy: rounds are adjusted in place
			var sc scenario
			_ = json.Unmarshal(b, &sc)
			sc.Anon = anon
			sc.Seed = int64(idx)
			rec.Eval()
			runScenario(sc, rec, func(f string, a ...any) { t.Errorf(f, a...) })
			if t.Failed() {
				t.FailNow()
			}
		}
	}
	calm := func(n int) round {
		rd := round{FatalStep: -1}
		for i := 0; i < n; i++ {
			rd.Res = append(rd.Res, resRound{})
		}
		return rd
	}
	for _, prev := range prevFamilies {
		for _, o1 := range ocs {
			for _, p1 := range provs {
				run(scenario{N: 1, Checks: []checkKind{ckDefault}, Prev: prev, Rounds: []round{calm(1), {FatalStep: -1, Res: []resRound{{Outcome: o1, Prov: p1}}}}})
				for _, o2 := range ocs {
					for _, p2 := range provs {
						run(scenario{N: 2, Checks: []checkKind{ckDefault, ckDefault}, Prev: prev, Claim: 1, Rounds: []round{calm(2), {FatalStep: -1, Res: []resRound{{Outcome: o1, Prov: p1}, {Outcome: o2, Prov: p2}}}}})
					}
				}
			}
		}
	}
	for k := checkKind(0); k < nCheckKinds; k++ {
		for _, cond := range []string{"", "True", "False"} {
			for _, state := range []string{"", "up", "down"} {
				for _, n := range []int64{0, 3, 4} {
					for flag := 0; flag < 3; flag++ {
						for _, o1 := range ocs {
							run(scenario{N: 1, Checks: []checkKind{k}, Rounds: []round{calm(1), {FatalStep: -1, Res: []resRound{{Outcome: o1, Prov: &provStatus{Cond: cond, State: state, N: n, Flag: flag}}}}}})
						}
					}
				}
			}
		}
	}
	rec.Extra("exhaustive_pt_product_size", idx)
	rec.AddExtra("exhaustive_pt_cases_run", ran)
}

// ---------------------------------------------------------------------------
// pinned rows and harness sanity

// pinned are scenarios that each of the realistic breaking edits (DESIGN.md §4 C05 "Catches") turns into a violation.
var pinned = []struct {
	name string
	sc   scenario
}{
	{"pt: a ready composed resource becomes invalid", scenario{N: 1, Checks: []checkKind{ckDefault}, Seed: 11, Rounds: []round{
		{FatalStep: -1, Res: []resRound{{}}},
		{FatalStep: -1, Res: []resRound{{Prov: &provStatus{Cond: "True"}}}},
		{FatalStep: -1, Res: []resRound{{Outcome: oInvalid}}},
	}}},
	{"pt: invalid on create", scenario{N: 2, Checks: []checkKind{ckNone, ckNone}, Seed: 12, Rounds: []round{
		{FatalStep: -1, Res: []resRound{{Outcome: oInvalid}, {}}},
	}}},
	{"pt anonymous: a ready composed resource becomes invalid (422 on update)", scenario{N: 2, Anon: true, Checks: []checkKind{ckDefault, ckDefault}, Seed: 21, Rounds: []round{
		{FatalStep: -1, Res: []resRound{{}, {}}},
		{FatalStep: -1, Res: []resRound{{Prov: &provStatus{Cond: "True"}}, {Prov: &provStatus{Cond: "True"}}}},
		{FatalStep: -1, Res: []resRound{{}, {Outcome: oInvalid}}},
	}}},
	{"pt anonymous: 422 on create", scenario{N: 2, Anon: true, Checks: []checkKind{ckNone, ckNone}, Seed: 22, Rounds: []round{
		{FatalStep: -1, Res: []resRound{{Outcome: oInvalid}, {}}},
		{FatalStep: -1, Res: []resRound{{}, {Outcome: oInvalid}}},
	}}},
	{"pipeline: invalid apply of a resource the function calls ready", scenario{Pipeline: true, Steps: 1, N: 2, Seed: 13, Rounds: []round{
		{FatalStep: -1, Res: []resRound{{Outcome: oInvalid, FnReady: 1}, {FnReady: 1}}},
	}}},
	{"pipeline: READY_FALSE overrides ready resources", scenario{Pipeline: true, Steps: 1, N: 1, Seed: 14, Rounds: []round{
		{FatalStep: -1, XRReady: 2, Res: []resRound{{FnReady: 1}}},
	}}},
	{"pipeline: READY_TRUE of step 1 is dropped by step 2, one resource unready", scenario{Pipeline: true, Steps: 2, N: 2, Seed: 41, Prev: []prevCond{{"Ready", "False"}}, Rounds: []round{
		{FatalStep: -1, XRScript: []int{xrSetTrue, xrReset}, Res: []resRound{{FnReady: 1}, {FnReady: 2}}},
	}}},
	{"pipeline: READY_TRUE, pass, reset over three steps; then READY_FALSE overridden by reset with everything ready", scenario{Pipeline: true, Steps: 3, N: 1, Seed: 42, Rounds: []round{
		{FatalStep: -1, XRScript: []int{xrSetTrue, xrPass, xrReset}, Res: []resRound{{FnReady: 0}}},
		{FatalStep: -1, XRScript: []int{xrSetFalse, xrReset, xrPass}, Res: []resRound{{FnReady: 1}}},
		{FatalStep: -1, XRScript: []int{xrSetTrue, xrSetFalse, xrPass}, Res: []resRound{{FnReady: 1}}},
	}}},
	{"pipeline: forged Healthy, Ready and Synced on success", scenario{Pipeline: true, Steps: 2, N: 1, Seed: 15, Claim: 1, Rounds: []round{
		{FatalStep: -1, Res: []resRound{{Outcome: oInvalid, FnReady: 2}}, Conds: []fnCond{{Type: "Healthy", Status: 2, Target: 2}, {Type: "Ready", Status: 2, Target: 1, Step: 1}, {Type: "Synced", Status: 2, Target: 2, Step: 1}}},
	}}},
	{"pipeline: forged Ready and Synced with a fatal result", scenario{Pipeline: true, Steps: 2, N: 1, Seed: 16, Prev: []prevCond{{"Ready", "False"}, {"Synced", "False"}}, Rounds: []round{
		{FatalStep: 1, Res: []resRound{{FnReady: 2}}, Conds: []fnCond{{Type: "Ready", Status: 2, Target: 1}, {Type: "Synced", Status: 2, Target: 1, Step: 1}}},
	}}},
	{"pipeline: custom conditions around a fatal result", scenario{Pipeline: true, Steps: 2, N: 1, Seed: 17, Claim: 1, Rounds: []round{
		{FatalStep: -1, Res: []resRound{{FnReady: 1}}, Conds: []fnCond{{Type: typeCustomA, Status: 2, Target: 2}, {Type: typeCustomB, Status: 3, Target: 1, Step: 1}}},
		{FatalStep: 0, Res: []resRound{{FnReady: 1}}, Conds: []fnCond{{Type: typeCustomA, Status: 3, Target: 2}, {Type: typeCustomB, Status: 2, Target: 1, Step: 1}}},
		{FatalStep: -1, Res: []resRound{{Outcome: oHardErr, FnReady: 1}}, Conds: []fnCond{{Type: typeCustomA, Status: 2, Target: 2}}},
	}}},
	{"pipeline: hard apply error after Ready=True", scenario{Pipeline: true, Steps: 1, N: 2, Seed: 18, Rounds: []round{
		{FatalStep: -1, Res: []resRound{{FnReady: 1}, {FnReady: 1}}},
		{FatalStep: -1, XRReady: 1, Res: []resRound{{FnReady: 1}, {Outcome: oHardFault, FnReady: 1}}},
	}}},
}

func TestVerifC05Pinned(t *testing.T) {
	for _, p := range pinned {
		sc := p.sc
		b, _ := json.Marshal(sc) // deep copy: rounds are adjusted in place
		var c scenario
		_ = json.Unmarshal(b, &c)
		runScenario(c, nil, func(f string, a ...any) { t.Errorf(p.name+": "+f, a...) })
	}
}

// TestVerifC05Sanity guards against a vacuous harness: planned outcomes really happen, and
// Ready=True/Synced=True are really reached (and really withheld) in simple scenarios.
func TestVerifC05Sanity(t *testing.T) {
	type want struct{ ready, synced string }
	rows := []struct {
		name string
		sc   scenario
		want []want
	}{
		{"pipeline all ready", scenario{Pipeline: true, Steps: 1, N: 2, Seed: 1, Rounds: []round{{FatalStep: -1, Res: []resRound{{FnReady: 1}, {FnReady: 1}}}}}, []want{{"True", "True"}}},
		{"pipeline one unready", scenario{Pipeline: true, Steps: 1, N: 2, Seed: 2, Rounds: []round{{FatalStep: -1, Res: []resRound{{FnReady: 1}, {FnReady: 2}}}}}, []want{{"False", "True"}}},
		{"pipeline explicit ready", scenario{Pipeline: true, Steps: 1, N: 1, Seed: 3, Rounds: []round{{FatalStep: -1, XRReady: 1, Res: []resRound{{FnReady: 2}}}}}, []want{{"True", "True"}}},
		{"pipeline invalid", scenario{Pipeline: true, Steps: 1, N: 1, Seed: 4, Rounds: []round{{FatalStep: -1, Res: []resRound{{Outcome: oInvalid, FnReady: 1}}}}}, []want{{"True", "False"}}},
		{"pipeline fatal", scenario{Pipeline: true, Steps: 1, N: 1, Seed: 5, Rounds: []round{{FatalStep: 0, Res: []resRound{{FnReady: 1}}}}}, []want{{"", "False"}}},
		// A hard error on the very first reconcile stores nothing: the XR's refs were just patched, so the status update conflicts and is retried.
		{"pipeline hard fault", scenario{Pipeline: true, Steps: 1, N: 1, Seed: 6, Rounds: []round{{FatalStep: -1, Res: []resRound{{FnReady: 1}}}, {FatalStep: -1, Res: []resRound{{Outcome: oHardFault, FnReady: 1}}}, {FatalStep: -1, Res: []resRound{{Outcome: oHardErr, FnReady: 2}}}}}, []want{{"True", "True"}, {"True", "False"}, {"True", "False"}}},
		{"pt lifecycle", scenario{N: 1, Checks: []checkKind{ckDefault}, Seed: 7, Rounds: []round{
			{FatalStep: -1, Res: []resRound{{}}},
			{FatalStep: -1, Res: []resRound{{Prov: &provStatus{Cond: "True"}}}},
			{FatalStep: -1, Res: []resRound{{Outcome: oRenderFail}}},
			{FatalStep: -1, Res: []resRound{{Outcome: oInvalid}}},
			{FatalStep: -1, Res: []resRound{{Outcome: oHardFault}}},
			{FatalStep: -1, Res: []resRound{{}}},
		}}, []want{{"False", "True"}, {"True", "True"}, {"False", "False"}, {"False", "False"}, {"False", "False"}, {"True", "True"}}},
	}
	anon := rows[len(rows)-1]
	anon.name = "pt anonymous lifecycle"
	b, _ := json.Marshal(anon.sc)
	anon.sc = scenario{}
	_ = json.Unmarshal(b, &anon.sc)
	anon.sc.Anon = true
	rows = append(rows, anon)
	for _, r := range rows {
		w := newWorld(r.sc)
		for i := range r.sc.Rounds {
			rd := &r.sc.Rounds[i]
			planned := append([]resRound(nil), rd.Res...)
			o := w.reconcile(i, rd)
			tr := w.truthOf(rd, o)
			if v := w.judge(rd, o, tr); len(v) > 0 {
				t.Errorf("%s round %d: %v", r.name, i, v)
			}
			// The property is one-directional ("True only if ..."): code that is MORE conservative than this tree
			// (e.g. reports an invalid resource unready as well) still satisfies it. Only the positive controls
			// (expected True/True) and any overstatement are harness-sanity failures.
			conservative := func(got, exp string) bool { return got == exp || (exp == "True" && got == "False") || exp == "" }
			if got := (want{o.after["Ready"].Status, o.after["Synced"].Status}); got != r.want[i] &&
				(r.want[i] == want{"True", "True"} || !conservative(got.ready, r.want[i].ready) || !conservative(got.synced, r.want[i].synced)) {
				t.Errorf("HARNESS SANITY %s round %d: stored Ready/Synced = %+v, expected %+v (conditions %v, err %v)", r.name, i, got, r.want[i], fmtConds(o.after), o.err)
			}
			if o.composeFailed != tr.failed {
				t.Errorf("HARNESS SANITY %s round %d: planned failure=%v but the reconciler reported compose failure=%v", r.name, i, tr.failed, o.composeFailed)
			}
			for j, p := range planned {
				switch p.Outcome {
				case oInvalid:
					if !o.rejected[rname(j)] {
						t.Errorf("HARNESS SANITY %s round %d: resource %d was planned invalid but no write was refused (log: applied=%v rejected=%v)", r.name, i, j, o.applied, o.rejected)
					}
				case oHardFault:
					if !o.faultInjected {
						t.Errorf("HARNESS SANITY %s round %d: ErrBefore fault was not injected", r.name, i)
					}
				case oOK:
					if !tr.failed && !o.applied[rname(j)] {
						t.Errorf("HARNESS SANITY %s round %d: resource %d was planned ok but has no successful write", r.name, i, j)
					}
				}
			}
		}
	}
}
