//go:build verif

package c05

import (
	"context"
	"fmt"
	"testing"

	"k8s.io/apimachinery/pkg/apis/meta/v1/unstructured"
	"k8s.io/apimachinery/pkg/types"
	utilrand "k8s.io/apimachinery/pkg/util/rand"
	"pgregory.net/rapid"
	"sigs.k8s.io/controller-runtime/pkg/client"
	"sigs.k8s.io/controller-runtime/pkg/reconcile"

	"github.com/crossplane/crossplane/internal/verifenv"
	"github.com/crossplane/crossplane/internal/verifkit"
	"github.com/crossplane/crossplane/internal/verifsim"
)

// Claim clause of C05 under perturbation: what the claim reconciler read first
// need not be what it finally bound. Between any two API calls of the reconcile
// another actor may flip the XR's Ready condition or delete the XR (the
// server-side syncer then re-creates it), and the reconciler's cache may lag
// behind the store. The oracle is still the property's: a claim reconcile that
// stores Ready=True must have observed its bound XR Ready=True - judged on the
// LAST state of that XR the reconciler was shown (the object returned by its last
// successful read of / write to the XR). Writes of the interloper after that
// instant are legitimately unseen until the next reconcile.

// spyClient wraps the reconciler's client: it fires the interloper between two
// API calls and records every XR state the reconciler is shown.
type spyClient struct {
	client.Client
	run   *verifsim.Run
	at    int // fire immediately before the API call with this index (-1: never)
	fire  func()
	fired bool
	first map[string]verifsim.Obj // first state of each XR (by name) shown to the reconciler
	last  map[string]verifsim.Obj // last state of each XR shown to the reconciler
}

func (c *spyClient) pre() {
	if !c.fired && c.at >= 0 && c.run.N == c.at {
		c.fired = true
		c.fire()
	}
}

func (c *spyClient) seen(obj client.Object, err error) {
	if err != nil || obj.GetObjectKind().GroupVersionKind().Kind != verifenv.XRGVKDefault.Kind {
		return
	}
	u, ok := obj.(interface{ UnstructuredContent() map[string]any })
	if !ok {
		return
	}
	o := verifsim.DeepCopy(u.UnstructuredContent())
	if _, ok := c.first[obj.GetName()]; !ok {
		c.first[obj.GetName()] = o
	}
	c.last[obj.GetName()] = o
}

func (c *spyClient) Get(ctx context.Context, key client.ObjectKey, obj client.Object, opts ...client.GetOption) error {
	c.pre()
	err := c.Client.Get(ctx, key, obj, opts...)
	c.seen(obj, err)
	return err
}

func (c *spyClient) List(ctx context.Context, l client.ObjectList, opts ...client.ListOption) error {
	c.pre()
	return c.Client.List(ctx, l, opts...)
}

func (c *spyClient) Create(ctx context.Context, obj client.Object, opts ...client.CreateOption) error {
	c.pre()
	err := c.Client.Create(ctx, obj, opts...)
	c.seen(obj, err)
	return err
}

func (c *spyClient) Update(ctx context.Context, obj client.Object, opts ...client.UpdateOption) error {
	c.pre()
	err := c.Client.Update(ctx, obj, opts...)
	c.seen(obj, err)
	return err
}

func (c *spyClient) Patch(ctx context.Context, obj client.Object, p client.Patch, opts ...client.PatchOption) error {
	c.pre()
	err := c.Client.Patch(ctx, obj, p, opts...)
	c.seen(obj, err)
	return err
}

func (c *spyClient) Delete(ctx context.Context, obj client.Object, opts ...client.DeleteOption) error {
	c.pre()
	return c.Client.Delete(ctx, obj, opts...)
}

func (c *spyClient) DeleteAllOf(ctx context.Context, obj client.Object, opts ...client.DeleteAllOfOption) error {
	c.pre()
	return c.Client.DeleteAllOf(ctx, obj, opts...)
}

func (c *spyClient) Status() client.SubResourceWriter { return &spyStatus{c: c, w: c.Client.Status()} }

type spyStatus struct {
	c *spyClient
	w client.SubResourceWriter
}

func (s *spyStatus) Create(ctx context.Context, obj, sub client.Object, opts ...client.SubResourceCreateOption) error {
	s.c.pre()
	return s.w.Create(ctx, obj, sub, opts...)
}

func (s *spyStatus) Update(ctx context.Context, obj client.Object, opts ...client.SubResourceUpdateOption) error {
	s.c.pre()
	err := s.w.Update(ctx, obj, opts...)
	s.c.seen(obj, err)
	return err
}

func (s *spyStatus) Patch(ctx context.Context, obj client.Object, p client.Patch, opts ...client.SubResourcePatchOption) error {
	s.c.pre()
	err := s.w.Patch(ctx, obj, p, opts...)
	s.c.seen(obj, err)
	return err
}

// perturbScenario: a claim that points at XR x1, plus what happened out of band.
type perturbScenario struct {
	SSA        bool   `json:"ssa"`
	XRClaimRef int    `json:"xrClaimRef"`          // 0 unbound, 1 this claim
	XRReady    string `json:"xrReady,omitempty"`   // Ready of x1 as its controller stored it
	PrevReady  string `json:"prevReady,omitempty"` // the claim's Ready from earlier reconciles
	Warm       bool   `json:"warm,omitempty"`      // one calm claim reconcile already happened (bound, finalizer set)
	// Stale: 0 the cache is current; 1 the XR's Ready was flipped out of band and the cache still shows the
	// previous version; 2 the XR was deleted out of band and the cache still shows it; 3 LagHideNew.
	Stale int   `json:"stale,omitempty"`
	Seed  int64 `json:"seed"`
}

const (
	actNone = iota
	actFlip
	actDelete
)

var actNames = [...]string{"none", "flip-ready", "delete-xr"}

func readyOf(o verifsim.Obj) string { return condsOf(o)["Ready"].Status }

func setXRReady(sim *verifsim.Sim, actor, name, status string) {
	cur := sim.Get(xrKeyOf(name))
	if cur == nil {
		return
	}
	u := verifsim.U(cur)
	conds, _ := verifsim.Nested(cur, "status", "conditions").([]any)
	var out []any
	for _, e := range conds {
		if m, ok := e.(map[string]any); ok && m["type"] != "Ready" {
			out = append(out, m)
		}
	}
	out = append(out, map[string]any{"type": "Ready", "status": status, "reason": actor, "lastTransitionTime": "2024-01-01T00:00:00Z"})
	_ = unstructured.SetNestedSlice(u.Object, out, "status", "conditions")
	if err := sim.Client(actor).Status().Update(context.Background(), u); err != nil {
		panic(err)
	}
}

func flipXRReady(sim *verifsim.Sim, actor, name string) {
	if readyOf(sim.Get(xrKeyOf(name))) == "True" {
		setXRReady(sim, actor, name, "False")
	} else {
		setXRReady(sim, actor, name, "True")
	}
}

func deleteXR(sim *verifsim.Sim, actor, name string) {
	cur := sim.Get(xrKeyOf(name))
	if cur == nil {
		return
	}
	// The XR controller lets go of it (no finalizer left) and it is gone.
	if len(verifsim.Finalizers(cur)) > 0 {
		u := verifsim.U(cur)
		u.SetFinalizers(nil)
		_ = sim.Client(actor).Update(context.Background(), u)
	}
	_ = sim.Client(actor).Delete(context.Background(), verifsim.U(sim.Get(xrKeyOf(name))))
}

// perturbRun is one judged claim reconcile.
type perturbRun struct {
	calls int
	viol  string
	// classification
	preReady, postReady string // Ready of the bound XR as first / last shown to the reconciler
	postShown           bool
	claimBefore, claimAfter string
	fired               bool
}

func runPerturbed(sim *verifsim.Sim, sc perturbScenario, seed int64, k, act int) perturbRun {
	ctx := context.Background()
	utilrand.Seed(seed)
	run := sim.NewRun(claimActor, nil)
	var inner client.Client = run.Client()
	if sc.Stale != 0 {
		inner = run.StaleClient(func(key verifsim.Key) int {
			if key.Kind != verifenv.XRGVKDefault.Kind {
				return 0
			}
			if sc.Stale == 3 {
				return verifsim.LagHideNew
			}
			return 1
		})
	}
	spy := &spyClient{Client: inner, run: run, at: -1, first: map[string]verifsim.Obj{}, last: map[string]verifsim.Obj{}}
	if act != actNone {
		spy.at = k
		spy.fire = func() {
			if act == actFlip {
				flipXRReady(sim, "interloper", boundXR)
			} else {
				deleteXR(sim, "interloper", boundXR)
			}
		}
	}
	before := condsOf(sim.Get(claimKey()))
	refBefore, _ := verifsim.Nested(sim.Get(claimKey()), "spec", "resourceRef", "name").(string)
	logStart := sim.LogLen()
	_, err := claimReconciler(spy, sc.SSA).Reconcile(ctx, reconcile.Request{NamespacedName: types.NamespacedName{Namespace: claimNS, Name: claimName}})
	cmAfter := sim.Get(claimKey())
	after := condsOf(cmAfter)
	statusWritten := false
	for _, wr := range sim.Log()[logStart:] {
		if wr.Actor == claimActor && wr.Key == claimKey() && wr.Sub == "status" && wr.Err == "" && !wr.DryRun {
			statusWritten = true
		}
	}
	refAfter, _ := verifsim.Nested(cmAfter, "spec", "resourceRef", "name").(string)
	first, last := spy.first[refBefore], spy.last[refAfter]
	foreign := first != nil && verifsim.Nested(first, "spec", "claimRef") != nil && !namesThisClaim(first)
	ok := last != nil && readyOf(last) == "True" && namesThisClaim(last) && !foreign
	r := perturbRun{calls: run.N, preReady: readyOf(first), postReady: readyOf(last), postShown: last != nil, claimBefore: before["Ready"].Status, claimAfter: after["Ready"].Status, fired: spy.fired}
	if after["Ready"].Status == "True" && !ok {
		detail := fmt.Sprintf("scenario %s, interloper %s before API call %d of %d (fired=%v)\n  calls: %v\n  claim conditions before: %v\n  claim conditions after:  %v\n  bound XR %q: first shown Ready=%q, last shown to the reconciler: shown=%v Ready=%q claimRef=%v; in the store now: %v\n  reconcile error: %v", verifkit.JSON(sc), actNames[act], k, run.N, spy.fired, run.Calls, fmtConds(before), fmtConds(after), refAfter, r.preReady, last != nil, r.postReady, verifsim.Nested(last, "spec", "claimRef"), fmtConds(condsOf(sim.Get(xrKeyOf(refAfter)))), err)
		switch {
		case before["Ready"].Status != "True":
			r.viol = "CLAIM-READY-TURNED-UNOBSERVED: the claim went Ready " + fmt.Sprintf("%q", before["Ready"].Status) + " -> True, but the last state of its bound XR the reconciler was shown is not Ready=True and bound to it\n  " + detail
		case statusWritten && after["Synced"].Status == "True":
			// A reconcile that fails half-way may legitimately leave an earlier Ready=True behind; one that reports success may not.
			r.viol = "CLAIM-READY-KEPT-UNOBSERVED: the claim reconcile reports success (Synced=True) and stores Ready=True, but the last state of its bound XR the reconciler was shown is not Ready=True and bound to it\n  " + detail
		}
	}
	return r
}

func setupPerturb(sc perturbScenario) *verifsim.Sim {
	utilrand.Seed(sc.Seed)
	sim := verifsim.New(verifsim.NewScheme())
	ctx := context.Background()
	xr := verifenv.NewUnstructuredXR(verifenv.XRGVKDefault, boundXR)
	_ = unstructured.SetNestedMap(xr.Object, map[string]any{}, "spec")
	if r := refFor(sc.XRClaimRef); r != nil {
		_ = unstructured.SetNestedMap(xr.Object, r, "spec", "claimRef")
	}
	sim.MustCreate("user", xr)
	cm := newClaim(claimName)
	_ = unstructured.SetNestedMap(cm.Object, map[string]any{"apiVersion": "example.org/v1", "kind": verifenv.XRGVKDefault.Kind, "name": boundXR}, "spec", "resourceRef")
	sim.MustCreate("user", cm)
	if sc.Warm {
		run := sim.NewRun(claimActor, nil)
		_, _ = claimReconciler(run.Client(), sc.SSA).Reconcile(ctx, reconcile.Request{NamespacedName: types.NamespacedName{Namespace: claimNS, Name: claimName}})
	}
	if sc.XRReady != "" && sc.Stale != 3 {
		setXRReady(sim, xrActor, boundXR, sc.XRReady)
	}
	if sc.PrevReady != "" {
		u := verifsim.U(sim.Get(claimKey()))
		conds := []any{map[string]any{"type": "Ready", "status": sc.PrevReady, "reason": "Earlier", "lastTransitionTime": "2024-01-01T00:00:00Z"}}
		_ = unstructured.SetNestedSlice(u.Object, conds, "status", "conditions")
		if err := sim.Client("earlier-reconcile").Status().Update(ctx, u); err != nil {
			panic(err)
		}
	}
	switch sc.Stale {
	case 1:
		flipXRReady(sim, "out-of-band", boundXR)
	case 2:
		deleteXR(sim, "out-of-band", boundXR)
	}
	return sim
}

// sweepPerturbed judges the unperturbed (or merely stale) reconcile, then every interloper action before every API call of it.
func sweepPerturbed(sc perturbScenario, rec *verifkit.Recorder, fail func(string, ...any)) {
	sim := setupPerturb(sc)
	snap := sim.Snapshot()
	seed := sc.Seed + 17
	note := func(r perturbRun, k, act int) {
		if rec != nil {
			rec.Labelf("perturb: syncer ssa=%v stale=%d interloper=%s", sc.SSA, sc.Stale, actNames[act])
			if act != actNone && r.fired {
				rec.Labelf("perturb: interloper %s fired", actNames[act])
			}
			if r.preReady == "True" && r.postReady != "True" {
				rec.Labelf("perturb: pre-sync view Ready=True but bound XR last shown Ready=%q (shown=%v) -> claim Ready %q->%q", r.postReady, r.postShown, r.claimBefore, r.claimAfter)
				rec.NonTrivial(fmt.Sprintf("perturb|%s|%d|%d", verifkit.JSON(sc), k, act), func() any {
					return map[string]any{"perturbScenario": sc, "interloper": actNames[act], "before_call": k}
				})
			}
			if r.preReady != "True" && r.postReady == "True" {
				rec.Labelf("perturb: pre-sync view not Ready but bound XR last shown Ready=True -> claim Ready %q->%q", r.claimBefore, r.claimAfter)
				rec.NonTrivial(fmt.Sprintf("perturb|%s|%d|%d", verifkit.JSON(sc), k, act), nil)
			}
		}
		if r.viol != "" {
			fail("C05 violated: %s", r.viol)
		}
	}
	probe := runPerturbed(sim, sc, seed, -1, actNone)
	note(probe, -1, actNone)
	for k := 0; k < probe.calls; k++ {
		for _, act := range []int{actFlip, actDelete} {
			sim.Restore(snap)
			note(runPerturbed(sim, sc, seed, k, act), k, act)
		}
	}
}

func genPerturb() *rapid.Generator[perturbScenario] {
	return rapid.Custom(func(t *rapid.T) perturbScenario {
		return perturbScenario{
			SSA:        rapid.Bool().Draw(t, "ssa"),
			XRClaimRef: rapid.IntRange(0, 1).Draw(t, "xrclaimref"),
			XRReady:    rapid.SampledFrom([]string{"True", "True", "False", "Unknown", ""}).Draw(t, "xrready"),
			PrevReady:  rapid.SampledFrom([]string{"", "True", "False"}).Draw(t, "prevready"),
			Warm:       rapid.Bool().Draw(t, "warm"),
			Stale:      rapid.SampledFrom([]int{0, 0, 1, 2, 3}).Draw(t, "stale"),
			Seed:       rapid.Int64Range(1, 1<<40).Draw(t, "nameseed"),
		}
	})
}

const perturbRule = "claim -> XR x1 {unbound, bound} x XR Ready x claim's earlier Ready x {fresh, after one calm reconcile} x cache {current, one version behind a Ready flip, one version behind a deletion, hides new objects} x syncer; the reconcile is judged as is and again with an interloper {flip the XR's Ready, delete the XR} before EVERY API call index; oracle: claim Ready=True stored => the last state of the bound XR shown to the reconciler is Ready=True and names the claim; non-trivial = first and last shown Ready differ"

func TestVerifC05ClaimPerturbed(t *testing.T) {
	rec := verifkit.New(t, "C05", perturbRule)
	rapid.Check(t, func(t *rapid.T) {
		sc := genPerturb().Draw(t, "perturbScenario")
		rec.Eval()
		sweepPerturbed(sc, rec, func(f string, a ...any) { t.Fatalf(f, a...) })
	})
}

// TestVerifC05ClaimPerturbedExhaustive sweeps the whole small scenario space (both tiers: it is small).
func TestVerifC05ClaimPerturbedExhaustive(t *testing.T) {
	rec := verifkit.New(t, "C05", "all perturbation scenarios x every API call index x {flip, delete}; "+perturbRule)
	idx := 0
	for _, ssa := range []bool{false, true} {
		for cr := 0; cr <= 1; cr++ {
			for _, xrReady := range []string{"", "True", "False", "Unknown"} {
				for _, prev := range []string{"", "True", "False"} {
					for _, warm := range []bool{false, true} {
						for stale := 0; stale <= 3; stale++ {
							idx++
							if sh, n := verifkit.Shard(); idx%n != sh {
								continue
							}
							sc := perturbScenario{SSA: ssa, XRClaimRef: cr, XRReady: xrReady, PrevReady: prev, Warm: warm, Stale: stale, Seed: int64(idx)}
							rec.Eval()
							sweepPerturbed(sc, rec, func(f string, a ...any) { t.Errorf(f, a...) })
							if t.Failed() {
								t.FailNow()
							}
						}
					}
				}
			}
		}
	}
	rec.Extra("exhaustive_perturb_scenarios", idx)
}

// TestVerifC05ClaimPerturbedPinned: the two shapes of "the pre-sync read said Ready, the bound XR is not".
func TestVerifC05ClaimPerturbedPinned(t *testing.T) {
	rows := []perturbScenario{
		// (a) the XR was deleted out of band, the cache still shows it Ready=True; the server-side apply re-creates a new, statusless XR.
		{SSA: true, XRClaimRef: 1, XRReady: "True", PrevReady: "False", Warm: true, Stale: 2, Seed: 31},
		{SSA: true, XRClaimRef: 1, XRReady: "True", PrevReady: "True", Warm: true, Stale: 2, Seed: 32},
		// (b) somebody flips the XR to Ready=False between the reconciler's Get and its apply (covered by the sweep over every call index).
		{SSA: true, XRClaimRef: 1, XRReady: "True", PrevReady: "", Warm: true, Seed: 33},
		{SSA: false, XRClaimRef: 0, XRReady: "True", PrevReady: "False", Seed: 34},
		// the cache is one version behind a Ready flip
		{SSA: true, XRClaimRef: 1, XRReady: "True", PrevReady: "False", Warm: true, Stale: 1, Seed: 35},
	}
	for _, sc := range rows {
		sweepPerturbed(sc, nil, func(f string, a ...any) { t.Errorf(f, a...) })
	}
}
