//go:build verif

// Package c20 decides property C20: Crossplane's initialisation is idempotent
// and never duplicates or clobbers existing state.
//
// The step list of cmd/crossplane/core/init.go is mirrored with the same
// exported constructors (see steps) and run by the real initializer.Initializer
// against the simulated API server.
package c20

import (
	"bytes"
	"context"
	"crypto/rsa"
	"crypto/x509"
	"encoding/base64"
	"encoding/json"
	"encoding/pem"
	"fmt"
	"os"
	"path/filepath"
	"sort"
	"strings"
	"sync"
	"testing"
	"time"

	"github.com/google/go-containerregistry/pkg/name"
	"github.com/spf13/afero"
	admv1 "k8s.io/api/admissionregistration/v1"
	corev1 "k8s.io/api/core/v1"
	metav1 "k8s.io/apimachinery/pkg/apis/meta/v1"
	"k8s.io/apimachinery/pkg/apis/meta/v1/unstructured"
	"k8s.io/apimachinery/pkg/runtime"
	"k8s.io/apimachinery/pkg/runtime/schema"
	"k8s.io/apimachinery/pkg/types"
	"pgregory.net/rapid"
	"sigs.k8s.io/controller-runtime/pkg/client"
	"sigs.k8s.io/yaml"

	"github.com/crossplane/crossplane-runtime/pkg/logging"

	"github.com/crossplane/crossplane/internal/initializer"
	"github.com/crossplane/crossplane/internal/verifkit"
	"github.com/crossplane/crossplane/internal/verifsim"
)

// ---------------------------------------------------------------------------
// fixed deployment parameters (what the Helm chart passes to `crossplane core init`)

const (
	namespace      = "crossplane-system"
	serviceAccount = "crossplane"
	caSecret       = "crossplane-root-ca"
	serverSecret   = "crossplane-tls-server"
	clientSecret   = "crossplane-tls-client"
	essSecret      = "ess-server-certs"

	convCRDName = "widgets.verif.crossplane.io"
	staleBundle = "c3RhbGUtYnVuZGxl" // base64("stale-bundle")
)

// convCRD is a CRD with webhook conversion. No core CRD of this tree uses
// webhook conversion, so the CA injection of CoreCRDs would otherwise never
// be exercised; earlier releases shipped such CRDs in the same directory.
const convCRD = `apiVersion: apiextensions.k8s.io/v1
kind: CustomResourceDefinition
metadata:
  name: widgets.verif.crossplane.io
spec:
  group: verif.crossplane.io
  names:
    kind: Widget
    listKind: WidgetList
    plural: widgets
    singular: widget
  scope: Cluster
  conversion:
    strategy: Webhook
    webhook:
      conversionReviewVersions: ["v1"]
      clientConfig:
        service:
          name: webhook-service
          namespace: system
          path: /convert
  versions:
  - name: v1alpha1
    served: true
    storage: false
    schema:
      openAPIV3Schema:
        type: object
        x-kubernetes-preserve-unknown-fields: true
  - name: v1
    served: true
    storage: true
    schema:
      openAPIV3Schema:
        type: object
        x-kubernetes-preserve-unknown-fields: true
`

// migrators mirrors the NewCoreCRDsMigrator calls of init.go.
var migrators = [][2]string{
	{"compositionrevisions.apiextensions.crossplane.io", "v1alpha1"},
	{"environmentconfigs.apiextensions.crossplane.io", "v1beta1"},
	{"usages.apiextensions.crossplane.io", "v1beta1"},
	{"functions.pkg.crossplane.io", "v1beta1"},
	{"functionrevisions.pkg.crossplane.io", "v1beta1"},
	{"locks.pkg.crossplane.io", "v1alpha1"},
}

// ---------------------------------------------------------------------------
// files of /repo/cluster

type clusterFiles struct {
	crds     map[string][]byte // file name -> content
	webhooks map[string][]byte
	crdObjs  map[string]verifsim.Obj // CRD name -> content (parsed independently with sigs.k8s.io/yaml)
	crdSize  map[string]int
	crdNames []string
	// whNames: expected object name per (kind, file name) after the documented renaming.
	whObjs []verifsim.Obj
}

var (
	filesOnce sync.Once
	files     *clusterFiles
	filesErr  error
)

func repoDir() string {
	if d := os.Getenv("VERIF_REPO"); d != "" {
		return d
	}
	return "/repo"
}

func splitYAML(b []byte) [][]byte {
	var out [][]byte
	for _, d := range bytes.Split(b, []byte("\n---")) {
		if len(bytes.TrimSpace(d)) == 0 {
			continue
		}
		out = append(out, d)
	}
	return out
}

func loadFiles() (*clusterFiles, error) {
	filesOnce.Do(func() {
		f := &clusterFiles{crds: map[string][]byte{}, webhooks: map[string][]byte{}, crdObjs: map[string]verifsim.Obj{}, crdSize: map[string]int{}}
		for dir, into := range map[string]map[string][]byte{"crds": f.crds, "webhookconfigurations": f.webhooks} {
			ents, err := os.ReadDir(filepath.Join(repoDir(), "cluster", dir))
			if err != nil {
				filesErr = err
				return
			}
			for _, e := range ents {
				if e.IsDir() {
					continue
				}
				b, err := os.ReadFile(filepath.Join(repoDir(), "cluster", dir, e.Name()))
				if err != nil {
					filesErr = err
					return
				}
				into[e.Name()] = b
			}
		}
		parse := func(b []byte) ([]verifsim.Obj, error) {
			var out []verifsim.Obj
			for _, d := range splitYAML(b) {
				o := verifsim.Obj{}
				if err := yaml.Unmarshal(d, &o); err != nil {
					return nil, err
				}
				if len(o) == 0 {
					continue
				}
				out = append(out, o)
			}
			return out, nil
		}
		for fn, b := range f.crds {
			objs, err := parse(b)
			if err != nil {
				filesErr = fmt.Errorf("%s: %w", fn, err)
				return
			}
			for _, o := range objs {
				f.crdObjs[verifsim.MetaString(o, "name")] = o
				f.crdSize[verifsim.MetaString(o, "name")] = len(b)
			}
		}
		co, _ := parse([]byte(convCRD))
		f.crdObjs[convCRDName] = co[0]
		for n := range f.crdObjs {
			f.crdNames = append(f.crdNames, n)
		}
		sort.Strings(f.crdNames)
		var whf []string
		for fn := range f.webhooks {
			whf = append(whf, fn)
		}
		sort.Strings(whf)
		for _, fn := range whf {
			objs, err := parse(f.webhooks[fn])
			if err != nil {
				filesErr = fmt.Errorf("%s: %w", fn, err)
				return
			}
			f.whObjs = append(f.whObjs, objs...)
		}
		if len(f.crds) < 10 || len(f.whObjs) < 2 {
			filesErr = fmt.Errorf("unexpectedly few files under %s/cluster: %d crds, %d webhook configurations", repoDir(), len(f.crds), len(f.whObjs))
		}
		files = f
	})
	return files, filesErr
}

// memFs builds the in-memory file system the CoreCRDs and
// WebhookConfigurations steps read (init.go reads /crds and /webhookconfigurations of the image).
func (f *clusterFiles) memFs(withConv bool, light bool) afero.Fs {
	fs := afero.NewMemMapFs()
	for fn, b := range f.crds {
		if light && len(b) > lightLimit {
			continue
		}
		_ = afero.WriteFile(fs, "/crds/"+fn, b, 0o644)
	}
	if withConv {
		_ = afero.WriteFile(fs, "/crds/verif.crossplane.io_widgets.yaml", []byte(convCRD), 0o644)
	}
	for fn, b := range f.webhooks {
		_ = afero.WriteFile(fs, "/webhookconfigurations/"+fn, b, 0o644)
	}
	return fs
}

// lightLimit: CRD files larger than this are left out of the "light" image
// content (CoreCRDs applies whatever the directory holds; parsing the 1.2 MB of
// the full set dominates the cost of a run, so the fault sweep uses the light set).
const lightLimit = 25000

// crdNamesFor lists the CRDs the image content holds.
func (f *clusterFiles) crdNamesFor(o opts) []string {
	var out []string
	for _, n := range f.crdNames {
		if n == convCRDName {
			if o.ConvCRD {
				out = append(out, n)
			}
			continue
		}
		if o.Light && f.crdSize[n] > lightLimit {
			continue
		}
		out = append(out, n)
	}
	return out
}

// expectedWebhookName is the documented renaming of WebhookConfigurations.Run
// (controller-tools issue 658): the generated configurations are called "crossplane".
func expectedWebhookName(o verifsim.Obj) string {
	n := verifsim.MetaString(o, "name")
	if fmt.Sprint(o["kind"]) == "MutatingWebhookConfiguration" || n == "validating-webhook-configuration" {
		return "crossplane"
	}
	return n
}

// ---------------------------------------------------------------------------
// scenario model

type pkgRef struct {
	Registry string `json:"registry,omitempty"`
	Repo     string `json:"repo"`
	Ident    string `json:"ident,omitempty"` // ":tag", "@sha256:..." or ""
}

func (p pkgRef) String() string {
	if p.Registry == "" {
		return p.Repo + p.Ident
	}
	return p.Registry + "/" + p.Repo + p.Ident
}

// identity is the image repository including the registry host, by construction.
func (p pkgRef) identity() string {
	r := p.Registry
	if r == "docker.io" {
		r = "index.docker.io" // go-containerregistry's documented alias
	}
	if r == "" {
		return p.Repo
	}
	return r + "/" + p.Repo
}

// identityOf computes the image repository (with registry host) of a stored package source.
func identityOf(source string) (string, error) {
	ref, err := name.ParseReference(source, name.WithDefaultRegistry(""))
	if err != nil {
		return "", err
	}
	return ref.Context().Name(), nil
}

var pkgKinds = []string{"Provider", "Configuration", "Function"}

type existingPkg struct {
	Kind    string `json:"kind"`
	Name    string `json:"name"`
	Custom  bool   `json:"custom"`
	Ref     pkgRef `json:"ref"`
	RevHist int64  `json:"revHist,omitempty"`
}

type requestedPkg struct {
	Kind string `json:"kind"`
	Ref  pkgRef `json:"ref"`
	// Rel: "new" (repository not installed), "same" (same registry and repository as an
	// installed package), "crossreg" (same repository path, other registry host).
	Rel string `json:"rel"`
}

type secretState struct {
	Present bool     `json:"present"`
	Keys    []string `json:"keys,omitempty"` // data keys taken from the pre-generated material
	Extra   bool     `json:"extra,omitempty"`
}

func (s secretState) has(k string) bool {
	for _, x := range s.Keys {
		if x == k {
			return true
		}
	}
	return false
}

type opts struct {
	Webhook bool   `json:"webhook"`
	SvcName string `json:"svcName"`
	SvcNS   string `json:"svcNS"`
	Port    int32  `json:"port"`
	ESS     bool   `json:"ess"`
	ConvCRD bool   `json:"convCRD"`
	Light   bool   `json:"light"` // image holds only the smaller CRD files
}

type scenario struct {
	Opts      opts              `json:"opts"`
	Mode      string            `json:"mode"`
	CA        secretState       `json:"ca"`
	Server    secretState       `json:"server"`
	Client    secretState       `json:"client"`
	ESSSecret secretState       `json:"essSecret"`
	CRDs      map[string]string `json:"crds,omitempty"` // name -> "current" | "stale"
	OldStored []string          `json:"oldStored,omitempty"`
	Webhooks  string            `json:"webhooks"`    // absent | current | stale
	Lock      string            `json:"lock"`        // absent | empty | populated
	Store     string            `json:"storeConfig"` // absent | default | modified
	DRC       string            `json:"drc"`         // absent | default | modified
	Existing  []existingPkg     `json:"existing,omitempty"`
	Requested []requestedPkg    `json:"requested,omitempty"`
	Runs      int               `json:"runs"`
	// Interloper: a second initializer B (same options, e.g. another replica's init
	// container) executes between API call IK-1 and IK of the first run. IM == 0: B
	// runs to completion; IM > 0: B dies right after its IM-th write to a Secret.
	Inter bool `json:"interloper,omitempty"`
	IK    int  `json:"ik,omitempty"`
	IM    int  `json:"im,omitempty"`
}

var (
	registries = []string{"", "xpkg.upbound.io", "index.docker.io", "registry.example.com:5000", "docker.io", "ghcr.io"}
	repos      = []string{"crossplane-contrib/provider-aws", "upbound/provider-gcp", "acme/platform-ref", "crossplane-contrib/function-patch-and-transform", "org/team/function-x", "acme/config-net"}
	idents     = []string{":v1.0.0", ":v1.1.0", ":v0.9.0-rc.1", "@sha256:" + strings.Repeat("ab", 32), "@sha256:" + strings.Repeat("0c", 32), ""}
)

func defaultName(repo string) string { return strings.ReplaceAll(repo, "/", "-") }

func genSecret(t *rapid.T, label string, all []string) secretState {
	switch rapid.IntRange(0, 5).Draw(t, label) {
	case 0:
		return secretState{}
	case 1:
		return secretState{Present: true} // what the Helm chart creates: an empty Secret
	case 2:
		return secretState{Present: true, Keys: append([]string(nil), all...), Extra: rapid.Bool().Draw(t, label+"-extra")}
	default:
		var keys []string
		for _, k := range all {
			if rapid.Bool().Draw(t, label+"-"+k) {
				keys = append(keys, k)
			}
		}
		return secretState{Present: true, Keys: keys, Extra: rapid.Bool().Draw(t, label+"-extra")}
	}
}

var partialBundles = [][]string{{"tls.crt"}, {"tls.key"}, {"ca.crt"}, {"tls.crt"}, {"tls.key"}, {"ca.crt"}, {"tls.crt", "tls.key"}, {"tls.crt", "ca.crt"}, {"tls.key", "ca.crt"}}

// genPartialBundle: a secret that holds a proper, non-empty part of the bundle.
func genPartialBundle(t *rapid.T, label string) secretState {
	keys := rapid.SampledFrom(partialBundles).Draw(t, label+"-bundle")
	return secretState{Present: true, Keys: append([]string(nil), keys...), Extra: rapid.IntRange(0, 3).Draw(t, label+"-extra") == 0}
}

func bundleName(keys []string) string {
	short := map[string]string{"tls.crt": "crt", "tls.key": "key", "ca.crt": "ca"}
	var p []string
	for _, k := range keys {
		p = append(p, short[k])
	}
	if len(p) == 1 {
		return p[0] + "-only"
	}
	return strings.Join(p, "+")
}

var (
	caKeys   = []string{"tls.crt", "tls.key"}
	certKeys = []string{"tls.crt", "tls.key", "ca.crt"}
)

func fullSecret(keys []string) secretState {
	return secretState{Present: true, Keys: append([]string(nil), keys...)}
}

// genScenario draws a scenario. tlsMode: "any", "full" (all TLS material present: no RSA generation).
func genScenario(f *clusterFiles, tlsMode string, light bool) *rapid.Generator[scenario] {
	return rapid.Custom(func(t *rapid.T) scenario {
		sc := scenario{CRDs: map[string]string{}}
		sc.Opts.Light = light || rapid.IntRange(0, 3).Draw(t, "light") > 0
		sc.Opts.Webhook = rapid.IntRange(0, 4).Draw(t, "webhook") > 0
		sc.Opts.SvcName = rapid.SampledFrom([]string{"crossplane-webhooks", "xp-hooks"}).Draw(t, "svc")
		sc.Opts.SvcNS = rapid.SampledFrom([]string{namespace, "other-ns"}).Draw(t, "svcns")
		sc.Opts.Port = rapid.SampledFrom([]int32{9443, 443}).Draw(t, "port")
		sc.Opts.ESS = rapid.Bool().Draw(t, "ess")
		sc.Opts.ConvCRD = sc.Opts.Webhook && rapid.Bool().Draw(t, "convcrd")
		sc.Mode = rapid.SampledFrom([]string{"empty", "helm", "partial", "partial", "partial", "partial", "initialised", "initialised"}).Draw(t, "mode")
		if tlsMode == "full" && sc.Mode != "initialised" {
			sc.Mode = "partial"
		}

		// TLS secrets
		switch sc.Mode {
		case "empty":
		case "helm":
			sc.CA, sc.Server, sc.Client = secretState{Present: true}, secretState{Present: true}, secretState{Present: true}
			sc.ESSSecret = secretState{Present: sc.Opts.ESS}
		case "initialised":
			sc.CA, sc.Server, sc.Client, sc.ESSSecret = fullSecret(caKeys), fullSecret(certKeys), fullSecret(certKeys), fullSecret(certKeys)
		default:
			sc.CA = genSecret(t, "ca", caKeys)
			sc.Server = genSecret(t, "server", certKeys)
			sc.Client = genSecret(t, "client", certKeys)
			sc.ESSSecret = genSecret(t, "esssecret", certKeys)
			// A complete CA next to server/client secrets that hold only part of the bundle.
			if rapid.IntRange(0, 2).Draw(t, "partialbundle") > 0 {
				sc.CA = fullSecret(caKeys)
				if rapid.IntRange(0, 3).Draw(t, "partialserver") > 0 {
					sc.Server = genPartialBundle(t, "server")
				}
				if rapid.IntRange(0, 3).Draw(t, "partialclient") > 0 {
					sc.Client = genPartialBundle(t, "client")
				}
				if rapid.IntRange(0, 3).Draw(t, "partialess") == 0 {
					sc.ESSSecret = genPartialBundle(t, "ess")
				}
			}
		}
		if tlsMode == "full" {
			sc.CA, sc.Server, sc.Client, sc.ESSSecret = fullSecret(caKeys), fullSecret(certKeys), fullSecret(certKeys), fullSecret(certKeys)
		}

		// CRDs, webhook configurations, default objects
		if sc.Mode == "partial" || sc.Mode == "initialised" {
			for _, n := range f.crdNamesFor(sc.Opts) {
				d := rapid.IntRange(0, 3).Draw(t, "crd")
				if sc.Mode == "initialised" && d == 0 {
					d = 1
				}
				switch d {
				case 0:
				case 3:
					sc.CRDs[n] = "stale"
				default:
					sc.CRDs[n] = "current"
				}
			}
			for _, m := range migrators {
				if sc.CRDs[m[0]] != "" && rapid.Bool().Draw(t, "oldstored") {
					sc.OldStored = append(sc.OldStored, m[0])
				}
			}
			sc.Webhooks = rapid.SampledFrom([]string{"absent", "current", "stale"}).Draw(t, "webhooks")
			sc.Lock = rapid.SampledFrom([]string{"absent", "empty", "populated"}).Draw(t, "lock")
			sc.Store = rapid.SampledFrom([]string{"absent", "default", "modified"}).Draw(t, "store")
			sc.DRC = rapid.SampledFrom([]string{"absent", "default", "modified"}).Draw(t, "drc")
			if sc.Mode == "initialised" {
				if sc.Webhooks == "absent" && sc.Opts.Webhook {
					sc.Webhooks = "current"
				}
				if sc.Lock == "absent" {
					sc.Lock = "populated"
				}
				if sc.Store == "absent" {
					sc.Store = "modified"
				}
				if sc.DRC == "absent" {
					sc.DRC = "default"
				}
			}
		} else {
			sc.Webhooks, sc.Lock, sc.Store, sc.DRC = "absent", "absent", "absent", "absent"
		}

		// Packages. Repository paths are distinct among the existing packages of a
		// kind and among the requested packages of a kind, so the identity relation
		// between a requested and an installed package is known by construction.
		for _, kind := range pkgKinds {
			perm := rapid.Permutation(repos).Draw(t, "repos")
			nEx := 0
			if sc.Mode == "partial" || sc.Mode == "initialised" {
				nEx = rapid.IntRange(0, 2).Draw(t, "nexisting")
			}
			var ex []existingPkg
			for i := 0; i < nEx; i++ {
				e := existingPkg{Kind: kind, Ref: pkgRef{Registry: rapid.SampledFrom(registries).Draw(t, "registry"), Repo: perm[i], Ident: rapid.SampledFrom(idents).Draw(t, "ident")}}
				e.Custom = rapid.IntRange(0, 2).Draw(t, "custom") > 0
				e.Name = defaultName(e.Ref.Repo)
				if e.Custom {
					e.Name = fmt.Sprintf("my-custom-name-%d", i)
				}
				if rapid.Bool().Draw(t, "revhist") {
					e.RevHist = int64(rapid.IntRange(2, 5).Draw(t, "revhistn"))
				}
				ex = append(ex, e)
			}
			sc.Existing = append(sc.Existing, ex...)
			nReq := rapid.IntRange(0, 2).Draw(t, "nrequested")
			used := map[int]bool{}
			for i := 0; i < nReq; i++ {
				r := requestedPkg{Kind: kind}
				rel := rapid.IntRange(0, 9).Draw(t, "rel")
				switch {
				case len(ex) > 0 && rel < 6:
					j := rapid.IntRange(0, len(ex)-1).Draw(t, "which")
					if used[j] {
						continue
					}
					used[j] = true
					r.Ref = pkgRef{Registry: ex[j].Ref.Registry, Repo: ex[j].Ref.Repo, Ident: rapid.SampledFrom(idents).Draw(t, "ident")}
					r.Rel = "same"
					if rel == 5 {
						other := rapid.SampledFrom(registries).Draw(t, "otherregistry")
						if (pkgRef{Registry: other, Repo: r.Ref.Repo}).identity() != ex[j].Ref.identity() {
							r.Ref.Registry = other
							r.Rel = "crossreg"
						}
					}
				default:
					// a repository that is not installed: take the next unused path after the existing ones
					idx := nEx + i
					if idx >= len(perm) {
						continue
					}
					r.Ref = pkgRef{Registry: rapid.SampledFrom(registries).Draw(t, "registry"), Repo: perm[idx], Ident: rapid.SampledFrom(idents).Draw(t, "ident")}
					r.Rel = "new"
				}
				sc.Requested = append(sc.Requested, r)
			}
		}
		sc.Runs = rapid.IntRange(1, 3).Draw(t, "runs")
		if rapid.IntRange(0, 2).Draw(t, "interloper") == 0 {
			sc.Inter = true
			sc.IK = rapid.IntRange(0, 70).Draw(t, "ik")
			sc.IM = rapid.IntRange(0, 3).Draw(t, "im")
		}
		return sc
	})
}

// ---------------------------------------------------------------------------
// pre-generated TLS material (made once per process by the real generator)

type material struct {
	ca, server, client, ess map[string][]byte
}

var (
	poolOnce sync.Once
	pool     *material
	poolErr  error
)

func tlsSteps(o opts) []initializer.Step {
	log := logging.NewNopLogger()
	var steps []initializer.Step
	tlsGeneratorOpts := []initializer.TLSCertificateGeneratorOption{
		initializer.TLSCertificateGeneratorWithClientSecretName(clientSecret, []string{fmt.Sprintf("%s.%s", serviceAccount, namespace)}),
		initializer.TLSCertificateGeneratorWithLogger(log),
	}
	if o.Webhook {
		tlsGeneratorOpts = append(tlsGeneratorOpts,
			initializer.TLSCertificateGeneratorWithServerSecretName(serverSecret, initializer.DNSNamesForService(o.SvcName, o.SvcNS)))
	}
	steps = append(steps, initializer.NewTLSCertificateGenerator(namespace, caSecret, tlsGeneratorOpts...))
	return steps
}

func essStep() initializer.Step {
	return initializer.NewTLSCertificateGenerator(namespace, caSecret,
		initializer.TLSCertificateGeneratorWithServerSecretName(essSecret, []string{fmt.Sprintf("*.%s", namespace)}),
		initializer.TLSCertificateGeneratorWithLogger(logging.NewNopLogger()),
	)
}

func getPool() (*material, error) {
	poolOnce.Do(func() {
		s := verifsim.New(verifsim.NewScheme())
		c := s.Client("pool")
		o := opts{Webhook: true, SvcName: "old-webhooks", SvcNS: namespace, ESS: true}
		st := append(tlsSteps(o), essStep())
		if err := initializer.New(c, logging.NewNopLogger(), st...).Init(context.Background()); err != nil {
			poolErr = err
			return
		}
		get := func(n string) map[string][]byte {
			sec := &corev1.Secret{}
			if err := c.Get(context.Background(), types.NamespacedName{Namespace: namespace, Name: n}, sec); err != nil {
				poolErr = err
			}
			return sec.Data
		}
		pool = &material{ca: get(caSecret), server: get(serverSecret), client: get(clientSecret), ess: get(essSecret)}
	})
	return pool, poolErr
}

// ---------------------------------------------------------------------------
// world

type world struct {
	sc     scenario
	f      *clusterFiles
	sim    *verifsim.Sim
	fs     afero.Fs
	scheme *runtime.Scheme
	fail   func(string, ...any)
}

var (
	gkSecret = schema.GroupKind{Kind: "Secret"}
	gkCRD    = schema.GroupKind{Group: "apiextensions.k8s.io", Kind: "CustomResourceDefinition"}
	gkVWC    = schema.GroupKind{Group: "admissionregistration.k8s.io", Kind: "ValidatingWebhookConfiguration"}
	gkMWC    = schema.GroupKind{Group: "admissionregistration.k8s.io", Kind: "MutatingWebhookConfiguration"}
)

func secretKey(n string) verifsim.Key {
	return verifsim.Key{Kind: "Secret", Namespace: namespace, Name: n}
}

func pkgKey(kind, n string) verifsim.Key {
	return verifsim.Key{Group: "pkg.crossplane.io", Kind: kind, Name: n}
}

var (
	lockKey  = verifsim.Key{Group: "pkg.crossplane.io", Kind: "Lock", Name: "lock"}
	storeKey = verifsim.Key{Group: "secrets.crossplane.io", Kind: "StoreConfig", Name: "default"}
	drcKey   = verifsim.Key{Group: "pkg.crossplane.io", Kind: "DeploymentRuntimeConfig", Name: "default"}
)

// steps mirrors initCommand.Run of cmd/crossplane/core/init.go.
func (w *world) steps() []initializer.Step {
	o := w.sc.Opts
	s := w.scheme
	log := logging.NewNopLogger()
	steps := tlsSteps(o)
	if o.Webhook {
		nn := types.NamespacedName{Name: serverSecret, Namespace: namespace}
		port := o.Port
		svc := admv1.ServiceReference{Name: o.SvcName, Namespace: o.SvcNS, Port: &port}
		steps = append(steps,
			initializer.NewCoreCRDs("/crds", s, initializer.WithWebhookTLSSecretRef(nn), initializer.WithFs(w.fs)),
			initializer.NewWebhookConfigurations("/webhookconfigurations", s, nn, svc, initializer.WithWebhookConfigurationsFs(w.fs)))
	} else {
		steps = append(steps, initializer.NewCoreCRDs("/crds", s, initializer.WithFs(w.fs)))
	}
	for _, m := range migrators {
		steps = append(steps, initializer.NewCoreCRDsMigrator(m[0], m[1]))
	}
	if o.ESS {
		steps = append(steps, essStep())
	}
	var p, c, f []string
	for _, r := range w.sc.Requested {
		switch r.Kind {
		case "Provider":
			p = append(p, r.Ref.String())
		case "Configuration":
			c = append(c, r.Ref.String())
		case "Function":
			f = append(f, r.Ref.String())
		}
	}
	steps = append(steps, initializer.NewLockObject(),
		initializer.NewPackageInstaller(p, c, f),
		initializer.NewStoreConfigObject(namespace),
		initializer.StepFunc(initializer.DefaultDeploymentRuntimeConfig),
	)
	_ = log
	return steps
}

func (w *world) run(plan map[int]verifsim.Fault) (*verifsim.Run, error) {
	run := w.sim.NewRun("init", plan)
	err := initializer.New(run.Client(), logging.NewNopLogger(), w.steps()...).Init(context.Background())
	return run, err
}

// hookClient wraps a client: it can run a hook right before the n-th API call and
// can "kill the process" (every later call fails without effect) right after the
// m-th successful write to a Secret.
type hookClient struct {
	client.Client
	n            int
	before       func(n int)
	crashAfter   int
	secretWrites int
	crashed      bool
}

var errKilled = fmt.Errorf("c20: initializer process killed (context canceled)")

func (h *hookClient) pre() error {
	if h.crashed {
		return errKilled
	}
	if h.before != nil {
		h.before(h.n)
	}
	h.n++
	return nil
}

func (h *hookClient) post(obj client.Object, err error) error {
	if _, ok := obj.(*corev1.Secret); ok && err == nil {
		h.secretWrites++
		if h.crashAfter > 0 && h.secretWrites >= h.crashAfter {
			h.crashed = true
		}
	}
	return err
}

func (h *hookClient) Get(ctx context.Context, key client.ObjectKey, obj client.Object, opts ...client.GetOption) error {
	if err := h.pre(); err != nil {
		return err
	}
	return h.Client.Get(ctx, key, obj, opts...)
}

func (h *hookClient) List(ctx context.Context, list client.ObjectList, opts ...client.ListOption) error {
	if err := h.pre(); err != nil {
		return err
	}
	return h.Client.List(ctx, list, opts...)
}

func (h *hookClient) Create(ctx context.Context, obj client.Object, opts ...client.CreateOption) error {
	if err := h.pre(); err != nil {
		return err
	}
	return h.post(obj, h.Client.Create(ctx, obj, opts...))
}

func (h *hookClient) Update(ctx context.Context, obj client.Object, opts ...client.UpdateOption) error {
	if err := h.pre(); err != nil {
		return err
	}
	return h.post(obj, h.Client.Update(ctx, obj, opts...))
}

func (h *hookClient) Patch(ctx context.Context, obj client.Object, p client.Patch, opts ...client.PatchOption) error {
	if err := h.pre(); err != nil {
		return err
	}
	return h.post(obj, h.Client.Patch(ctx, obj, p, opts...))
}

func (h *hookClient) Delete(ctx context.Context, obj client.Object, opts ...client.DeleteOption) error {
	if err := h.pre(); err != nil {
		return err
	}
	return h.Client.Delete(ctx, obj, opts...)
}

func (h *hookClient) DeleteAllOf(ctx context.Context, obj client.Object, opts ...client.DeleteAllOfOption) error {
	if err := h.pre(); err != nil {
		return err
	}
	return h.Client.DeleteAllOf(ctx, obj, opts...)
}

func (h *hookClient) Status() client.SubResourceWriter { return &hookStatus{h, h.Client.Status()} }

type hookStatus struct {
	h *hookClient
	w client.SubResourceWriter
}

func (s *hookStatus) Create(ctx context.Context, obj client.Object, sub client.Object, opts ...client.SubResourceCreateOption) error {
	if err := s.h.pre(); err != nil {
		return err
	}
	return s.w.Create(ctx, obj, sub, opts...)
}

func (s *hookStatus) Update(ctx context.Context, obj client.Object, opts ...client.SubResourceUpdateOption) error {
	if err := s.h.pre(); err != nil {
		return err
	}
	return s.w.Update(ctx, obj, opts...)
}

func (s *hookStatus) Patch(ctx context.Context, obj client.Object, p client.Patch, opts ...client.SubResourcePatchOption) error {
	if err := s.h.pre(); err != nil {
		return err
	}
	return s.w.Patch(ctx, obj, p, opts...)
}

// runInterleaved runs initializer A; right before A's API call number k a second
// initializer B with the same options runs (to completion if m == 0, else until it
// is killed right after its m-th write to a Secret). It reports whether B ran.
func (w *world) runInterleaved(k, m int) (fired bool, errA error, errB error) {
	a := &hookClient{Client: w.sim.NewRun("init", nil).Client()}
	a.before = func(n int) {
		if n != k || fired {
			return
		}
		fired = true
		b := &hookClient{Client: w.sim.NewRun("init-b", nil).Client(), crashAfter: m}
		errB = initializer.New(b, logging.NewNopLogger(), w.steps()...).Init(context.Background())
	}
	errA = initializer.New(a, logging.NewNopLogger(), w.steps()...).Init(context.Background())
	return fired, errA, errB
}

func pick(src map[string][]byte, st secretState) map[string][]byte {
	out := map[string][]byte{}
	for _, k := range st.Keys {
		out[k] = src[k]
	}
	if st.Extra {
		out["user-note"] = []byte("keep me")
	}
	return out
}

func setCABundle(o verifsim.Obj, bundle string) {
	if verifsim.Nested(o, "spec", "conversion", "webhook", "clientConfig") != nil {
		o["spec"].(map[string]any)["conversion"].(map[string]any)["webhook"].(map[string]any)["clientConfig"].(map[string]any)["caBundle"] = bundle
	}
}

func newWorld(sc scenario, f *clusterFiles, fail func(string, ...any)) *world {
	w := &world{sc: sc, f: f, scheme: verifsim.NewScheme(), fail: fail}
	w.sim = verifsim.New(w.scheme)
	w.fs = f.memFs(sc.Opts.ConvCRD, sc.Opts.Light)
	// Which Crossplane kinds have a status subresource is read from the real CRD files.
	for _, o := range f.crdObjs {
		gk := schema.GroupKind{Group: fmt.Sprint(verifsim.Nested(o, "spec", "group")), Kind: fmt.Sprint(verifsim.Nested(o, "spec", "names", "kind"))}
		has := false
		for _, v := range verifsim.Nested(o, "spec", "versions").([]any) {
			if verifsim.Nested(v.(map[string]any), "subresources", "status") != nil {
				has = true
			}
		}
		if has {
			delete(w.sim.NoStatusSubresource, gk)
		} else {
			w.sim.NoStatusSubresource[gk] = true
		}
	}
	m, err := getPool()
	if err != nil {
		fail("cannot pre-generate TLS material: %v", err)
	}
	ctx := context.Background()
	c := w.sim.Client("seed")
	must := func(err error, what string) {
		if err != nil {
			fail("HARNESS: seeding %s: %v", what, err)
		}
	}
	// secrets
	for _, e := range []struct {
		n   string
		st  secretState
		src map[string][]byte
	}{{caSecret, sc.CA, m.ca}, {serverSecret, sc.Server, m.server}, {clientSecret, sc.Client, m.client}, {essSecret, sc.ESSSecret, m.ess}} {
		if !e.st.Present {
			continue
		}
		sec := &corev1.Secret{ObjectMeta: metav1.ObjectMeta{Namespace: namespace, Name: e.n}}
		if d := pick(e.src, e.st); len(d) > 0 {
			sec.Data = d
		}
		must(c.Create(ctx, sec), "secret "+e.n)
	}
	curBundle := base64.StdEncoding.EncodeToString(m.server["tls.crt"])
	// CRDs
	old := map[string]bool{}
	for _, n := range sc.OldStored {
		old[n] = true
	}
	var crdNames []string
	for n := range sc.CRDs {
		crdNames = append(crdNames, n)
	}
	sort.Strings(crdNames)
	for _, n := range crdNames {
		o := verifsim.DeepCopy(f.crdObjs[n])
		delete(o, "status")
		if sc.CRDs[n] == "stale" {
			setCABundle(o, staleBundle)
			verifsim.Meta(o)["labels"] = map[string]any{"verif/stale": "true"}
		} else {
			setCABundle(o, curBundle)
		}
		u := verifsim.U(o)
		must(c.Create(ctx, u), "crd "+n)
		stored := []any{}
		var storage string
		for _, v := range verifsim.Nested(o, "spec", "versions").([]any) {
			vm := v.(map[string]any)
			if b, _ := vm["storage"].(bool); b {
				storage = fmt.Sprint(vm["name"])
			}
		}
		if old[n] {
			for _, m := range migrators {
				if m[0] == n {
					stored = append(stored, m[1])
				}
			}
		}
		stored = append(stored, storage)
		u.Object["status"] = map[string]any{"storedVersions": stored}
		must(c.Status().Update(ctx, u), "crd status "+n)
	}
	// instances of kinds whose CRD may be migrated
	if sc.CRDs["environmentconfigs.apiextensions.crossplane.io"] != "" {
		must(c.Create(ctx, verifsim.U(verifsim.Obj{"apiVersion": "apiextensions.crossplane.io/v1alpha1", "kind": "EnvironmentConfig", "metadata": map[string]any{"name": "env-a"}, "data": map[string]any{"region": "eu"}})), "environmentconfig")
	}
	// webhook configurations
	if sc.Webhooks != "absent" {
		for _, src := range f.whObjs {
			o := verifsim.DeepCopy(src)
			verifsim.Meta(o)["name"] = expectedWebhookName(o)
			for _, wh := range o["webhooks"].([]any) {
				cc := wh.(map[string]any)["clientConfig"].(map[string]any)
				if sc.Webhooks == "stale" {
					cc["caBundle"] = staleBundle
				} else {
					cc["caBundle"] = curBundle
					svc := cc["service"].(map[string]any)
					svc["name"], svc["namespace"], svc["port"] = sc.Opts.SvcName, sc.Opts.SvcNS, int64(sc.Opts.Port)
				}
			}
			must(c.Create(ctx, verifsim.U(o)), "webhook configuration")
		}
	}
	// default objects
	switch sc.Lock {
	case "empty":
		must(c.Create(ctx, verifsim.U(verifsim.Obj{"apiVersion": "pkg.crossplane.io/v1beta1", "kind": "Lock", "metadata": map[string]any{"name": "lock"}})), "lock")
	case "populated":
		must(c.Create(ctx, verifsim.U(verifsim.Obj{"apiVersion": "pkg.crossplane.io/v1beta1", "kind": "Lock", "metadata": map[string]any{"name": "lock", "finalizers": []any{"lock.pkg.crossplane.io"}},
			"packages": []any{map[string]any{"name": "provider-x-abc", "type": "Provider", "source": "xpkg.upbound.io/acme/provider-x", "version": "v1.0.0", "dependencies": []any{}}}})), "lock")
	}
	switch sc.Store {
	case "default":
		must(c.Create(ctx, verifsim.U(verifsim.Obj{"apiVersion": "secrets.crossplane.io/v1alpha1", "kind": "StoreConfig", "metadata": map[string]any{"name": "default"}, "spec": map[string]any{"defaultScope": namespace}})), "storeconfig")
	case "modified":
		must(c.Create(ctx, verifsim.U(verifsim.Obj{"apiVersion": "secrets.crossplane.io/v1alpha1", "kind": "StoreConfig", "metadata": map[string]any{"name": "default", "labels": map[string]any{"owner": "user"}},
			"spec": map[string]any{"defaultScope": "user-scope", "type": "Plugin", "plugin": map[string]any{"endpoint": "ess:4040", "configRef": map[string]any{"apiVersion": "x/v1", "kind": "VaultConfig", "name": "v"}}}})), "storeconfig")
	}
	switch sc.DRC {
	case "default":
		must(c.Create(ctx, verifsim.U(verifsim.Obj{"apiVersion": "pkg.crossplane.io/v1beta1", "kind": "DeploymentRuntimeConfig", "metadata": map[string]any{"name": "default"}, "spec": map[string]any{}})), "drc")
	case "modified":
		must(c.Create(ctx, verifsim.U(verifsim.Obj{"apiVersion": "pkg.crossplane.io/v1beta1", "kind": "DeploymentRuntimeConfig", "metadata": map[string]any{"name": "default", "annotations": map[string]any{"note": "tuned"}},
			"spec": map[string]any{"deploymentTemplate": map[string]any{"spec": map[string]any{"replicas": int64(2), "selector": map[string]any{}, "template": map[string]any{}}}}})), "drc")
	}
	// installed packages
	for _, e := range sc.Existing {
		spec := map[string]any{"package": e.Ref.String()}
		if e.RevHist > 0 {
			spec["revisionHistoryLimit"] = e.RevHist
			spec["packagePullPolicy"] = "Always"
		}
		u := verifsim.U(verifsim.Obj{"apiVersion": "pkg.crossplane.io/v1", "kind": e.Kind, "metadata": map[string]any{"name": e.Name, "labels": map[string]any{"installed-by": "user"}}, "spec": spec})
		must(c.Create(ctx, u), "package "+e.Name)
		u.Object["status"] = map[string]any{"currentRevision": e.Name + "-0123456789ab", "currentIdentifier": e.Ref.String()}
		must(c.Status().Update(ctx, u), "package status "+e.Name)
	}
	return w
}

// ---------------------------------------------------------------------------
// oracle

type certSpec struct {
	name  string
	st    secretState
	dns   []string
	usage x509.ExtKeyUsage
	used  bool // configured in this scenario
}

func (w *world) certSpecs() []certSpec {
	o := w.sc.Opts
	return []certSpec{
		// independent of initializer.DNSNamesForService: the names a Service is reachable under inside the cluster
		{serverSecret, w.sc.Server, []string{o.SvcName, o.SvcName + "." + o.SvcNS, o.SvcName + "." + o.SvcNS + ".svc"}, x509.ExtKeyUsageServerAuth, o.Webhook},
		{clientSecret, w.sc.Client, []string{serviceAccount + "." + namespace}, x509.ExtKeyUsageClientAuth, true},
		{essSecret, w.sc.ESSSecret, []string{"*." + namespace}, x509.ExtKeyUsageServerAuth, o.ESS},
	}
}

func secretData(o verifsim.Obj) map[string][]byte {
	out := map[string][]byte{}
	d, _ := o["data"].(map[string]any)
	for k, v := range d {
		b, err := base64.StdEncoding.DecodeString(fmt.Sprint(v))
		if err != nil {
			b = []byte("<<not base64>>" + fmt.Sprint(v))
		}
		out[k] = b
	}
	return out
}

func sameData(a, b map[string][]byte) bool {
	if len(a) != len(b) {
		return false
	}
	for k, v := range a {
		if w, ok := b[k]; !ok || !bytes.Equal(v, w) {
			return false
		}
	}
	return true
}

func parseCert(b []byte) (*x509.Certificate, error) {
	blk, _ := pem.Decode(b)
	if blk == nil {
		return nil, fmt.Errorf("not PEM")
	}
	return x509.ParseCertificate(blk.Bytes)
}

// checkSafety holds after every run, complete or aborted: nothing that existed is clobbered.
func (w *world) checkSafety(ctx string, before, after map[verifsim.Key]verifsim.Obj) {
	requested := map[string]bool{} // kind|identity
	for _, r := range w.sc.Requested {
		requested[r.Kind+"|"+r.Ref.identity()] = true
	}
	reqNames := map[string]bool{} // kind|default object name of a requested package
	for _, r := range w.sc.Requested {
		reqNames[r.Kind+"|"+defaultName(r.Ref.Repo)] = true
	}
	bkeys := make([]verifsim.Key, 0, len(before))
	for k := range before {
		bkeys = append(bkeys, k)
	}
	sortKeys(bkeys)
	for _, k := range bkeys {
		b, a := before[k], after[k]
		switch {
		case k.GK() == gkCRD || k.GK() == gkVWC || k.GK() == gkMWC:
			if a == nil {
				w.fail("VIOLATION %s: %s was deleted by initialisation", ctx, k)
			}
			continue // these are brought to the current version
		case k.GK() == gkSecret:
			bd, ad := secretData(b), secretData(a)
			if a == nil {
				w.fail("VIOLATION %s: secret %s was deleted by initialisation", ctx, k.Name)
			}
			if k.Name == caSecret {
				if len(bd["tls.crt"]) > 0 && len(bd["tls.key"]) > 0 && !sameData(bd, ad) {
					w.fail("VIOLATION %s: the complete certificate authority in secret %s was changed (keys before %v, after %v; tls.crt equal=%v tls.key equal=%v)", ctx, k.Name, keysOf(bd), keysOf(ad), bytes.Equal(bd["tls.crt"], ad["tls.crt"]), bytes.Equal(bd["tls.key"], ad["tls.key"]))
				}
			} else {
				// Server, client and ESS secrets: existing TLS material is kept, never
				// regenerated - also when the secret holds only part of the bundle
				// (tls.go keeps a secret as it is if any of the three keys is non-empty).
				for _, dk := range certKeys {
					if len(bd[dk]) > 0 && !bytes.Equal(bd[dk], ad[dk]) {
						w.fail("VIOLATION %s: existing %s of TLS secret %s was overwritten (non-empty keys before %v, keys after %v)", ctx, dk, k.Name, nonEmptyKeys(bd), keysOf(ad))
					}
				}
				// ... and nothing is issued into a secret that already holds material
				// (e.g. only ca.crt): it is kept as it is, not regenerated.
				if len(bd["tls.crt"]) > 0 || len(bd["tls.key"]) > 0 || len(bd["ca.crt"]) > 0 {
					for _, dk := range certKeys {
						if len(bd[dk]) == 0 && len(ad[dk]) > 0 {
							w.fail("VIOLATION %s: TLS secret %s already held %v but a new %s was issued into it (kept, never regenerated)", ctx, k.Name, nonEmptyKeys(bd), dk)
						}
					}
				}
				if len(bd["tls.crt"]) > 0 && len(bd["tls.key"]) > 0 && !sameData(bd, ad) {
					w.fail("VIOLATION %s: the existing certificate in secret %s was changed (keys before %v, after %v; tls.crt equal=%v)", ctx, k.Name, keysOf(bd), keysOf(ad), bytes.Equal(bd["tls.crt"], ad["tls.crt"]))
				}
			}
			// data a certificate secret already had under other keys stays (an
			// incomplete CA secret is rewritten as a whole; the property does not speak about it)
			for dk, dv := range bd {
				if k.Name == caSecret {
					break
				}
				if dk != "tls.crt" && dk != "tls.key" && dk != "ca.crt" && !bytes.Equal(dv, ad[dk]) {
					w.fail("VIOLATION %s: secret %s lost or changed its data key %q", ctx, k.Name, dk)
				}
			}
			continue
		case k.Group == "pkg.crossplane.io" && (k.Kind == "Provider" || k.Kind == "Configuration" || k.Kind == "Function"):
			id, err := identityOf(fmt.Sprint(verifsim.Nested(b, "spec", "package")))
			if err == nil && (requested[k.Kind+"|"+id] || reqNames[k.Kind+"|"+k.Name]) {
				continue // judged by checkPackages
			}
		}
		if verifsim.ObjDigest(a) != verifsim.ObjDigest(b) {
			w.fail("VIOLATION %s: existing object %s was modified by initialisation:\n before %s\n after  %s", ctx, k, verifsim.ObjDigest(b), verifsim.ObjDigest(a))
		}
	}
}

func nonEmptyKeys(m map[string][]byte) []string {
	var out []string
	for k, v := range m {
		if len(v) > 0 {
			out = append(out, k)
		}
	}
	sort.Strings(out)
	return out
}

func keysOf(m map[string][]byte) []string {
	var out []string
	for k := range m {
		out = append(out, k)
	}
	sort.Strings(out)
	return out
}

// checkComplete holds after a run that returned no error.
func (w *world) checkComplete(ctx string, before, after map[verifsim.Key]verifsim.Obj) {
	w.checkTLS(ctx, before, after)
	w.checkBundles(ctx, after)
	w.checkPackages(ctx, before, after)
	// default objects exist
	for _, k := range []verifsim.Key{lockKey, storeKey, drcKey} {
		if after[k] == nil {
			w.fail("VIOLATION %s: default object %s does not exist after a complete initialisation", ctx, k)
		}
	}
	if before[storeKey] == nil {
		if got := verifsim.Nested(after[storeKey], "spec", "defaultScope"); got != namespace {
			w.fail("VIOLATION %s: created default StoreConfig has defaultScope %v, want %s", ctx, got, namespace)
		}
	}
	// core CRDs exist
	for _, n := range w.f.crdNamesFor(w.sc.Opts) {
		if after[verifsim.Key{Group: gkCRD.Group, Kind: gkCRD.Kind, Name: n}] == nil {
			w.fail("VIOLATION %s: core CRD %s does not exist after a complete initialisation", ctx, n)
		}
	}
}

func (w *world) checkTLS(ctx string, before, after map[verifsim.Key]verifsim.Obj) {
	ca := secretData(after[secretKey(caSecret)])
	if after[secretKey(caSecret)] == nil || len(ca["tls.crt"]) == 0 || len(ca["tls.key"]) == 0 {
		w.fail("VIOLATION %s: no complete CA secret after a complete initialisation (keys %v)", ctx, keysOf(ca))
	}
	caCert, err := parseCert(ca["tls.crt"])
	if err != nil {
		w.fail("VIOLATION %s: stored CA certificate does not parse: %v", ctx, err)
	}
	if !caCert.IsCA {
		w.fail("VIOLATION %s: stored CA certificate is not a CA", ctx)
	}
	roots := x509.NewCertPool()
	roots.AddCert(caCert)
	for _, cs := range w.certSpecs() {
		if !cs.used {
			continue
		}
		b, a := before[secretKey(cs.name)], after[secretKey(cs.name)]
		if a == nil {
			w.fail("VIOLATION %s: TLS secret %s does not exist after a complete initialisation", ctx, cs.name)
		}
		bd, ad := secretData(b), secretData(a)
		if b != nil && (len(bd["tls.crt"]) > 0 || len(bd["tls.key"]) > 0 || len(bd["ca.crt"]) > 0) {
			for _, dk := range certKeys {
				if len(bd[dk]) > 0 && !bytes.Equal(bd[dk], ad[dk]) {
					w.fail("VIOLATION %s: existing %s in %s was regenerated", ctx, dk, cs.name)
				}
			}
			continue // existing material: kept as it was (checkSafety), nothing newly issued to verify
		}
		// newly issued
		leaf, err := parseCert(ad["tls.crt"])
		if err != nil {
			w.fail("VIOLATION %s: secret %s: newly issued tls.crt does not parse: %v (keys %v)", ctx, cs.name, err, keysOf(ad))
		}
		if _, err := leaf.Verify(x509.VerifyOptions{Roots: roots, KeyUsages: []x509.ExtKeyUsage{cs.usage}, CurrentTime: leaf.NotBefore.Add(time.Minute)}); err != nil {
			w.fail("VIOLATION %s: newly issued certificate in %s does not verify against the STORED CA certificate of %s: %v", ctx, cs.name, caSecret, err)
		}
		if !bytes.Equal(ad["ca.crt"], ca["tls.crt"]) {
			w.fail("VIOLATION %s: ca.crt of newly issued %s is not the stored CA certificate", ctx, cs.name)
		}
		have := map[string]bool{}
		for _, d := range leaf.DNSNames {
			have[d] = true
		}
		for _, d := range cs.dns {
			if !have[d] {
				w.fail("VIOLATION %s: newly issued certificate in %s does not cover DNS name %q (has %v)", ctx, cs.name, d, leaf.DNSNames)
			}
			if !strings.HasPrefix(d, "*") {
				if err := leaf.VerifyHostname(d); err != nil {
					w.fail("VIOLATION %s: newly issued certificate in %s is not valid for host %q: %v", ctx, cs.name, d, err)
				}
			}
		}
		kb, _ := pem.Decode(ad["tls.key"])
		if kb == nil {
			w.fail("VIOLATION %s: secret %s: tls.key is not PEM", ctx, cs.name)
		}
		key, err := x509.ParsePKCS1PrivateKey(kb.Bytes)
		if err != nil {
			w.fail("VIOLATION %s: secret %s: tls.key does not parse: %v", ctx, cs.name, err)
		}
		if pub, ok := leaf.PublicKey.(*rsa.PublicKey); !ok || !pub.Equal(&key.PublicKey) {
			w.fail("VIOLATION %s: secret %s: tls.key does not belong to tls.crt", ctx, cs.name)
		}
	}
}

// checkBundles: CRDs with webhook conversion and all webhook configurations carry the current tls.crt.
func (w *world) checkBundles(ctx string, after map[verifsim.Key]verifsim.Obj) {
	if !w.sc.Opts.Webhook {
		return
	}
	crt := secretData(after[secretKey(serverSecret)])["tls.crt"]
	if len(crt) == 0 {
		w.fail("VIOLATION %s: webhook TLS secret has no tls.crt after a complete initialisation", ctx)
	}
	want := base64.StdEncoding.EncodeToString(crt)
	for _, n := range w.f.crdNamesFor(w.sc.Opts) {
		if verifsim.Nested(w.f.crdObjs[n], "spec", "conversion", "strategy") != "Webhook" {
			continue
		}
		got := verifsim.Nested(after[verifsim.Key{Group: gkCRD.Group, Kind: gkCRD.Kind, Name: n}], "spec", "conversion", "webhook", "clientConfig", "caBundle")
		if got != want {
			w.fail("VIOLATION %s: CRD %s with webhook conversion does not carry the current tls.crt as CA bundle (got %.40v...)", ctx, n, got)
		}
	}
	for _, src := range w.f.whObjs {
		gv, _ := schema.ParseGroupVersion(fmt.Sprint(src["apiVersion"]))
		k := verifsim.Key{Group: gv.Group, Kind: fmt.Sprint(src["kind"]), Name: expectedWebhookName(src)}
		o := after[k]
		if o == nil {
			w.fail("VIOLATION %s: webhook configuration %s does not exist after a complete initialisation", ctx, k)
		}
		whs, _ := o["webhooks"].([]any)
		if len(whs) != len(src["webhooks"].([]any)) {
			w.fail("VIOLATION %s: webhook configuration %s has %d webhooks, the manifest has %d", ctx, k, len(whs), len(src["webhooks"].([]any)))
		}
		for i, wh := range whs {
			cc, _ := wh.(map[string]any)["clientConfig"].(map[string]any)
			if cc["caBundle"] != want {
				w.fail("VIOLATION %s: webhook %d of %s does not carry the current tls.crt as CA bundle (got %.40v...)", ctx, i, k, cc["caBundle"])
			}
			svc, _ := cc["service"].(map[string]any)
			if svc["name"] != w.sc.Opts.SvcName || svc["namespace"] != w.sc.Opts.SvcNS || fmt.Sprint(svc["port"]) != fmt.Sprint(w.sc.Opts.Port) {
				w.fail("VIOLATION %s: webhook %d of %s points at service %v, want %s/%s:%d", ctx, i, k, svc, w.sc.Opts.SvcNS, w.sc.Opts.SvcName, w.sc.Opts.Port)
			}
		}
	}
}

func (w *world) checkPackages(ctx string, before, after map[verifsim.Key]verifsim.Obj) {
	for _, kind := range pkgKinds {
		weak := false
		for _, r := range w.sc.Requested {
			if r.Kind == kind && r.Rel == "crossreg" {
				weak = true
			}
		}
		// objects of this kind by identity
		byID := map[string][]verifsim.Key{}
		n := 0
		for k, o := range after {
			if k.Group != "pkg.crossplane.io" || k.Kind != kind {
				continue
			}
			n++
			id, err := identityOf(fmt.Sprint(verifsim.Nested(o, "spec", "package")))
			if err != nil {
				w.fail("HARNESS %s: stored package source of %s does not parse: %v", ctx, k, err)
			}
			byID[id] = append(byID[id], k)
		}
		wantN := 0
		for _, e := range w.sc.Existing {
			if e.Kind == kind {
				wantN++
			}
		}
		for _, r := range w.sc.Requested {
			if r.Kind != kind {
				continue
			}
			if r.Rel == "new" {
				wantN++
			}
			if weak {
				continue
			}
			ks := byID[r.Ref.identity()]
			if len(ks) != 1 {
				sortKeys(ks)
				w.fail("VIOLATION %s: %d %s objects for image repository %q after initialisation, want exactly 1: %v (requested %q, installed before: %s)", ctx, len(ks), kind, r.Ref.identity(), ks, r.Ref.String(), verifkit.JSON(w.sc.Existing))
			}
			o := after[ks[0]]
			ref, err := name.ParseReference(r.Ref.String(), name.WithDefaultRegistry(""))
			if err != nil {
				w.fail("HARNESS %s: generated reference %q does not parse: %v", ctx, r.Ref.String(), err)
			}
			if got := verifsim.Nested(o, "spec", "package"); got != ref.String() {
				w.fail("VIOLATION %s: %s %s has source %v after initialisation, requested %q", ctx, kind, ks[0].Name, got, ref.String())
			}
			if r.Rel == "same" {
				var ex *existingPkg
				for i := range w.sc.Existing {
					if e := w.sc.Existing[i]; e.Kind == kind && e.Ref.identity() == r.Ref.identity() {
						ex = &w.sc.Existing[i]
					}
				}
				if ex == nil {
					w.fail("HARNESS %s: no installed package for %v", ctx, r)
				}
				b := before[pkgKey(kind, ex.Name)]
				if ks[0].Name != ex.Name || verifsim.MetaString(o, "uid") != verifsim.MetaString(b, "uid") {
					w.fail("VIOLATION %s: installed %s %q (uid %s) was not the object updated; repository %q now lives in %q (uid %s)", ctx, kind, ex.Name, verifsim.MetaString(b, "uid"), r.Ref.identity(), ks[0].Name, verifsim.MetaString(o, "uid"))
				}
				// updated in place: everything but the source (and what the server maintains) is kept
				if x, y := stripPkg(b), stripPkg(o); x != y {
					w.fail("VIOLATION %s: updating %s %q in place changed more than its source:\n before %s\n after  %s", ctx, kind, ex.Name, x, y)
				}
			}
		}
		if !weak && n != wantN {
			w.fail("VIOLATION %s: %d %s objects after initialisation, want %d (installed before %s, requested %s)", ctx, n, kind, wantN, verifkit.JSON(w.sc.Existing), verifkit.JSON(w.sc.Requested))
		}
	}
}

func stripPkg(o verifsim.Obj) string {
	c := verifsim.DeepCopy(o)
	if c == nil {
		return "<absent>"
	}
	m := verifsim.Meta(c)
	for _, f := range []string{"resourceVersion", "generation", "managedFields"} {
		delete(m, f)
	}
	if s, ok := c["spec"].(map[string]any); ok {
		delete(s, "package")
	}
	return verifsim.ObjDigest(c)
}

func sortKeys(ks []verifsim.Key) {
	sort.Slice(ks, func(i, j int) bool { return ks[i].String() < ks[j].String() })
}

// allowedFailure: the only documented way a fault-free initialisation may
// refuse to proceed in the generated space: the webhook TLS secret has
// material but no tls.crt (CoreCRDs / WebhookConfigurations: "cannot find
// tls.crt key in webhook tls secret"), which the generator never fills in
// because it keeps existing secrets.
func (w *world) allowedFailure(err error) bool {
	s := w.sc.Server
	if !w.sc.Opts.Webhook || !s.Present || s.has("tls.crt") || len(s.Keys) == 0 {
		return false
	}
	return err != nil // whatever the wording: this scenario class is the one documented refusal
}

// ---------------------------------------------------------------------------
// normal form of a store for comparing "aborted then repeated" with "run once"

func (w *world) normalForm(before, st map[verifsim.Key]verifsim.Obj) string {
	crt := base64.StdEncoding.EncodeToString(secretData(st[secretKey(serverSecret)])["tls.crt"])
	keys := make([]verifsim.Key, 0, len(st))
	for k := range st {
		keys = append(keys, k)
	}
	sortKeys(keys)
	var sb strings.Builder
	for _, k := range keys {
		c := verifsim.DeepCopy(st[k])
		m := verifsim.Meta(c)
		for _, f := range []string{"resourceVersion", "uid", "creationTimestamp", "generation", "managedFields"} {
			delete(m, f)
		}
		if k.GK() == gkSecret {
			bd := secretData(before[k])
			if !(len(bd["tls.crt"]) > 0 && len(bd["tls.key"]) > 0) {
				if d, ok := c["data"].(map[string]any); ok {
					for _, dk := range certKeys {
						if _, ok := d[dk]; ok && verifsim.ObjDigest(verifsim.Obj{"v": d[dk]}) != verifsim.ObjDigest(verifsim.Obj{"v": verifsim.Nested(before[k], "data", dk)}) {
							d[dk] = "<issued>"
						}
					}
				}
			}
		}
		b, _ := json.Marshal(c)
		s := string(b)
		if crt != "" {
			s = strings.ReplaceAll(s, crt, "<current tls.crt>")
		}
		sb.WriteString(k.String() + "=" + s + "\n")
	}
	return sb.String()
}

func diffLines(a, b string) string {
	al, bl := strings.Split(a, "\n"), strings.Split(b, "\n")
	am := map[string]bool{}
	for _, l := range al {
		am[l] = true
	}
	bm := map[string]bool{}
	for _, l := range bl {
		bm[l] = true
	}
	var out []string
	for _, l := range al {
		if !bm[l] {
			out = append(out, "- "+trunc(l))
		}
	}
	for _, l := range bl {
		if !am[l] {
			out = append(out, "+ "+trunc(l))
		}
	}
	return strings.Join(out, "\n")
}

func trunc(s string) string {
	if len(s) > 1500 {
		return s[:1500] + "...(" + fmt.Sprint(len(s)) + " bytes)"
	}
	return s
}

// ---------------------------------------------------------------------------
// drivers

func (w *world) label(rec *verifkit.Recorder) {
	sc := w.sc
	rec.Labelf("mode=%s", sc.Mode)
	rec.Labelf("webhook=%v", sc.Opts.Webhook)
	rec.Labelf("light-image=%v", sc.Opts.Light)
	if sc.Opts.ConvCRD {
		rec.Label("conversion-crd")
	}
	for _, e := range []struct {
		n  string
		st secretState
	}{{"ca", sc.CA}, {"server", sc.Server}, {"client", sc.Client}} {
		switch {
		case !e.st.Present:
			rec.Labelf("%s=absent", e.n)
		case len(e.st.Keys) == 0:
			rec.Labelf("%s=empty", e.n)
		case len(e.st.Keys) == map[bool]int{true: 2, false: 3}[e.n == "ca"]:
			rec.Labelf("%s=full", e.n)
		default:
			rec.Labelf("%s=partial", e.n)
		}
	}
	caComplete := sc.CA.Present && sc.CA.has("tls.crt") && sc.CA.has("tls.key")
	for _, e := range []struct {
		n  string
		st secretState
	}{{"server", sc.Server}, {"client", sc.Client}, {"ess", sc.ESSSecret}} {
		if e.st.Present && len(e.st.Keys) > 0 && len(e.st.Keys) < 3 {
			if caComplete {
				rec.Labelf("partial-%s:%s", e.n, bundleName(e.st.Keys))
			} else {
				rec.Labelf("partial-%s:%s(ca-incomplete)", e.n, bundleName(e.st.Keys))
			}
		}
	}
	for _, r := range sc.Requested {
		reg := "registry"
		if r.Ref.Registry == "" {
			reg = "noregistry"
		}
		id := "tag"
		if strings.HasPrefix(r.Ref.Ident, "@") {
			id = "digest"
		} else if r.Ref.Ident == "" {
			id = "noident"
		}
		custom := ""
		if r.Rel == "same" {
			for _, e := range sc.Existing {
				if e.Kind == r.Kind && e.Ref.identity() == r.Ref.identity() {
					custom = fmt.Sprintf("/custom=%v", e.Custom)
				}
			}
		}
		rec.Labelf("pkg:%s/%s/%s/%s%s", r.Kind, r.Rel, reg, id, custom)
	}
	if len(sc.OldStored) > 0 {
		rec.Label("migration-pending")
	}
	for _, x := range [][2]string{{"lock", sc.Lock}, {"store", sc.Store}, {"drc", sc.DRC}, {"webhooks", sc.Webhooks}} {
		rec.Labelf("%s=%s", x[0], x[1])
	}
}

func (w *world) nonTrivial() bool {
	sc := w.sc
	// something existed that could be clobbered or duplicated
	return len(sc.Existing) > 0 || sc.CA.Present || sc.Lock != "absent" || sc.Store != "absent" || len(sc.CRDs) > 0
}

// runAndCheck performs sc.Runs fault-free initialisations and checks every clause.
func (w *world) runAndCheck(rec *verifkit.Recorder) {
	before := w.sim.State()
	var err error
	if w.sc.Inter {
		var fired bool
		fired, err, _ = w.runInterleaved(w.sc.IK, w.sc.IM)
		if fired {
			rec.Labelf("interloper:fired/A-failed=%v", err != nil)
			w.checkSafety("run 1 (interleaved with a second initializer)", before, w.sim.State())
			if err != nil && !w.allowedFailure(err) {
				// Losing a race (AlreadyExists, Conflict) aborts the run; it is then repeated.
				_, err = w.run(nil)
			}
		} else {
			rec.Label("interloper:not-reached")
		}
	} else {
		_, err = w.run(nil)
	}
	after := w.sim.State()
	w.checkSafety("run 1", before, after)
	if err != nil {
		if w.allowedFailure(err) {
			rec.Label("refused:server-secret-without-tls.crt")
			// still idempotent: a repetition changes nothing either
			d := w.sim.Digest()
			if _, err2 := w.run(nil); err2 == nil || w.sim.Digest() != d {
				w.fail("VIOLATION run 2 after a refused run 1 (%v): err=%v, store changed=%v", err, err2, w.sim.Digest() != d)
			}
			return
		}
		w.fail("VIOLATION run 1: fault-free initialisation failed: %v", err)
	}
	w.checkComplete("run 1", before, after)
	d1 := w.sim.Digest()
	for i := 2; i <= w.sc.Runs; i++ {
		n0 := w.sim.LogLen()
		_, err := w.run(nil)
		if err != nil {
			w.fail("VIOLATION run %d: initialisation of an initialised cluster failed: %v", i, err)
		}
		if d := w.sim.Digest(); d != d1 {
			w.fail("VIOLATION run %d changed the store (run n must equal run 1):\n%s\nwrites: %s", i, diffLines(d1, d), w.changedWrites(n0))
		}
		if cw := w.changedWrites(n0); cw != "" {
			w.fail("VIOLATION run %d wrote to the store: %s", i, cw)
		}
		w.checkComplete(fmt.Sprintf("run %d", i), before, w.sim.State())
	}
}

func (w *world) changedWrites(from int) string {
	var out []string
	for _, wr := range w.sim.Log()[from:] {
		if wr.Changed {
			out = append(out, fmt.Sprintf("%s %s", wr.Verb, wr.Key))
		}
	}
	return strings.Join(out, "; ")
}

const rule = "scenario = init options (webhooks on/off, ESS, service reference, CRD with webhook conversion) + initial cluster (empty / Helm-created empty secrets / partial: any subset of TLS secrets, secret keys, core CRDs current or stale, pending storage migration, webhook configurations, Lock, StoreConfig, DeploymentRuntimeConfig possibly user-modified / initialised) + installed packages (custom or default name, 6 registry forms, tag/digest/none) + requested packages (same repository, other registry, new) + 1-3 runs; non-trivial = something existed before the first run that could be clobbered or duplicated"

func caseKey(sc scenario) string { return verifkit.JSON(sc) }

// TestVerifC20Runs: generated initial clusters and options, 1-3 fault-free runs.
func TestVerifC20Runs(t *testing.T) {
	f, err := loadFiles()
	if err != nil {
		t.Fatalf("VERIF-INCONCLUSIVE: cannot load cluster files: %v", err)
	}
	rec := verifkit.New(t, "C20", rule)
	rapid.Check(t, func(t *rapid.T) {
		sc := genScenario(f, "any", false).Draw(t, "scenario")
		rec.Eval()
		w := newWorld(sc, f, func(f string, a ...any) { t.Fatalf(f, a...) })
		w.label(rec)
		w.runAndCheck(rec)
		if w.nonTrivial() {
			rec.NonTrivial(caseKey(sc), func() any { return sc })
		}
	})
}

var sweepKinds = []verifsim.Fault{{Kind: verifsim.ErrBefore}, {Kind: verifsim.CrashBefore}, {Kind: verifsim.CrashAfter}}

// sweep aborts the initialisation at every API call index with every fault
// kind, repeats it to completion, and compares with the single fault-free run.
func (w *world) sweep(rec *verifkit.Recorder, only func(call string) bool) {
	base := w.sim.Snapshot()
	before := w.sim.State()
	probe, err := w.run(nil)
	if err != nil {
		w.fail("VIOLATION sweep probe: fault-free initialisation failed: %v", err)
	}
	ref := w.sim.State()
	w.checkSafety("sweep probe", before, ref)
	w.checkComplete("sweep probe", before, ref)
	refNF := w.normalForm(before, ref)
	K := probe.N
	rec.AddExtra("sweep_api_calls", K)
	kinds := sweepKinds
	if verifkit.Tier() == "thorough" {
		kinds = append(append([]verifsim.Fault(nil), sweepKinds...), verifsim.Fault{Kind: verifsim.ErrAfter}, verifsim.Fault{Kind: verifsim.ErrBefore, Err: "conflict"})
	}
	for k := 0; k < K; k++ {
		if only != nil && !only(probe.Calls[k]) {
			continue
		}
		for _, fk := range kinds {
			w.sim.Restore(base)
			ctx := fmt.Sprintf("fault %s(%s) at API call %d of %d [%s]", fk.Kind, fk.Err, k, K, probe.Calls[k])
			run, err := w.run(map[int]verifsim.Fault{k: fk})
			rec.AddExtra("fault_runs", 1)
			mid := w.sim.State()
			w.checkSafety(ctx+" / aborted run", before, mid)
			if err == nil && run.N > k && (fk.Kind == verifsim.ErrBefore || fk.Kind == verifsim.CrashBefore) {
				// (With the "after" kinds the call may legitimately report its own
				// outcome, e.g. AlreadyExists for a default object, which is ignored.)
				w.fail("VIOLATION %s: the run reported success although API call %d failed without effect", ctx, k)
			}
			if _, err := w.run(nil); err != nil {
				w.fail("VIOLATION %s: the repeated fault-free run failed: %v", ctx, err)
			}
			got := w.sim.State()
			w.checkSafety(ctx+" / repeated run", before, got)
			w.checkComplete(ctx+" / repeated run", before, got)
			if nf := w.normalForm(before, got); nf != refNF {
				w.fail("VIOLATION %s: aborted-then-repeated initialisation differs from a single run:\n%s", ctx, diffLines(refNF, nf))
			}
			if fk.Kind == verifsim.CrashAfter || fk.Kind == verifsim.ErrAfter {
				d := w.sim.Digest()
				n0 := w.sim.LogLen()
				if _, err := w.run(nil); err != nil {
					w.fail("VIOLATION %s: third run failed: %v", ctx, err)
				}
				if w.sim.Digest() != d {
					w.fail("VIOLATION %s: a further run changed the store:\n%s\nwrites: %s", ctx, diffLines(d, w.sim.Digest()), w.changedWrites(n0))
				}
			}
			if run.FirstWrite >= 0 && k >= run.FirstWrite {
				rec.NonTrivial(fmt.Sprintf("%s|%d|%v", caseKey(w.sc), k, fk), func() any {
					return map[string]any{"scenario": w.sc, "fault": fk.Kind.String(), "call_index": k, "call": probe.Calls[k], "calls_in_run": K}
				})
			}
		}
	}
	w.sim.Restore(base)
}

// TestVerifC20Sweep: every API call index x fault kind, with all TLS material present (no key generation).
func TestVerifC20Sweep(t *testing.T) {
	f, err := loadFiles()
	if err != nil {
		t.Fatalf("VERIF-INCONCLUSIVE: cannot load cluster files: %v", err)
	}
	rec := verifkit.New(t, "C20", "fault sweep: "+rule+"; every API call index of the run x {500 before, crash before, crash after (thorough: + lost reply, conflict)}, then a fault-free repetition; non-trivial = the fault hits at or after the first write")
	rapid.Check(t, func(t *rapid.T) {
		sc := genScenario(f, "full", true).Draw(t, "scenario")
		rec.Eval()
		w := newWorld(sc, f, func(f string, a ...any) { t.Fatalf(f, a...) })
		w.label(rec)
		w.sweep(rec, nil)
	})
}

// TestVerifC20SweepTLS: the same sweep restricted to the API calls that touch
// Secrets, on clusters whose TLS material is missing or partial (slow: RSA).
func TestVerifC20SweepTLS(t *testing.T) {
	f, err := loadFiles()
	if err != nil {
		t.Fatalf("VERIF-INCONCLUSIVE: cannot load cluster files: %v", err)
	}
	rec := verifkit.New(t, "C20", "TLS fault sweep: clusters with absent/empty/partial TLS secrets; every API call on a Secret x fault kind, then a fault-free repetition")
	rapid.Check(t, func(t *rapid.T) {
		sc := genScenario(f, "any", true).Filter(func(sc scenario) bool {
			s := sc.Server
			refused := sc.Opts.Webhook && s.Present && !s.has("tls.crt") && len(s.Keys) > 0
			return !refused && sc.Mode != "initialised"
		}).Draw(t, "scenario")
		rec.Eval()
		w := newWorld(sc, f, func(f string, a ...any) { t.Fatalf(f, a...) })
		w.label(rec)
		w.sweep(rec, func(call string) bool { return strings.Contains(call, "/Secret/") })
	})
}

// interloperSweep: for every API call of run A that touches a Secret, a second
// initializer B runs right before it - to completion, or killed after its 1st,
// 2nd or 3rd Secret write; A may then lose a race and abort, a fault-free run
// follows, and the end state must satisfy every clause.
func (w *world) interloperSweep(rec *verifkit.Recorder) {
	base := w.sim.Snapshot()
	before := w.sim.State()
	probe, err := w.run(nil)
	if err != nil {
		w.fail("VIOLATION interloper probe: fault-free initialisation failed: %v", err)
	}
	for k := 0; k < probe.N; k++ {
		if !strings.Contains(probe.Calls[k], "/Secret/") {
			continue
		}
		for _, m := range []int{1, 2, 3, 0} {
			w.sim.Restore(base)
			ctx := fmt.Sprintf("second initializer (killed after Secret write %d; 0 = runs to completion) before API call %d of %d [%s]", m, k, probe.N, probe.Calls[k])
			fired, errA, _ := w.runInterleaved(k, m)
			rec.AddExtra("interleaved_runs", 1)
			if !fired {
				w.fail("HARNESS %s: the interloper did not run", ctx)
			}
			w.checkSafety(ctx+" / interleaved", before, w.sim.State())
			rec.Labelf("interloper-sweep:A-failed=%v", errA != nil)
			if _, err := w.run(nil); err != nil {
				w.fail("VIOLATION %s: the fault-free run after the interleaving failed: %v (first initializer: %v)", ctx, err, errA)
			}
			got := w.sim.State()
			w.checkSafety(ctx+" / final run", before, got)
			w.checkComplete(ctx+" / final run", before, got)
			d := w.sim.Digest()
			if m == 0 {
				if _, err := w.run(nil); err != nil || w.sim.Digest() != d {
					w.fail("VIOLATION %s: a further run failed (%v) or changed the store:\n%s", ctx, err, diffLines(d, w.sim.Digest()))
				}
			}
			rec.NonTrivial(fmt.Sprintf("interloper|%s|%d|%d", caseKey(w.sc), k, m), func() any {
				return map[string]any{"scenario": w.sc, "interloper_before_call": k, "call": probe.Calls[k], "killed_after_secret_write": m, "first_initializer_error": fmt.Sprint(errA)}
			})
		}
	}
	w.sim.Restore(base)
}

// TestVerifC20Interloper: two initializers (e.g. two replicas' init containers) on a
// cluster whose CA is not complete yet.
func TestVerifC20Interloper(t *testing.T) {
	f, err := loadFiles()
	if err != nil {
		t.Fatalf("VERIF-INCONCLUSIVE: cannot load cluster files: %v", err)
	}
	rec := verifkit.New(t, "C20", "interloper sweep: clusters without a complete CA; before every API call of run A on a Secret a second initializer runs (complete, or killed after its 1st/2nd/3rd Secret write), then a fault-free run")
	rapid.Check(t, func(t *rapid.T) {
		sc := genScenario(f, "any", true).Filter(func(sc scenario) bool {
			s := sc.Server
			refused := sc.Opts.Webhook && s.Present && !s.has("tls.crt") && len(s.Keys) > 0
			caComplete := sc.CA.Present && sc.CA.has("tls.crt") && sc.CA.has("tls.key")
			return !refused && !caComplete
		}).Draw(t, "scenario")
		sc.Inter = false
		rec.Eval()
		w := newWorld(sc, f, func(f string, a ...any) { t.Fatalf(f, a...) })
		w.label(rec)
		w.interloperSweep(rec)
	})
}

// ---------------------------------------------------------------------------
// pinned regression rows

func TestVerifC20Pinned(t *testing.T) {
	f, err := loadFiles()
	if err != nil {
		t.Fatalf("VERIF-INCONCLUSIVE: cannot load cluster files: %v", err)
	}
	rec := verifkit.New(t, "C20", "pinned regression rows")
	base := func() scenario {
		return scenario{
			Opts: opts{Webhook: true, SvcName: "crossplane-webhooks", SvcNS: namespace, Port: 9443, ConvCRD: true, Light: true},
			Mode: "partial", CA: fullSecret(caKeys), Server: fullSecret(certKeys), Client: fullSecret(certKeys), ESSSecret: secretState{},
			CRDs:     map[string]string{"providers.pkg.crossplane.io": "current", "configurations.pkg.crossplane.io": "current", "functions.pkg.crossplane.io": "current"},
			Webhooks: "absent", Lock: "absent", Store: "absent", DRC: "absent", Runs: 2,
		}
	}
	rows := map[string]func(sc *scenario){
		// C20-1: the existing-package map is keyed with the registry host but looked up without it.
		"provider-custom-name-with-registry-host": func(sc *scenario) {
			sc.Existing = []existingPkg{{Kind: "Provider", Name: "my-custom-name", Custom: true, Ref: pkgRef{"xpkg.upbound.io", "crossplane-contrib/provider-aws", ":v1.0.0"}}}
			sc.Requested = []requestedPkg{{Kind: "Provider", Ref: pkgRef{"xpkg.upbound.io", "crossplane-contrib/provider-aws", ":v1.1.0"}, Rel: "same"}}
		},
		"configuration-custom-name-with-registry-host-digest": func(sc *scenario) {
			sc.Existing = []existingPkg{{Kind: "Configuration", Name: "platform", Custom: true, Ref: pkgRef{"registry.example.com:5000", "acme/platform-ref", ":v1.0.0"}, RevHist: 3}}
			sc.Requested = []requestedPkg{{Kind: "Configuration", Ref: pkgRef{"registry.example.com:5000", "acme/platform-ref", "@sha256:" + strings.Repeat("ab", 32)}, Rel: "same"}}
		},
		"function-custom-name-with-registry-host": func(sc *scenario) {
			sc.Existing = []existingPkg{{Kind: "Function", Name: "pat", Custom: true, Ref: pkgRef{"index.docker.io", "crossplane-contrib/function-patch-and-transform", ":v0.1.0"}}}
			sc.Requested = []requestedPkg{{Kind: "Function", Ref: pkgRef{"index.docker.io", "crossplane-contrib/function-patch-and-transform", ":v0.2.0"}, Rel: "same"}}
		},
		// the form the existing unit tests cover: no registry host
		"provider-custom-name-without-registry-host": func(sc *scenario) {
			sc.Existing = []existingPkg{{Kind: "Provider", Name: "my-custom-name", Custom: true, Ref: pkgRef{"", "crossplane-contrib/provider-aws", ":v1.0.0"}}}
			sc.Requested = []requestedPkg{{Kind: "Provider", Ref: pkgRef{"", "crossplane-contrib/provider-aws", ":v1.1.0"}, Rel: "same"}}
		},
		// C20-a (seeded): with a complete CA, a server/client secret holding only part of
		// the bundle must be left as it is, not filled with a newly issued pair.
		"partial-server-crt-only": func(sc *scenario) { sc.Server = secretState{Present: true, Keys: []string{"tls.crt"}} },
		"partial-server-key-only": func(sc *scenario) { sc.Server = secretState{Present: true, Keys: []string{"tls.key"}} },
		"partial-server-ca-only":  func(sc *scenario) { sc.Server = secretState{Present: true, Keys: []string{"ca.crt"}} },
		"partial-client-crt-only": func(sc *scenario) { sc.Client = secretState{Present: true, Keys: []string{"tls.crt"}} },
		"partial-client-key-only": func(sc *scenario) { sc.Client = secretState{Present: true, Keys: []string{"tls.key"}} },
		"partial-client-ca-only":  func(sc *scenario) { sc.Client = secretState{Present: true, Keys: []string{"ca.crt"}} },
		"partial-ess-crt-only": func(sc *scenario) {
			sc.Opts.ESS = true
			sc.ESSSecret = secretState{Present: true, Keys: []string{"tls.crt"}, Extra: true}
		},
		// C20-b (seeded): initializer B creates the CA secret between A's Get (NotFound) and
		// Create and dies; A must not go on signing with the CA it generated locally.
		"interloper-creates-ca-between-get-and-create": func(sc *scenario) {
			*sc = scenario{Opts: sc.Opts, Mode: "empty", Webhooks: "absent", Lock: "absent", Store: "absent", DRC: "absent", Runs: 2, CRDs: map[string]string{},
				Inter: true, IK: 1, IM: 1}
		},
		"interloper-creates-ca-and-server-secret": func(sc *scenario) {
			*sc = scenario{Opts: sc.Opts, Mode: "empty", Webhooks: "absent", Lock: "absent", Store: "absent", DRC: "absent", Runs: 2, CRDs: map[string]string{},
				Inter: true, IK: 1, IM: 2}
		},
		"fresh-cluster": func(sc *scenario) {
			*sc = scenario{Opts: sc.Opts, Mode: "empty", Webhooks: "absent", Lock: "absent", Store: "absent", DRC: "absent", Runs: 3, CRDs: map[string]string{},
				Requested: []requestedPkg{{Kind: "Provider", Ref: pkgRef{"xpkg.upbound.io", "upbound/provider-gcp", ":v1.0.0"}, Rel: "new"}}}
			sc.Opts.ESS = true
			sc.Opts.Light = false
		},
	}
	var names []string
	for n := range rows {
		names = append(names, n)
	}
	sort.Strings(names)
	for _, n := range names {
		t.Run(n, func(t *testing.T) {
			sc := base()
			rows[n](&sc)
			rec.Eval()
			w := newWorld(sc, f, func(f string, a ...any) { t.Fatalf(f, a...) })
			w.label(rec)
			w.runAndCheck(rec)
			rec.NonTrivial("pinned|"+n, func() any { return sc })
		})
	}
}

var _ = unstructured.Unstructured{}
var _ client.Object
