//go:build verif

package core

// Property C20, flag-to-step plumbing of `crossplane core init`: the REAL
// initCommand.Run is executed with generated flag values against an in-process
// HTTP API server (net/http/httptest) that adapts the simulated API server for
// Secrets. /crds does not exist in the sandbox, so Run stops at the CoreCRDs
// step: what is covered is the construction and execution of the first TLS
// certificate generator step (CA, webhook server certificate, client
// certificate) from the command's flags. The oracle looks only at what Run
// stored.

import (
	"bytes"
	"context"
	"crypto/rsa"
	"crypto/x509"
	"encoding/json"
	"encoding/pem"
	"fmt"
	"io"
	"net/http"
	"net/http/httptest"
	"os"
	"path/filepath"
	"sort"
	"strings"
	"sync"
	"testing"
	"time"

	corev1 "k8s.io/api/core/v1"
	kerrors "k8s.io/apimachinery/pkg/api/errors"
	metav1 "k8s.io/apimachinery/pkg/apis/meta/v1"
	"k8s.io/apimachinery/pkg/runtime"
	"k8s.io/apimachinery/pkg/runtime/serializer"
	"k8s.io/apimachinery/pkg/types"
	"pgregory.net/rapid"

	"github.com/crossplane/crossplane-runtime/pkg/logging"

	"github.com/crossplane/crossplane/internal/initializer"
	"github.com/crossplane/crossplane/internal/verifkit"
	"github.com/crossplane/crossplane/internal/verifsim"
)

// ---------------------------------------------------------------------------
// a minimal REST front end for verifsim: discovery for core/v1 and Secrets

type verifC20API struct {
	sim    *verifsim.Sim
	codecs serializer.CodecFactory
	mu     sync.Mutex
	reqs   []string
}

func (a *verifC20API) status(w http.ResponseWriter, err error) {
	st := metav1.Status{TypeMeta: metav1.TypeMeta{Kind: "Status", APIVersion: "v1"}, Status: metav1.StatusFailure, Code: http.StatusInternalServerError, Message: err.Error(), Reason: metav1.StatusReasonInternalError}
	if as, ok := err.(kerrors.APIStatus); ok {
		st = as.Status()
		st.TypeMeta = metav1.TypeMeta{Kind: "Status", APIVersion: "v1"}
	}
	b, _ := json.Marshal(st)
	w.Header().Set("Content-Type", "application/json")
	w.WriteHeader(int(st.Code))
	_, _ = w.Write(b)
}

func (a *verifC20API) object(w http.ResponseWriter, code int, o any) {
	b, _ := json.Marshal(o)
	w.Header().Set("Content-Type", "application/json")
	w.WriteHeader(code)
	_, _ = w.Write(b)
}

func (a *verifC20API) ServeHTTP(w http.ResponseWriter, r *http.Request) {
	a.mu.Lock()
	a.reqs = append(a.reqs, r.Method+" "+r.URL.Path)
	a.mu.Unlock()
	ctx := context.Background()
	c := a.sim.Client("init")
	p := strings.Trim(r.URL.Path, "/")
	switch {
	case r.Method == http.MethodGet && p == "api":
		a.object(w, 200, metav1.APIVersions{TypeMeta: metav1.TypeMeta{Kind: "APIVersions"}, Versions: []string{"v1"}})
		return
	case r.Method == http.MethodGet && p == "apis":
		a.object(w, 200, metav1.APIGroupList{TypeMeta: metav1.TypeMeta{Kind: "APIGroupList", APIVersion: "v1"}, Groups: []metav1.APIGroup{}})
		return
	case r.Method == http.MethodGet && p == "api/v1":
		a.object(w, 200, metav1.APIResourceList{TypeMeta: metav1.TypeMeta{Kind: "APIResourceList", APIVersion: "v1"}, GroupVersion: "v1",
			APIResources: []metav1.APIResource{{Name: "secrets", SingularName: "secret", Namespaced: true, Kind: "Secret", Verbs: metav1.Verbs{"create", "delete", "get", "list", "patch", "update", "watch"}}}})
		return
	}
	// api/v1/namespaces/{ns}/secrets[/{name}]
	seg := strings.Split(p, "/")
	if len(seg) < 5 || seg[0] != "api" || seg[1] != "v1" || seg[2] != "namespaces" || seg[4] != "secrets" || len(seg) > 6 {
		a.status(w, kerrors.NewNotFound(corev1.Resource("unknown"), p))
		return
	}
	ns := seg[3]
	decode := func() (*corev1.Secret, error) {
		body, err := io.ReadAll(r.Body)
		if err != nil {
			return nil, err
		}
		sec := &corev1.Secret{}
		// JSON or protobuf (controller-runtime uses protobuf for built-in types)
		if _, _, err := a.codecs.UniversalDeserializer().Decode(body, nil, sec); err != nil {
			return nil, kerrors.NewBadRequest("cannot decode body: " + err.Error())
		}
		sec.Namespace = ns
		return sec, nil
	}
	out := func(code int, sec *corev1.Secret) {
		sec.TypeMeta = metav1.TypeMeta{Kind: "Secret", APIVersion: "v1"}
		a.object(w, code, sec)
	}
	switch {
	case r.Method == http.MethodGet && len(seg) == 6:
		sec := &corev1.Secret{}
		if err := c.Get(ctx, types.NamespacedName{Namespace: ns, Name: seg[5]}, sec); err != nil {
			a.status(w, err)
			return
		}
		out(200, sec)
	case r.Method == http.MethodPost && len(seg) == 5:
		sec, err := decode()
		if err == nil {
			err = c.Create(ctx, sec)
		}
		if err != nil {
			a.status(w, err)
			return
		}
		out(201, sec)
	case r.Method == http.MethodPut && len(seg) == 6:
		sec, err := decode()
		if err == nil && sec.Name != seg[5] {
			err = kerrors.NewBadRequest("the name of the object does not match the name on the URL")
		}
		if err == nil {
			err = c.Update(ctx, sec)
		}
		if err != nil {
			a.status(w, err)
			return
		}
		out(200, sec)
	default:
		a.status(w, kerrors.NewMethodNotSupported(corev1.Resource("secrets"), r.Method))
	}
}

// ---------------------------------------------------------------------------
// scenario

type verifC20Flags struct {
	Namespace               string   `json:"namespace"`
	ServiceAccount          string   `json:"serviceAccount"`
	WebhookEnabled          bool     `json:"webhookEnabled"`
	WebhookServiceName      string   `json:"webhookServiceName"`
	WebhookServiceNamespace string   `json:"webhookServiceNamespace"`
	WebhookServicePort      int32    `json:"webhookServicePort"`
	ESSTLSServerSecretName  string   `json:"essTLSServerSecretName"`
	TLSCASecretName         string   `json:"tlsCASecretName"`
	TLSServerSecretName     string   `json:"tlsServerSecretName"`
	TLSClientSecretName     string   `json:"tlsClientSecretName"`
	Providers               []string `json:"providers,omitempty"`
	Configurations          []string `json:"configurations,omitempty"`
	Functions               []string `json:"functions,omitempty"`
}

type verifC20Case struct {
	Flags  verifC20Flags `json:"flags"`
	CA     string        `json:"ca"`     // absent | empty | full
	Server string        `json:"server"` // absent | empty | full
	Client string        `json:"client"` // absent | empty | full
}

func verifC20Gen() *rapid.Generator[verifC20Case] {
	return rapid.Custom(func(t *rapid.T) verifC20Case {
		// All values that could be confused with one another are drawn distinct on purpose.
		nss := rapid.Permutation([]string{"crossplane-system", "xp-webhooks", "platform"}).Draw(t, "namespaces")
		names := rapid.Permutation([]string{"crossplane-root-ca", "crossplane-tls-server", "crossplane-tls-client", "ess-server-certs", "xp-certs-a", "xp-certs-b"}).Draw(t, "secretnames")
		f := verifC20Flags{
			Namespace:               nss[0],
			WebhookServiceNamespace: nss[1],
			ServiceAccount:          rapid.SampledFrom([]string{"crossplane", "xp-sa"}).Draw(t, "sa"),
			WebhookEnabled:          rapid.IntRange(0, 5).Draw(t, "webhook") > 0,
			WebhookServiceName:      rapid.SampledFrom([]string{"crossplane-webhooks", "hooks"}).Draw(t, "svc"),
			WebhookServicePort:      rapid.SampledFrom([]int32{9443, 443}).Draw(t, "port"),
			TLSCASecretName:         names[0],
			TLSServerSecretName:     names[1],
			TLSClientSecretName:     names[2],
		}
		if rapid.IntRange(0, 4).Draw(t, "samens") == 0 {
			f.WebhookServiceNamespace = f.Namespace // the chart's default
		}
		if rapid.Bool().Draw(t, "ess") {
			f.ESSTLSServerSecretName = names[3]
		}
		if rapid.Bool().Draw(t, "pkgs") {
			f.Providers = []string{"xpkg.upbound.io/crossplane-contrib/provider-aws:v1.0.0"}
			f.Functions = []string{"xpkg.upbound.io/crossplane-contrib/function-patch-and-transform:v0.2.0"}
		}
		st := []string{"absent", "empty", "full"}
		return verifC20Case{Flags: f,
			CA:     rapid.SampledFrom(st).Draw(t, "ca"),
			Server: rapid.SampledFrom([]string{"absent", "absent", "empty", "empty", "full"}).Draw(t, "server"),
			Client: rapid.SampledFrom(st).Draw(t, "client"),
		}
	})
}

// pre-generated material, made once per process by the real generator
var (
	verifC20PoolOnce sync.Once
	verifC20Pool     map[string]map[string][]byte
	verifC20PoolErr  error
)

func verifC20Material() (map[string]map[string][]byte, error) {
	verifC20PoolOnce.Do(func() {
		s := verifsim.New(verifsim.NewScheme())
		c := s.Client("pool")
		step := initializer.NewTLSCertificateGenerator("pool", "ca",
			initializer.TLSCertificateGeneratorWithServerSecretName("server", []string{"old-service", "old-service.old-ns", "old-service.old-ns.svc"}),
			initializer.TLSCertificateGeneratorWithClientSecretName("client", []string{"old-sa.old-ns"}))
		if err := step.Run(context.Background(), c); err != nil {
			verifC20PoolErr = err
			return
		}
		verifC20Pool = map[string]map[string][]byte{}
		for _, n := range []string{"ca", "server", "client"} {
			sec := &corev1.Secret{}
			if err := c.Get(context.Background(), types.NamespacedName{Namespace: "pool", Name: n}, sec); err != nil {
				verifC20PoolErr = err
				return
			}
			verifC20Pool[n] = sec.Data
		}
	})
	return verifC20Pool, verifC20PoolErr
}

func verifC20ParseCert(b []byte) (*x509.Certificate, error) {
	blk, _ := pem.Decode(b)
	if blk == nil {
		return nil, fmt.Errorf("not PEM")
	}
	return x509.ParseCertificate(blk.Bytes)
}

func verifC20Secrets(s *verifsim.Sim) map[string]map[string][]byte {
	out := map[string]map[string][]byte{}
	c := s.Client("oracle")
	for _, k := range s.Keys(corev1.SchemeGroupVersion.WithKind("Secret").GroupKind()) {
		sec := &corev1.Secret{}
		if err := c.Get(context.Background(), types.NamespacedName{Namespace: k.Namespace, Name: k.Name}, sec); err == nil {
			out[k.Namespace+"/"+k.Name] = sec.Data
		}
	}
	return out
}

func verifC20Keys(m map[string]map[string][]byte) []string {
	var out []string
	for k := range m {
		out = append(out, k)
	}
	sort.Strings(out)
	return out
}

func verifC20RunCase(t interface {
	Fatalf(string, ...any)
}, cs verifC20Case, rec *verifkit.Recorder, setenv func(k, v string), dir string) {
	pool, err := verifC20Material()
	if err != nil {
		t.Fatalf("VERIF-INCONCLUSIVE: cannot pre-generate TLS material: %v", err)
	}
	scheme := verifsim.NewScheme()
	sim := verifsim.New(scheme)
	f := cs.Flags
	seed := sim.Client("seed")
	for _, e := range []struct{ name, state, src string }{{f.TLSCASecretName, cs.CA, "ca"}, {f.TLSServerSecretName, cs.Server, "server"}, {f.TLSClientSecretName, cs.Client, "client"}} {
		if e.state == "absent" {
			continue
		}
		sec := &corev1.Secret{ObjectMeta: metav1.ObjectMeta{Namespace: f.Namespace, Name: e.name}}
		if e.state == "full" {
			sec.Data = pool[e.src]
		}
		if err := seed.Create(context.Background(), sec); err != nil {
			t.Fatalf("HARNESS: seeding %s: %v", e.name, err)
		}
	}
	before := verifC20Secrets(sim)

	api := &verifC20API{sim: sim, codecs: serializer.NewCodecFactory(scheme)}
	srv := httptest.NewServer(api)
	defer srv.Close()
	kc := filepath.Join(dir, "kubeconfig")
	kubeconfig := fmt.Sprintf("apiVersion: v1\nkind: Config\nclusters:\n- name: sim\n  cluster:\n    server: %s\ncontexts:\n- name: sim\n  context:\n    cluster: sim\n    user: sim\ncurrent-context: sim\nusers:\n- name: sim\n  user:\n    token: verif\n", srv.URL)
	if err := os.WriteFile(kc, []byte(kubeconfig), 0o600); err != nil {
		t.Fatalf("HARNESS: %v", err)
	}
	setenv("KUBECONFIG", kc)

	cmd := func() *initCommand {
		return &initCommand{
			Providers: f.Providers, Configurations: f.Configurations, Functions: f.Functions,
			Namespace: f.Namespace, ServiceAccount: f.ServiceAccount,
			WebhookEnabled: f.WebhookEnabled, WebhookServiceName: f.WebhookServiceName, WebhookServiceNamespace: f.WebhookServiceNamespace, WebhookServicePort: f.WebhookServicePort,
			ESSTLSServerSecretName: f.ESSTLSServerSecretName, TLSCASecretName: f.TLSCASecretName, TLSServerSecretName: f.TLSServerSecretName, TLSClientSecretName: f.TLSClientSecretName,
		}
	}
	// Run is expected to stop with an error at the CoreCRDs step (no /crds directory
	// here, and this front end serves Secrets only); everything before it has happened.
	runErr := cmd().Run(scheme, logging.NewNopLogger())
	after := verifC20Secrets(sim)
	fail := func(format string, a ...any) {
		t.Fatalf("VIOLATION (real initCommand.Run, flags %s, initial ca=%s server=%s client=%s, Run returned: %v; requests: %v): %s", verifkit.JSON(f), cs.CA, cs.Server, cs.Client, runErr, api.reqs, fmt.Sprintf(format, a...))
	}

	// exactly the configured secrets exist, in the pod namespace
	want := map[string]bool{f.Namespace + "/" + f.TLSCASecretName: true, f.Namespace + "/" + f.TLSClientSecretName: true}
	if f.WebhookEnabled || cs.Server != "absent" {
		want[f.Namespace+"/"+f.TLSServerSecretName] = true
	}
	for k := range after {
		if !want[k] {
			fail("unexpected secret %s was written (secrets now: %v)", k, verifC20Keys(after))
		}
	}
	for k := range want {
		if _, ok := after[k]; !ok {
			fail("secret %s does not exist after the TLS step (secrets now: %v)", k, verifC20Keys(after))
		}
	}
	// pre-populated material is untouched
	for k, bd := range before {
		if len(bd) == 0 {
			continue
		}
		ad := after[k]
		for dk, dv := range bd {
			if !bytes.Equal(dv, ad[dk]) {
				fail("pre-populated secret %s: %s was changed", k, dk)
			}
		}
		if len(ad) != len(bd) {
			fail("pre-populated secret %s gained keys", k)
		}
	}
	ca := after[f.Namespace+"/"+f.TLSCASecretName]
	caCert, err := verifC20ParseCert(ca["tls.crt"])
	if err != nil || len(ca["tls.key"]) == 0 {
		fail("no complete CA in %s (%v)", f.TLSCASecretName, err)
	}
	if !caCert.IsCA {
		fail("certificate in %s is not a CA", f.TLSCASecretName)
	}
	roots := x509.NewCertPool()
	roots.AddCert(caCert)
	type spec struct {
		name  string
		state string
		dns   []string
		usage x509.ExtKeyUsage
		on    bool
	}
	for _, sp := range []spec{
		// the names under which the API server and in-cluster clients reach Service WebhookServiceName in namespace WebhookServiceNamespace
		{f.TLSServerSecretName, cs.Server, []string{f.WebhookServiceName, f.WebhookServiceName + "." + f.WebhookServiceNamespace, f.WebhookServiceName + "." + f.WebhookServiceNamespace + ".svc"}, x509.ExtKeyUsageServerAuth, f.WebhookEnabled},
		{f.TLSClientSecretName, cs.Client, []string{f.ServiceAccount + "." + f.Namespace}, x509.ExtKeyUsageClientAuth, true},
	} {
		if !sp.on || sp.state == "full" {
			continue
		}
		d := after[f.Namespace+"/"+sp.name]
		leaf, err := verifC20ParseCert(d["tls.crt"])
		if err != nil {
			fail("secret %s: no parseable tls.crt was issued: %v", sp.name, err)
		}
		if _, err := leaf.Verify(x509.VerifyOptions{Roots: roots, KeyUsages: []x509.ExtKeyUsage{sp.usage}, CurrentTime: leaf.NotBefore.Add(time.Minute)}); err != nil {
			fail("newly issued certificate in %s does not verify against the STORED CA of %s: %v", sp.name, f.TLSCASecretName, err)
		}
		if !bytes.Equal(d["ca.crt"], ca["tls.crt"]) {
			fail("ca.crt of newly issued %s is not the stored CA certificate", sp.name)
		}
		for _, n := range sp.dns {
			if err := leaf.VerifyHostname(n); err != nil {
				fail("newly issued certificate in %s does not cover DNS name %q (SANs %v): %v", sp.name, n, leaf.DNSNames, err)
			}
		}
		kb, _ := pem.Decode(d["tls.key"])
		if kb == nil {
			fail("secret %s: tls.key is not PEM", sp.name)
		}
		key, err := x509.ParsePKCS1PrivateKey(kb.Bytes)
		if err != nil {
			fail("secret %s: tls.key does not parse: %v", sp.name, err)
		}
		if pub, ok := leaf.PublicKey.(*rsa.PublicKey); !ok || !pub.Equal(&key.PublicKey) {
			fail("secret %s: tls.key does not belong to tls.crt", sp.name)
		}
	}
	// a second run changes nothing
	d1 := sim.Digest()
	runErr = cmd().Run(scheme, logging.NewNopLogger())
	if sim.Digest() != d1 {
		fail("a second run changed the stored secrets")
	}
	if rec != nil {
		rec.Labelf("webhook=%v", f.WebhookEnabled)
		rec.Labelf("webhook-ns-differs=%v", f.WebhookServiceNamespace != f.Namespace)
		rec.Labelf("ca=%s", cs.CA)
		rec.Labelf("server=%s", cs.Server)
		rec.Labelf("client=%s", cs.Client)
		rec.Labelf("run-stopped=%v", runErr != nil)
		if f.WebhookEnabled && cs.Server != "full" && f.WebhookServiceNamespace != f.Namespace {
			rec.NonTrivial(verifkit.JSON(cs), func() any { return cs })
		}
	}
}

// TestVerifC20InitCommand runs the real initCommand.Run with generated flags.
func TestVerifC20InitCommand(t *testing.T) {
	rec := verifkit.New(t, "C20", "real initCommand.Run over HTTP against the simulated API server (Secrets only; Run stops at CoreCRDs): generated flags with pairwise distinct namespaces and secret names x initial CA/server/client secret absent, empty or pre-populated; non-trivial = webhooks on, server certificate newly issued, webhook service namespace != pod namespace")
	dir := t.TempDir()
	old, had := os.LookupEnv("KUBECONFIG")
	defer func() {
		if had {
			_ = os.Setenv("KUBECONFIG", old)
		} else {
			_ = os.Unsetenv("KUBECONFIG")
		}
	}()
	setenv := func(k, v string) { _ = os.Setenv(k, v) }
	rapid.Check(t, func(rt *rapid.T) {
		cs := verifC20Gen().Draw(rt, "case")
		rec.Eval()
		verifC20RunCase(rt, cs, rec, setenv, dir)
	})
}

// TestVerifC20InitCommandPinned: the chart-like configuration with a separate webhook namespace.
func TestVerifC20InitCommandPinned(t *testing.T) {
	dir := t.TempDir()
	cs := verifC20Case{Flags: verifC20Flags{Namespace: "crossplane-system", ServiceAccount: "crossplane", WebhookEnabled: true, WebhookServiceName: "crossplane-webhooks", WebhookServiceNamespace: "xp-webhooks", WebhookServicePort: 9443,
		TLSCASecretName: "crossplane-root-ca", TLSServerSecretName: "crossplane-tls-server", TLSClientSecretName: "crossplane-tls-client"}, CA: "empty", Server: "empty", Client: "empty"}
	verifC20RunCase(t, cs, nil, func(k, v string) { t.Setenv(k, v) }, dir)
	cs.CA, cs.Server, cs.Client = "full", "absent", "full"
	verifC20RunCase(t, cs, nil, func(k, v string) { t.Setenv(k, v) }, dir)
}

var _ runtime.Object
