//go:build verif

package c06

import (
	"fmt"
	"os"
	"testing"
)

func TestVerifC06DebugCalls(t *testing.T) {
	if os.Getenv("VERIF_C06_DEBUG") == "" {
		t.Skip()
	}
	for _, sc := range pinnedScenarios() {
		w := newWorld(sc, func(f string, a ...any) { t.Fatalf(f, a...) })
		w.ssaNow = sc.SSA
		for i := 0; i < 3; i++ {
			l0 := w.sim.LogLen()
			run, err := w.claimReconcile(sc.Claim, nil, 0, nil)
			fmt.Printf("%s reconcile %d err=%v\n", sc.config(), i, err)
			for j, c := range run.Calls {
				fmt.Printf("   %2d %s\n", j, c)
			}
			for _, wr := range w.sim.Log()[l0:] {
				fmt.Printf("   W %s %s/%s %s changed=%v err=%q\n", wr.Actor, wr.Verb, wr.Sub, wr.Key.Name, wr.Changed, wr.Err)
			}
			w.xrReconcileAll()
			fmt.Printf("  refHist=%v\n", w.st.refHist)
		}
	}
}
