//go:build verif

// Package c06 decides property C06: a claim binds exactly one XR and never
// hijacks another claim's XR, however a claim reconcile is interrupted and even
// when the claim was read from a stale cache; for both claim syncers.
//
// Code under test: claim.NewReconciler with the default client-side syncer and
// with the server-side syncer + PatchingManagedFieldsUpgrader, wired as
// offered/reconciler.go wires them (default / EnableBetaClaimSSA), and the real
// names.NewNameGenerator. The XR actor is the REAL composite reconciler
// (verifenv) with a trivial Resources-mode composition (0 or 1 template).
//
// Cache model: only reads OF THE CLAIM are stale (as the quantifier says); a
// controller's cached view of a claim never goes back in time (an informer
// cache is monotone per object), so the version a reconcile observes is at
// least as new as the version the same controller observed before. Writes
// always hit the live store.
//
// Domain note: both syncers concede in a comment that a generated-name
// collision (1 in ~8 million per attempt) hijacks an existing XR. The
// generators never construct such a collision; it is outside this check.
package c06

import (
	"context"
	"encoding/json"
	"fmt"
	"sort"
	"strings"
	"testing"

	extv1 "k8s.io/apiextensions-apiserver/pkg/apis/apiextensions/v1"
	"k8s.io/apimachinery/pkg/apis/meta/v1/unstructured"
	"k8s.io/apimachinery/pkg/runtime"
	"k8s.io/apimachinery/pkg/types"
	utilrand "k8s.io/apimachinery/pkg/util/rand"
	"k8s.io/utils/ptr"
	"pgregory.net/rapid"
	"sigs.k8s.io/controller-runtime/pkg/client"
	"sigs.k8s.io/controller-runtime/pkg/reconcile"

	"github.com/crossplane/crossplane-runtime/pkg/resource"
	ucl "github.com/crossplane/crossplane-runtime/pkg/resource/unstructured/claim"

	v1 "github.com/crossplane/crossplane/apis/apiextensions/v1"
	"github.com/crossplane/crossplane/internal/controller/apiextensions/claim"
	"github.com/crossplane/crossplane/internal/names"
	"github.com/crossplane/crossplane/internal/verifenv"
	"github.com/crossplane/crossplane/internal/verifkit"
	"github.com/crossplane/crossplane/internal/verifsim"
)

const (
	labelClaimName = "crossplane.io/claim-name"
	labelClaimNS   = "crossplane.io/claim-namespace"
	annComposed    = "crossplane.io/composition-resource-name"
	claimGroup     = "example.org"
	claimKind      = "Thing"
	xrKind         = "XThing"
	ctrlPrefix     = "claim-ctrl/"
)

// ---------------------------------------------------------------------------
// scenario model

type claimID struct {
	NS   string `json:"ns"`
	Name string `json:"name"`
}

func (c claimID) actor() string { return ctrlPrefix + c.NS + "/" + c.Name }
func (c claimID) key() verifsim.Key {
	return verifsim.Key{Group: claimGroup, Kind: claimKind, Namespace: c.NS, Name: c.Name}
}
func (c claimID) String() string { return c.NS + "/" + c.Name }

// Pre-existing XR classes.
const (
	preNone            = "none"
	preForeignOrganic  = "foreign-organic"  // another claim B exists and was bound to its XR by its own controller
	preForeignDangling = "foreign-dangling" // an XR whose claimRef names a claim that (no longer) exists
	preUnbound         = "unbound"          // a statically provisioned XR without claimRef
)

type scenario struct {
	SSA     bool  `json:"ssa"`
	Upgrade bool  `json:"upgrade,omitempty"` // SSA only: the setup/prefix reconciles ran with the client-side syncer
	Seed    int64 `json:"seed"`

	Claim        claimID           `json:"claim"`
	Params       map[string]string `json:"params,omitempty"`
	Labels       map[string]string `json:"labels,omitempty"`
	Annotations  map[string]string `json:"annotations,omitempty"`
	DeletePolicy string            `json:"deletePolicy,omitempty"`

	Pre string `json:"pre"`
	// How the foreign claim reference differs from ours: "name", "namespace", "both", "kind" (dangling only).
	ForeignDiff string `json:"foreignDiff,omitempty"`
	// Referenced: our claim's spec.resourceRef names the pre-existing XR.
	Referenced bool `json:"referenced,omitempty"`
	// RefVersion: the API version recorded in the pre-existing spec.resourceRef ("" = the current one, v1).
	// Another served version of the same group/kind (a ref written before the XRD's referenceable
	// version was bumped) still names the same XR.
	RefVersion string `json:"refVersion,omitempty"`
	// ForeignReconciled: the XR controller reconciled the pre-existing XR before the history starts.
	ForeignReconciled bool `json:"foreignReconciled,omitempty"`
	Composed          int  `json:"composed"` // templates in the composition (0 or 1)
	// Taken: the first n names the name generator will draw for our claim already belong to XRs bound
	// to a same-named claim in another namespace (a collision forced by seeding util/rand, not luck).
	Taken int `json:"taken,omitempty"`
}

func (sc scenario) config() string {
	switch {
	case sc.SSA && sc.Upgrade:
		return "csa->ssa"
	case sc.SSA:
		return "ssa"
	}
	return "csa"
}

func (sc scenario) other() claimID {
	o := sc.Claim
	switch sc.ForeignDiff {
	case "name":
		o.Name = "other"
	case "namespace":
		o.NS = "ns-other"
	case "both":
		o.Name, o.NS = "other", "ns-other"
	}
	return o
}

func genScenario() *rapid.Generator[scenario] {
	return rapid.Custom(func(t *rapid.T) scenario {
		sc := scenario{
			SSA:    rapid.Bool().Draw(t, "ssa"),
			Seed:   rapid.Int64Range(1, 1<<40).Draw(t, "nameseed"),
			Claim:  claimID{NS: rapid.SampledFrom([]string{"ns1", "ns2"}).Draw(t, "ns"), Name: rapid.SampledFrom([]string{"cm", "db"}).Draw(t, "name")},
			Params: map[string]string{}, Labels: map[string]string{}, Annotations: map[string]string{},
		}
		if sc.SSA {
			sc.Upgrade = rapid.IntRange(0, 2).Draw(t, "upgrade") == 0
		}
		for i := 0; i < 2; i++ {
			if rapid.Bool().Draw(t, "param") {
				sc.Params[fmt.Sprintf("p%d", i)] = rapid.SampledFrom([]string{"x", "y"}).Draw(t, "pv")
			}
		}
		if rapid.IntRange(0, 2).Draw(t, "label") == 0 {
			sc.Labels[rapid.SampledFrom([]string{"team", "app.kubernetes.io/name", labelClaimName}).Draw(t, "lk")] = "l"
		}
		if rapid.IntRange(0, 2).Draw(t, "ann") == 0 {
			sc.Annotations[rapid.SampledFrom([]string{"note", "crossplane.io/external-name", "kubectl.kubernetes.io/last-applied-configuration"}).Draw(t, "ak")] = "a"
		}
		sc.DeletePolicy = rapid.SampledFrom([]string{"", "", "Background", "Foreground"}).Draw(t, "deletePolicy")
		sc.Pre = rapid.SampledFrom([]string{preNone, preNone, preForeignOrganic, preForeignOrganic, preForeignDangling, preUnbound}).Draw(t, "pre")
		switch sc.Pre {
		case preForeignOrganic:
			sc.ForeignDiff = rapid.SampledFrom([]string{"name", "namespace", "both"}).Draw(t, "diff")
		case preForeignDangling:
			sc.ForeignDiff = rapid.SampledFrom([]string{"name", "namespace", "both", "kind"}).Draw(t, "diff")
		}
		if sc.Pre != preNone {
			sc.Referenced = rapid.IntRange(0, 3).Draw(t, "referenced") != 0
			sc.ForeignReconciled = rapid.Bool().Draw(t, "foreignReconciled")
			if sc.Referenced {
				sc.RefVersion = rapid.SampledFrom([]string{"", "", "v1alpha1"}).Draw(t, "refVersion")
			}
		}
		sc.Composed = rapid.IntRange(0, 1).Draw(t, "composed")
		sc.Taken = rapid.SampledFrom([]int{0, 0, 1, 2}).Draw(t, "taken")
		return sc
	})
}

// flt is one injected fault (JSON-friendly form of verifsim.Fault at a call index).
type flt struct {
	K    int    `json:"k"`
	Kind string `json:"kind"`
	Err  string `json:"err,omitempty"`
}

var faultKinds = []verifsim.Fault{
	{Kind: verifsim.ErrBefore, Err: "conflict"},
	{Kind: verifsim.ErrBefore, Err: "server"},
	{Kind: verifsim.ErrAfter, Err: "timeout"},
	{Kind: verifsim.CrashBefore},
	{Kind: verifsim.CrashAfter},
	// What a client's REST mapper returns while discovery lags: the call has no effect. For a lookup this
	// is an error CLASS distinct from NotFound; only NotFound may be read as "the name is free".
	{Kind: verifsim.ErrBefore, Err: "nomatch"},
}

// step is one step of a history.
type step struct {
	// Kind: "claim" (our claim's controller reconciles), "other" (the other claim's controller),
	// "xr" (the XR controller reconciles every XR), "delete" (user deletes our claim),
	// "delete-other", "edit" (user edits our claim's spec.params), "ready" (provider marks composed
	// resources ready), "gc" (Kubernetes garbage collector runs), "restart" (the claim controller
	// process is replaced: new informer cache), "recreate" (user creates a claim of the same name
	// again after the old one is gone).
	Kind   string         `json:"kind"`
	Faults []flt          `json:"faults,omitempty"`
	Lag    int            `json:"lag,omitempty"`
	Catch  catchUp        `json:"catch,omitempty"` // how the cached claim catches up DURING the reconcile
	Mid    map[int]string `json:"mid,omitempty"`   // claim reconcile only: environment step performed just before API call k
}

// catchUp says how the lag of the cached claim shrinks during one reconcile (a real informer cache
// catches up while the reconcile runs). Zero value: every claim read of the run lags by Lag writes.
// Reads=k: only the first k claim reads of the run lag, later reads are fresh. Decay: each claim
// read lags one write less than the previous one. The view never goes back in time.
type catchUp struct {
	Reads int  `json:"reads,omitempty"`
	Decay bool `json:"decay,omitempty"`
}

func (c catchUp) String() string {
	switch {
	case c.Decay:
		return "decay"
	case c.Reads > 0:
		return fmt.Sprintf("first-%d-reads", c.Reads)
	}
	return "constant"
}

func genCatchUp() *rapid.Generator[catchUp] {
	return rapid.Custom(func(t *rapid.T) catchUp {
		switch rapid.IntRange(0, 3).Draw(t, "catchkind") {
		case 0:
			return catchUp{}
		case 1:
			return catchUp{Decay: true}
		default:
			return catchUp{Reads: rapid.IntRange(1, 2).Draw(t, "staleReads")}
		}
	})
}

var envKinds = []string{"xr", "delete", "edit", "ready", "gc", "other", "xr", "delete-other", "recreate"}

func genStep() *rapid.Generator[step] {
	return rapid.Custom(func(t *rapid.T) step {
		switch rapid.IntRange(0, 9).Draw(t, "stepkind") {
		case 0, 1, 2, 3, 4:
			st := step{Kind: "claim"}
			for j := 0; j < rapid.SampledFrom([]int{0, 0, 1, 1, 2}).Draw(t, "nfaults"); j++ {
				f := rapid.SampledFrom(faultKinds).Draw(t, "fault")
				st.Faults = append(st.Faults, flt{K: rapid.IntRange(0, 14).Draw(t, "k"), Kind: f.Kind.String(), Err: f.Err})
			}
			st.Lag = rapid.SampledFrom([]int{0, 0, 0, 1, 2, 3, 4, 6}).Draw(t, "lag")
			if st.Lag > 0 {
				st.Catch = genCatchUp().Draw(t, "catch")
			}
			if rapid.IntRange(0, 3).Draw(t, "hasmid") == 0 {
				st.Mid = map[int]string{rapid.IntRange(0, 12).Draw(t, "midk"): rapid.SampledFrom(envKinds).Draw(t, "midkind")}
			}
			return st
		case 5:
			return step{Kind: "other", Lag: rapid.SampledFrom([]int{0, 0, 1, 2}).Draw(t, "lag")}
		case 6, 7:
			return step{Kind: "xr"}
		default:
			return step{Kind: rapid.SampledFrom([]string{"delete", "delete", "edit", "ready", "gc", "delete-other", "restart", "restart", "recreate"}).Draw(t, "envkind")}
		}
	})
}

func planOf(fs []flt) map[int]verifsim.Fault {
	if len(fs) == 0 {
		return nil
	}
	p := map[int]verifsim.Fault{}
	for _, f := range fs {
		for _, fk := range faultKinds {
			if fk.Kind.String() == f.Kind && fk.Err == f.Err {
				p[f.K] = fk
			}
		}
	}
	return p
}

// ---------------------------------------------------------------------------
// world: environment, actors, oracle state

// wstate is the part of the oracle/cache state that must be rewound together with the store.
type wstate struct {
	// created: names of XRs ever created by a claim's controller (O1).
	// Keyed by claim AND incarnation (ns/name#uid): a claim re-created under the same name is a new claim.
	created map[string]map[string]bool
	// refHist[key][i] is the spec.resourceRef.name of the i-th stored version of a claim ("" if none / absent).
	refHist map[verifsim.Key][]string
	// goneHist[key][i]: the i-th version is "removed from the store"; uidHist[key][i]: metadata.uid of the i-th version.
	goneHist map[verifsim.Key][]bool
	uidHist  map[verifsim.Key][]string
	// seen: the newest version index of the claim its controller has observed (monotone cache).
	seen  map[claimID]int
	edits int
}

func (s wstate) clone() wstate {
	o := wstate{created: map[string]map[string]bool{}, refHist: map[verifsim.Key][]string{}, goneHist: map[verifsim.Key][]bool{}, uidHist: map[verifsim.Key][]string{}, seen: map[claimID]int{}, edits: s.edits}
	for k, v := range s.created {
		o.created[k] = map[string]bool{}
		for n := range v {
			o.created[k][n] = true
		}
	}
	for k, v := range s.refHist {
		o.refHist[k] = append([]string(nil), v...)
	}
	for k, v := range s.goneHist {
		o.goneHist[k] = append([]bool(nil), v...)
	}
	for k, v := range s.uidHist {
		o.uidHist[k] = append([]string(nil), v...)
	}
	for k, v := range s.seen {
		o.seen[k] = v
	}
	return o
}

type world struct {
	env    *verifenv.XREnv
	sim    *verifsim.Sim
	sc     scenario
	claims []claimID // tracked claims: ours, and the other claim when it exists as an object
	st     wstate
	ssaNow bool
	fail   func(format string, a ...any)

	// facts about the most recent claim reconcile (for the non-triviality rule)
	lastStaleRef bool // the observed claim version's resourceRef differs from the stored one
	lastLag      int  // effective lag of the run's FIRST claim read
	lastReads    int  // claim reads of the run
	lastRemoved  bool // the observed claim version predates a removal of the claim from the store
	// runUID: metadata.uid of the claim version the controller's current/last reconcile observed.
	runUID map[claimID]string
	// excluded is called when a generated case is steered away from the open known finding; noExclude
	// disables the steering (the known-finding reproducer itself).
	excluded  func()
	noExclude bool
	taken     []string // names squatted by XRs bound to a same-named claim in another namespace
	// catch is the catch-up policy of the NEXT claim reconcile (consumed by it).
	catch catchUp
}

var xrGK = verifenv.XRGVKDefault.GroupKind()

// knownKey is the ledger key of the open finding this check steers around (see TestVerifC06KnownStaleGoneClaimCSA).
const knownKey = "csa-stale-read-of-deleted-claim-recreates-xr"

var knownOpen = verifkit.OpenFinding("C06", knownKey)

func refName(o verifsim.Obj) string {
	s, _ := verifsim.Nested(o, "spec", "resourceRef", "name").(string)
	return s
}

// claimRefOf returns the XR's spec.claimRef as (group, kind, namespace, name); ok=false if there is none.
func claimRefOf(xr verifsim.Obj) (grp, kind, ns, name string, ok bool) {
	m, isMap := verifsim.Nested(xr, "spec", "claimRef").(map[string]any)
	if !isMap || len(m) == 0 {
		return "", "", "", "", false
	}
	av, _ := m["apiVersion"].(string)
	if i := strings.IndexByte(av, '/'); i >= 0 {
		grp = av[:i]
	}
	kind, _ = m["kind"].(string)
	ns, _ = m["namespace"].(string)
	name, _ = m["name"].(string)
	return grp, kind, ns, name, true
}

func refNames(xr verifsim.Obj, c claimID) bool {
	g, k, ns, n, ok := claimRefOf(xr)
	return ok && g == claimGroup && k == claimKind && ns == c.NS && n == c.Name
}

// foreignTo reports whether the XR's claim reference names a claim other than c.
func foreignTo(xr verifsim.Obj, c claimID) bool {
	_, _, _, _, ok := claimRefOf(xr)
	return ok && !refNames(xr, c)
}

// carries reports whether a live XR carries c's labels or a claimRef to c.
func carries(xr verifsim.Obj, c claimID) bool {
	if refNames(xr, c) {
		return true
	}
	l := verifsim.Labels(xr)
	return l[labelClaimName] == c.Name && l[labelClaimNS] == c.NS
}

func newWorld(sc scenario, fail func(string, ...any)) *world {
	utilrand.Seed(sc.Seed)
	env := verifenv.NewXREnv()
	env.XRD.Spec.ClaimNames = &extNames
	w := &world{env: env, sim: env.Sim, sc: sc, fail: fail, claims: []claimID{sc.Claim},
		st:     wstate{created: map[string]map[string]bool{}, refHist: map[verifsim.Key][]string{}, goneHist: map[verifsim.Key][]bool{}, uidHist: map[verifsim.Key][]string{}, seen: map[claimID]int{}},
		runUID: map[claimID]string{}}
	w.ssaNow = sc.SSA && !sc.Upgrade
	env.InstallComposition(composition(sc.Composed), 1)
	w.sim.AddMonitor(w.monitor)

	user := w.sim.Client("user")
	ctx := context.Background()
	preName := ""
	switch sc.Pre {
	case preForeignOrganic:
		// Another claim, bound to its own XR by its own controller.
		o := sc.other()
		w.claims = append(w.claims, o)
		if err := user.Create(ctx, newClaim(o, map[string]string{"p0": "other"}, nil, nil, "", "")); err != nil {
			panic(err)
		}
		for i := 0; i < 2; i++ {
			if _, err := w.claimReconcile(o, nil, 0, nil); err != nil {
				panic(fmt.Sprintf("setup: other claim reconcile: %v", err))
			}
		}
		preName = refName(w.sim.Get(o.key()))
		if preName == "" || w.sim.Get(w.env.XRKey(preName)) == nil {
			panic("setup: other claim did not bind an XR")
		}
	case preForeignDangling:
		preName = "legacy-xr"
		xr := verifenv.NewUnstructuredXR(verifenv.XRGVKDefault, preName)
		o := sc.other()
		kind := claimKind
		if sc.ForeignDiff == "kind" {
			kind = "OtherThing"
		}
		xr.SetLabels(map[string]string{labelClaimName: o.Name, labelClaimNS: o.NS})
		xr.Object["spec"] = map[string]any{
			"claimRef":       map[string]any{"apiVersion": claimGroup + "/v1", "kind": kind, "namespace": o.NS, "name": o.Name},
			"compositionRef": map[string]any{"name": "comp"},
			"params":         map[string]any{"p0": "legacy"},
		}
		if sc.ForeignDiff == "kind" {
			// A claim of ANOTHER KIND with our namespace and name. The claim-name/-namespace labels cannot
			// tell the two apart, so this input carries none (O2 counts label carriers).
			xr.SetLabels(map[string]string{"legacy": "true"})
		}
		if err := user.Create(ctx, xr); err != nil {
			panic(err)
		}
	case preUnbound:
		preName = "static-xr"
		xr := verifenv.NewUnstructuredXR(verifenv.XRGVKDefault, preName)
		xr.Object["spec"] = map[string]any{"compositionRef": map[string]any{"name": "comp"}, "params": map[string]any{"p0": "static"}}
		if err := user.Create(ctx, xr); err != nil {
			panic(err)
		}
	}
	if preName != "" && sc.ForeignReconciled {
		w.xrReconcileAll()
	}
	ref := ""
	if sc.Referenced {
		ref = preName
	}
	if err := user.Create(ctx, newClaim(sc.Claim, sc.Params, sc.Labels, sc.Annotations, sc.DeletePolicy, ref, sc.RefVersion)); err != nil {
		panic(err)
	}
	w.check("setup")
	w.takeCandidates(sc.Seed + 1)
	return w
}

// takenNS is the namespace of the same-named claim that owns the XRs squatting on generated names.
const takenNS = "ns-taken"

// takeCandidates seeds util/rand, learns the first sc.Taken names the API-server name generator
// (names.SimpleNameGenerator: base + utilrand.String(5)) will draw for our claim from that seed,
// pre-creates an XR under each of them bound to the same-named claim in another namespace, and
// re-seeds, so that the next name generation runs into them. (TestVerifC06PinnedCandidateTaken
// verifies that the reconcile really looks these names up.)
func (w *world) takeCandidates(seed int64) {
	utilrand.Seed(seed)
	var names []string
	for i := 0; i < w.sc.Taken; i++ {
		names = append(names, w.sc.Claim.Name+"-"+utilrand.String(5))
	}
	user := w.sim.Client("user")
	for _, n := range names {
		if w.sim.Get(w.env.XRKey(n)) != nil {
			continue
		}
		xr := verifenv.NewUnstructuredXR(verifenv.XRGVKDefault, n)
		xr.SetLabels(map[string]string{labelClaimName: w.sc.Claim.Name, labelClaimNS: takenNS})
		xr.Object["spec"] = map[string]any{
			"claimRef":       map[string]any{"apiVersion": claimGroup + "/v1", "kind": claimKind, "namespace": takenNS, "name": w.sc.Claim.Name},
			"compositionRef": map[string]any{"name": "comp"},
			"params":         map[string]any{"p0": "taken"},
		}
		if err := user.Create(context.Background(), xr); err != nil {
			panic(err)
		}
		w.taken = append(w.taken, n)
	}
	utilrand.Seed(seed)
}

// lookedUpTaken reports whether call k of the run is a Get of a name squatted by a foreign XR.
func (w *world) lookedUpTaken(run *verifsim.Run, k int) bool {
	if k >= len(run.Calls) {
		return false
	}
	for _, n := range w.taken {
		if run.Calls[k] == "get "+w.env.XRKey(n).String() {
			return true
		}
	}
	return false
}

func sweepSeed(sc scenario, stage string) int64 { return sc.Seed + int64(len(stage))*7919 }

var extNames = extv1.CustomResourceDefinitionNames{Kind: claimKind, Plural: "things"}

func composition(n int) *v1.Composition {
	c := &v1.Composition{}
	c.SetName("comp")
	c.Spec.CompositeTypeRef = v1.TypeReference{APIVersion: "example.org/v1", Kind: xrKind}
	c.Spec.Mode = ptr.To(v1.CompositionModeResources)
	for i := 0; i < n; i++ {
		base, _ := json.Marshal(map[string]any{"apiVersion": "example.org/v1", "kind": "KindA", "spec": map[string]any{"forProvider": map[string]any{"v": "x"}}})
		c.Spec.Resources = append(c.Spec.Resources, v1.ComposedTemplate{Name: ptr.To(fmt.Sprintf("r%d", i)), Base: runtime.RawExtension{Raw: base}})
	}
	return c
}

func newClaim(id claimID, params, labels, anns map[string]string, deletePolicy, ref string, refVersion ...string) *ucl.Unstructured {
	cm := ucl.New(ucl.WithGroupVersionKind(verifenv.ClaimGVKDefault))
	cm.SetNamespace(id.NS)
	cm.SetName(id.Name)
	if len(labels) > 0 {
		cm.SetLabels(labels)
	}
	if len(anns) > 0 {
		cm.SetAnnotations(anns)
	}
	ps := map[string]any{}
	for k, v := range params {
		ps[k] = v
	}
	spec := map[string]any{"params": ps, "compositionRef": map[string]any{"name": "comp"}}
	if deletePolicy != "" {
		spec["compositeDeletePolicy"] = deletePolicy
	}
	if ref != "" {
		ver := "v1"
		if len(refVersion) > 0 && refVersion[0] != "" {
			ver = refVersion[0]
		}
		spec["resourceRef"] = map[string]any{"apiVersion": "example.org/" + ver, "kind": xrKind, "name": ref}
	}
	cm.Object["spec"] = spec
	return cm
}

// monitor is evaluated under the store lock at the instant of every write.
func (w *world) monitor(v *verifsim.View, wr *verifsim.Write) {
	if wr.DryRun || wr.Err != "" || !(wr.Changed || wr.Removed) {
		return
	}
	// Claim version bookkeeping (for the cache model) and O4.
	if wr.Key.Group == claimGroup && wr.Key.Kind == claimKind {
		after := ""
		if wr.After != nil && !wr.Removed {
			after = refName(wr.After)
		}
		w.st.refHist[wr.Key] = append(w.st.refHist[wr.Key], after)
		gone := wr.After == nil || wr.Removed
		w.st.goneHist[wr.Key] = append(w.st.goneHist[wr.Key], gone)
		uid := ""
		if !gone {
			uid = verifsim.MetaString(wr.After, "uid")
		}
		w.st.uidHist[wr.Key] = append(w.st.uidHist[wr.Key], uid)
		if before := refName(wr.Before); before != "" && wr.After != nil && !wr.Removed && after != before && strings.HasPrefix(wr.Actor, ctrlPrefix) {
			v.Violate("O4 retry does not reuse the recorded name: %s changed the stored spec.resourceRef of claim %s from %q to %q (write #%d %s)", wr.Actor, wr.Key, before, after, wr.Seq, wr.Verb)
		}
		return
	}
	if wr.Key.GK() != xrGK {
		return
	}
	for _, c := range w.claims {
		if wr.Actor != c.actor() {
			continue
		}
		// O5: the controller of claim c changed or deleted an XR whose claimRef names a different claim.
		if wr.Before != nil && foreignTo(wr.Before, c) {
			g, k, ns, n, _ := claimRefOf(wr.Before)
			v.Violate("O5 hijack: %s modified XR %s whose claimRef names a different claim (%s %s %s/%s): write #%d %s changed=%v removed=%v\n before: %s\n after:  %s",
				wr.Actor, wr.Key.Name, g, k, ns, n, wr.Seq, wr.Verb, wr.Changed, wr.Removed, short(verifsim.ObjDigest(wr.Before)), short(verifsim.ObjDigest(wr.After)))
		}
		stored := v.Get(c.key())
		// O3 (binding half): an existing XR is newly bound to claim c on behalf of a claim (incarnation) that does not exist.
		if wr.Before != nil && wr.After != nil && !wr.Removed && refNames(wr.After, c) && !refNames(wr.Before, c) {
			if stored == nil {
				v.Violate("O3 XR %s was bound to claim %s (write #%d %s) but the claim does not exist in the store", wr.Key.Name, c, wr.Seq, wr.Verb)
			} else if u := verifsim.MetaString(stored, "uid"); w.runUID[c] != "" && u != w.runUID[c] {
				v.Violate("O3 XR %s was bound to claim %s (write #%d %s) by a reconcile that observed claim uid %s, but the stored claim is a different object (uid %s)", wr.Key.Name, c, wr.Seq, wr.Verb, w.runUID[c], u)
			}
		}
		// O1 + O3: an XR is created on behalf of claim c.
		if wr.Before == nil && wr.After != nil {
			inc := c.String() + "#" + verifsim.MetaString(stored, "uid")
			if w.st.created[inc] == nil {
				w.st.created[inc] = map[string]bool{}
			}
			w.st.created[inc][wr.Key.Name] = true
			if len(w.st.created[inc]) > 1 {
				v.Violate("O1 more than one XR: the controller of claim %s has created XRs under more than one name: %v (write #%d %s)", inc, keys(w.st.created[inc]), wr.Seq, wr.Verb)
			}
			if stored != nil && w.runUID[c] != "" && verifsim.MetaString(stored, "uid") != w.runUID[c] {
				v.Violate("O3 XR %s was created for claim %s (write #%d %s) by a reconcile that observed claim uid %s, but the stored claim is a different object (uid %s): no claim with the observed uid exists", wr.Key.Name, c, wr.Seq, wr.Verb, w.runUID[c], verifsim.MetaString(stored, "uid"))
			}
			if stored == nil {
				v.Violate("O3 reference not recorded first: XR %s was created for claim %s (write #%d %s) but the claim does not exist in the store", wr.Key.Name, c, wr.Seq, wr.Verb)
			} else if rn := refName(stored); rn != wr.Key.Name {
				v.Violate("O3 reference not recorded first: XR %s was created for claim %s (write #%d %s) while the claim's stored spec.resourceRef.name is %q", wr.Key.Name, c, wr.Seq, wr.Verb, rn)
			}
		}
	}
	// O2: at every instant at most one live XR carries a claim's labels / claimRef.
	for _, c := range w.claims {
		var have []string
		for _, k := range v.List(xrGK) {
			// An XR that is already being deleted belongs to the past (possibly to a previous claim of this
			// name); two XRs of ONE claim, one of them terminating, would still trip O1.
			if o := v.Get(k); carries(o, c) && !verifsim.Terminating(o) {
				have = append(have, k.Name)
			}
		}
		if len(have) > 1 {
			v.Violate("O2 two live XRs for one claim: after write #%d (%s %s by %s) the XRs %v all carry the labels/claimRef of claim %s", wr.Seq, wr.Verb, wr.Key.Name, wr.Actor, have, c)
		}
	}
}

func short(s string) string {
	if len(s) > 700 {
		return s[:700] + "..."
	}
	return s
}

func keys(m map[string]bool) []string {
	out := make([]string, 0, len(m))
	for k := range m {
		out = append(out, k)
	}
	sort.Strings(out)
	return out
}

func (w *world) check(ctx string) {
	if v := w.sim.TakeViolations(); len(v) > 0 {
		w.fail("%s [%s, scenario %s]:\n%s", ctx, w.sc.config(), verifkit.JSON(w.sc), strings.Join(v, "\n"))
	}
}

// claimReconcile runs one reconcile of claim c by its controller: a fresh reconciler on a fresh
// run; the claim is read from a cache that lags the store by up to `lag` writes (never going back
// in time); `mid` performs environment steps just before the k-th API call of this reconcile.
func (w *world) claimReconcile(c claimID, plan map[int]verifsim.Fault, lag int, mid map[int]string) (*verifsim.Run, error) {
	run := w.sim.NewRun(c.actor(), plan)
	w.lastStaleRef, w.lastLag, w.lastReads, w.lastRemoved = false, 0, 0, false
	pol := w.catch
	w.catch = catchUp{}
	reads := 0
	ck := c.key()
	sc := run.StaleClient(func(k verifsim.Key) int {
		if k != ck {
			return 0
		}
		h := w.st.refHist[k]
		cur := len(h) - 1
		if cur < 0 {
			return 0
		}
		l := lag
		switch {
		case pol.Decay:
			l = lag - reads
		case pol.Reads > 0 && reads >= pol.Reads:
			l = 0
		}
		if l < 0 {
			l = 0
		}
		target := cur - l
		if target < w.st.seen[c] {
			target = w.st.seen[c]
		}
		if target < 0 {
			target = 0
		}
		if target > cur {
			target = cur
		}
		if knownOpen && !w.noExclude && !w.ssaNow {
			// Open known finding (client-side syncer + a read of a claim version from before the claim was
			// removed from the store): steer around it - the cache has at least seen the removal.
			g := w.st.goneHist[k]
			for i := cur; i > target; i-- {
				if g[i] {
					target = i
					if w.excluded != nil {
						w.excluded()
					}
					break
				}
			}
		}
		w.st.seen[c] = target
		if reads == 0 {
			w.runUID[c] = w.st.uidHist[k][target]
		}
		for i := target + 1; i <= cur; i++ {
			if w.st.goneHist[k][i] && !w.st.goneHist[k][target] {
				w.lastRemoved = true
			}
		}
		if reads == 0 {
			w.lastLag = cur - target
		}
		reads++
		w.lastReads = reads
		if h[target] != h[cur] {
			w.lastStaleRef = true
		}
		return cur - target
	})
	var cl client.Client = sc
	if len(mid) > 0 {
		done := map[int]bool{}
		cl = &hookClient{Client: sc, pre: func() {
			if k, ok := mid[run.N]; ok && !done[run.N] {
				done[run.N] = true
				w.apply(step{Kind: k})
			}
		}}
	}
	var opts []claim.ReconcilerOption
	if w.ssaNow {
		// Exactly what offered/reconciler.go does under features.EnableBetaClaimSSA.
		opts = append(opts,
			claim.WithCompositeSyncer(claim.NewServerSideCompositeSyncer(cl, names.NewNameGenerator(cl))),
			claim.WithManagedFieldsUpgrader(claim.NewPatchingManagedFieldsUpgrader(cl)),
		)
	}
	r := claim.NewReconciler(cl, resource.CompositeClaimKind(verifenv.ClaimGVKDefault), resource.CompositeKind(verifenv.XRGVKDefault), opts...)

	// The XRs that are foreign to c must be byte-identical after c's reconcile (no other actor runs
	// in between, except the mid-reconcile environment steps, in which case only the monitor judges).
	before := map[verifsim.Key]string{}
	if len(mid) == 0 {
		for _, k := range w.sim.Keys(xrGK) {
			if o := w.sim.Get(k); foreignTo(o, c) {
				before[k] = verifsim.ObjDigest(o)
			}
		}
	}
	_, err := r.Reconcile(context.Background(), reconcile.Request{NamespacedName: types.NamespacedName{Namespace: c.NS, Name: c.Name}})
	if run.Crashed {
		// The process died; its successor starts with a new informer cache.
		w.restart()
	}
	for k, d := range before {
		if after := verifsim.ObjDigest(w.sim.Get(k)); after != d {
			w.sim.With(func(v *verifsim.View) {
				v.Violate("O5 hijack: XR %s, whose claimRef names a different claim than %s, is not byte-identical after a reconcile of %s\n before: %s\n after:  %s", k.Name, c, c, short(d), short(after))
			})
		}
	}
	if err != nil && strings.Contains(err.Error(), "VERIF-INCONCLUSIVE") {
		panic(err)
	}
	return run, err
}

// restart models a new claim-controller process (crash, upgrade, leader hand-over): its informer
// cache is new, so what it shows is NOT bounded below by what the previous process had observed; it
// lags the store by any number of writes - it may still show a claim that has since been deleted.
// Within one process the view stays monotone.
func (w *world) restart() {
	w.st.seen = map[claimID]int{}
}

// createdFor returns the names of all XRs the controller created for any incarnation of claim c.
func (w *world) createdFor(c claimID) []string {
	m := map[string]bool{}
	for inc, ns := range w.st.created {
		if strings.HasPrefix(inc, c.String()+"#") {
			for n := range ns {
				m[n] = true
			}
		}
	}
	return keys(m)
}

func (w *world) xrReconcileAll() {
	for _, k := range w.sim.Keys(xrGK) {
		_, _ = w.env.Reconcile(w.sim.NewRun("xr-controller", nil), k.Name)
	}
}

// apply performs one environment step.
func (w *world) apply(st step) {
	ctx := context.Background()
	user := w.sim.Client("user")
	del := func(c claimID) {
		cm := ucl.New(ucl.WithGroupVersionKind(verifenv.ClaimGVKDefault))
		cm.SetNamespace(c.NS)
		cm.SetName(c.Name)
		_ = user.Delete(ctx, cm)
	}
	switch st.Kind {
	case "xr":
		w.xrReconcileAll()
	case "other":
		if len(w.claims) > 1 {
			_, _ = w.claimReconcile(w.claims[1], nil, st.Lag, nil)
		}
	case "delete":
		del(w.sc.Claim)
	case "delete-other":
		if len(w.claims) > 1 {
			del(w.claims[1])
		}
	case "edit":
		cm := ucl.New(ucl.WithGroupVersionKind(verifenv.ClaimGVKDefault))
		if err := user.Get(ctx, types.NamespacedName{Namespace: w.sc.Claim.NS, Name: w.sc.Claim.Name}, cm); err != nil {
			return
		}
		w.st.edits++
		_ = unstructured.SetNestedField(cm.Object, fmt.Sprintf("e%d", w.st.edits), "spec", "params", "p0")
		_ = user.Update(ctx, cm)
	case "ready":
		prov := w.sim.Client("provider")
		for _, k := range w.sim.AllKeys() {
			o := w.sim.Get(k)
			if k.Kind != "KindA" || verifsim.Annotations(o)[annComposed] == "" {
				continue
			}
			u := verifsim.U(o)
			_ = unstructured.SetNestedSlice(u.Object, []any{map[string]any{"type": "Ready", "status": "True", "reason": "Available", "lastTransitionTime": "2024-01-01T00:00:00Z"}}, "status", "conditions")
			_ = prov.Status().Update(ctx, u)
		}
	case "gc":
		for i := 0; i < 10 && w.sim.GCStep(); i++ {
		}
	case "restart":
		w.restart()
	case "recreate":
		// The user creates a claim with the same name again (a new object with a new UID) once the old one is gone.
		if w.sim.Get(w.sc.Claim.key()) == nil {
			_ = user.Create(ctx, newClaim(w.sc.Claim, w.sc.Params, w.sc.Labels, w.sc.Annotations, w.sc.DeletePolicy, ""))
		}
	}
}

// settle runs fault-free rounds (every claim controller, then the XR controller); the first
// claim reconcile may still read a stale claim.
func (w *world) settle(ctx string, rounds, firstLag int) {
	for i := 0; i < rounds; i++ {
		lag := 0
		if i == 0 {
			lag = firstLag
		}
		for _, c := range w.claims {
			_, _ = w.claimReconcile(c, nil, lag, nil)
			w.check(fmt.Sprintf("%s / follow-up round %d, reconcile of claim %s (lag %d)", ctx, i, c, lag))
		}
		w.xrReconcileAll()
		w.check(fmt.Sprintf("%s / follow-up round %d, XR reconciles", ctx, i))
	}
}

// converged checks the "a retry reuses that name" consequence once faults are gone: a claim that
// still exists, is not being deleted and records a reference to an XR that is not another claim's,
// has that XR, bound to it.
func (w *world) converged(ctx string) {
	for _, c := range w.claims {
		cm := w.sim.Get(c.key())
		if cm == nil || verifsim.Terminating(cm) {
			continue
		}
		rn := refName(cm)
		if rn == "" {
			w.fail("%s [%s, scenario %s]: claim %s has no spec.resourceRef after fault-free reconciles", ctx, w.sc.config(), verifkit.JSON(w.sc), c)
			continue
		}
		xr := w.sim.Get(w.env.XRKey(rn))
		if xr != nil && foreignTo(xr, c) {
			continue
		}
		if xr == nil || !refNames(xr, c) {
			w.fail("%s [%s, scenario %s]: claim %s records spec.resourceRef.name=%q but after fault-free reconciles that XR is %s (the retry did not create/bind the recorded name); XRs in store: %v",
				ctx, w.sc.config(), verifkit.JSON(w.sc), c, rn, map[bool]string{true: "absent", false: "not bound to the claim"}[xr == nil], w.sim.Keys(xrGK))
		}
	}
}

// ---------------------------------------------------------------------------
// hookClient runs a callback before every API call.

type hookClient struct {
	client.Client
	pre func()
}

func (h *hookClient) Get(ctx context.Context, key client.ObjectKey, obj client.Object, opts ...client.GetOption) error {
	h.pre()
	return h.Client.Get(ctx, key, obj, opts...)
}
func (h *hookClient) List(ctx context.Context, l client.ObjectList, opts ...client.ListOption) error {
	h.pre()
	return h.Client.List(ctx, l, opts...)
}
func (h *hookClient) Create(ctx context.Context, obj client.Object, opts ...client.CreateOption) error {
	h.pre()
	return h.Client.Create(ctx, obj, opts...)
}
func (h *hookClient) Delete(ctx context.Context, obj client.Object, opts ...client.DeleteOption) error {
	h.pre()
	return h.Client.Delete(ctx, obj, opts...)
}
func (h *hookClient) Update(ctx context.Context, obj client.Object, opts ...client.UpdateOption) error {
	h.pre()
	return h.Client.Update(ctx, obj, opts...)
}
func (h *hookClient) Patch(ctx context.Context, obj client.Object, p client.Patch, opts ...client.PatchOption) error {
	h.pre()
	return h.Client.Patch(ctx, obj, p, opts...)
}
func (h *hookClient) DeleteAllOf(ctx context.Context, obj client.Object, opts ...client.DeleteAllOfOption) error {
	h.pre()
	return h.Client.DeleteAllOf(ctx, obj, opts...)
}
func (h *hookClient) Status() client.SubResourceWriter {
	return &hookSub{SubResourceWriter: h.Client.Status(), pre: h.pre}
}

type hookSub struct {
	client.SubResourceWriter
	pre func()
}

func (h *hookSub) Update(ctx context.Context, obj client.Object, opts ...client.SubResourceUpdateOption) error {
	h.pre()
	return h.SubResourceWriter.Update(ctx, obj, opts...)
}
func (h *hookSub) Patch(ctx context.Context, obj client.Object, p client.Patch, opts ...client.SubResourcePatchOption) error {
	h.pre()
	return h.SubResourceWriter.Patch(ctx, obj, p, opts...)
}

// ---------------------------------------------------------------------------
// non-triviality

// refWriteAt reports whether the faulted call k of the run was the claim Update that records resourceRef.
func refWriteAt(probe *verifsim.Run, log []verifsim.Write, c claimID, k int) bool {
	// Map call index -> write: the i-th mutating call of a fault-free run is the i-th log entry of the actor.
	if k >= len(probe.Calls) {
		return false
	}
	wi := -1
	for i := 0; i <= k; i++ {
		if !strings.HasPrefix(probe.Calls[i], "get ") && !strings.HasPrefix(probe.Calls[i], "list ") {
			wi++
		}
	}
	if wi < 0 || strings.HasPrefix(probe.Calls[k], "get ") || strings.HasPrefix(probe.Calls[k], "list ") {
		return false
	}
	n := -1
	for _, wr := range log {
		if wr.Actor != c.actor() {
			continue
		}
		n++
		if n == wi {
			return wr.Key == c.key() && wr.Sub == "" && refName(wr.Before) != refName(wr.After)
		}
	}
	return false
}

// ---------------------------------------------------------------------------
// properties

// sweepStages are the states at which the fault sweep is performed.
var sweepStages = []string{"fresh", "bound", "steady", "edited", "deleting", "gone", "gone+recreated"}

// prefix brings a fresh world to the named stage with fault-free steps.
func (w *world) prefix(stage string) {
	rec := func() { _, _ = w.claimReconcile(w.sc.Claim, nil, 0, nil) }
	switch stage {
	case "fresh":
	case "bound":
		rec()
	case "steady", "edited", "deleting", "gone", "gone+recreated":
		rec()
		w.xrReconcileAll()
		w.apply(step{Kind: "ready"})
		w.xrReconcileAll()
		rec()
		rec()
		switch stage {
		case "edited":
			w.apply(step{Kind: "edit"})
		case "deleting":
			w.apply(step{Kind: "delete"})
		case "gone", "gone+recreated":
			// The claim is deleted and finalized: XR deleted, finalizer removed, claim GONE from the store.
			w.apply(step{Kind: "delete"})
			for i := 0; i < 4; i++ {
				rec()
				w.xrReconcileAll()
				w.apply(step{Kind: "gc"})
			}
			if stage == "gone+recreated" {
				w.apply(step{Kind: "recreate"})
				if w.sc.Seed%2 == 0 {
					// ... and the new claim has already been bound to its own XR.
					rec()
					w.xrReconcileAll()
				}
			}
			// The next reconcile is done by a new controller process whose cache may still show any old version.
			w.restart()
		}
	}
	w.check("prefix to stage " + stage)
}

// TestVerifC06Sweep: for a generated scenario and stage, every API call index of the next claim
// reconcile is hit with every fault kind, followed by fault-free rounds.
func TestVerifC06Sweep(t *testing.T) {
	rec := verifkit.New(t, "C06", "scenario = claim content x pre-existing XR class {none, bound to another claim (organic/dangling; differs in name/namespace/both/kind), unbound; referenced or bystander} x {0-2 of the names the generator will draw are already XRs of a same-named claim in another namespace} x syncer {csa, ssa, csa->ssa upgrade} x stage {fresh, bound, steady, edited, deleting, gone (claim deleted and finalized; reconcile by a new controller process), gone+recreated (same name, new UID)}; the next claim reconcile (claim read lagging 0..n writes; the lag is constant during the reconcile, or only the first k claim reads lag, or it decays by one per read) is swept over every API call index x {conflict, 500, NoMatch (discovery lag), lost reply, crash-before, crash-after}, then fault-free rounds (first one possibly stale) with the real XR reconciler; non-trivial = fault after-effect (crash-after/lost reply) on the claim Update that records resourceRef, or a claim read that lags a write of resourceRef, or the claim references an XR bound to another claim, or a generated candidate name is taken by another claim's XR, or the claim read predates the removal of the claim from the store")
	rapid.Check(t, func(t *rapid.T) {
		sc := genScenario().Draw(t, "scenario")
		stage := rapid.SampledFrom(sweepStages).Draw(t, "stage")
		lag := rapid.SampledFrom([]int{1, 2, 3, 4, 6}).Draw(t, "lag")
		followLag := rapid.SampledFrom([]int{0, 0, 1, 2, 4}).Draw(t, "followLag")
		catch := genCatchUp().Draw(t, "catch")
		rec.Eval()
		rec.Label("config=" + sc.config())
		rec.Label("pre=" + sc.Pre + fmt.Sprintf("/referenced=%v", sc.Referenced))
		if sc.RefVersion != "" {
			rec.Label("ref-apiVersion=other-served-version/" + sc.Pre)
		}
		rec.Label("stage=" + stage)
		fail := func(f string, a ...any) { t.Fatalf(f, a...) }
		w := newWorld(sc, fail)
		w.prefix(stage)
		if sc.Upgrade {
			w.ssaNow = true
		}
		w.takeCandidates(sweepSeed(sc, stage))
		w.excluded = rec.Excluded
		if strings.HasPrefix(stage, "gone") {
			lag += 5 // reach back across the removal (and the new claim's first versions)
		}
		// Once with a live claim read, once with a claim read that lags the store (if the claim has that many versions).
		sweep(w, rec, stage, 0, catchUp{}, followLag)
		for l := 1; l <= lag; l++ {
			if eff := sweep(w, rec, stage, l, catch, followLag); eff < l {
				break // the claim has no older version the controller could still be looking at
			}
		}
	})
}

// sweep returns the effective lag of the swept reconcile's claim read.
func sweep(w *world, rec *verifkit.Recorder, stage string, lag int, catch catchUp, followLag int) int {
	sc := w.sc
	base := w.sim.Snapshot()
	baseSt := w.st.clone()
	baseLog := w.sim.LogLen()
	seed := sweepSeed(sc, stage)
	utilrand.Seed(seed)
	w.catch = catch
	probe, _ := w.claimReconcile(sc.Claim, nil, lag, nil)
	staleRef, staleRemoved := w.lastStaleRef, w.lastRemoved
	if lag > 0 && w.lastLag == 0 {
		// The cache cannot lag here (the controller has already observed the newest version): same as the live sweep.
		w.sim.Restore(base)
		w.st = baseSt.clone()
		return 0
	}
	effLag := w.lastLag
	if lag > 0 && effLag < lag {
		// Clamped: identical to the sweep already done for the smaller lag.
		w.sim.Restore(base)
		w.st = baseSt.clone()
		return effLag
	}
	rec.Labelf("sweep-effective-lag=%d", effLag)
	if lag > 0 {
		rec.Label("sweep-stale-policy=" + catch.String())
	}
	w.check(fmt.Sprintf("stage %s / fault-free probe (lag %d)", stage, lag))
	probeLog := w.sim.Log()[baseLog:]
	K := probe.N
	rec.AddExtra("sweep_api_calls", K)
	if staleRef {
		rec.Label("stale-read-lags-resourceRef-write")
	}
	if staleRemoved {
		rec.Label("sweep-stale-read-of-since-removed-claim/" + map[bool]string{true: "ssa", false: "csa"}[w.ssaNow] + "/" + stage)
	}
	w.settle(fmt.Sprintf("stage %s / fault-free probe (lag %d)", stage, lag), 3, followLag)
	w.converged(fmt.Sprintf("stage %s / fault-free (lag %d)", stage, lag))
	foreignRef := (sc.Pre == preForeignOrganic || sc.Pre == preForeignDangling) && sc.Referenced
	hitTaken := false
	for k := 0; k < K; k++ {
		hitTaken = hitTaken || w.lookedUpTaken(probe, k)
	}
	if hitTaken {
		rec.Label("sweep-candidate-taken-by-foreign-XR")
	}
	for k := 0; k < K; k++ {
		for _, f := range faultKinds {
			w.sim.Restore(base)
			w.st = baseSt.clone()
			utilrand.Seed(seed)
			ctx := fmt.Sprintf("stage %s / claim read lag %d / fault %s(%s) at API call %d of %d [%s]", stage, lag, f.Kind, f.Err, k, K, callName(probe, k))
			w.catch = catch
			_, _ = w.claimReconcile(sc.Claim, map[int]verifsim.Fault{k: f}, lag, nil)
			w.check(ctx)
			w.settle(ctx, 3, followLag)
			w.converged(ctx)
			rec.AddExtra("fault_runs", 1)
			afterEffect := f.Kind == verifsim.CrashAfter || f.Kind == verifsim.ErrAfter
			crashOnRef := afterEffect && refWriteAt(probe, probeLog, sc.Claim, k)
			if crashOnRef {
				rec.Label("fault-after-claim-Update-of-resourceRef")
			}
			if f.Err == "nomatch" && strings.HasPrefix(callName(probe, k), "get ") {
				switch {
				case w.lookedUpTaken(probe, k):
					rec.Label("lookup-fault-nomatch/on-candidate-taken-by-foreign-XR")
				case strings.Contains(callName(probe, k), "/"+xrKind+"/"):
					rec.Label("lookup-fault-nomatch/on-XR-get")
				default:
					rec.Label("lookup-fault-nomatch/on-claim-get")
				}
			}
			if crashOnRef || staleRef || foreignRef || hitTaken || staleRemoved {
				rec.NonTrivial(fmt.Sprintf("%s|%s|%d|%d|%d|%v", verifkit.JSON(sc), stage, lag, followLag, k, f)+catch.String(), func() any {
					return map[string]any{"scenario": sc, "stage": stage, "lag": lag, "catch_up": catch.String(), "fault": f.Kind.String(), "err": f.Err, "call_index": k, "call": callName(probe, k), "calls_in_reconcile": K,
						"crash_after_resourceRef_update": crashOnRef, "stale_read_lags_resourceRef": staleRef, "foreign_referenced": foreignRef, "generated_candidate_taken_by_foreign_xr": hitTaken, "stale_read_of_since_removed_claim": staleRemoved}
				})
			}
		}
	}
	w.sim.Restore(base)
	w.st = baseSt.clone()
	return effLag
}

func callName(r *verifsim.Run, k int) string {
	if k < len(r.Calls) {
		return r.Calls[k]
	}
	return "?"
}

// TestVerifC06Histories: random histories of claim reconciles (0-2 faults each, stale claim reads,
// environment steps injected between two API calls of the reconcile) interleaved with the XR
// controller, the other claim's controller, claim edits and claim deletion.
func TestVerifC06Histories(t *testing.T) {
	rec := verifkit.New(t, "C06", "random histories: claim reconciles each with 0-2 faults, a claim read lagging 0..6 writes (monotone cache; lag constant during the reconcile, or only the first k claim reads lag, or each read lags one write less) and optionally an environment step (XR reconcile, claim deletion, edit, other claim's reconcile) injected just before API call k; interleaved with XR reconciles, the other claim's controller, user edits/deletion/re-creation under the same name, controller restarts (new cache: the view may again lag by any number of writes, even behind a deletion), GC; then fault-free rounds; non-trivial as in the sweep")
	rapid.Check(t, func(t *rapid.T) {
		sc := genScenario().Draw(t, "scenario")
		rec.Eval()
		rec.Label("config=" + sc.config())
		rec.Label("pre=" + sc.Pre + fmt.Sprintf("/referenced=%v", sc.Referenced))
		if sc.RefVersion != "" {
			rec.Label("ref-apiVersion=other-served-version/" + sc.Pre)
		}
		w := newWorld(sc, func(f string, a ...any) { t.Fatalf(f, a...) })
		w.excluded = rec.Excluded
		// The history starts at a generated stage (reached by fault-free steps).
		start := rapid.SampledFrom([]string{"fresh", "fresh", "fresh", "steady", "gone", "gone+recreated"}).Draw(t, "start")
		rec.Label("history-start=" + start)
		w.prefix(start)
		n := rapid.IntRange(1, 10).Draw(t, "nsteps")
		var hist []step
		nontrivial := (sc.Pre == preForeignOrganic || sc.Pre == preForeignDangling) && sc.Referenced
		switched := !sc.Upgrade
		for i := 0; i < n; i++ {
			st := genStep().Draw(t, "step")
			hist = append(hist, st)
			if !switched && i >= n/2 {
				// The controller is restarted with the server-side syncer (feature flag flipped).
				w.ssaNow, switched = true, true
			}
			ctx := fmt.Sprintf("history %s / step %d", verifkit.JSON(hist), i)
			if st.Kind != "claim" {
				w.apply(st)
				w.check(ctx)
				continue
			}
			logStart := w.sim.LogLen()
			w.catch = st.Catch
			run, _ := w.claimReconcile(sc.Claim, planOf(st.Faults), st.Lag, st.Mid)
			if w.lastLag > 0 {
				rec.Label("stale-policy=" + st.Catch.String())
				if w.lastReads > 1 {
					rec.Label("claim-re-read-within-reconcile")
				}
			}
			if w.lastRemoved {
				nontrivial = true
				rec.Label("stale-read-of-since-removed-claim/" + map[bool]string{true: "ssa", false: "csa"}[w.ssaNow])
			}
			w.check(ctx)
			for k := 0; k < run.N; k++ {
				if w.lookedUpTaken(run, k) {
					nontrivial = true
					rec.Label("candidate-taken-by-foreign-XR")
					for _, f := range st.Faults {
						if f.K == k && f.Err == "nomatch" {
							rec.Label("lookup-fault-nomatch/on-candidate-taken-by-foreign-XR")
						}
					}
				}
			}
			if w.lastStaleRef {
				nontrivial = true
				rec.Label("stale-read-lags-resourceRef-write")
			}
			for _, f := range st.Faults {
				if (f.Kind == verifsim.CrashAfter.String() || f.Kind == verifsim.ErrAfter.String()) && f.K < run.N {
					// did the faulted call record resourceRef?
					for _, wr := range w.sim.Log()[logStart:] {
						if wr.Actor == sc.Claim.actor() && wr.Key == sc.Claim.key() && wr.Sub == "" && wr.Err == "" && refName(wr.Before) != refName(wr.After) &&
							f.K < len(run.Calls) && strings.HasPrefix(run.Calls[f.K], "update ") && strings.HasSuffix(run.Calls[f.K], sc.Claim.key().String()) {
							nontrivial = true
							rec.Label("fault-after-claim-Update-of-resourceRef")
						}
					}
				}
			}
			if len(st.Mid) > 0 {
				for k, kind := range st.Mid {
					if k < run.N {
						rec.Label("mid-reconcile-step=" + kind)
					}
				}
			}
		}
		w.ssaNow = sc.SSA
		end := "end of history " + verifkit.JSON(hist)
		w.settle(end, 4, 0)
		w.converged(end)
		if nontrivial {
			rec.NonTrivial(verifkit.JSON(sc)+verifkit.JSON(hist), func() any { return map[string]any{"scenario": sc, "history": hist} })
		}
	})
}

// ---------------------------------------------------------------------------
// pinned rows and sanity (no rapid): guard against a vacuously quiet harness

func pinnedScenarios() []scenario {
	var out []scenario
	for _, cfg := range []struct{ ssa, up bool }{{false, false}, {true, false}, {true, true}} {
		out = append(out, scenario{SSA: cfg.ssa, Upgrade: cfg.up, Seed: 42, Claim: claimID{NS: "ns1", Name: "cm"}, Params: map[string]string{"p0": "x"}, Pre: preNone, Composed: 1})
	}
	return out
}

func xrNames(w *world) []string {
	var out []string
	for _, k := range w.sim.Keys(xrGK) {
		out = append(out, k.Name)
	}
	return out
}

// TestVerifC06SanityBinds: a fault-free history binds exactly one XR, and the oracle bookkeeping sees it.
func TestVerifC06SanityBinds(t *testing.T) {
	for _, sc := range pinnedScenarios() {
		w := newWorld(sc, func(f string, a ...any) { t.Fatalf(f, a...) })
		w.prefix("steady")
		w.ssaNow = sc.SSA
		w.settle("sanity", 2, 0)
		w.converged("sanity")
		cm := w.sim.Get(sc.Claim.key())
		if n := xrNames(w); len(n) != 1 || refName(cm) != n[0] || !refNames(w.sim.Get(w.env.XRKey(n[0])), sc.Claim) {
			t.Fatalf("%s: expected exactly one XR bound to the claim, XRs %v, claim ref %q", sc.config(), n, refName(cm))
		}
		if len(w.createdFor(sc.Claim)) != 1 {
			t.Fatalf("%s: oracle bookkeeping did not see the XR creation: %v", sc.config(), w.st.created)
		}
		if !strings.Contains(verifsim.ObjDigest(cm), `"Ready","status":"True"`) && !strings.Contains(verifsim.ObjDigest(cm), `"status":"True","type":"Ready"`) {
			t.Fatalf("%s: claim never became Ready (the XR actor does not work): %s", sc.config(), verifsim.ObjDigest(cm))
		}
		// user deletes the claim: the bound XR goes away with it.
		w.apply(step{Kind: "delete"})
		w.settle("sanity delete", 3, 0)
		if w.sim.Get(sc.Claim.key()) != nil || len(xrNames(w)) != 0 {
			t.Fatalf("%s: after claim deletion: claim %v, XRs %v", sc.config(), w.sim.Get(sc.Claim.key()) != nil, xrNames(w))
		}
	}
}

// TestVerifC06PinnedCrashAfterRefUpdate: crash right after the claim Update that records
// resourceRef; the retry must create exactly the recorded name.
func TestVerifC06PinnedCrashAfterRefUpdate(t *testing.T) {
	for _, sc := range pinnedScenarios() {
		w := newWorld(sc, func(f string, a ...any) { t.Fatalf(f, a...) })
		w.ssaNow = sc.SSA
		base := w.sim.Snapshot()
		baseSt := w.st.clone()
		l0 := w.sim.LogLen()
		utilrand.Seed(7)
		probe, err := w.claimReconcile(sc.Claim, nil, 0, nil)
		if err != nil {
			t.Fatalf("%s: probe: %v", sc.config(), err)
		}
		plog := w.sim.Log()[l0:]
		k := -1
		for i := 0; i < probe.N; i++ {
			if refWriteAt(probe, plog, sc.Claim, i) {
				k = i
			}
		}
		if k < 0 {
			t.Fatalf("%s: no claim Update recording resourceRef in a fresh reconcile: %v", sc.config(), probe.Calls)
		}
		w.sim.Restore(base)
		w.st = baseSt.clone()
		utilrand.Seed(7)
		_, _ = w.claimReconcile(sc.Claim, map[int]verifsim.Fault{k: {Kind: verifsim.CrashAfter}}, 0, nil)
		w.check("pinned crash")
		recorded := refName(w.sim.Get(sc.Claim.key()))
		if recorded == "" || len(xrNames(w)) != 0 {
			t.Fatalf("%s: after crash-after at call %d (%s): recorded %q, XRs %v — the crash point is not where the design expects it", sc.config(), k, probe.Calls[k], recorded, xrNames(w))
		}
		utilrand.Seed(99) // a retry that generated a name would generate a different one
		w.settle("pinned crash retry", 2, 0)
		w.converged("pinned crash retry")
		if n := xrNames(w); len(n) != 1 || n[0] != recorded {
			t.Fatalf("%s: retry did not reuse the recorded name %q: XRs %v", sc.config(), recorded, n)
		}
	}
}

// TestVerifC06PinnedStaleClaim: the cached claim still lacks resourceRef although the store has it
// and the XR exists; the reconcile must be refused (Conflict), not create a second XR.
func TestVerifC06PinnedStaleClaim(t *testing.T) {
	for _, sc := range pinnedScenarios() {
		for _, catch := range []catchUp{{}, {Reads: 1}, {Reads: 2}, {Decay: true}} {
			for lag := 1; lag <= 6; lag++ {
				w := newWorld(sc, func(f string, a ...any) { t.Fatalf(f, a...) })
				w.ssaNow = sc.SSA
				utilrand.Seed(7)
				if _, err := w.claimReconcile(sc.Claim, nil, 0, nil); err != nil {
					t.Fatalf("%s: %v", sc.config(), err)
				}
				first := xrNames(w)
				l0 := w.sim.LogLen()
				// The cache catches up during the reconcile (catch): a code path that re-reads the claim
				// after a Conflict sees the stored resourceRef and must not overwrite it.
				w.catch = catch
				_, _ = w.claimReconcile(sc.Claim, nil, lag, nil)
				stale := w.lastStaleRef
				w.check(fmt.Sprintf("pinned stale lag %d, cache catch-up %s", lag, catch))
				if n := xrNames(w); len(n) != 1 || n[0] != first[0] {
					t.Fatalf("%s lag %d: XRs %v, expected %v", sc.config(), lag, n, first)
				}
				if stale {
					refused := false
					for _, wr := range w.sim.Log()[l0:] {
						if wr.Key == sc.Claim.key() && strings.Contains(wr.Err, "Conflict") {
							refused = true
						}
					}
					if !refused {
						t.Fatalf("%s lag %d: the reconcile read a claim without resourceRef but no claim write was refused with a Conflict", sc.config(), lag)
					}
				}
				w.settle("pinned stale", 2, 0)
				w.converged("pinned stale")
			}
		}
	}
}

// TestVerifC06SanityForeign: a referenced XR bound to another claim is left byte-identical (also when
// our claim is deleted), and the refusal is surfaced; positive control: the same reference to an
// UNBOUND XR does get written (bound), so the quietness above is not vacuous.
func TestVerifC06SanityForeign(t *testing.T) {
	for _, base := range pinnedScenarios() {
		for _, pre := range []string{preForeignOrganic, preForeignDangling} {
			for _, diff := range []string{"name", "namespace", "both", "kind"} {
				if pre == preForeignOrganic && diff == "kind" {
					continue
				}
				for _, refVersion := range []string{"", "v1alpha1"} {
					sc := base
					sc.Pre, sc.ForeignDiff, sc.Referenced, sc.RefVersion = pre, diff, true, refVersion
					w := newWorld(sc, func(f string, a ...any) { t.Fatalf(f, a...) })
					w.ssaNow = sc.SSA
					name := refName(w.sim.Get(sc.Claim.key()))
					before := verifsim.ObjDigest(w.sim.Get(w.env.XRKey(name)))
					for i := 0; i < 2; i++ {
						_, _ = w.claimReconcile(sc.Claim, nil, 0, nil)
						w.check("sanity foreign")
					}
					cm := w.sim.Get(sc.Claim.key())
					// The refusal must surface; the wording of the message is not part of the property, so only the
					// structure is judged: the claim carries Synced=False.
					surfaced := false
					if l, ok := verifsim.Nested(cm, "status", "conditions").([]any); ok {
						for _, e := range l {
							if m, ok := e.(map[string]any); ok && m["type"] == "Synced" && m["status"] == "False" {
								surfaced = true
							}
						}
					}
					if !surfaced {
						t.Fatalf("%s %s/%s: refusal not surfaced on the claim: %s", sc.config(), pre, diff, verifsim.ObjDigest(cm))
					}
					w.apply(step{Kind: "delete"})
					for i := 0; i < 2; i++ {
						_, _ = w.claimReconcile(sc.Claim, nil, 0, nil)
						w.check("sanity foreign delete")
					}
					if after := verifsim.ObjDigest(w.sim.Get(w.env.XRKey(name))); after != before {
						t.Fatalf("%s %s/%s (ref version %q): foreign XR changed:\n before %s\n after  %s", sc.config(), pre, diff, refVersion, before, after)
					}
				}
			}
		}
		sc := base
		sc.Pre, sc.Referenced = preUnbound, true
		w := newWorld(sc, func(f string, a ...any) { t.Fatalf(f, a...) })
		w.ssaNow = sc.SSA
		_, _ = w.claimReconcile(sc.Claim, nil, 0, nil)
		w.check("positive control")
		if xr := w.sim.Get(w.env.XRKey("static-xr")); !refNames(xr, sc.Claim) {
			t.Fatalf("%s: positive control: the referenced unbound XR was not bound: %s", sc.config(), verifsim.ObjDigest(xr))
		}
		if len(w.createdFor(sc.Claim)) != 0 || len(xrNames(w)) != 1 {
			t.Fatalf("%s: positive control: binding a static XR must not create another one: %v", sc.config(), xrNames(w))
		}
	}
}

// TestVerifC06PinnedCandidateTaken: the first names the generator draws already belong to XRs of a
// same-named claim in another namespace. Fault-free, the generator must skip them; when the lookup
// of such a candidate fails with ANY error class other than NotFound (here: NoMatch from a lagging
// REST mapper, 500, conflict), the name has not been verified free and the other claim's XR must
// not be written. Judged by the O1-O5 monitors and byte-identity only.
func TestVerifC06PinnedCandidateTaken(t *testing.T) {
	for _, base := range pinnedScenarios() {
		sc := base
		sc.Taken = 2
		mk := func() (*world, map[string]string) {
			w := newWorld(sc, func(f string, a ...any) { t.Fatalf(f, a...) })
			w.ssaNow = sc.SSA
			if len(w.taken) != 2 {
				t.Fatalf("%s: expected two squatted names, have %v", sc.config(), w.taken)
			}
			d := map[string]string{}
			for _, n := range w.taken {
				d[n] = verifsim.ObjDigest(w.sim.Get(w.env.XRKey(n)))
			}
			return w, d
		}
		same := func(w *world, d map[string]string, ctx string) {
			w.check(ctx)
			for n, before := range d {
				if after := verifsim.ObjDigest(w.sim.Get(w.env.XRKey(n))); after != before {
					t.Fatalf("%s %s: XR %s of the other claim changed:\n before %s\n after  %s", sc.config(), ctx, n, short(before), short(after))
				}
			}
		}
		w, d := mk()
		probe, err := w.claimReconcile(sc.Claim, nil, 0, nil)
		if err != nil {
			t.Fatalf("%s: %v", sc.config(), err)
		}
		same(w, d, "fault-free")
		var lookups []int
		for k := 0; k < probe.N; k++ {
			if w.lookedUpTaken(probe, k) {
				lookups = append(lookups, k)
			}
		}
		if len(lookups) != 2 {
			t.Fatalf("%s: the harness mispredicts the generated candidates: squatted %v, calls %v", sc.config(), w.taken, probe.Calls)
		}
		bound := refName(w.sim.Get(sc.Claim.key()))
		if bound == "" || bound == w.taken[0] || bound == w.taken[1] || !refNames(w.sim.Get(w.env.XRKey(bound)), sc.Claim) {
			t.Fatalf("%s: claim bound %q, squatted %v", sc.config(), bound, w.taken)
		}
		for _, k := range lookups {
			for _, f := range []verifsim.Fault{{Kind: verifsim.ErrBefore, Err: "nomatch"}, {Kind: verifsim.ErrBefore, Err: "server"}, {Kind: verifsim.ErrBefore, Err: "conflict"}, {Kind: verifsim.ErrBefore, Err: "timeout"}} {
				w, d := mk()
				ctx := fmt.Sprintf("lookup of squatted candidate (call %d) fails with %s", k, f.Err)
				_, _ = w.claimReconcile(sc.Claim, map[int]verifsim.Fault{k: f}, 0, nil)
				same(w, d, ctx)
				// Retries by the claim controller alone (the XR controller may legitimately write the squatted XRs).
				for i := 0; i < 2; i++ {
					_, _ = w.claimReconcile(sc.Claim, nil, 0, nil)
					same(w, d, ctx+" / after retry")
				}
				w.settle(ctx, 2, 0)
				w.converged(ctx)
			}
		}
	}
}

// goneWorld: bind, make ready, delete, finalize (the claim is GONE from the store and so is its XR),
// optionally re-create a claim of the same name (new UID, optionally already bound to its own XR);
// then a NEW controller process takes over.
func goneWorld(t *testing.T, sc scenario, recreate, bindNew bool, fail func(string, ...any)) *world {
	w := newWorld(sc, fail)
	w.noExclude = true
	w.ssaNow = sc.SSA
	w.prefix("steady")
	w.apply(step{Kind: "delete"})
	for i := 0; i < 3; i++ {
		_, _ = w.claimReconcile(sc.Claim, nil, 0, nil)
		w.xrReconcileAll()
		w.apply(step{Kind: "gc"})
	}
	if w.sim.Get(sc.Claim.key()) != nil || len(xrNames(w)) != 0 {
		t.Fatalf("%s: setup: claim/XR not gone: %v", sc.config(), w.sim.AllKeys())
	}
	if recreate {
		w.apply(step{Kind: "recreate"})
		if bindNew {
			_, _ = w.claimReconcile(sc.Claim, nil, 0, nil)
			w.xrReconcileAll()
		}
	}
	w.restart()
	_ = w.sim.TakeViolations()
	return w
}

// goneRows runs, for every lag, a reconcile by the new process that still reads an old claim version,
// and returns the violations of the oracles (O1-O5) plus the structural outcome.
func goneRows(t *testing.T, sc scenario) []string {
	var out []string
	for _, row := range []struct{ recreate, bindNew bool }{{false, false}, {true, false}, {true, true}} {
		for lag := 1; lag <= 10; lag++ {
			var vs []string
			w := goneWorld(t, sc, row.recreate, row.bindNew, func(f string, a ...any) { vs = append(vs, fmt.Sprintf(f, a...)) })
			_, _ = w.claimReconcile(sc.Claim, nil, lag, nil)
			removed := w.lastRemoved
			w.check(fmt.Sprintf("claim gone (recreated=%v, new claim bound=%v), new controller process reads the claim %d writes back", row.recreate, row.bindNew, lag))
			if !removed {
				if len(vs) > 0 {
					t.Fatalf("%s: violation without a stale read of a removed claim: %v", sc.config(), vs)
				}
				continue
			}
			want := 0
			if row.bindNew {
				want = 1
			}
			if n := xrNames(w); len(n) != want && len(vs) == 0 {
				vs = append(vs, fmt.Sprintf("XRs %v in the store (expected %d) but no oracle fired", n, want))
			}
			out = append(out, vs...)
		}
	}
	return out
}

// TestVerifC06PinnedGoneClaimSSA: a reconcile that still reads a claim which has since been deleted and
// finalized (ordinary informer lag of a new controller process) must not re-create or bind an XR:
// the server-side syncer's unconditional claim Update is refused (NotFound / Conflict).
func TestVerifC06PinnedGoneClaimSSA(t *testing.T) {
	for _, sc := range pinnedScenarios() {
		if !sc.SSA {
			continue
		}
		if vs := goneRows(t, sc); len(vs) > 0 {
			t.Fatalf("%s:\n%s", sc.config(), strings.Join(vs, "\n"))
		}
	}
}

// TestVerifC06KnownStaleGoneClaimCSA is the pinned reproducer of the ledger entry knownKey: the same
// rows with the client-side syncer. While the entry is open, the generated search steers around the
// class (client-side syncer + claim version from before the removal) and counts excluded_known.
func TestVerifC06KnownStaleGoneClaimCSA(t *testing.T) {
	rec := verifkit.New(t, "C06", "known-finding reproducer: client-side syncer, claim deleted and finalized (optionally re-created), new controller process reads a pre-deletion claim version")
	rec.Eval()
	sc := pinnedScenarios()[0]
	vs := goneRows(t, sc)
	switch {
	case len(vs) == 0:
		return
	case knownOpen:
		rec.KnownReproduced("client-side claim syncer re-creates the XR of a deleted and finalized claim when a new controller process still reads a pre-deletion version of the claim (no claim write, hence no resourceVersion/NotFound check, precedes the XR create); with a claim re-created under the same name two live XRs name that claim")
	default:
		t.Fatalf("client-side syncer, stale read of a since-removed claim:\n%s", strings.Join(vs[:min(len(vs), 6)], "\n"))
	}
}
