//go:build verif

package c02

import (
	"context"
	"encoding/json"
	"fmt"
	"testing"

	corev1 "k8s.io/api/core/v1"
	"k8s.io/apimachinery/pkg/runtime"
	utilrand "k8s.io/apimachinery/pkg/util/rand"
	"k8s.io/utils/ptr"
	"pgregory.net/rapid"
	"sigs.k8s.io/controller-runtime/pkg/client"

	"google.golang.org/protobuf/types/known/structpb"

	fnv1 "github.com/crossplane/crossplane/apis/apiextensions/fn/proto/v1"
	v1 "github.com/crossplane/crossplane/apis/apiextensions/v1"
	"github.com/crossplane/crossplane-runtime/pkg/resource/unstructured/composed"

	"github.com/crossplane/crossplane/internal/controller/apiextensions/composite"
	"github.com/crossplane/crossplane/internal/verifenv"
	"github.com/crossplane/crossplane/internal/verifkit"
	"github.com/crossplane/crossplane/internal/verifsim"
)

const (
	annResName  = "crossplane.io/composition-resource-name"
	lblComp     = "crossplane.io/composite"
	xrName      = "xr1"
	otherXRName = "xr-other"
)

type crule struct {
	Name  string `json:"name"`
	Kind  string `json:"kind"`
	Fixed string `json:"fixed,omitempty"` // metadata.name the function asks for (pipeline only)
}

// compCase is one generated case of the composer site.
type compCase struct {
	Pipeline      bool      `json:"pipeline"`
	Rules         []crule   `json:"rules"`
	Variant       string    `json:"variant"` // ref | name-fixed | name-generated | gc
	Target        int       `json:"target"`
	LooksComposed bool      `json:"looksComposed"`
	Place         placement `json:"placement"`
	Bystanders    int       `json:"bystanders"`
	Seed          int64     `json:"seed"`
	// ConnKeys/WithConn are used by the connection secret site.
	targetName string
}

func genCompCase() *rapid.Generator[compCase] {
	return rapid.Custom(func(t *rapid.T) compCase {
		c := compCase{Pipeline: rapid.Bool().Draw(t, "pipeline"), Seed: rapid.Int64Range(1, 1<<40).Draw(t, "seed")}
		variants := []string{"ref", "name-generated", "gc"}
		if c.Pipeline {
			variants = append(variants, "name-fixed")
		}
		c.Variant = rapid.SampledFrom(variants).Draw(t, "variant")
		n := rapid.IntRange(1, 3).Draw(t, "nrules")
		c.Target = rapid.IntRange(0, n-1).Draw(t, "target")
		for i := 0; i < n; i++ {
			r := crule{Name: fmt.Sprintf("r%d", i), Kind: rapid.SampledFrom([]string{"KindA", "KindB"}).Draw(t, "kind")}
			if c.Pipeline && rapid.IntRange(0, 2).Draw(t, "fixed") == 0 {
				r.Fixed = fmt.Sprintf("fixed-%d", i)
			}
			// The generated-name variant needs the draw of the one generated name to be
			// reproducible: every other desired resource has a fixed name (pipeline) or
			// there is only the target (P&T generates names in template order, which is stable).
			if c.Variant == "name-generated" && c.Pipeline && i != c.Target {
				r.Fixed = fmt.Sprintf("fixed-%d", i)
			}
			c.Rules = append(c.Rules, r)
		}
		switch c.Variant {
		case "name-fixed":
			c.Rules[c.Target].Fixed = fmt.Sprintf("fixed-%d", c.Target)
		case "name-generated":
			c.Rules[c.Target].Fixed = ""
		}
		c.LooksComposed = rapid.Bool().Draw(t, "looksComposed")
		c.Place = rapid.SampledFrom(placements).Draw(t, "placement")
		c.Bystanders = rapid.IntRange(0, 2).Draw(t, "bystanders")
		return c
	})
}

func (cc compCase) runner(conn map[string][]byte) composite.FunctionRunner {
	return composite.FunctionRunnerFn(func(_ context.Context, _ string, req *fnv1.RunFunctionRequest) (*fnv1.RunFunctionResponse, error) {
		d := req.GetDesired()
		if d == nil {
			d = &fnv1.State{}
		}
		if d.Resources == nil {
			d.Resources = map[string]*fnv1.Resource{}
		}
		for _, r := range cc.Rules {
			md := map[string]any{}
			if r.Fixed != "" {
				md["name"] = r.Fixed
			}
			s, err := structpb.NewStruct(map[string]any{
				"apiVersion": "example.org/v1", "kind": r.Kind, "metadata": md,
				"spec": map[string]any{"forProvider": map[string]any{"v": "want"}},
			})
			if err != nil {
				return nil, err
			}
			d.Resources[r.Name] = &fnv1.Resource{Resource: s, Ready: fnv1.Ready_READY_TRUE}
		}
		if conn != nil {
			d.Composite = &fnv1.Resource{ConnectionDetails: conn}
		}
		return &fnv1.RunFunctionResponse{Desired: d, Context: req.GetContext()}, nil
	})
}

func (cc compCase) composition() *v1.Composition {
	c := &v1.Composition{}
	c.SetName("comp")
	c.Spec.CompositeTypeRef = v1.TypeReference{APIVersion: "example.org/v1", Kind: "XThing"}
	if cc.Pipeline {
		c.Spec.Mode = ptr.To(v1.CompositionModePipeline)
		c.Spec.Pipeline = []v1.PipelineStep{{Step: "step-0", FunctionRef: v1.FunctionReference{Name: "fn-0"}}}
		return c
	}
	c.Spec.Mode = ptr.To(v1.CompositionModeResources)
	for _, r := range cc.Rules {
		base, _ := json.Marshal(map[string]any{"apiVersion": "example.org/v1", "kind": r.Kind, "spec": map[string]any{"forProvider": map[string]any{"v": "want"}}})
		c.Spec.Resources = append(c.Spec.Resources, v1.ComposedTemplate{Name: ptr.To(r.Name), Base: runtime.RawExtension{Raw: base}})
	}
	return c
}

// xrWorld builds the XR reconciler environment shared by the composer and the
// connection secret sites. prep may add to the XR before it is created.
func xrWorld(cc compCase, conn map[string][]byte, keys []string, prep func(xr *verifenv.XR)) (*world, *verifenv.XREnv, verifsim.Obj) {
	utilrand.Seed(cc.Seed)
	env := verifenv.NewXREnv()
	env.Runner = cc.runner(conn)
	env.Keys = keys
	env.InstallComposition(cc.composition(), 1)
	other := env.NewXR(otherXRName, "comp")
	env.Sim.MustCreate(envActor, other)
	xr := env.NewXR(xrName, "comp")
	if prep != nil {
		prep(xr)
	}
	env.Sim.MustCreate(envActor, xr)
	w := &world{sim: env.Sim, rec: env.Recorder, ownerKey: env.XRKey(xrName), ownerUID: string(xr.GetUID())}
	w.step = func(c client.Client, i int) error {
		// Generated names must not depend on how many cases ran before.
		utilrand.Seed(cc.Seed + int64(i))
		// Cached client as given (it may lag), uncached client always live.
		_, err := env.ReconcileWith(c, w.live, xrName)
		return err
	}
	return w, env, env.Sim.Get(env.XRKey(otherXRName))
}

func (cc compCase) targetKey() verifsim.Key {
	kind := "KindA"
	name := "pre-gone"
	if cc.Variant != "gc" {
		r := cc.Rules[cc.Target]
		kind = r.Kind
		switch {
		case cc.Variant == "name-generated":
			name = cc.targetName
		case r.Fixed != "":
			name = r.Fixed
		default:
			name = fmt.Sprintf("pre-%d", cc.Target)
		}
	}
	return verifsim.Key{Group: "example.org", Kind: kind, Name: name}
}

// discoverGeneratedName runs the same world without the target and returns the
// name the composer generates for the target's desired resource.
func (cc compCase) discoverGeneratedName() string {
	w, _, _ := xrWorld(cc, nil, nil, nil)
	w.runSite(1)
	want := cc.Rules[cc.Target].Name
	for k, o := range w.sim.State() {
		if k.Group == "example.org" && verifsim.Annotations(o)[annResName] == want && verifsim.ControllerUID(o) == w.ownerUID {
			return k.Name
		}
	}
	panic(fmt.Sprintf("c02: composer created no resource for %q in the discovery run: %v", want, w.sim.AllKeys()))
}

func (cc compCase) build(p placement) (*world, expectation) {
	tk := cc.targetKey()
	referenced := cc.Variant == "ref" || cc.Variant == "gc"
	w, env, other := xrWorld(cc, nil, nil, func(xr *verifenv.XR) {
		if referenced {
			xr.SetResourceReferences([]corev1.ObjectReference{{APIVersion: "example.org/v1", Kind: tk.Kind, Name: tk.Name}})
		}
	})
	xr := env.Sim.Get(env.XRKey(xrName))
	resName := "gone"
	if cc.Variant != "gc" {
		resName = cc.Rules[cc.Target].Name
	}
	md := map[string]any{"name": tk.Name}
	if referenced || cc.LooksComposed {
		comp := xrName
		if !referenced || p.isForeign() {
			comp = otherXRName
		}
		md["annotations"] = map[string]any{annResName: resName}
		md["labels"] = map[string]any{lblComp: comp}
	}
	o := verifsim.Obj{"apiVersion": "example.org/v1", "kind": tk.Kind, "metadata": md, "spec": map[string]any{"forProvider": map[string]any{"v": "PRE", "keep": "me"}}}
	setController(o, p, refTo(xr, true), refTo(other, true))
	mustCreate(env.Sim, o)
	for i := 0; i < cc.Bystanders; i++ {
		b := verifsim.Obj{"apiVersion": "example.org/v1", "kind": "KindA", "metadata": map[string]any{"name": fmt.Sprintf("bystander-%d", i), "annotations": map[string]any{annResName: "r0"}}, "spec": map[string]any{"forProvider": map[string]any{"v": "theirs"}}}
		setController(b, []placement{foreign, foreignOwnPlain, foreignExtraPlain}[i%3], refTo(xr, true), refTo(other, true))
		mustCreate(env.Sim, b)
	}
	if cc.Variant == "name-generated" {
		// The informer cache has not caught up with the object somebody else just
		// created: the first reconcile does not see it (the only way a generated
		// name can collide), later reconciles do.
		w.clientFor = func(run *verifsim.Run, i int) client.Client {
			if i > 0 {
				return nil
			}
			return run.StaleClient(func(k verifsim.Key) int {
				if k == tk {
					return 1
				}
				return 0
			})
		}
		env2 := env
		w.step = func(c client.Client, i int) error {
			utilrand.Seed(cc.Seed + int64(i))
			uc := client.Client(w.sim.NewRun(siteActor, nil).Client())
			if i > 0 {
				uc = c
			}
			_, err := env2.ReconcileWith(c, uc, xrName)
			return err
		}
	}
	e := expectation{site: "composer/" + map[bool]string{true: "functions", false: "pt"}[cc.Pipeline], kind: cc.Variant, place: p, target: tk, mustWrite: true}
	switch cc.Variant {
	case "ref":
		// The function composer ignores a referenced resource somebody else controls
		// ("pretend it doesn't exist") and composes a fresh one unless the function pins
		// the name; P&T keeps the reference and must refuse.
		e.surface = !cc.Pipeline || cc.Rules[cc.Target].Fixed != ""
		e.adopts = true
	case "gc":
		e.surface = !cc.Pipeline
		e.gone = true
	default:
		e.surface = true
		e.adopts = true
	}
	return w, e
}

func TestVerifC02Composers(t *testing.T) {
	rec := verifkit.New(t, "C02", "per site: object kind/names from the site's domain, a controller reference to a FOREIGN uid (or none / the owner's own: positive controls) on exactly the object the site writes, plus bystanders; non-trivial = foreign placement on an object the site demonstrably writes in the control run of the same case; distinct = (site, kind/variant, placement)")
	rapid.Check(t, func(t *rapid.T) {
		cc := genCompCase().Draw(t, "case")
		if cc.Variant == "name-generated" {
			cc.targetName = cc.discoverGeneratedName()
		}
		runCase(rec, cc.build, cc.Place, genVisibility().Draw(t, "reads"), 3, func() any { return cc }, tfail(t))
	})
}

// ---------------------------------------------------------------------------
// The function composer's garbage collector, driven directly. Through the XR
// reconciler it never sees a foreign-controlled resource (the observer drops
// them first), so its own documented guard ("Don't garbage collect composed
// resources that someone else controls") is only reachable here.

type fnGCCase struct {
	N     int       `json:"observed"`
	Gone  int       `json:"undesired"` // index of the observed resource that is no longer desired
	Place placement `json:"placement"`
}

func (gc fnGCCase) build(p placement) (*world, expectation) {
	cc := compCase{Pipeline: true, Rules: []crule{{Name: "r0", Kind: "KindA"}}, Seed: 7}
	w, env, other := xrWorld(cc, nil, nil, nil)
	xr := env.Sim.Get(env.XRKey(xrName))
	var tk verifsim.Key
	for i := 0; i < gc.N; i++ {
		o := verifsim.Obj{"apiVersion": "example.org/v1", "kind": "KindA", "metadata": map[string]any{"name": fmt.Sprintf("cd-%d", i),
			"annotations": map[string]any{annResName: fmt.Sprintf("r%d", i)}, "labels": map[string]any{lblComp: xrName}}, "spec": map[string]any{"forProvider": map[string]any{"v": "x"}}}
		pl := own
		if i == gc.Gone%gc.N {
			pl = p
			tk = verifsim.KeyOf(o)
		}
		setController(o, pl, refTo(xr, true), refTo(other, true))
		mustCreate(env.Sim, o)
	}
	w.step = func(c client.Client, _ int) error {
		ctx := context.Background()
		owner := verifenv.NewUnstructuredXR(env.XRGVK, xrName)
		if err := c.Get(ctx, client.ObjectKey{Name: xrName}, owner); err != nil {
			return err
		}
		observed, desired := composite.ComposedResourceStates{}, composite.ComposedResourceStates{}
		for i := 0; i < gc.N; i++ {
			cd := composed.New()
			cd.SetAPIVersion("example.org/v1")
			cd.SetKind("KindA")
			if err := w.live.Get(ctx, client.ObjectKey{Name: fmt.Sprintf("cd-%d", i)}, cd); err != nil {
				continue
			}
			name := composite.ResourceName(fmt.Sprintf("r%d", i))
			observed[name] = composite.ComposedResourceState{Resource: cd}
			if i != gc.Gone%gc.N {
				desired[name] = composite.ComposedResourceState{Resource: cd}
			}
		}
		return composite.NewDeletingComposedResourceGarbageCollector(c).GarbageCollectComposedResources(ctx, owner, observed, desired)
	}
	return w, expectation{site: "composer/functions-gc-direct", kind: "gc", place: p, target: tk, surface: true, mustWrite: true, gone: true, noReads: true}
}

func TestVerifC02FunctionGC(t *testing.T) {
	rec := verifkit.New(t, "C02", "DeletingComposedResourceGarbageCollector driven directly with an observed, undesired resource")
	rapid.Check(t, func(t *rapid.T) {
		gc := fnGCCase{N: rapid.IntRange(1, 3).Draw(t, "n"), Gone: rapid.IntRange(0, 2).Draw(t, "gone"), Place: rapid.SampledFrom(placements).Draw(t, "placement")}
		runCase(rec, gc.build, gc.Place, genVisibility().Draw(t, "reads"), 2, func() any { return gc }, tfail(t))
	})
}
