//go:build verif

package c02

import (
	"context"
	"fmt"
	"sort"
	"strings"
	"sync"
	"testing"

	"github.com/go-logr/logr"
	appsv1 "k8s.io/api/apps/v1"
	corev1 "k8s.io/api/core/v1"
	extv1 "k8s.io/apiextensions-apiserver/pkg/apis/apiextensions/v1"
	metav1 "k8s.io/apimachinery/pkg/apis/meta/v1"
	"k8s.io/apimachinery/pkg/runtime"
	"k8s.io/apimachinery/pkg/runtime/schema"
	"k8s.io/apimachinery/pkg/types"
	"k8s.io/client-go/tools/record"
	"pgregory.net/rapid"
	ctrl "sigs.k8s.io/controller-runtime"
	"sigs.k8s.io/controller-runtime/pkg/client"
	"sigs.k8s.io/controller-runtime/pkg/reconcile"

	xpv1 "github.com/crossplane/crossplane-runtime/apis/common/v1"

	v1 "github.com/crossplane/crossplane/apis/apiextensions/v1"
	pkgv1 "github.com/crossplane/crossplane/apis/pkg/v1"
	"github.com/crossplane/crossplane/internal/controller/apiextensions/definition"
	"github.com/crossplane/crossplane/internal/controller/apiextensions/offered"
	pkgmanager "github.com/crossplane/crossplane/internal/controller/pkg/manager"
	rbacdefinition "github.com/crossplane/crossplane/internal/controller/rbac/definition"
	"github.com/crossplane/crossplane/internal/controller/rbac/provider/binding"
	"github.com/crossplane/crossplane/internal/controller/rbac/provider/roles"
	"github.com/crossplane/crossplane/internal/engine"
	"github.com/crossplane/crossplane/internal/verifenv"
	"github.com/crossplane/crossplane/internal/verifkit"
	"github.com/crossplane/crossplane/internal/verifsim"
	"github.com/crossplane/crossplane/internal/xpkg"
)

// ---------------------------------------------------------------------------
// fakes for the outermost dependencies

// fakeManager is the minimal manager.Manager the NewReconciler constructors read.
type fakeManager struct {
	ctrl.Manager // nil: anything not overridden panics loudly
	c            client.Client
}

func (m *fakeManager) GetClient() client.Client                        { return m.c }
func (m *fakeManager) GetScheme() *runtime.Scheme                      { return m.c.Scheme() }
func (m *fakeManager) GetLogger() logr.Logger                          { return logr.Discard() }
func (m *fakeManager) GetEventRecorderFor(string) record.EventRecorder { return nopEvents{} }
func (m *fakeManager) Elected() <-chan struct{}                        { c := make(chan struct{}); close(c); return c }

type nopEvents struct{}

func (nopEvents) Event(runtime.Object, string, string, string)                                        {}
func (nopEvents) Eventf(runtime.Object, string, string, string, ...any)                               {}
func (nopEvents) AnnotatedEventf(runtime.Object, map[string]string, string, string, string, ...any) {}

// fakeEngine records controller starts; it satisfies definition.ControllerEngine and offered.ControllerEngine.
type fakeEngine struct {
	mu      sync.Mutex
	c       client.Client
	running map[string]bool
	Starts  int
	Stops   int
}

func (e *fakeEngine) Start(name string, _ ...engine.ControllerOption) error {
	e.mu.Lock()
	defer e.mu.Unlock()
	if e.running == nil {
		e.running = map[string]bool{}
	}
	e.running[name] = true
	e.Starts++
	return nil
}

func (e *fakeEngine) Stop(_ context.Context, name string) error {
	e.mu.Lock()
	defer e.mu.Unlock()
	delete(e.running, name)
	e.Stops++
	return nil
}

func (e *fakeEngine) IsRunning(name string) bool {
	e.mu.Lock()
	defer e.mu.Unlock()
	return e.running[name]
}
func (e *fakeEngine) GetWatches(string) ([]engine.WatchID, error)                       { return nil, nil }
func (e *fakeEngine) StartWatches(string, ...engine.Watch) error                        { return nil }
func (e *fakeEngine) StopWatches(context.Context, string, ...engine.WatchID) (int, error) { return 0, nil }
func (e *fakeEngine) GetCached() client.Client                                          { return e.c }
func (e *fakeEngine) GetUncached() client.Client                                        { return e.c }
func (e *fakeEngine) GetFieldIndexer() client.FieldIndexer                              { return nil }

var (
	_ definition.ControllerEngine = &fakeEngine{}
	_ offered.ControllerEngine    = &fakeEngine{}
)

// fixedRevisioner stands in for the OCI registry: the package source resolves to this revision name.
type fixedRevisioner string

func (r fixedRevisioner) Revision(context.Context, pkgv1.Package, ...string) (string, error) {
	return string(r), nil
}

// ---------------------------------------------------------------------------
// the generic "object with the derived name" case

// derivedCase describes a site that writes objects whose names derive from
// its owner. The target is discovered, not hard-coded: the site is run once on
// a world without the target and the objects of kind GK it creates are the
// candidates.
type derivedCase struct {
	Site    string    `json:"site"`
	Variant string    `json:"variant,omitempty"`
	Pick    int       `json:"pick"`
	Ghost   bool      `json:"ghostOwner"` // the foreign owner no longer exists (e.g. deleted and re-created under the same name)
	Bystand int       `json:"bystanders"`
	Place   placement `json:"placement"`
	N       int       `json:"n"` // site-specific size parameter
	Names   [2]string `json:"names"`

	gk           schema.GroupKind
	base         func() *world
	discoverBase func() *world
	cache        *[]verifsim.Obj
	perturb func(o verifsim.Obj)
	tweak   func(e *expectation, p placement)
}

func (w *world) refs(ghost bool) (ownRef, foreignRef map[string]any) {
	ownRef = refTo(w.sim.Get(w.ownerKey), true)
	if ghost {
		foreignRef = ownerRef(fmt.Sprint(ownRef["apiVersion"]), fmt.Sprint(ownRef["kind"]), fmt.Sprint(ownRef["name"]), "uid-of-a-former-owner", true)
	} else {
		foreignRef = refTo(w.sim.Get(w.foreignKey), true)
	}
	return ownRef, foreignRef
}

func (dc derivedCase) candidates() []verifsim.Obj {
	if dc.cache != nil && *dc.cache != nil {
		return *dc.cache
	}
	b := dc.base
	if dc.discoverBase != nil {
		b = dc.discoverBase
	}
	d := b()
	d.runSite(2)
	var out []verifsim.Obj
	seen := map[verifsim.Key]bool{}
	for _, wr := range d.sim.Log() {
		if wr.Actor == siteActor && wr.Verb == "create" && wr.Err == "" && !wr.DryRun && wr.Key.GK() == dc.gk && !seen[wr.Key] {
			seen[wr.Key] = true
			out = append(out, wr.After)
		}
	}
	sort.Slice(out, func(i, j int) bool { return verifsim.KeyOf(out[i]).String() < verifsim.KeyOf(out[j]).String() })
	if len(out) == 0 {
		panic(fmt.Sprintf("c02: site %s creates no %s in the discovery run; log: %s", dc.Site, dc.gk, describeWrites(d.sim.Log())))
	}
	if dc.cache != nil {
		*dc.cache = out
	}
	return out
}

func (dc derivedCase) build(p placement) (*world, expectation) {
	cands := dc.candidates()
	tmpl := stripSystem(cands[dc.Pick%len(cands)])
	w := dc.base()
	ownRef, foreignRef := w.refs(dc.Ghost)
	dc.perturb(tmpl)
	setController(tmpl, p, ownRef, foreignRef)
	mustCreate(w.sim, tmpl)
	for i := 0; i < dc.Bystand; i++ {
		b := stripSystem(cands[(dc.Pick+i)%len(cands)])
		verifsim.Meta(b)["name"] = fmt.Sprintf("%s-bystander-%d", verifsim.MetaString(b, "name"), i)
		dc.perturb(b)
		setController(b, foreign, ownRef, foreignRef)
		mustCreate(w.sim, b)
	}
	e := expectation{site: dc.Site, kind: dc.gk.Kind, place: p, target: verifsim.KeyOf(tmpl), surface: true, mustWrite: true, adopts: true}
	if dc.Variant != "" {
		e.kind += ":" + dc.Variant
	}
	if n := e.target.Name; strings.Contains(n, ":") {
		e.kind += n[strings.LastIndex(n, ":"):]
	}
	if dc.tweak != nil {
		dc.tweak(&e, p)
	}
	return w, e
}

func addLabel(o verifsim.Obj, k, v string) {
	m := verifsim.Meta(o)
	l, _ := m["labels"].(map[string]any)
	if l == nil {
		l = map[string]any{}
	}
	l[k] = v
	m["labels"] = l
}

// ---------------------------------------------------------------------------
// site 4: definition and offered XRD reconcilers (the CRD with the derived name)

func xrdObject(group, kind string, versions int, withClaim bool) *v1.CompositeResourceDefinition {
	d := &v1.CompositeResourceDefinition{}
	plural := "x" + kind + "s"
	d.SetName(plural + "." + group)
	d.Spec.Group = group
	d.Spec.Names = extv1.CustomResourceDefinitionNames{Kind: "X" + kind, Plural: plural}
	if withClaim {
		d.Spec.ClaimNames = &extv1.CustomResourceDefinitionNames{Kind: kind, Plural: kind + "s"}
	}
	for i := 0; i < versions; i++ {
		d.Spec.Versions = append(d.Spec.Versions, v1.CompositeResourceDefinitionVersion{
			Name: fmt.Sprintf("v%d", i+1), Served: true, Referenceable: i == 0,
			Schema: &v1.CompositeResourceValidation{OpenAPIV3Schema: runtime.RawExtension{Raw: []byte(`{"type":"object","properties":{"spec":{"type":"object","properties":{"param":{"type":"string"}}}}}`)}},
		})
	}
	return d
}

func lower(s string) string {
	b := []byte(s)
	for i, c := range b {
		if c >= 'A' && c <= 'Z' {
			b[i] = c + 32
		}
	}
	return string(b)
}

func xrdWorld(dc derivedCase, offer, deleting bool) *world {
	sim := verifsim.New(verifsim.NewScheme())
	rec := verifenv.NewRecorder()
	ctx := context.Background()
	d := xrdObject(dc.Names[0], lower(dc.Names[1]), dc.N, true)
	d.Spec.Names.Kind = "X" + dc.Names[1]
	d.Spec.ClaimNames.Kind = dc.Names[1]
	fin := "defined.apiextensions.crossplane.io"
	if offer {
		fin = "offered.apiextensions.crossplane.io"
	}
	if deleting {
		d.SetFinalizers([]string{fin})
	}
	sim.MustCreate(envActor, d)
	if deleting {
		if err := sim.Client(envActor).Delete(ctx, d); err != nil {
			panic(err)
		}
	}
	o := xrdObject("other.example.net", "stranger", 1, true)
	sim.MustCreate(envActor, o)
	w := &world{sim: sim, rec: rec,
		ownerKey:   verifsim.Key{Group: "apiextensions.crossplane.io", Kind: "CompositeResourceDefinition", Name: d.GetName()},
		foreignKey: verifsim.Key{Group: "apiextensions.crossplane.io", Kind: "CompositeResourceDefinition", Name: o.GetName()},
		ownerUID:   string(d.GetUID())}
	eng := &fakeEngine{}
	w.step = func(c client.Client, _ int) error {
		eng.c = c
		req := reconcile.Request{NamespacedName: types.NamespacedName{Name: d.GetName()}}
		var err error
		if offer {
			_, err = offered.NewReconciler(offered.NewClientApplicator(c), offered.WithRecorder(rec), offered.WithControllerEngine(eng)).Reconcile(ctx, req)
		} else {
			_, err = definition.NewReconciler(definition.NewClientApplicator(c), definition.WithRecorder(rec), definition.WithControllerEngine(eng)).Reconcile(ctx, req)
		}
		return err
	}
	// The API server establishes the CRDs the XRD controls.
	w.between = func() {
		for _, k := range sim.Keys(schema.GroupKind{Group: "apiextensions.k8s.io", Kind: "CustomResourceDefinition"}) {
			crd := sim.Get(k)
			if verifsim.ControllerUID(crd) != w.ownerUID || verifsim.Terminating(crd) {
				continue
			}
			u := verifsim.U(crd)
			u.Object["status"] = map[string]any{"conditions": []any{map[string]any{"type": "Established", "status": "True", "reason": "InitialNamesAccepted", "message": "ok", "lastTransitionTime": "2024-01-01T00:00:00Z"}}}
			_ = sim.Client(envActor).Status().Update(ctx, u)
		}
	}
	return w
}

func genDerived(t *rapid.T, site string) derivedCase {
	return derivedCase{
		Site:    site,
		cache:   new([]verifsim.Obj),
		Pick:    rapid.IntRange(0, 5).Draw(t, "pick"),
		Ghost:   rapid.Bool().Draw(t, "ghost"),
		Bystand: rapid.IntRange(0, 2).Draw(t, "bystanders"),
		Place:   rapid.SampledFrom(placements).Draw(t, "placement"),
		N:       rapid.IntRange(1, 2).Draw(t, "n"),
		Names: [2]string{
			rapid.SampledFrom([]string{"example.org", "db.acme.io", "a.b"}).Draw(t, "group"),
			rapid.SampledFrom([]string{"Thing", "Bucket", "Sqlinstance"}).Draw(t, "kind"),
		},
	}
}

func xrdCase(t *rapid.T, offer bool) derivedCase {
	site := "xrd-definition"
	if offer {
		site = "xrd-offered"
	}
	return mkXRD(genDerived(t, site), offer, rapid.IntRange(0, 3).Draw(t, "deleting") == 0)
}

func mkXRD(dc derivedCase, offer, deleting bool) derivedCase {
	dc.gk = schema.GroupKind{Group: "apiextensions.k8s.io", Kind: "CustomResourceDefinition"}
	dc.perturb = func(o verifsim.Obj) { addLabel(o, "verif.example.org/pre-existing", "yes") }
	if deleting {
		dc.Variant = "xrd-deleted"
		// An XRD that is being deleted deletes only a CRD it controls; anything else is
		// orphaned silently ("we'll orphan the CRD"), so nothing surfaces and an
		// uncontrolled CRD is left alone too.
		dc.tweak = func(e *expectation, _ placement) {
			e.surface, e.adopts, e.gone, e.untouchedOnNone = false, false, true, true
		}
	}
	cp := dc
	dc.base = func() *world { return xrdWorld(cp, offer, deleting) }
	// Candidates always come from the live (not deleting) XRD.
	dc.discoverBase = func() *world { return xrdWorld(cp, offer, false) }
	return dc
}

func TestVerifC02XRDDefinition(t *testing.T) {
	rec := verifkit.New(t, "C02", "definition reconciler: the composite CRD with the derived name")
	rapid.Check(t, func(t *rapid.T) {
		dc := xrdCase(t, false)
		runCase(rec, dc.build, dc.Place, genVisibility().Draw(t, "reads"), 3, func() any { return dc }, tfail(t))
	})
}

func TestVerifC02XRDOffered(t *testing.T) {
	rec := verifkit.New(t, "C02", "offered reconciler: the claim CRD with the derived name")
	rapid.Check(t, func(t *rapid.T) {
		dc := xrdCase(t, true)
		runCase(rec, dc.build, dc.Place, genVisibility().Draw(t, "reads"), 3, func() any { return dc }, tfail(t))
	})
}

// ---------------------------------------------------------------------------
// site 5: pkg manager.NewReconciler (the PackageRevision with the derived name)

type pkgFlavor struct {
	kind    string
	newPkg  func() pkgv1.Package
	newRev  func() pkgv1.PackageRevision
	newList func() pkgv1.PackageRevisionList
}

var pkgFlavors = []pkgFlavor{
	{"Provider", func() pkgv1.Package { return &pkgv1.Provider{} }, func() pkgv1.PackageRevision { return &pkgv1.ProviderRevision{} }, func() pkgv1.PackageRevisionList { return &pkgv1.ProviderRevisionList{} }},
	{"Configuration", func() pkgv1.Package { return &pkgv1.Configuration{} }, func() pkgv1.PackageRevision { return &pkgv1.ConfigurationRevision{} }, func() pkgv1.PackageRevisionList { return &pkgv1.ConfigurationRevisionList{} }},
	{"Function", func() pkgv1.Package { return &pkgv1.Function{} }, func() pkgv1.PackageRevision { return &pkgv1.FunctionRevision{} }, func() pkgv1.PackageRevisionList { return &pkgv1.FunctionRevisionList{} }},
}

func pkgWorld(dc derivedCase, fl pkgFlavor, staleActive bool, p placement, ghost bool) *world {
	sim := verifsim.New(verifsim.NewScheme())
	rec := verifenv.NewRecorder()
	ctx := context.Background()
	name := lower(dc.Names[1])
	mk := func(n string) verifsim.Obj {
		return mustCreate(sim, verifsim.Obj{"apiVersion": "pkg.crossplane.io/v1", "kind": fl.kind, "metadata": map[string]any{"name": n},
			"spec": map[string]any{"package": "xpkg.example.org/acme/" + n + ":v1.0.0"}})
	}
	pk := mk(name)
	ok := mk("some-other-package")
	w := &world{sim: sim, rec: rec, ownerKey: verifsim.KeyOf(pk), foreignKey: verifsim.KeyOf(ok), ownerUID: verifsim.MetaString(pk, "uid")}
	revName := name + "-0123456789ab"
	if staleActive {
		// An older revision that carries this package's label and is still active: the manager deactivates it.
		ownRef, foreignRef := w.refs(ghost)
		old := verifsim.Obj{"apiVersion": "pkg.crossplane.io/v1", "kind": fl.kind + "Revision",
			"metadata": map[string]any{"name": name + "-ba9876543210", "labels": map[string]any{pkgv1.LabelParentPackage: name}},
			"spec":     map[string]any{"desiredState": "Active", "image": "xpkg.example.org/acme/" + name + ":v0.9.0", "revision": int64(1)}}
		setController(old, p, ownRef, foreignRef)
		mustCreate(sim, old)
	}
	w.step = func(c client.Client, _ int) error {
		mgr := &fakeManager{c: c}
		r := pkgmanager.NewReconciler(mgr,
			pkgmanager.WithNewPackageFn(fl.newPkg),
			pkgmanager.WithNewPackageRevisionFn(fl.newRev),
			pkgmanager.WithNewPackageRevisionListFn(fl.newList),
			pkgmanager.WithRevisioner(fixedRevisioner(revName)),
			pkgmanager.WithConfigStore(xpkg.NewImageConfigStore(c, sysNS)),
			pkgmanager.WithRecorder(rec))
		_, err := r.Reconcile(ctx, reconcile.Request{NamespacedName: types.NamespacedName{Name: name}})
		return err
	}
	return w
}

func pkgStaleBuild(dc derivedCase, fl pkgFlavor) func(p placement) (*world, expectation) {
	// The target is placed by the world itself.
	return func(p placement) (*world, expectation) {
		w := pkgWorld(dc, fl, true, p, dc.Ghost)
		e := expectation{site: dc.Site, kind: "stale-active-revision", place: p, surface: true, mustWrite: true,
			target: verifsim.Key{Group: "pkg.crossplane.io", Kind: fl.kind + "Revision", Name: lower(dc.Names[1]) + "-ba9876543210"}}
		// Deactivating does not add a controller reference; an own revision keeps its own.
		e.noController = p == none
		return w, e
	}
}

func mkPkg(dc derivedCase, fl pkgFlavor, labelled bool) derivedCase {
	dc.gk = schema.GroupKind{Group: "pkg.crossplane.io", Kind: fl.kind + "Revision"}
	dc.Variant = map[bool]string{true: "labelled", false: "unlabelled"}[labelled]
	cp := dc
	dc.base = func() *world { return pkgWorld(cp, fl, false, none, false) }
	dc.perturb = func(o verifsim.Obj) {
		spec, _ := o["spec"].(map[string]any)
		spec["desiredState"] = "Inactive"
		if !labelled {
			delete(verifsim.Meta(o), "labels")
		}
	}
	return dc
}

func TestVerifC02PackageManager(t *testing.T) {
	rec := verifkit.New(t, "C02", "package manager: the PackageRevision with the derived name; an active older revision carrying the package label")
	rapid.Check(t, func(t *rapid.T) {
		dc := genDerived(t, "pkg-manager")
		fl := rapid.SampledFrom(pkgFlavors).Draw(t, "flavor")
		labelled := rapid.Bool().Draw(t, "labelled")
		stale := rapid.IntRange(0, 2).Draw(t, "staleActive") == 0
		dc.Site += "/" + fl.kind
		if stale {
			runCase(rec, pkgStaleBuild(dc, fl), dc.Place, genVisibility().Draw(t, "reads"), 2, func() any { return map[string]any{"case": dc, "variant": "stale-active"} }, tfail(t))
			return
		}
		dc = mkPkg(dc, fl, labelled)
		runCase(rec, dc.build, dc.Place, genVisibility().Draw(t, "reads"), 2, func() any { return dc }, tfail(t))
	})
}

// ---------------------------------------------------------------------------
// site 7: RBAC manager - provider roles, provider binding, XRD roles

func rbacRolesWorld(dc derivedCase, bind bool) *world {
	sim := verifsim.New(verifsim.NewScheme())
	rec := verifenv.NewRecorder()
	ctx := context.Background()
	mkRev := func(n string) *pkgv1.ProviderRevision {
		pr := &pkgv1.ProviderRevision{}
		pr.SetName(n)
		pr.Spec.Package = "xpkg.example.org/acme/" + n + ":v1"
		pr.Spec.DesiredState = pkgv1.PackageRevisionActive
		sim.MustCreate(envActor, pr)
		for i := 0; i < dc.N; i++ {
			pr.Status.ObjectRefs = append(pr.Status.ObjectRefs, xpv1.TypedReference{APIVersion: "apiextensions.k8s.io/v1", Kind: "CustomResourceDefinition", Name: fmt.Sprintf("%ss%d.%s", lower(dc.Names[1]), i, dc.Names[0])})
		}
		if err := sim.Client(envActor).Status().Update(ctx, pr); err != nil {
			panic(err)
		}
		return pr
	}
	pr := mkRev("provider-" + lower(dc.Names[1]) + "-0123456789ab")
	other := mkRev("provider-stranger-ba9876543210")
	if bind {
		dep := &appsv1.Deployment{ObjectMeta: metav1.ObjectMeta{Name: pr.GetName(), Namespace: sysNS, OwnerReferences: []metav1.OwnerReference{{APIVersion: "pkg.crossplane.io/v1", Kind: "ProviderRevision", Name: pr.GetName(), UID: pr.GetUID(), Controller: boolPtr(true)}}}}
		dep.Spec.Template.Spec.ServiceAccountName = pr.GetName()
		dep.Spec.Selector = &metav1.LabelSelector{MatchLabels: map[string]string{"a": "b"}}
		dep.Spec.Template.Labels = map[string]string{"a": "b"}
		dep.Spec.Template.Spec.Containers = []corev1.Container{{Name: "c", Image: "i"}}
		sim.MustCreate(envActor, dep)
	}
	w := &world{sim: sim, rec: rec,
		ownerKey:   verifsim.Key{Group: "pkg.crossplane.io", Kind: "ProviderRevision", Name: pr.GetName()},
		foreignKey: verifsim.Key{Group: "pkg.crossplane.io", Kind: "ProviderRevision", Name: other.GetName()},
		ownerUID:   string(pr.GetUID())}
	w.step = func(c client.Client, _ int) error {
		mgr := &fakeManager{c: c}
		req := reconcile.Request{NamespacedName: types.NamespacedName{Name: pr.GetName()}}
		var err error
		if bind {
			_, err = binding.NewReconciler(mgr, binding.WithRecorder(rec)).Reconcile(ctx, req)
		} else {
			_, err = roles.NewReconciler(mgr, roles.WithRecorder(rec)).Reconcile(ctx, req)
		}
		return err
	}
	return w
}

func boolPtr(b bool) *bool { return &b }

func rbacXRDWorld(dc derivedCase) *world {
	sim := verifsim.New(verifsim.NewScheme())
	rec := verifenv.NewRecorder()
	ctx := context.Background()
	d := xrdObject(dc.Names[0], lower(dc.Names[1]), dc.N, dc.Pick%2 == 0)
	sim.MustCreate(envActor, d)
	o := xrdObject("other.example.net", "stranger", 1, true)
	sim.MustCreate(envActor, o)
	w := &world{sim: sim, rec: rec,
		ownerKey:   verifsim.Key{Group: "apiextensions.crossplane.io", Kind: "CompositeResourceDefinition", Name: d.GetName()},
		foreignKey: verifsim.Key{Group: "apiextensions.crossplane.io", Kind: "CompositeResourceDefinition", Name: o.GetName()},
		ownerUID:   string(d.GetUID())}
	w.step = func(c client.Client, _ int) error {
		_, err := rbacdefinition.NewReconciler(&fakeManager{c: c}, rbacdefinition.WithRecorder(rec)).Reconcile(ctx, reconcile.Request{NamespacedName: types.NamespacedName{Name: d.GetName()}})
		return err
	}
	return w
}

func perturbRole(o verifsim.Obj) {
	o["rules"] = []any{map[string]any{"apiGroups": []any{"pre.example.org"}, "resources": []any{"things"}, "verbs": []any{"get"}}}
	addLabel(o, "verif.example.org/pre-existing", "yes")
}

func mkRoles(dc derivedCase) derivedCase {
	dc.gk = schema.GroupKind{Group: "rbac.authorization.k8s.io", Kind: "ClusterRole"}
	cp := dc
	dc.base = func() *world { return rbacRolesWorld(cp, false) }
	dc.perturb = perturbRole
	return dc
}

func mkBinding(dc derivedCase) derivedCase {
	dc.gk = schema.GroupKind{Group: "rbac.authorization.k8s.io", Kind: "ClusterRoleBinding"}
	cp := dc
	dc.base = func() *world { return rbacRolesWorld(cp, true) }
	dc.perturb = func(o verifsim.Obj) {
		o["subjects"] = []any{map[string]any{"kind": "ServiceAccount", "namespace": "elsewhere", "name": "someone"}}
	}
	return dc
}

func mkRBACDef(dc derivedCase) derivedCase {
	dc.gk = schema.GroupKind{Group: "rbac.authorization.k8s.io", Kind: "ClusterRole"}
	cp := dc
	dc.base = func() *world { return rbacXRDWorld(cp) }
	dc.perturb = perturbRole
	return dc
}

func TestVerifC02RBACProviderRoles(t *testing.T) {
	rec := verifkit.New(t, "C02", "rbac provider roles reconciler: a ClusterRole with one of the derived names")
	rapid.Check(t, func(t *rapid.T) {
		dc := mkRoles(genDerived(t, "rbac-provider-roles"))
		runCase(rec, dc.build, dc.Place, genVisibility().Draw(t, "reads"), 2, func() any { return dc }, tfail(t))
	})
}

func TestVerifC02RBACProviderBinding(t *testing.T) {
	rec := verifkit.New(t, "C02", "rbac provider binding reconciler: the ClusterRoleBinding with the derived name")
	rapid.Check(t, func(t *rapid.T) {
		dc := mkBinding(genDerived(t, "rbac-provider-binding"))
		runCase(rec, dc.build, dc.Place, genVisibility().Draw(t, "reads"), 2, func() any { return dc }, tfail(t))
	})
}

func TestVerifC02RBACDefinitionRoles(t *testing.T) {
	rec := verifkit.New(t, "C02", "rbac definition reconciler: a ClusterRole with one of the names derived from the XRD")
	rapid.Check(t, func(t *rapid.T) {
		dc := mkRBACDef(genDerived(t, "rbac-definition-roles"))
		runCase(rec, dc.build, dc.Place, genVisibility().Draw(t, "reads"), 2, func() any { return dc }, tfail(t))
	})
}
