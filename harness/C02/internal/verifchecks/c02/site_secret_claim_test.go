//go:build verif

package c02

import (
	"context"
	"fmt"
	"testing"

	"k8s.io/apimachinery/pkg/types"
	utilrand "k8s.io/apimachinery/pkg/util/rand"
	"pgregory.net/rapid"
	"sigs.k8s.io/controller-runtime/pkg/client"
	"sigs.k8s.io/controller-runtime/pkg/reconcile"

	xpv1 "github.com/crossplane/crossplane-runtime/apis/common/v1"
	"github.com/crossplane/crossplane-runtime/pkg/resource"

	"github.com/crossplane/crossplane/internal/controller/apiextensions/claim"
	"github.com/crossplane/crossplane/internal/names"
	"github.com/crossplane/crossplane/internal/verifenv"
	"github.com/crossplane/crossplane/internal/verifkit"
	"github.com/crossplane/crossplane/internal/verifsim"
)

const (
	typeConnection = "connection.crossplane.io/v1alpha1"
	typeOpaque     = "Opaque"
	sysNS          = "crossplane-system"
)

func secretObj(ns, name, typ string, data map[string]any) verifsim.Obj {
	return verifsim.Obj{"apiVersion": "v1", "kind": "Secret", "metadata": map[string]any{"name": name, "namespace": ns}, "type": typ, "data": data}
}

// ---------------------------------------------------------------------------
// site 2: composite.APIFilteredSecretPublisher through the XR reconciler

type xrSecretCase struct {
	Pipeline   bool      `json:"pipeline"`
	SecretType string    `json:"secretType"`
	Filter     bool      `json:"filter"`
	SameData   bool      `json:"sameData"` // the existing secret already holds exactly the data that would be published
	Place      placement `json:"placement"`
	Seed       int64     `json:"seed"`
}

func (sc xrSecretCase) build(p placement) (*world, expectation) {
	cc := compCase{Pipeline: sc.Pipeline, Rules: []crule{{Name: "r0", Kind: "KindA"}}, Seed: sc.Seed}
	var conn map[string][]byte
	if sc.Pipeline {
		conn = map[string][]byte{"user": []byte("admin"), "other": []byte("x")}
	}
	var keys []string
	if sc.Filter {
		keys = []string{"user"}
	}
	w, env, other := xrWorld(cc, conn, keys, func(xr *verifenv.XR) {
		xr.SetWriteConnectionSecretToReference(&xpv1.SecretReference{Name: "xr-conn", Namespace: sysNS})
	})
	xr := env.Sim.Get(env.XRKey(xrName))
	data := map[string]any{"old": "b2xk"}
	if sc.SameData && p.isForeign() {
		// What the publisher would write (P&T composes no details here): a no-op by content must still not adopt.
		data = map[string]any{}
		if sc.Pipeline {
			data = map[string]any{"user": "YWRtaW4="}
			if !sc.Filter {
				data["other"] = "eA=="
			}
		}
	}
	o := secretObj(sysNS, "xr-conn", sc.SecretType, data)
	setController(o, p, refTo(xr, true), refTo(other, true))
	mustCreate(env.Sim, o)
	e := expectation{site: "xr-connection-secret/" + map[bool]string{true: "functions", false: "pt"}[sc.Pipeline], kind: "Secret:" + sc.SecretType, place: p,
		// P&T composes no connection details in this world: publishing to the owner's own secret is a no-op there.
		target: verifsim.KeyOf(o), surface: true, mustWrite: sc.Pipeline || p != own, adopts: true, untouchedOnNone: sc.SecretType != typeConnection}
	return w, e
}

func TestVerifC02XRConnectionSecret(t *testing.T) {
	rec := verifkit.New(t, "C02", "XR connection secret target: type in {connection, Opaque} x controller placement")
	rapid.Check(t, func(t *rapid.T) {
		sc := xrSecretCase{
			Pipeline:   rapid.Bool().Draw(t, "pipeline"),
			SecretType: rapid.SampledFrom([]string{typeConnection, typeOpaque}).Draw(t, "type"),
			Filter:     rapid.Bool().Draw(t, "filter"),
			SameData:   rapid.Bool().Draw(t, "sameData"),
			Place:      rapid.SampledFrom(placements).Draw(t, "placement"),
			Seed:       rapid.Int64Range(1, 1<<40).Draw(t, "seed"),
		}
		runCase(rec, sc.build, sc.Place, genVisibility().Draw(t, "reads"), 2, func() any { return sc }, tfail(t))
	})
}

// ---------------------------------------------------------------------------
// site 3: claim.NewReconciler - both syncers, binding, deletion, connection propagation

type claimCase struct {
	SSA        bool      `json:"ssa"`
	Variant    string    `json:"variant"` // bind | delete | dest | source
	OtherNS    string    `json:"otherNS"` // namespace of the claim the XR is bound to instead
	SecretType string    `json:"secretType,omitempty"`
	SourceBad  string    `json:"sourceBad,omitempty"` // source variant: foreign | uncontrolled
	Extra      bool      `json:"extraXR"`
	Place      placement `json:"placement"`
	Seed       int64     `json:"seed"`
}

const claimFinalizer = "finalizer.apiextensions.crossplane.io"

func claimRefMap(ns, name string) map[string]any {
	return map[string]any{"apiVersion": "example.org/v1", "kind": "Thing", "namespace": ns, "name": name}
}

func (cc claimCase) build(p placement) (*world, expectation) {
	utilrand.Seed(cc.Seed)
	sim := verifsim.New(verifsim.NewScheme())
	rec := verifenv.NewRecorder()
	ctx := context.Background()
	xrKey := verifsim.Key{Group: "example.org", Kind: "XThing", Name: "xr-target"}
	cmKey := verifsim.Key{Group: "example.org", Kind: "Thing", Namespace: "ns1", Name: "claim1"}

	// The claim.
	cmSpec := map[string]any{"param": "want", "resourceRef": map[string]any{"apiVersion": "example.org/v1", "kind": "XThing", "name": xrKey.Name}}
	if cc.Variant == "dest" || cc.Variant == "source" {
		cmSpec["writeConnectionSecretToRef"] = map[string]any{"name": "claim-conn"}
	}
	cmMeta := map[string]any{"name": cmKey.Name, "namespace": cmKey.Namespace}
	if cc.Variant == "delete" {
		cmMeta["finalizers"] = []any{claimFinalizer}
	}
	cm := mustCreate(sim, verifsim.Obj{"apiVersion": "example.org/v1", "kind": "Thing", "metadata": cmMeta, "spec": cmSpec})
	other := mustCreate(sim, verifsim.Obj{"apiVersion": "example.org/v1", "kind": "Thing", "metadata": map[string]any{"name": "other", "namespace": cc.OtherNS}, "spec": map[string]any{"param": "theirs"}})
	if cc.Variant == "delete" {
		if err := sim.Client(envActor).Delete(ctx, verifsim.U(cm)); err != nil {
			panic(err)
		}
	}

	// The XR the claim references.
	bound := own
	if cc.Variant == "bind" || cc.Variant == "delete" {
		// An XR is bound through spec.claimRef, not through owner references: the
		// owner-reference shapes of the foreign placement collapse to "bound to another claim".
		bound = p
		if p.isForeign() {
			bound = foreign
		}
	}
	xrSpec := map[string]any{"param": "PRE"}
	switch bound {
	case foreign:
		xrSpec["claimRef"] = claimRefMap(cc.OtherNS, "other")
	case own:
		xrSpec["claimRef"] = claimRefMap(cmKey.Namespace, cmKey.Name)
	}
	if cc.Variant == "dest" || cc.Variant == "source" {
		xrSpec["writeConnectionSecretToRef"] = map[string]any{"name": "xr-conn", "namespace": sysNS}
	}
	xrLabels := map[string]any{}
	if bound == foreign {
		xrLabels = map[string]any{"crossplane.io/claim-name": "other", "crossplane.io/claim-namespace": cc.OtherNS}
	}
	xr := mustCreate(sim, verifsim.Obj{"apiVersion": "example.org/v1", "kind": "XThing", "metadata": map[string]any{"name": xrKey.Name, "labels": xrLabels}, "spec": xrSpec})
	if cc.Variant == "dest" || cc.Variant == "source" {
		u := verifsim.U(xr)
		u.Object["status"] = map[string]any{"conditions": []any{map[string]any{"type": "Ready", "status": "True", "reason": "Available", "lastTransitionTime": "2024-01-01T00:00:00Z"}}}
		if err := sim.Client(envActor).Status().Update(ctx, u); err != nil {
			panic(err)
		}
	}
	otherXR := mustCreate(sim, verifsim.Obj{"apiVersion": "example.org/v1", "kind": "XThing", "metadata": map[string]any{"name": "xr-bystander"}, "spec": map[string]any{"param": "theirs", "claimRef": claimRefMap(cc.OtherNS, "other")}})

	w := &world{sim: sim, rec: rec, ownerKey: cmKey, ownerUID: verifsim.MetaString(cm, "uid")}
	if cc.Extra {
		w.protected = append(w.protected, verifsim.KeyOf(otherXR))
	}
	w.step = func(c client.Client, i int) error {
		utilrand.Seed(cc.Seed + int64(i))
		opts := []claim.ReconcilerOption{claim.WithRecorder(rec)}
		if cc.SSA {
			opts = append(opts,
				claim.WithCompositeSyncer(claim.NewServerSideCompositeSyncer(c, names.NewNameGenerator(c))),
				claim.WithManagedFieldsUpgrader(claim.NewPatchingManagedFieldsUpgrader(c)))
		}
		r := claim.NewReconciler(c, resource.CompositeClaimKind(verifenv.ClaimGVKDefault), resource.CompositeKind(verifenv.XRGVKDefault), opts...)
		_, err := r.Reconcile(ctx, reconcile.Request{NamespacedName: types.NamespacedName{Namespace: cmKey.Namespace, Name: cmKey.Name}})
		return err
	}

	site := "claim/" + map[bool]string{true: "ssa-syncer", false: "csa-syncer"}[cc.SSA]
	e := expectation{site: site, kind: cc.Variant, place: p, surface: true, mustWrite: true}
	switch cc.Variant {
	case "bind", "delete":
		// Ownership of an XR is its spec.claimRef, not a controller reference.
		e.target = xrKey
		e.noController = true
		e.gone = cc.Variant == "delete"
		if cc.Variant == "bind" {
			// The property's condition is a foreign *controller owner reference*; an XR's binding is its
			// spec.claimRef, which only the reconciler's own Get guards. Both syncers document that an
			// XR they could not read is applied anyway ("probably hijacking it from another claim"), see
			// TestVerifC02ObservedClaimStaleXR. That is reported, not judged, here.
			e.noStaleReads = "binding is spec.claimRef, not a controller reference"
		}
		if p.isForeign() {
			w.protected = append(w.protected, xrKey)
		}
	case "dest":
		src := secretObj(sysNS, "xr-conn", typeConnection, map[string]any{"user": "YWRtaW4="})
		setController(src, own, refTo(xr, true), nil)
		mustCreate(sim, src)
		dst := secretObj(cmKey.Namespace, "claim-conn", cc.SecretType, map[string]any{"old": "b2xk"})
		setController(dst, p, refTo(cm, true), refTo(other, true))
		mustCreate(sim, dst)
		e.kind = "dest-secret:" + cc.SecretType
		e.target = verifsim.KeyOf(dst)
		e.adopts = true
		e.untouchedOnNone = cc.SecretType != typeConnection
	case "source":
		// p == none stands for the legitimate state (source controlled by the bound XR): the
		// destination is written. p == foreign: the source is controlled by another XR or by nobody.
		src := secretObj(sysNS, "xr-conn", typeConnection, map[string]any{"user": "YWRtaW4="})
		dstKey := verifsim.Key{Kind: "Secret", Namespace: cmKey.Namespace, Name: "claim-conn"}
		if p.isForeign() {
			if cc.SourceBad == "foreign" {
				// The acting owner of the copy is the bound XR ("from"): a plain reference to it is not control.
				setController(src, p, refTo(xr, true), refTo(otherXR, true))
			}
			e.kind = "source-secret:" + cc.SourceBad
			e.target = verifsim.KeyOf(src)
			w.protected = append(w.protected, e.target)
			e.extra = func(w *world, fail func(string, ...any)) {
				if o := w.sim.Get(dstKey); o != nil {
					fail("the claim's connection secret was written from a source secret the bound XR does not control: %s", verifsim.ObjDigest(o))
				}
			}
		} else {
			setController(src, own, refTo(xr, true), nil)
			e.kind = "source-secret:" + cc.SourceBad
			e.target = dstKey
			e.adopts = true
		}
		mustCreate(sim, src)
	}
	return w, e
}

func TestVerifC02Claims(t *testing.T) {
	rec := verifkit.New(t, "C02", "claim reconciler with both syncers: XR named by the claim bound to another claim (bind, delete), destination connection secret (type x placement), source connection secret not controlled by the bound XR")
	rapid.Check(t, func(t *rapid.T) {
		cc := claimCase{
			SSA:     rapid.Bool().Draw(t, "ssa"),
			Variant: rapid.SampledFrom([]string{"bind", "delete", "dest", "source"}).Draw(t, "variant"),
			OtherNS: rapid.SampledFrom([]string{"ns1", "ns2"}).Draw(t, "otherNS"),
			Extra:   rapid.Bool().Draw(t, "extra"),
			Place:   rapid.SampledFrom(placements).Draw(t, "placement"),
			Seed:    rapid.Int64Range(1, 1<<40).Draw(t, "seed"),
		}
		switch cc.Variant {
		case "dest":
			cc.SecretType = rapid.SampledFrom([]string{typeConnection, typeOpaque}).Draw(t, "type")
		case "source":
			cc.SourceBad = rapid.SampledFrom([]string{"foreign", "uncontrolled"}).Draw(t, "sourceBad")
			cc.Place = rapid.SampledFrom([]placement{foreign, foreignOwnPlain, foreignExtraPlain}).Draw(t, "sourcePlacement")
		}
		runCase(rec, cc.build, cc.Place, genVisibility().Draw(t, "reads"), 2, func() any { return cc }, tfail(t))
	})
}

var _ = fmt.Sprint

// TestVerifC02ObservedClaimStaleXR documents (never fails on) what both claim
// syncers do when the XR the claim names is bound to another claim but is not
// visible to the reconciler's first Get: the bound check is skipped and the XR
// is applied. The numbers land in the evidence file as extras.
func TestVerifC02ObservedClaimStaleXR(t *testing.T) {
	rec := verifkit.New(t, "C02", "observation only: claim names an XR bound to another claim that its cache has not seen")
	for _, ssa := range []bool{false, true} {
		for _, v := range []visibility{{Mode: "hidden"}, {Mode: "appears", K: 2}} {
			cc := claimCase{SSA: ssa, Variant: "bind", OtherNS: "ns2", Seed: 42}
			w, e := cc.build(foreign)
			w.hide(e.target, v)
			before := verifsim.ObjDigest(w.sim.Get(e.target))
			w.runSite(2)
			rec.Eval()
			if verifsim.ObjDigest(w.sim.Get(e.target)) != before {
				rec.AddExtra(fmt.Sprintf("observed_claim_rebinds_foreign_bound_xr_when_cache_misses_it/ssa=%v/%s", ssa, v.Mode), 1)
				t.Logf("observed: ssa=%v reads=%s: the XR bound to another claim was re-bound to this claim", ssa, verifkit.JSON(v))
			}
		}
	}
}
