//go:build verif

// Package c02 decides property C02: Crossplane never modifies, adopts or
// deletes what another owner controls. One driver per write site, all on the
// simulated API server, all through exported constructors.
//
// Every generated case is judged the same way (judge, below):
//
//	(a) every object that was controlled by a UID other than the acting owner
//	    before the site ran - and every object the case declares protected -
//	    is byte-identical afterwards (verifsim.ObjDigest, includes resourceVersion);
//	(b) the write log holds no accepted request that changed or removed such an
//	    object, not even transiently;
//	(c) where the site addresses the foreign object, the conflict surfaced:
//	    an error was returned, a Warning event was recorded, or the owner
//	    carries a Synced=False / Healthy=False condition.
//
// Every case is preceded by its own control run: the same world with NO
// controller reference on the target must make the site write (adopt / update /
// delete) that very object; a case whose control run is quiet fails as vacuous.
package c02

import (
	"context"
	"fmt"
	"sort"
	"strings"
	"testing"

	"pgregory.net/rapid"
	"sigs.k8s.io/controller-runtime/pkg/client"

	"github.com/crossplane/crossplane/internal/verifenv"
	"github.com/crossplane/crossplane/internal/verifkit"
	"github.com/crossplane/crossplane/internal/verifsim"
)

type placement string

const (
	foreign placement = "foreign" // controller reference to another owner's UID
	// foreignOwnPlain: controller reference to another owner's UID plus a plain
	// (controller: false) owner reference to the acting owner. Being an owner is not being the controller.
	foreignOwnPlain placement = "foreign+plain-ref-to-acting-owner"
	// foreignExtraPlain: controller reference to another owner's UID plus unrelated plain owner references.
	foreignExtraPlain placement = "foreign+unrelated-plain-refs"
	none    placement = "none"    // no controller reference
	own     placement = "own"     // controller reference to the acting owner
)

var placements = []placement{foreign, foreign, foreignOwnPlain, foreignOwnPlain, foreignExtraPlain, none, own}

// isForeign: the object is controlled by another owner's UID (whatever other references it carries).
func (p placement) isForeign() bool {
	return p == foreign || p == foreignOwnPlain || p == foreignExtraPlain
}

func plainCopy(r map[string]any) map[string]any {
	c := map[string]any{}
	for k, v := range r {
		if k != "controller" && k != "blockOwnerDeletion" {
			c[k] = v
		}
	}
	c["controller"] = false
	return c
}

var unrelatedPlainRefs = []any{
	map[string]any{"apiVersion": "v1", "kind": "ConfigMap", "name": "unrelated-a", "uid": "uid-unrelated-plain-a"},
	map[string]any{"apiVersion": "v1", "kind": "ConfigMap", "name": "unrelated-b", "uid": "uid-unrelated-plain-b", "controller": false},
}

const (
	envActor  = "env"
	siteActor = "crossplane"
)

// world is one site wired to a fresh simulated API server.
type world struct {
	sim      *verifsim.Sim
	rec      *verifenv.Recorder
	ownerKey verifsim.Key
	ownerUID string
	// foreignKey is a live object of another owner whose UID the foreign placement uses.
	foreignKey verifsim.Key
	// step runs the site once (one reconcile / one Establish call).
	step func(c client.Client, i int) error
	// clientFor returns the client the i-th run uses (nil: live client).
	clientFor func(run *verifsim.Run, i int) client.Client
	// live is the uncached (always current) client of the run in progress; sites that
	// are wired with distinct cached and uncached clients use it as the uncached one.
	live client.Client
	// vis says how the foreign target appears to the site's reads during the first run.
	vis visibility
	// normalize, if set, is applied to guarded objects before they are compared. It is used
	// only for the one write the property puts out of scope (see releaseNormalizer).
	normalize func(o verifsim.Obj) verifsim.Obj
	// between is what the environment does between two runs (may be nil).
	between func()
	// protected are keys that must stay byte-identical besides every
	// foreign-controlled object (used where ownership is not a controller reference).
	protected []verifsim.Key
}

// visibility is the stale-read perturbation of a foreign placement. Writes
// always hit the live store; only the site's reads (its informer cache) lag.
//
//	visible:   the site reads a coherent store.
//	hidden:    the foreign object exists in the API server but the site's cache has not seen it
//	           during the whole first run (later runs see it).
//	appears@k: the site's reads do not see it before API call k of the first run and see it from
//	           call k on - the other owner created it between two of the site's calls (for k = the
//	           call after a Get: between Apply's Get and its Create), or the cache caught up mid-run.
type visibility struct {
	Mode string `json:"mode"`
	K    int    `json:"k,omitempty"`
}

var visible = visibility{Mode: "visible"}

func (v visibility) class() string {
	switch v.Mode {
	case "hidden":
		return "foreign-object-hidden-from-cache"
	case "appears":
		return "foreign-object-created-by-interloper-mid-run"
	}
	return "foreign-object-visible"
}

func genVisibility() *rapid.Generator[visibility] {
	return rapid.Custom(func(t *rapid.T) visibility {
		switch rapid.IntRange(0, 9).Draw(t, "visibility") {
		case 0, 1, 2, 3:
			return visible
		case 4, 5, 6:
			return visibility{Mode: "hidden"}
		}
		return visibility{Mode: "appears", K: rapid.IntRange(1, 14).Draw(t, "appearsAtCall")}
	})
}

// hide makes the first run read through a lagging cache that does not show the target.
func (w *world) hide(target verifsim.Key, v visibility) {
	w.vis = v
	if w.clientFor != nil {
		// The composer's generated-name variant brings its own lagging cache for the first run.
		w.vis = visibility{Mode: "hidden"}
		return
	}
	if v.Mode == "visible" {
		return
	}
	w.clientFor = func(run *verifsim.Run, i int) client.Client {
		if i > 0 {
			return nil
		}
		return run.StaleClient(func(k verifsim.Key) int {
			if k != target {
				return 0
			}
			// run.N counts the calls begun so far, the one in progress included.
			if v.Mode == "appears" && run.N-1 >= v.K {
				return 0
			}
			return verifsim.LagHideNew
		})
	}
}

// expectation is what the oracle demands of one case.
type expectation struct {
	site, kind string
	place      placement
	target     verifsim.Key
	// surface: clause (c) is demanded (foreign placement only).
	surface bool
	// control run / own run: the target must be written by the site.
	mustWrite bool
	// after a control (none) run the target must be controlled by the owner.
	adopts bool
	// after a control/own run the target must be gone (garbage collection, deletion).
	gone bool
	// noController: ownership of the target is not expressed by a controller reference (XR bound to a claim).
	noController bool
	// untouchedOnNone: with no controller reference the site must still refuse (legacy Opaque secrets).
	untouchedOnNone bool
	// noStaleReads: why the stale-read perturbation is not applied to this case (counted as excluded).
	noStaleReads string
	// noReads: the site is driven without reads of its own (nothing to hide from).
	noReads bool
	// afterOwn, if set, is an extra clause evaluated for the owner's own placement.
	afterOwn func(w *world, fail func(string, ...any))
	// check, if set, is an extra site-specific clause evaluated for the foreign placement.
	extra func(w *world, fail func(string, ...any))
}

func ownerRef(apiVersion, kind, name, uid string, controller bool) map[string]any {
	r := map[string]any{"apiVersion": apiVersion, "kind": kind, "name": name, "uid": uid}
	if controller {
		r["controller"] = true
		r["blockOwnerDeletion"] = true
	}
	return r
}

func refTo(o verifsim.Obj, controller bool) map[string]any {
	return ownerRef(fmt.Sprint(o["apiVersion"]), fmt.Sprint(o["kind"]), verifsim.MetaString(o, "name"), verifsim.MetaString(o, "uid"), controller)
}

// setController puts the placement's controller reference on o.
func setController(o verifsim.Obj, p placement, ownRef, foreignRef map[string]any) {
	m, _ := o["metadata"].(map[string]any)
	if m == nil {
		m = map[string]any{}
		o["metadata"] = m
	}
	switch p {
	case foreign:
		m["ownerReferences"] = []any{foreignRef}
	case foreignOwnPlain:
		if ownRef == nil {
			panic("c02: foreignOwnPlain placement needs the acting owner's reference")
		}
		m["ownerReferences"] = []any{plainCopy(ownRef), foreignRef}
	case foreignExtraPlain:
		m["ownerReferences"] = append([]any{unrelatedPlainRefs[0], foreignRef}, unrelatedPlainRefs[1])
	case own:
		m["ownerReferences"] = []any{ownRef}
	default:
		delete(m, "ownerReferences")
	}
}

// stripSystem removes server-managed metadata so that a stored object can be re-created.
func stripSystem(o verifsim.Obj) verifsim.Obj {
	c := verifsim.DeepCopy(o)
	m := verifsim.Meta(c)
	for _, f := range []string{"uid", "resourceVersion", "creationTimestamp", "managedFields", "generation", "ownerReferences"} {
		delete(m, f)
	}
	delete(c, "status")
	return c
}

func mustCreate(s *verifsim.Sim, o verifsim.Obj) verifsim.Obj {
	u := verifsim.U(o)
	if err := s.Client(envActor).Create(context.Background(), u); err != nil {
		panic(fmt.Sprintf("c02 setup: create %v: %v", verifsim.KeyOf(o), err))
	}
	return s.Get(verifsim.KeyOf(u.Object))
}

// runSite runs the site n times and returns the errors it returned.
func (w *world) runSite(n int) []error {
	var errs []error
	for i := 0; i < n; i++ {
		run := w.sim.NewRun(siteActor, nil)
		var c client.Client = run.Client()
		w.live = run.Client()
		if w.clientFor != nil {
			if cc := w.clientFor(run, i); cc != nil {
				c = cc
			}
		}
		if err := w.step(c, i); err != nil {
			errs = append(errs, err)
			if strings.Contains(err.Error(), "VERIF-INCONCLUSIVE") {
				panic(err)
			}
		}
		if w.between != nil {
			w.between()
		}
	}
	return errs
}

func (w *world) digest(o verifsim.Obj) string {
	if o != nil && w.normalize != nil {
		o = w.normalize(o)
	}
	return verifsim.ObjDigest(o)
}

// guarded returns the digests of every object the site must leave alone.
func (w *world) guarded() map[verifsim.Key]string {
	out := map[verifsim.Key]string{}
	for k, o := range w.sim.State() {
		if k == w.ownerKey {
			continue
		}
		if c := verifsim.ControllerUID(o); c != "" && c != w.ownerUID {
			out[k] = w.digest(o)
		}
	}
	for _, k := range w.protected {
		if o := w.sim.Get(k); o != nil {
			out[k] = w.digest(o)
		}
	}
	return out
}

// unsynced reports whether the owner carries a Synced=False or Healthy=False condition.
func (w *world) unsynced() bool {
	o := w.sim.Get(w.ownerKey)
	l, _ := verifsim.Nested(o, "status", "conditions").([]any)
	for _, e := range l {
		m, ok := e.(map[string]any)
		if !ok {
			continue
		}
		if (m["type"] == "Synced" || m["type"] == "Healthy") && m["status"] == "False" {
			return true
		}
	}
	return false
}

func (w *world) siteWrites(k verifsim.Key, from int) []verifsim.Write {
	var out []verifsim.Write
	for _, wr := range w.sim.Log()[from:] {
		if wr.Key == k && wr.Actor == siteActor && !wr.DryRun && wr.Err == "" && (wr.Changed || wr.Removed) {
			out = append(out, wr)
		}
	}
	return out
}

func describeWrites(ws []verifsim.Write) string {
	var sb strings.Builder
	for _, wr := range ws {
		fmt.Fprintf(&sb, "\n    #%d %s %s%s by %s (changed=%v removed=%v err=%q)", wr.Seq, wr.Verb, wr.Key, map[bool]string{true: "/" + wr.Sub}[wr.Sub != ""], wr.Actor, wr.Changed, wr.Removed, wr.Err)
	}
	return sb.String()
}

// judge runs the site and evaluates the oracle for one placed world.
func judge(w *world, e expectation, runs int, fail func(string, ...any)) (wrote bool) {
	before := w.guarded()
	from := w.sim.LogLen()
	w.rec.Reset()
	errs := w.runSite(runs)
	ctx := fmt.Sprintf("site=%s kind=%s placement=%s target=%s", e.site, e.kind, e.place, e.target)

	// (a) byte-identical, (b) no accepted write even transiently - for everything another owner controls.
	state := w.sim.State()
	keys := make([]verifsim.Key, 0, len(before))
	for k := range before {
		keys = append(keys, k)
	}
	sort.Slice(keys, func(i, j int) bool { return keys[i].String() < keys[j].String() })
	for _, k := range keys {
		if got := w.digest(state[k]); got != before[k] {
			fail("%s: object %s, controlled by another owner, was not left exactly as it was\n  before: %s\n  after:  %s\n  writes:%s", ctx, k, before[k], got, describeWrites(w.siteWrites(k, from)))
		}
	}
	for _, wr := range w.sim.Log()[from:] {
		if _, ok := before[wr.Key]; !ok || wr.DryRun || wr.Actor == envActor {
			continue
		}
		if (wr.Changed || wr.Removed) && (wr.Removed || w.normalize == nil || w.digest(wr.Before) != w.digest(wr.After)) {
			fail("%s: the write log holds an accepted %s of %s (controlled by another owner) that changed its stored bytes (write #%d by %s)", ctx, wr.Verb, wr.Key, wr.Seq, wr.Actor)
		}
		if wr.Verb == "delete" && wr.Err == "" {
			fail("%s: the write log holds an accepted delete of %s (controlled by another owner) (write #%d by %s)", ctx, wr.Key, wr.Seq, wr.Actor)
		}
	}

	writes := w.siteWrites(e.target, from)
	wrote = len(writes) > 0
	cur := state[e.target]
	switch {
	case e.place.isForeign():
		if _, ok := before[e.target]; !ok {
			fail("%s: harness error: the foreign-controlled target is not in the store before the run", ctx)
		}
		// A site whose reads never showed it the object and that never addressed a request to it has no conflict to report.
		addressed := w.vis.Mode == "" || w.vis.Mode == "visible"
		for _, wr := range w.sim.Log()[from:] {
			if wr.Key == e.target && wr.Actor == siteActor {
				addressed = true
			}
		}
		if e.surface && addressed {
			if len(errs) == 0 && len(w.rec.Warnings()) == 0 && !w.unsynced() {
				fail("%s: the conflict did not surface: no error returned, no Warning event, no Synced=False/Healthy=False condition on %s (events: %v)", ctx, w.ownerKey, w.rec.Events())
			}
		}
		if e.extra != nil {
			e.extra(w, func(f string, a ...any) { fail(ctx+": "+f, a...) })
		}
	case e.place == none:
		if e.untouchedOnNone {
			if wrote {
				fail("%s: an uncontrolled object the site is documented to refuse (legacy Opaque secret, CRD of a deleted XRD) was written:%s", ctx, describeWrites(writes))
			}
			return wrote
		}
		if e.mustWrite && !wrote {
			fail("%s: VACUOUS: with no controller reference the site did not write the target (errors %v, events %v)", ctx, errs, w.rec.Events())
		}
		if e.gone && cur != nil {
			fail("%s: with no controller reference the target should have been deleted, it is still there: %s", ctx, verifsim.ObjDigest(cur))
		}
		if e.adopts && (cur == nil || verifsim.ControllerUID(cur) != w.ownerUID) {
			fail("%s: with no controller reference the target should have been adopted by %s, controller is %q (errors %v)", ctx, w.ownerUID, verifsim.ControllerUID(cur), errs)
		}
	case e.place == own:
		if e.mustWrite && !wrote {
			fail("%s: VACUOUS: the site did not update the target its own owner controls (errors %v, events %v)", ctx, errs, w.rec.Events())
		}
		if e.gone && cur != nil {
			fail("%s: the owner's own target should have been deleted, it is still there", ctx)
		}
		if e.afterOwn != nil {
			e.afterOwn(w, func(f string, a ...any) { fail(ctx+": "+f, a...) })
		}
		if !e.gone && !e.noController && (cur == nil || verifsim.ControllerUID(cur) != w.ownerUID) {
			fail("%s: the owner's own target lost its controller reference: %q", ctx, verifsim.ControllerUID(cur))
		}
	}
	return wrote
}

// runCase evaluates one generated case: the control run (no controller
// reference) on a fresh world, then the drawn placement on another fresh world.
func runCase(rec *verifkit.Recorder, build func(p placement) (*world, expectation), p placement, vis visibility, runs int, sample func() any, fail func(string, ...any)) {
	rec.Eval()
	cw, ce := build(none)
	controlWrote := judge(cw, ce, runs, fail)
	if ce.untouchedOnNone {
		// An uncontrolled legacy secret is refused too; the vacuity control is the owner's own secret.
		ow, oe := build(own)
		controlWrote = judge(ow, oe, runs, fail)
	}
	rec.Labelf("%s/%s/%s", ce.site, ce.kind, p)
	if p == none {
		return
	}
	w, e := build(p)
	if p.isForeign() && e.noStaleReads != "" && vis.Mode != "visible" {
		rec.Excluded()
		rec.Labelf("class:%s/stale-read-not-applied(%s)", e.site, e.noStaleReads)
		vis = visible
	}
	if p.isForeign() && !e.noReads {
		w.hide(e.target, vis)
		rec.Labelf("class:%s/%s", e.site, w.vis.class())
	}
	judge(w, e, runs, func(f string, a ...any) { fail("[reads: %s] "+f, append([]any{verifkit.JSON(w.vis)}, a...)...) })
	if p.isForeign() {
		if e.surface {
			rec.Label("foreign:surfacing-demanded")
		} else {
			rec.Label("foreign:ignored-by-design(no surfacing demanded)")
		}
		if controlWrote {
			rec.NonTrivial(fmt.Sprintf("%s|%s|%s|%s", e.site, e.kind, p, w.vis.Mode), sample)
		}
	}
}

type fataler interface {
	Helper()
	Fatalf(string, ...any)
}

func tfail(t fataler) func(string, ...any) {
	return func(f string, a ...any) { t.Helper(); t.Fatalf(f, a...) }
}

var _ = testing.Short
