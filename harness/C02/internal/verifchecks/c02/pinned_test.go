//go:build verif

package c02

import (
	"fmt"
	"testing"

	"github.com/crossplane/crossplane/internal/verifkit"
	"github.com/crossplane/crossplane/internal/verifsim"
)

func pinnedDerived(site string) derivedCase {
	return derivedCase{Site: site, cache: new([]verifsim.Obj), N: 1, Bystand: 1, Names: [2]string{"example.org", "Thing"}}
}

// TestVerifC02Pinned is the plain table (no rapid): every site x variant x
// placement once, with fixed inputs. It is the regression net for the
// sensitivity edits and guards against a generator that stops reaching a site.
func TestVerifC02Pinned(t *testing.T) {
	rec := verifkit.New(t, "C02", "pinned table: every site x variant x placement once")
	type row struct {
		name  string
		build func(p placement) (*world, expectation)
		runs  int
	}
	var rows []row
	for _, pipeline := range []bool{true, false} {
		for _, v := range []string{"ref", "name-generated", "gc", "name-fixed"} {
			if v == "name-fixed" && !pipeline {
				continue
			}
			cc := compCase{Pipeline: pipeline, Variant: v, Target: 1, Rules: []crule{{Name: "r0", Kind: "KindA", Fixed: map[bool]string{true: "fixed-0"}[pipeline]}, {Name: "r1", Kind: "KindB"}}, LooksComposed: true, Bystanders: 1, Seed: 42}
			if v == "name-fixed" {
				cc.Rules[1].Fixed = "fixed-1"
			}
			if v == "name-generated" {
				cc.targetName = cc.discoverGeneratedName()
			}
			rows = append(rows, row{fmt.Sprintf("composer pipeline=%v %s", pipeline, v), cc.build, 3})
		}
		for _, typ := range []string{typeConnection, typeOpaque} {
			sc := xrSecretCase{Pipeline: pipeline, SecretType: typ, Filter: pipeline, Seed: 42}
			rows = append(rows, row{fmt.Sprintf("xr secret pipeline=%v %s", pipeline, typ), sc.build, 2})
		}
	}
	rows = append(rows, row{"function composer GC driven directly", fnGCCase{N: 2, Gone: 1}.build, 2})
	for _, ssa := range []bool{false, true} {
		for _, v := range []string{"bind", "delete", "dest", "dest-opaque", "source-foreign", "source-uncontrolled"} {
			cc := claimCase{SSA: ssa, Variant: v, OtherNS: "ns2", Extra: true, Seed: 42}
			switch v {
			case "dest":
				cc.SecretType = typeConnection
			case "dest-opaque":
				cc.Variant, cc.SecretType = "dest", typeOpaque
			case "source-foreign":
				cc.Variant, cc.SourceBad = "source", "foreign"
			case "source-uncontrolled":
				cc.Variant, cc.SourceBad = "source", "uncontrolled"
			}
			rows = append(rows, row{fmt.Sprintf("claim ssa=%v %s", ssa, v), cc.build, 2})
		}
	}
	for _, offer := range []bool{false, true} {
		for _, deleting := range []bool{false, true} {
			site := map[bool]string{false: "xrd-definition", true: "xrd-offered"}[offer]
			dc := mkXRD(pinnedDerived(site), offer, deleting)
			rows = append(rows, row{fmt.Sprintf("%s deleting=%v", site, deleting), dc.build, 3})
		}
	}
	for _, fl := range pkgFlavors {
		for _, labelled := range []bool{true, false} {
			dc := pinnedDerived("pkg-manager/" + fl.kind)
			dc.Bystand = 0
			dc = mkPkg(dc, fl, labelled)
			rows = append(rows, row{fmt.Sprintf("pkg-manager %s labelled=%v", fl.kind, labelled), dc.build, 2})
		}
		rows = append(rows, row{"pkg-manager stale-active " + fl.kind, pkgStaleBuild(pinnedDerived("pkg-manager/"+fl.kind), fl), 2})
	}
	for pick := 0; pick < 4; pick++ {
		dc := pinnedDerived("rbac-provider-roles")
		dc.Pick = pick
		dc = mkRoles(dc)
		rows = append(rows, row{fmt.Sprintf("rbac provider roles pick=%d", pick), dc.build, 2})
		dd := pinnedDerived("rbac-definition-roles")
		dd.Pick = pick
		dd = mkRBACDef(dd)
		rows = append(rows, row{fmt.Sprintf("rbac definition roles pick=%d", pick), dd.build, 2})
	}
	db := mkBinding(pinnedDerived("rbac-provider-binding"))
	rows = append(rows, row{"rbac provider binding", db.build, 2})
	for _, provider := range []bool{true, false} {
		for _, f := range []string{"sibling", "stranger", "ghost"} {
			for target := 0; target < 2; target++ {
				ec := estCase{Provider: provider, NObjs: 3, Target: target, Foreigner: f, PlainRefs: target == 1, Workers: 2}
				rows = append(rows, row{fmt.Sprintf("establisher provider=%v foreigner=%s target=%d", provider, f, target), ec.build, 2})
				rows = append(rows, row{fmt.Sprintf("establisher/release provider=%v foreigner=%s target=%d", provider, f, target), ec.buildRelease, 2})
			}
		}
	}
	shard, nshards := verifkit.Shard()
	for i, r := range rows {
		if i%nshards != shard {
			continue
		}
		for _, p := range []placement{foreign, foreignOwnPlain, foreignExtraPlain, own, none} {
			views := []visibility{visible}
			if p.isForeign() {
				views = append(views, visibility{Mode: "hidden"})
				for _, k := range []int{1, 2, 3, 5, 8} {
					views = append(views, visibility{Mode: "appears", K: k})
				}
			}
			for _, v := range views {
				r, p, v := r, p, v
				runCase(rec, r.build, p, v, r.runs, func() any { return r.name }, func(f string, a ...any) {
					t.Errorf("pinned row %q placement=%s: %s", r.name, p, fmt.Sprintf(f, a...))
				})
			}
		}
	}
}
