//go:build verif

package c02

import (
	"context"
	"fmt"
	"testing"

	extv1 "k8s.io/apiextensions-apiserver/pkg/apis/apiextensions/v1"
	"k8s.io/apimachinery/pkg/runtime"
	"k8s.io/utils/ptr"
	"pgregory.net/rapid"
	"sigs.k8s.io/controller-runtime/pkg/client"

	v1 "github.com/crossplane/crossplane/apis/apiextensions/v1"
	pkgv1 "github.com/crossplane/crossplane/apis/pkg/v1"
	"github.com/crossplane/crossplane/internal/controller/pkg/revision"
	"github.com/crossplane/crossplane/internal/verifenv"
	"github.com/crossplane/crossplane/internal/verifkit"
	"github.com/crossplane/crossplane/internal/verifsim"
)

// estCase is one generated case of the establisher site: an ACTIVE package
// revision establishes control of its objects; one of them already exists.
type estCase struct {
	Provider  bool      `json:"provider"`  // ProviderRevision (CRDs) or ConfigurationRevision (XRD + Compositions)
	NObjs     int       `json:"nObjs"`     // objects in the package
	Target    int       `json:"target"`    // which of them pre-exists
	Foreigner string    `json:"foreigner"` // sibling (older revision of the same package) | stranger (revision of another package) | ghost
	PlainRefs bool      `json:"plainRefs"` // the existing object also carries plain (non-controller) owner references
	Workers   int       `json:"workers"`
	Place     placement `json:"placement"`
}

func (ec estCase) objects() []runtime.Object {
	var out []runtime.Object
	if ec.Provider {
		for i := 0; i < ec.NObjs; i++ {
			crd := &extv1.CustomResourceDefinition{}
			crd.SetName(fmt.Sprintf("widget%ds.acme.example.org", i))
			crd.Spec.Group = "acme.example.org"
			crd.Spec.Scope = extv1.ClusterScoped
			crd.Spec.Names = extv1.CustomResourceDefinitionNames{Kind: fmt.Sprintf("Widget%d", i), Plural: fmt.Sprintf("widget%ds", i)}
			crd.Spec.Versions = []extv1.CustomResourceDefinitionVersion{{Name: "v1", Served: true, Storage: true,
				Schema: &extv1.CustomResourceValidation{OpenAPIV3Schema: &extv1.JSONSchemaProps{Type: "object", Description: "wanted"}}}}
			out = append(out, crd)
		}
		return out
	}
	for i := 0; i < ec.NObjs; i++ {
		if i == 0 {
			out = append(out, xrdObject("acme.example.org", "widget", 1, true))
			continue
		}
		c := &v1.Composition{}
		c.SetName(fmt.Sprintf("comp-%d", i))
		c.Spec.CompositeTypeRef = v1.TypeReference{APIVersion: "acme.example.org/v1", Kind: "XWidget"}
		c.Spec.Mode = ptr.To(v1.CompositionModePipeline)
		c.Spec.Pipeline = []v1.PipelineStep{{Step: "wanted", FunctionRef: v1.FunctionReference{Name: "fn"}}}
		out = append(out, c)
	}
	return out
}

func toObj(o runtime.Object, s *verifsim.Sim) verifsim.Obj {
	m, err := runtime.DefaultUnstructuredConverter.ToUnstructured(o)
	if err != nil {
		panic(err)
	}
	gvks, _, err := s.Scheme.ObjectKinds(o)
	if err != nil || len(gvks) == 0 {
		panic(fmt.Sprintf("c02: no kind for %T: %v", o, err))
	}
	m["apiVersion"] = gvks[0].GroupVersion().String()
	m["kind"] = gvks[0].Kind
	delete(verifsim.Meta(m), "creationTimestamp")
	delete(m, "status")
	return m
}

func (ec estCase) build(p placement) (*world, expectation) {
	sim := verifsim.New(verifsim.NewScheme())
	rec := verifenv.NewRecorder()
	ctx := context.Background()
	pkgKind, revKind := "Configuration", "ConfigurationRevision"
	if ec.Provider {
		pkgKind, revKind = "Provider", "ProviderRevision"
	}
	mkPkg := func(n string) verifsim.Obj {
		return mustCreate(sim, verifsim.Obj{"apiVersion": "pkg.crossplane.io/v1", "kind": pkgKind, "metadata": map[string]any{"name": n}, "spec": map[string]any{"package": "xpkg.example.org/acme/" + n + ":v2"}})
	}
	mkRev := func(pk verifsim.Obj, n, state string, rev int64) verifsim.Obj {
		pr := refTo(pk, true)
		return mustCreate(sim, verifsim.Obj{"apiVersion": "pkg.crossplane.io/v1", "kind": revKind,
			"metadata": map[string]any{"name": n, "labels": map[string]any{pkgv1.LabelParentPackage: verifsim.MetaString(pk, "name")}, "ownerReferences": []any{pr}},
			"spec":     map[string]any{"desiredState": state, "image": "xpkg.example.org/acme/x:v2", "revision": rev}})
	}
	pk := mkPkg("acme")
	parentObj := mkRev(pk, "acme-0123456789ab", "Active", 2)
	sibling := mkRev(pk, "acme-ba9876543210", "Inactive", 1)
	stranger := mkRev(mkPkg("stranger"), "stranger-0123456789ab", "Active", 1)

	var foreignRef map[string]any
	switch ec.Foreigner {
	case "sibling":
		foreignRef = refTo(sibling, true)
	case "stranger":
		foreignRef = refTo(stranger, true)
	default:
		foreignRef = ownerRef("pkg.crossplane.io/v1", revKind, "acme-000000000000", "uid-of-a-former-revision", true)
	}

	objs := ec.objects()
	t := toObj(objs[ec.Target%len(objs)], sim)
	// The existing object differs from what the package carries.
	if ec.Provider {
		vs := verifsim.Nested(t, "spec", "versions").([]any)
		vs[0].(map[string]any)["schema"].(map[string]any)["openAPIV3Schema"].(map[string]any)["description"] = "PRE-EXISTING"
	} else {
		addLabel(t, "verif.example.org/pre-existing", "yes")
	}
	setController(t, p, refTo(parentObj, true), foreignRef)
	if ec.PlainRefs {
		m := verifsim.Meta(t)
		l, _ := m["ownerReferences"].([]any)
		m["ownerReferences"] = append(l, refTo(pk, false))
	}
	mustCreate(sim, t)

	w := &world{sim: sim, rec: rec, ownerKey: verifsim.KeyOf(parentObj), ownerUID: verifsim.MetaString(parentObj, "uid")}
	w.step = func(c client.Client, _ int) error {
		var parent pkgv1.PackageRevision = &pkgv1.ConfigurationRevision{}
		if ec.Provider {
			parent = &pkgv1.ProviderRevision{}
		}
		if err := c.Get(ctx, client.ObjectKey{Name: "acme-0123456789ab"}, parent); err != nil {
			return err
		}
		_, err := revision.NewAPIEstablisher(c, sysNS, ec.Workers).Establish(ctx, ec.objects(), parent, true)
		return err
	}
	e := expectation{site: "establisher/" + revKind, kind: verifsim.KeyOf(t).Kind + "/owner=" + ec.Foreigner, place: p, target: verifsim.KeyOf(t), surface: true, mustWrite: true, adopts: true}
	return w, e
}

func TestVerifC02Establisher(t *testing.T) {
	rec := verifkit.New(t, "C02", "revision.APIEstablisher.Establish(control=true) for an active revision: one package object pre-exists, controlled by a sibling revision / a stranger's revision / a vanished owner / nobody / the revision itself")
	rapid.Check(t, func(t *rapid.T) {
		ec := estCase{
			Provider:  rapid.Bool().Draw(t, "provider"),
			NObjs:     rapid.IntRange(1, 4).Draw(t, "nObjs"),
			Target:    rapid.IntRange(0, 3).Draw(t, "target"),
			Foreigner: rapid.SampledFrom([]string{"sibling", "stranger", "ghost"}).Draw(t, "foreigner"),
			PlainRefs: rapid.Bool().Draw(t, "plainRefs"),
			Workers:   rapid.IntRange(1, 4).Draw(t, "workers"),
			Place:     rapid.SampledFrom(placements).Draw(t, "placement"),
		}
		runCase(rec, ec.build, ec.Place, genVisibility().Draw(t, "reads"), 2, func() any { return ec }, tfail(t))
	})
}

// ---------------------------------------------------------------------------
// establisher/release: APIEstablisher.ReleaseObjects of a revision that has been
// deactivated. Its status.objectRefs still names the package's objects; after an
// upgrade (or an adoption) one of them is controlled by a different UID.

// releaseNormalizer implements the one exemption the property states: "the plain
// (non-controller) owner reference an inactive package revision adds" is out of
// scope. Objects are compared without plain references to the acting revision and
// without the bookkeeping an update of ownerReferences necessarily touches
// (resourceVersion, managedFields). Everything else - in particular every other
// owner reference and its controller flag - still has to be identical.
func releaseNormalizer(actingUID string) func(o verifsim.Obj) verifsim.Obj {
	return func(o verifsim.Obj) verifsim.Obj {
		c := verifsim.DeepCopy(o)
		m := verifsim.Meta(c)
		delete(m, "resourceVersion")
		delete(m, "managedFields")
		var keep []any
		for _, r := range verifsim.OwnerRefs(c) {
			ctrl, _ := r["controller"].(bool)
			if u, _ := r["uid"].(string); u == actingUID && !ctrl {
				continue
			}
			keep = append(keep, r)
		}
		if len(keep) == 0 {
			delete(m, "ownerReferences")
		} else {
			m["ownerReferences"] = keep
		}
		return c
	}
}

func (ec estCase) buildRelease(p placement) (*world, expectation) {
	sim := verifsim.New(verifsim.NewScheme())
	rec := verifenv.NewRecorder()
	ctx := context.Background()
	pkgKind, revKind := "Configuration", "ConfigurationRevision"
	if ec.Provider {
		pkgKind, revKind = "Provider", "ProviderRevision"
	}
	mkPkg := func(n string) verifsim.Obj {
		return mustCreate(sim, verifsim.Obj{"apiVersion": "pkg.crossplane.io/v1", "kind": pkgKind, "metadata": map[string]any{"name": n}, "spec": map[string]any{"package": "xpkg.example.org/acme/" + n + ":v2"}})
	}
	mkRev := func(pk verifsim.Obj, n, state string, rev int64) verifsim.Obj {
		return mustCreate(sim, verifsim.Obj{"apiVersion": "pkg.crossplane.io/v1", "kind": revKind,
			"metadata": map[string]any{"name": n, "labels": map[string]any{pkgv1.LabelParentPackage: verifsim.MetaString(pk, "name")}, "ownerReferences": []any{refTo(pk, true)}},
			"spec":     map[string]any{"desiredState": state, "image": "xpkg.example.org/acme/x:v2", "revision": rev}})
	}
	pk := mkPkg("acme")
	// The acting owner: the OLD revision, now inactive, releasing what it installed.
	acting := mkRev(pk, "acme-ba9876543210", "Inactive", 1)
	successor := mkRev(pk, "acme-0123456789ab", "Active", 2)
	stranger := mkRev(mkPkg("stranger"), "stranger-0123456789ab", "Active", 1)
	var foreignRef map[string]any
	switch ec.Foreigner {
	case "sibling":
		foreignRef = refTo(successor, true)
	case "stranger":
		foreignRef = refTo(stranger, true)
	default:
		foreignRef = ownerRef("pkg.crossplane.io/v1", revKind, "acme-000000000000", "uid-of-a-former-revision", true)
	}
	objs := ec.objects()
	var refs []any
	var tk verifsim.Key
	for i, o := range objs {
		m := toObj(o, sim)
		refs = append(refs, map[string]any{"apiVersion": m["apiVersion"], "kind": m["kind"], "name": verifsim.MetaString(m, "name")})
		pl := own // the other objects are still the acting revision's: they are released as usual
		if i == ec.Target%len(objs) {
			pl = p
			tk = verifsim.KeyOf(m)
		}
		setController(m, pl, refTo(acting, true), foreignRef)
		if ec.PlainRefs {
			mm := verifsim.Meta(m)
			l, _ := mm["ownerReferences"].([]any)
			mm["ownerReferences"] = append(l, refTo(pk, false))
		}
		mustCreate(sim, m)
	}
	// status.objectRefs as the revision reconciler records Establish's result.
	u := verifsim.U(acting)
	u.Object["status"] = map[string]any{"objectRefs": refs}
	if err := sim.Client(envActor).Status().Update(ctx, u); err != nil {
		panic(err)
	}
	actingUID := verifsim.MetaString(acting, "uid")
	w := &world{sim: sim, rec: rec, ownerKey: verifsim.KeyOf(acting), ownerUID: actingUID}
	if p == foreign || p == foreignExtraPlain {
		// The acting revision has no reference of its own on the object: it may add its plain one (out of scope).
		w.normalize = releaseNormalizer(actingUID)
	}
	w.step = func(c client.Client, _ int) error {
		var parent pkgv1.PackageRevision = &pkgv1.ConfigurationRevision{}
		if ec.Provider {
			parent = &pkgv1.ProviderRevision{}
		}
		if err := w.live.Get(ctx, client.ObjectKey{Name: "acme-ba9876543210"}, parent); err != nil {
			return err
		}
		return revision.NewAPIEstablisher(c, sysNS, ec.Workers).ReleaseObjects(ctx, parent)
	}
	e := expectation{site: "establisher/release/" + revKind, kind: tk.Kind + "/owner=" + ec.Foreigner, place: p, target: tk, mustWrite: true, noController: true}
	// Releasing never fails on an object somebody else controls, it leaves it alone: nothing to surface.
	e.surface = false
	e.extra = func(w *world, fail func(string, ...any)) {
		if got, want := verifsim.ControllerUID(w.sim.Get(tk)), fmt.Sprint(foreignRef["uid"]); got != want {
			fail("the object's controller was %s before the release and is %q after it", want, got)
		}
	}
	e.afterOwn = func(w *world, fail func(string, ...any)) {
		cur := w.sim.Get(tk)
		if c := verifsim.ControllerUID(cur); c != "" {
			fail("VACUOUS: the acting revision's own object was not released, controller is still %q", c)
		}
		kept := false
		for _, r := range verifsim.OwnerRefs(cur) {
			if r["uid"] == actingUID {
				kept = true
			}
		}
		if !kept {
			fail("the released object lost the acting revision's owner reference")
		}
	}
	return w, e
}

func TestVerifC02EstablisherRelease(t *testing.T) {
	rec := verifkit.New(t, "C02", "revision.APIEstablisher.ReleaseObjects of a deactivated revision whose status.objectRefs names an object that another UID (the successor revision, a stranger's revision, a vanished owner) now controls, with and without the acting revision's own plain reference on it")
	rapid.Check(t, func(t *rapid.T) {
		ec := estCase{
			Provider:  rapid.Bool().Draw(t, "provider"),
			NObjs:     rapid.IntRange(1, 4).Draw(t, "nObjs"),
			Target:    rapid.IntRange(0, 3).Draw(t, "target"),
			Foreigner: rapid.SampledFrom([]string{"sibling", "sibling", "stranger", "ghost"}).Draw(t, "foreigner"),
			PlainRefs: rapid.Bool().Draw(t, "plainRefs"),
			Workers:   rapid.IntRange(1, 4).Draw(t, "workers"),
			Place:     rapid.SampledFrom(placements).Draw(t, "placement"),
		}
		runCase(rec, ec.buildRelease, ec.Place, genVisibility().Draw(t, "reads"), 2, func() any { return ec }, tfail(t))
	})
}
