//go:build verif

// Package c03 decides property C03: a failing composition pipeline is never
// destructive, and garbage collection of composed resources is exact.
//
// The real XR reconciler (real FunctionComposer, FetchingFunctionRunner,
// ExistingComposedResourceObserver, DeletingComposedResourceGarbageCollector,
// PTComposer with its GarbageCollectingAssociator) is driven on the simulated
// API server. The only replaced dependency is the innermost FunctionRunner: a
// scripted function whose per-step behaviour is generated data.
//
// Oracle. An interpreter over plain string sets (interpret / interpretPT below)
// reads the same script and the harness's own bookkeeping of what it did to the
// composed resources, and computes (1) whether the pipeline fails and at which
// step, (2) the final desired name set, (3) the set that must be deleted. It
// never looks at what the code under test did. The verdict is taken from the
// write log of the simulated API server for exactly that reconcile.
//
// Modelling decisions (each follows the property text or a code comment, and is
// the place to look first if the check ever reports something surprising):
//
//	M1 "previously composed by this XR" = objects the harness saw the XR create
//	   in the preceding successful reconciles and that are still referenced by
//	   spec.resourceRefs. Objects that merely look composed (right annotation,
//	   right controller reference) but are not referenced are decoys and must
//	   never be deleted.
//	M2 A referenced object that now has a controller reference to ANOTHER uid is
//	   not deleted, and is not part of the observed state handed to functions
//	   (ObserveComposedResources: "If we don't control this resource we just
//	   pretend it doesn't exist"; GC: "Don't garbage collect composed resources
//	   that someone else controls"). An object whose owner references were
//	   stripped IS deleted when undesired ("We do garbage collect composed
//	   resources that no-one controls").
//	M3 A terminating object (deletionTimestamp + finalizer) still exists, so it
//	   is observed; when undesired the code issues Delete again, the server
//	   accepts it as a no-op. "Deleted" therefore means: an accepted, non-dry-run
//	   Delete request, or any write after which the object is gone.
//	M4 Requirements protocol (extra_resources.go): the function is called
//	   again while the requirements it returns differ from the ones returned
//	   by the previous call (nil before the first call); it may be called at
//	   most MaxRequirementsIterations+1 times (loop `i <= Max`), a fatal result
//	   or a Go error at any executed call fails the step, a failure scripted
//	   for a call that is never reached does not.
//	M5 For patch-and-transform the "no mutation on failure" clause does not
//	   apply (the property says "In a function pipeline, if ..."): P&T deletes
//	   while it associates. For P&T the check decides: deleted ⊆ expected in
//	   every run, deleted == expected when composition succeeds, and an object
//	   whose annotation names a template of the current revision is never deleted.
//
//	M6 Two references resolving to the same composition-resource-name (a duplicated
//	   spec.resourceRefs entry, or a second referenced object with the same
//	   annotation, "name+twin" below). P&T: every reference is judged on its own, so
//	   nothing whose named template exists may be deleted, and both objects of a
//	   template-less pair are expected to be deleted. Pipeline: the observer keeps
//	   one object per name (the last reference); which of two same-named objects
//	   is collected when the name is undesired is not stated by the property, so
//	   for that pair only "never deleted while the name is desired" is asserted
//	   and the pair is left out of the set equation.
//
//	M7 Observation reads a referenced resource from the cached reader and, on
//	   NotFound, again from the live one ("Try again without the cache"). Only
//	   NotFound from BOTH means "no longer exists"; any other error of either read
//	   is a failed observation and falls under the no-mutation clause. The check
//	   therefore injects the observe error on the first read or on the live
//	   fallback read, the latter both for resources the cache has not seen yet
//	   (CacheLag, verifsim.LagHideNew) and for resources that are really gone.
//
//	M8 Composed resources of a namespaced kind live in ns-a / ns-b (a kind is
//	   namespaced or cluster-scoped for the whole scenario, as on a real API
//	   server). Two desired resources may share apiVersion, kind and metadata.name
//	   when their namespaces differ; they are different objects. Every key in the
//	   harness (good-phase bookkeeping, refs, write-log attribution) is the
//	   simulated server's (group, kind, namespace, name). An object the XR composed
//	   must be named by spec.resourceRefs INCLUDING its namespace, because only
//	   referenced objects are observed and collected: a missing reference after a
//	   successful composition is reported, and so is the resource that is then not
//	   collected once it stops being desired. Only the pipeline composes
//	   namespaced resources here (a P&T base's metadata.namespace is reset by
//	   RenderFromJSON; placing P&T resources in namespaces needs patches).
//
//	M9 Catching-up cache for the XR itself (pipeline mode): the reconciler's FIRST
//	   read of the XR returns the newest older stored version whose
//	   spec.resourceRefs differ from the stored ones (the state before the previous
//	   reconcile's refs write, or before an edit of the refs), every later read is
//	   live. The reconcile under test always selects a new CompositionRevision, so
//	   the revision fetcher persists spec.compositionRevisionRef from that stale
//	   copy before Compose runs. The property is only asserted where it speaks:
//	   if the scripted pipeline fails, no composed resource is written and the
//	   STORED spec.resourceRefs are unchanged (a stale copy must not overwrite
//	   them). If the script would succeed only the one-directional clauses are
//	   kept (deleted is a subset of expected, never a still-desired resource),
//	   because a reconcile that is refused with a conflict legitimately does nothing.
package c03

import (
	"context"
	"encoding/json"
	"errors"
	"fmt"
	"sort"
	"strings"
	"testing"

	metav1 "k8s.io/apimachinery/pkg/apis/meta/v1"
	"k8s.io/apimachinery/pkg/apis/meta/v1/unstructured"
	"k8s.io/apimachinery/pkg/runtime"
	"k8s.io/apimachinery/pkg/types"
	utilrand "k8s.io/apimachinery/pkg/util/rand"
	"k8s.io/utils/ptr"
	"pgregory.net/rapid"

	"google.golang.org/protobuf/types/known/structpb"

	fnv1 "github.com/crossplane/crossplane/apis/apiextensions/fn/proto/v1"
	v1 "github.com/crossplane/crossplane/apis/apiextensions/v1"
	"github.com/crossplane/crossplane/internal/controller/apiextensions/composite"
	"github.com/crossplane/crossplane/internal/verifenv"
	"github.com/crossplane/crossplane/internal/verifkit"
	"github.com/crossplane/crossplane/internal/verifsim"
)

const (
	annName  = "crossplane.io/composition-resource-name"
	xrName   = "xr1"
	poolSize = 6
	seqLen   = 8 // requirement ids scripted per step; the last one repeats forever
)

// Perturbations of a previously composed resource.
const (
	pPresent      = "present"
	pMissing      = "missing"
	pTerminating  = "terminating"
	pUncontrolled = "uncontrolled"
	pForeign      = "foreign"
)

var perturbations = []string{pPresent, pMissing, pTerminating, pUncontrolled, pForeign}

// Requirement ids. 0 is "no requirements" (nil message).
const (
	reqNil   = 0
	reqEmpty = 1 // non-nil message without selectors
	reqBad   = 6 // a selector without a match clause: fetching it is an error
	reqMax   = 6
)

func pname(i int) string { return fmt.Sprintf("r%d", i) }

// kindOf maps a resource name to its kind, consistently in every script.
func kindOf(name string) string {
	var i int
	fmt.Sscanf(name, "r%d", &i)
	if i%2 == 0 {
		return "KindA"
	}
	return "KindB"
}

func composedKind(k string) bool { return k == "KindA" || k == "KindB" }

// ---------------------------------------------------------------------------
// scenario model (all of it is generated data; JSON tags make samples readable)

type op struct {
	Op string `json:"op"` // add | drop | rename | keep
	A  string `json:"a,omitempty"`
	B  string `json:"b,omitempty"`
}

type stepSpec struct {
	KeepObserved bool   `json:"keepObserved,omitempty"` // first re-emit every observed resource
	Ops          []op   `json:"ops,omitempty"`
	Result       string `json:"result,omitempty"`   // "", normal, warning: returned by every call
	Fail         string `json:"fail,omitempty"`     // "", fatal, error: produced at call FailCall only
	FailCall     int    `json:"failCall,omitempty"` // 0-based call index within the requirements loop
	Reqs         []int  `json:"reqs,omitempty"`     // requirement id returned by call k (last repeats)
}

type scenario struct {
	Pipeline     bool              `json:"pipeline"`
	Good         []string          `json:"good"`            // names composed by the earlier, successful script/revision
	Fixed        map[string]string `json:"fixed,omitempty"` // name -> explicit metadata.name set by the function
	NS           map[string]string `json:"ns,omitempty"`    // name -> metadata.namespace (M8); "" = cluster-scoped
	Perturb      map[string]string `json:"perturb"`         // name -> perturbation applied before the reconcile under test
	ObserveFault string            `json:"observeFault,omitempty"`
	// ObserveFaultLive asks for the error to hit the LIVE fallback read that follows a cache miss (NotFound from
	// the cached reader) instead of the first read; ObserveFaultErr is server (default) | timeout | conflict.
	ObserveFaultLive bool   `json:"observeFaultLive,omitempty"`
	ObserveFaultErr  string `json:"observeFaultErr,omitempty"`
	// CacheLag gives the reconciler distinct clients (M7): the cached one has not yet seen composed
	// resources that were written exactly once, the uncached one (same Run) reads the live store.
	CacheLag bool `json:"cacheLag,omitempty"`
	// ForeignPlain: for a foreign-controlled resource, its ownerReferences ALSO list this XR as a plain
	// (non-controller) owner, "first" = before the foreign controller reference, "last" = after it. It is
	// still controlled by the other owner: not this XR's, never deleted nor written (M2).
	ForeignPlain map[string]string `json:"foreignPlain,omitempty"`
	// StaleXR (M9): the first read of the XR in the reconcile under test is stale. Prev, if set, is what an
	// even earlier successful script composed, so that the stale copy references other resources than Good.
	StaleXR bool     `json:"staleXR,omitempty"`
	Prev    []string `json:"prev,omitempty"`
	// Perturbations of spec.resourceRefs itself (M6). DupRef: the reference to this resource appears twice
	// (the list is atomic, the API server admits duplicates). Twin: a second, distinct object controlled by
	// the XR and carrying the same composition-resource-name annotation exists and is referenced too.
	// *Front: the extra reference is put at the front of the list instead of the end.
	DupRef    string     `json:"dupRef,omitempty"`
	DupFront  bool       `json:"dupFront,omitempty"`
	Twin      string     `json:"twin,omitempty"`
	TwinFront bool       `json:"twinFront,omitempty"`
	Steps     []stepSpec `json:"steps,omitempty"`     // pipeline mode: the script under test
	Templates []string   `json:"templates,omitempty"` // P&T mode: template names of revision 2
	Seed      int64      `json:"seed"`
}

func (st stepSpec) req(k int) int {
	if len(st.Reqs) == 0 {
		return reqNil
	}
	if k >= len(st.Reqs) {
		k = len(st.Reqs) - 1
	}
	return st.Reqs[k]
}

// ---------------------------------------------------------------------------
// the oracle's interpreter: plain sets, no Crossplane code

type verdict struct {
	Fails      bool
	FailStep   int    // -1 = observe; otherwise index of the failing step
	Why        string // observe | error | fatal | unstable | badselector
	Desired    map[string]bool
	Observed   map[string]bool // what the XR may treat as its own existing composed resources (M2)
	Existing   int             // referenced objects that physically exist
	ExpectDel  map[string]bool
	CallBudget map[int]int // step -> number of calls the protocol makes (for the boundedness check)
	WeakPair   string      // pipeline mode: name whose two objects are left out of the set equation (M6)
	FaultClass string      // filled in after the run, for labels only: which observation read the injected error hit
	StaleClass string      // filled in after the run, for labels only: what the stale first read of the XR showed and what the reconcile wrote
}

const twinSuffix = "+twin"

func baseName(n string) string { return strings.TrimSuffix(n, twinSuffix) }

func (sc scenario) observedModel() (obs map[string]bool, existing int) {
	obs = map[string]bool{}
	for _, n := range sc.Good {
		switch sc.Perturb[n] {
		case pPresent, pTerminating, pUncontrolled:
			obs[n] = true
			existing++
		case pForeign:
			existing++
		}
	}
	if sc.Twin != "" {
		existing++
		if sc.Pipeline {
			// the twin is present and controlled by the XR: the name is observed whatever happened to the original
			obs[sc.Twin] = true
		}
	}
	return obs, existing
}

// runStep simulates the requirements protocol (M4) for one step.
func runStep(st stepSpec) (fails bool, why string, calls int) {
	prev := reqNil
	for k := 0; k <= composite.MaxRequirementsIterations; k++ {
		calls = k + 1
		if st.Fail != "" && st.FailCall == k {
			return true, st.Fail, calls
		}
		cur := st.req(k)
		if cur == prev {
			return false, "", calls
		}
		if cur == reqBad {
			return true, "badselector", calls
		}
		prev = cur
	}
	return true, "unstable", calls
}

func applyOps(desired map[string]bool, observed map[string]bool, st stepSpec) {
	if st.KeepObserved {
		for n := range observed {
			desired[n] = true
		}
	}
	for _, o := range st.Ops {
		switch o.Op {
		case "add":
			desired[o.A] = true
		case "drop":
			delete(desired, o.A)
		case "rename":
			if desired[o.A] {
				delete(desired, o.A)
				desired[o.B] = true
			}
		}
	}
}

func interpret(sc scenario) verdict {
	v := verdict{FailStep: -2, Desired: map[string]bool{}, ExpectDel: map[string]bool{}, CallBudget: map[int]int{}}
	v.Observed, v.Existing = sc.observedModel()
	if sc.ObserveFault != "" {
		v.Fails, v.FailStep, v.Why = true, -1, "observe"
		return v
	}
	for i, st := range sc.Steps {
		fails, why, calls := runStep(st)
		v.CallBudget[i] = calls
		if fails {
			v.Fails, v.FailStep, v.Why = true, i, why
			return v
		}
		applyOps(v.Desired, v.Observed, st)
	}
	for n := range v.Observed {
		if !v.Desired[n] {
			v.ExpectDel[n] = true
		}
	}
	if sc.Twin != "" {
		v.WeakPair = sc.Twin
		delete(v.ExpectDel, sc.Twin)
	}
	return v
}

func interpretPT(sc scenario) verdict {
	v := verdict{FailStep: -2, Desired: map[string]bool{}, ExpectDel: map[string]bool{}}
	v.Observed, v.Existing = sc.observedModel()
	for _, n := range sc.Templates {
		v.Desired[n] = true
	}
	for n := range v.Observed {
		if !v.Desired[n] {
			v.ExpectDel[n] = true
		}
	}
	if sc.Twin != "" && !v.Desired[sc.Twin] {
		v.ExpectDel[sc.Twin+twinSuffix] = true
	}
	if sc.ObserveFault != "" {
		v.Fails, v.FailStep, v.Why = true, -1, "observe"
	}
	for _, n := range sc.Good {
		if sc.Perturb[n] == pForeign {
			// Either the associator refuses to collect it or the apply refuses to adopt it.
			v.Fails, v.Why = true, "foreign"
		}
	}
	return v
}

// ---------------------------------------------------------------------------
// the scripted function (input realisation; it sees only what Crossplane passes it)

type scriptRunner struct {
	steps   []stepSpec
	fixed   map[string]string
	ns      map[string]string
	val     string
	calls   map[int]int
	runaway string
}

func (r *scriptRunner) reset(steps []stepSpec, val string) {
	r.steps, r.val, r.calls, r.runaway = steps, val, map[int]int{}, ""
}

func (r *scriptRunner) resource(name string) (*fnv1.Resource, error) {
	md := map[string]any{}
	if f := r.fixed[name]; f != "" {
		md["name"] = f
	}
	if ns := r.ns[name]; ns != "" {
		md["namespace"] = ns
	}
	s, err := structpb.NewStruct(map[string]any{
		"apiVersion": "example.org/v1", "kind": kindOf(name), "metadata": md,
		"spec": map[string]any{"forProvider": map[string]any{"v": r.val}},
	})
	if err != nil {
		return nil, err
	}
	return &fnv1.Resource{Resource: s, Ready: fnv1.Ready_READY_TRUE}, nil
}

// requirements builds a fresh message for every call, as a gRPC client would.
func requirements(id int) *fnv1.Requirements {
	byName := func(kind, name string) *fnv1.ResourceSelector {
		return &fnv1.ResourceSelector{ApiVersion: "example.org/v1", Kind: kind, Match: &fnv1.ResourceSelector_MatchName{MatchName: name}}
	}
	byLabels := func(kind string, l map[string]string) *fnv1.ResourceSelector {
		return &fnv1.ResourceSelector{ApiVersion: "example.org/v1", Kind: kind, Match: &fnv1.ResourceSelector_MatchLabels{MatchLabels: &fnv1.MatchLabels{Labels: l}}}
	}
	switch id {
	case reqNil:
		return nil
	case reqEmpty:
		return &fnv1.Requirements{}
	case 2:
		return &fnv1.Requirements{ExtraResources: map[string]*fnv1.ResourceSelector{"a": byName("KindA", "fixed-0")}}
	case 3:
		return &fnv1.Requirements{ExtraResources: map[string]*fnv1.ResourceSelector{"a": byLabels("KindB", map[string]string{"crossplane.io/composite": xrName})}}
	case 4:
		return &fnv1.Requirements{ExtraResources: map[string]*fnv1.ResourceSelector{"a": byName("KindB", "fixed-1"), "b": byLabels("KindA", map[string]string{"crossplane.io/composite": xrName})}}
	case 5:
		return &fnv1.Requirements{ExtraResources: map[string]*fnv1.ResourceSelector{"cfg": byName("KindX", "absent")}}
	case reqBad:
		return &fnv1.Requirements{ExtraResources: map[string]*fnv1.ResourceSelector{"bad": {ApiVersion: "example.org/v1", Kind: "KindA"}}}
	}
	panic("unknown requirement id")
}

func (r *scriptRunner) RunFunction(_ context.Context, name string, req *fnv1.RunFunctionRequest) (*fnv1.RunFunctionResponse, error) {
	var i int
	if _, err := fmt.Sscanf(name, "fn-%d", &i); err != nil || i >= len(r.steps) {
		return nil, fmt.Errorf("harness: unknown function %q", name)
	}
	st := r.steps[i]
	k := r.calls[i]
	r.calls[i]++
	if k > composite.MaxRequirementsIterations+20 {
		// An unbounded requirements loop would hang the check; stop it and report it.
		r.runaway = fmt.Sprintf("function %q was called %d times in one reconcile", name, k+1)
		return nil, errors.New("harness: runaway requirements loop")
	}
	if st.Fail == "error" && k == st.FailCall {
		return nil, errors.New("scripted function error")
	}
	d := &fnv1.State{Composite: req.GetDesired().GetComposite(), Resources: map[string]*fnv1.Resource{}}
	for n, res := range req.GetDesired().GetResources() {
		d.Resources[n] = res
	}
	add := func(n string) error {
		if _, ok := d.Resources[n]; ok {
			return nil
		}
		res, err := r.resource(n)
		if err != nil {
			return err
		}
		d.Resources[n] = res
		return nil
	}
	if st.KeepObserved {
		for n := range req.GetObserved().GetResources() {
			if err := add(n); err != nil {
				return nil, err
			}
		}
	}
	for _, o := range st.Ops {
		switch o.Op {
		case "add":
			if err := add(o.A); err != nil {
				return nil, err
			}
		case "drop":
			delete(d.Resources, o.A)
		case "rename":
			if _, ok := d.Resources[o.A]; ok {
				delete(d.Resources, o.A)
				if err := add(o.B); err != nil {
					return nil, err
				}
			}
		}
	}
	rsp := &fnv1.RunFunctionResponse{Desired: d, Context: req.GetContext(), Requirements: requirements(st.req(k))}
	switch st.Result {
	case "normal":
		rsp.Results = append(rsp.Results, &fnv1.Result{Severity: fnv1.Severity_SEVERITY_NORMAL, Message: "fine"})
	case "warning":
		rsp.Results = append(rsp.Results, &fnv1.Result{Severity: fnv1.Severity_SEVERITY_WARNING, Message: "careful"})
	}
	if st.Fail == "fatal" && k == st.FailCall {
		rsp.Results = append(rsp.Results, &fnv1.Result{Severity: fnv1.Severity_SEVERITY_FATAL, Message: "scripted fatal result"})
	}
	return rsp, nil
}

// ---------------------------------------------------------------------------
// compositions

func pipelineComposition(nsteps int, phase string) *v1.Composition {
	c := &v1.Composition{}
	c.SetName("comp")
	c.Spec.CompositeTypeRef = v1.TypeReference{APIVersion: "example.org/v1", Kind: "XThing"}
	c.Spec.Mode = ptr.To(v1.CompositionModePipeline)
	in, _ := json.Marshal(map[string]any{"phase": phase})
	for i := 0; i < nsteps; i++ {
		c.Spec.Pipeline = append(c.Spec.Pipeline, v1.PipelineStep{
			Step: fmt.Sprintf("step-%d", i), FunctionRef: v1.FunctionReference{Name: fmt.Sprintf("fn-%d", i)},
			Input: &runtime.RawExtension{Raw: in},
		})
	}
	return c
}

func ptComposition(names []string, val string) *v1.Composition {
	c := &v1.Composition{}
	c.SetName("comp")
	c.Spec.CompositeTypeRef = v1.TypeReference{APIVersion: "example.org/v1", Kind: "XThing"}
	c.Spec.Mode = ptr.To(v1.CompositionModeResources)
	for _, n := range names {
		base, _ := json.Marshal(map[string]any{"apiVersion": "example.org/v1", "kind": kindOf(n), "spec": map[string]any{"forProvider": map[string]any{"v": val}}})
		c.Spec.Resources = append(c.Spec.Resources, v1.ComposedTemplate{Name: ptr.To(n), Base: runtime.RawExtension{Raw: base}})
	}
	return c
}

// ---------------------------------------------------------------------------
// world

type world struct {
	env    *verifenv.XREnv
	sc     scenario
	runner *scriptRunner
	xrUID  string
	byName map[string]verifsim.Key // objects the XR composed in the good phase (M1)
	byKey  map[verifsim.Key]string
	decoys map[verifsim.Key]bool
	// composed objects that spec.resourceRefs failed to name after the successful good phase (M8)
	missingRefs []string
	// which read the injected observe error hit in the last reconcile (labels only)
	faultClass string
	staleClass string
	// content of each composed object right after the good phase
	origContent map[string]verifsim.Obj
}

func sorted(m map[string]bool) []string {
	out := make([]string, 0, len(m))
	for k, v := range m {
		if v {
			out = append(out, k)
		}
	}
	sort.Strings(out)
	return out
}

func refsOf(xr verifsim.Obj) string {
	return verifkit.JSON(verifsim.Nested(xr, "spec", "resourceRefs"))
}

// setup composes sc.Good with the earlier script/revision, checks that this worked, and
// applies the perturbations. It returns an error text if the environment could not be built.
func setup(sc scenario) (*world, string) {
	utilrand.Seed(sc.Seed)
	env := verifenv.NewXREnv()
	w := &world{env: env, sc: sc, runner: &scriptRunner{fixed: sc.Fixed, ns: sc.NS}, byName: map[string]verifsim.Key{}, byKey: map[verifsim.Key]string{}, decoys: map[verifsim.Key]bool{}, origContent: map[string]verifsim.Obj{}}
	env.Runner = w.runner
	adds := func(names []string) []stepSpec {
		st := stepSpec{}
		for _, n := range names {
			st.Ops = append(st.Ops, op{Op: "add", A: n})
		}
		return []stepSpec{st}
	}
	if sc.Pipeline {
		w.runner.reset(adds(sc.Good), "good")
		if sc.Prev != nil {
			w.runner.reset(adds(sc.Prev), "good")
		}
		env.InstallComposition(pipelineComposition(1, "good"), 1)
	} else {
		env.InstallComposition(ptComposition(sc.Good, "good"), 1)
	}
	xr := env.NewXR(xrName, "comp")
	env.Sim.MustCreate("user", xr)
	w.xrUID = string(xr.GetUID())
	phases := 1
	if sc.Pipeline && sc.Prev != nil {
		phases = 2
	}
	for ph := 0; ph < phases; ph++ {
		if ph == 1 {
			w.runner.reset(adds(sc.Good), "good")
		}
		for i := 0; i < 2; i++ {
			w.runner.calls = map[int]int{}
			if _, err := env.Reconcile(env.Sim.NewRun("xr-controller", nil), xrName); err != nil {
				return nil, fmt.Sprintf("setup reconcile %d.%d with the good script failed: %v", ph, i, err)
			}
		}
	}
	for _, k := range env.Sim.AllKeys() {
		if !composedKind(k.Kind) {
			continue
		}
		o := env.Sim.Get(k)
		n := verifsim.Annotations(o)[annName]
		if verifsim.ControllerUID(o) != w.xrUID || n == "" {
			return nil, fmt.Sprintf("setup: unexpected composed-kind object %s", k)
		}
		if _, dup := w.byName[n]; dup {
			return nil, fmt.Sprintf("setup: two objects for resource name %q", n)
		}
		w.byName[n] = k
		w.byKey[k] = n
		w.origContent[n] = o
	}
	if len(w.byName) != len(sc.Good) {
		return nil, fmt.Sprintf("setup: the good script composed %v, expected %v (warnings: %v)", w.byName, sc.Good, env.Recorder.Warnings())
	}
	for _, n := range sc.Good {
		if k := w.byName[n]; k.Namespace != sc.NS[n] {
			return nil, fmt.Sprintf("setup: %q was composed as %s, expected namespace %q", n, k, sc.NS[n])
		}
	}
	// M8: every object composed so far must be referenced, namespace included. A missing reference is not a
	// harness problem but the first half of the violation; the reconcile under test is still run and judged.
	w.missingRefs = w.unreferenced(nil)

	// Decoys (M1): look composed by this XR but are not referenced by it.
	c := env.Sim.Client("env")
	ctx := context.Background()
	for i, kind := range []string{"KindA", "KindB"} {
		d := &unstructured.Unstructured{Object: map[string]any{"apiVersion": "example.org/v1", "kind": kind, "spec": map[string]any{"forProvider": map[string]any{"v": "decoy"}}}}
		d.SetName(fmt.Sprintf("decoy-%d", i))
		d.SetNamespace(sc.kindNamespace(kind))
		d.SetAnnotations(map[string]string{annName: pname(i)})
		d.SetLabels(map[string]string{"crossplane.io/composite": xrName})
		d.SetOwnerReferences([]metav1.OwnerReference{{APIVersion: "example.org/v1", Kind: "XThing", Name: xrName, UID: types.UID(w.xrUID), Controller: ptr.To(true), BlockOwnerDeletion: ptr.To(true)}})
		if err := c.Create(ctx, d); err != nil {
			return nil, "setup: decoy: " + err.Error()
		}
		w.decoys[verifsim.Key{Group: "example.org", Kind: kind, Namespace: d.GetNamespace(), Name: d.GetName()}] = true
	}

	for _, n := range sc.Good {
		k := w.byName[n]
		u := verifsim.U(env.Sim.Get(k))
		var err error
		switch sc.Perturb[n] {
		case pPresent:
		case pMissing:
			err = c.Delete(ctx, u)
		case pTerminating:
			u.SetFinalizers(append(u.GetFinalizers(), "example.org/hold"))
			if err = c.Update(ctx, u); err == nil {
				err = c.Delete(ctx, u)
			}
			if o := env.Sim.Get(k); err == nil && !verifsim.Terminating(o) {
				err = errors.New("object is not terminating")
			}
		case pUncontrolled:
			u.SetOwnerReferences(nil)
			err = c.Update(ctx, u)
		case pForeign:
			foreign := metav1.OwnerReference{APIVersion: "example.org/v1", Kind: "XThing", Name: "other", UID: "foreign-uid", Controller: ptr.To(true), BlockOwnerDeletion: ptr.To(true)}
			plain := metav1.OwnerReference{APIVersion: "example.org/v1", Kind: "XThing", Name: xrName, UID: types.UID(w.xrUID)}
			switch sc.ForeignPlain[n] {
			case "first":
				u.SetOwnerReferences([]metav1.OwnerReference{plain, foreign})
			case "last":
				u.SetOwnerReferences([]metav1.OwnerReference{foreign, plain})
			default:
				u.SetOwnerReferences([]metav1.OwnerReference{foreign})
			}
			err = c.Update(ctx, u)
		default:
			err = fmt.Errorf("unknown perturbation %q", sc.Perturb[n])
		}
		if err != nil {
			return nil, fmt.Sprintf("setup: perturbation %s of %s: %v", sc.Perturb[n], n, err)
		}
	}

	// Perturbations of spec.resourceRefs (M6).
	var extra, front []any
	place := func(ref map[string]any, atFront bool) {
		if atFront {
			front = append(front, ref)
		} else {
			extra = append(extra, ref)
		}
	}
	if n := sc.DupRef; n != "" {
		k := w.byName[n]
		place(refEntry(k), sc.DupFront)
	}
	if n := sc.Twin; n != "" {
		k := w.byName[n]
		orig := w.origContent[n]
		tw := &unstructured.Unstructured{Object: map[string]any{"apiVersion": "example.org/v1", "kind": k.Kind, "spec": verifsim.DeepCopy(orig)["spec"]}}
		tw.SetName(k.Name + "-twin")
		tw.SetNamespace(k.Namespace)
		tw.SetAnnotations(verifsim.Annotations(orig))
		tw.SetLabels(verifsim.Labels(orig))
		tw.SetOwnerReferences([]metav1.OwnerReference{{APIVersion: "example.org/v1", Kind: "XThing", Name: xrName, UID: types.UID(w.xrUID), Controller: ptr.To(true), BlockOwnerDeletion: ptr.To(true)}})
		if err := c.Create(ctx, tw); err != nil {
			return nil, "setup: twin: " + err.Error()
		}
		tk := verifsim.Key{Group: "example.org", Kind: k.Kind, Namespace: k.Namespace, Name: tw.GetName()}
		w.byKey[tk] = n + twinSuffix
		place(refEntry(tk), sc.TwinFront)
	}
	if len(extra)+len(front) > 0 {
		xu := verifsim.U(env.Sim.Get(env.XRKey(xrName)))
		cur, _ := verifsim.Nested(xu.Object, "spec", "resourceRefs").([]any)
		refs := append(append(front, cur...), extra...)
		if err := unstructured.SetNestedSlice(xu.Object, refs, "spec", "resourceRefs"); err != nil {
			return nil, "setup: refs: " + err.Error()
		}
		if err := c.Update(ctx, xu); err != nil {
			return nil, "setup: refs: " + err.Error()
		}
		if got, _ := verifsim.Nested(env.Sim.Get(env.XRKey(xrName)), "spec", "resourceRefs").([]any); len(got) != len(refs) {
			return nil, fmt.Sprintf("setup: the API server stored %d references, wanted %d", len(got), len(refs))
		}
	}

	// The script / revision under test.
	if sc.Pipeline {
		w.runner.reset(sc.Steps, "test")
		env.InstallComposition(pipelineComposition(len(sc.Steps), "test"), 2)
	} else {
		env.InstallComposition(ptComposition(sc.Templates, "test"), 2)
	}
	return w, ""
}

// reconcileUnderTest runs the one reconcile the oracle judges and returns the part of the write log it produced.
func (w *world) reconcileUnderTest() ([]verifsim.Write, error, string) {
	env := w.env
	reconcile := func(plan map[int]verifsim.Fault) (*verifsim.Run, error) {
		utilrand.Seed(w.sc.Seed + 1)
		w.runner.calls = map[int]int{}
		w.runner.runaway = ""
		run := env.Sim.NewRun("xr-controller", plan)
		staleN := 0
		if w.sc.StaleXR && w.sc.Pipeline {
			staleN = w.staleLag()
		}
		if !w.sc.CacheLag && staleN == 0 {
			_, err := env.Reconcile(run, xrName)
			return run, err
		}
		xrKey := env.XRKey(xrName)
		xrReads := 0
		cached := run.StaleClient(func(k verifsim.Key) int {
			if k == xrKey {
				xrReads++
				if xrReads == 1 {
					return staleN // first read stale, the cache has caught up afterwards (M9)
				}
				return 0
			}
			if w.sc.CacheLag && k.Group == "example.org" && composedKind(k.Kind) {
				return verifsim.LagHideNew
			}
			return 0
		})
		_, err := env.ReconcileWith(cached, run.Client(), xrName)
		return run, err
	}
	var plan map[int]verifsim.Fault
	w.faultClass = ""
	if n := w.sc.ObserveFault; n != "" && !w.sc.StaleXR {
		// Learn the index of the API call that observes the chosen reference, then rewind.
		want := "get " + w.byName[n].String()
		snap := env.Sim.Snapshot()
		probe, _ := reconcile(nil)
		env.Sim.Restore(snap)
		idx := -1
		for i, c := range probe.Calls {
			if c == want {
				idx = i
				break
			}
		}
		if idx < 0 && !w.sc.Pipeline && w.foreignBefore(n) {
			// P&T stops associating at the first reference another owner controls (it refuses to
			// collect or adopt it), so later references are never read and no error can be injected
			// there. The run is judged as the non-succeeding P&T run it is.
			idx = -2
		}
		if idx == -1 {
			return nil, nil, fmt.Sprintf("harness: the reconcile never reads the referenced resource %s (calls: %v)", want, probe.Calls)
		}
		if idx >= 0 {
			w.faultClass = "first-read-fault"
			// The same key read again by the very next API call is the live fallback after a cache miss (M7).
			fallback := idx+1 < len(probe.Calls) && probe.Calls[idx+1] == want
			if w.sc.ObserveFaultLive && fallback {
				idx++
				w.faultClass = "cache-miss+live-read-fault"
				if w.sc.Perturb[n] == pMissing {
					w.faultClass = "really-gone+live-read-fault"
				}
			}
			kind := w.sc.ObserveFaultErr
			if kind == "" {
				kind = "server"
			}
			w.faultClass += "(" + kind + ")"
			plan = map[int]verifsim.Fault{idx: {Kind: verifsim.ErrBefore, Err: kind}}
		}
	}
	start := env.Sim.LogLen()
	w.staleClass = ""
	if w.sc.StaleXR && w.sc.Pipeline {
		if w.staleLag() > 0 {
			w.staleClass = "first-XR-read-stale+new-revision"
		} else {
			w.staleClass = "no-older-version-with-other-refs"
		}
	}
	_, err := reconcile(plan)
	log := env.Sim.Log()[start:]
	if strings.HasPrefix(w.staleClass, "first") {
		wrote := "XR-spec-untouched"
		for _, wr := range log {
			if wr.Key == env.XRKey(xrName) && wr.Changed && wr.Sub == "" {
				wrote = "XR-spec-written"
			}
		}
		w.staleClass += "," + wrote
	}
	return log, err, ""
}

// staleLag returns how many versions back the newest stored XR version lies whose spec.resourceRefs differ
// from the stored ones (0 = there is none).
func (w *world) staleLag() int {
	xrKey := w.env.XRKey(xrName)
	cur := refsOf(w.env.Sim.Get(xrKey))
	for n := 1; n < 200; n++ {
		c := w.env.Sim.NewRun("harness-probe", nil).StaleClient(func(k verifsim.Key) int {
			if k == xrKey {
				return n
			}
			return 0
		})
		old := verifenv.NewUnstructuredXR(w.env.XRGVK, xrName)
		if err := c.Get(context.Background(), types.NamespacedName{Name: xrName}, old); err != nil {
			return 0
		}
		if refsOf(old.Object) != cur {
			return n
		}
	}
	return 0
}

// foreignBefore reports whether some existing referenced resource is controlled by another owner.
func (w *world) foreignBefore(_ string) bool {
	for _, n := range w.sc.Good {
		if w.sc.Perturb[n] == pForeign {
			return true
		}
	}
	return false
}

func refEntry(k verifsim.Key) map[string]any {
	ref := map[string]any{"apiVersion": "example.org/v1", "kind": k.Kind, "name": k.Name}
	if k.Namespace != "" {
		ref["namespace"] = k.Namespace
	}
	return ref
}

// kindNamespace returns a namespace objects of the kind live in for this scenario ("" = cluster-scoped).
func (sc scenario) kindNamespace(kind string) string {
	for i := 0; i < poolSize; i++ {
		if n := pname(i); kindOf(n) == kind && sc.NS[n] != "" {
			return sc.NS[n]
		}
	}
	return ""
}

// unreferenced lists live objects of composed kinds that the XR controls, that carry a
// composition-resource-name annotation (restricted to names in only, if given) and that
// spec.resourceRefs does not name by (kind, namespace, name). Decoys are unreferenced by design.
func (w *world) unreferenced(only map[string]bool) []string {
	xr := w.env.Sim.Get(w.env.XRKey(xrName))
	refs := map[verifsim.Key]bool{}
	if l, ok := verifsim.Nested(xr, "spec", "resourceRefs").([]any); ok {
		for _, e := range l {
			if m, ok := e.(map[string]any); ok {
				ns, _ := m["namespace"].(string)
				refs[verifsim.Key{Group: "example.org", Kind: fmt.Sprint(m["kind"]), Namespace: ns, Name: fmt.Sprint(m["name"])}] = true
			}
		}
	}
	var out []string
	for _, k := range w.env.Sim.AllKeys() {
		if k.Group != "example.org" || !composedKind(k.Kind) || w.decoys[k] || refs[k] {
			continue
		}
		o := w.env.Sim.Get(k)
		n := verifsim.Annotations(o)[annName]
		if n == "" || verifsim.ControllerUID(o) != w.xrUID || verifsim.Terminating(o) {
			continue
		}
		if only != nil && !only[n] {
			continue
		}
		out = append(out, fmt.Sprintf("%s (resource name %q)", k, n))
	}
	return out
}

func describe(wr verifsim.Write) string {
	s := fmt.Sprintf("#%d %s %s", wr.Seq, wr.Verb, wr.Key)
	if wr.Sub != "" {
		s += "/" + wr.Sub
	}
	if wr.Err != "" {
		s += " -> " + wr.Err
	}
	return s
}

// judge runs the scenario and returns the violations of C03 it shows (empty = holds).
func judge(sc scenario) (verdict, []string) {
	var v verdict
	if sc.Pipeline {
		v = interpret(sc)
	} else {
		v = interpretPT(sc)
	}
	w, bad := setup(sc)
	if bad != "" {
		return v, []string{bad}
	}
	out := w.judgeOnce(v)
	v.FaultClass = w.faultClass
	v.StaleClass = w.staleClass
	if len(w.missingRefs) > 0 {
		out = append([]string{fmt.Sprintf("GC cannot be exact: after two successful reconciles spec.resourceRefs %s has no reference (kind, namespace, name) to composed %s; an unreferenced resource is never observed and never collected once it stops being desired", refsOf(w.env.Sim.Get(w.env.XRKey(xrName))), strings.Join(w.missingRefs, ", "))}, out...)
	}
	if sc.Pipeline && v.Fails && len(out) == 0 {
		// History: the same failure again on the next reconcile (the first one only touched XR status).
		for _, m := range w.judgeOnce(v) {
			out = append(out, "second consecutive failing reconcile: "+m)
		}
	}
	return v, out
}

// judgeOnce runs one reconcile of the script under test and checks its write log against the verdict.
func (w *world) judgeOnce(v verdict) []string {
	sc := w.sc
	before := w.env.Sim.Get(w.env.XRKey(xrName))
	log, _, bad := w.reconcileUnderTest()
	if bad != "" {
		return []string{bad}
	}
	after := w.env.Sim.Get(w.env.XRKey(xrName))

	var out []string
	deleted := map[string]bool{}
	var mutations []string
	for _, wr := range log {
		if wr.DryRun || !composedKind(wr.Key.Kind) || wr.Key.Group != "example.org" {
			continue
		}
		acceptedDelete := wr.Verb == "delete" && wr.Err == ""
		if wr.Changed || wr.Removed || acceptedDelete {
			mutations = append(mutations, describe(wr))
		}
		if !(acceptedDelete || wr.Removed) {
			continue
		}
		name, known := w.byKey[wr.Key]
		switch {
		case w.decoys[wr.Key]:
			out = append(out, fmt.Sprintf("GC not exact: %s deletes an object that is not referenced by the XR (decoy)", describe(wr)))
		case !known:
			out = append(out, fmt.Sprintf("GC not exact: %s deletes an object the XR had not composed before this reconcile", describe(wr)))
		default:
			deleted[name] = true
			isTwin := name != baseName(name)
			name = baseName(name)
			if !isTwin && sc.Perturb[name] == pForeign {
				out = append(out, fmt.Sprintf("%s deletes %q although it is controlled by another owner", describe(wr), name))
			}
			if !(sc.Pipeline && v.Fails) && v.Desired[name] {
				out = append(out, fmt.Sprintf("still-desired resource %q was deleted (%s); final desired set %v", name, describe(wr), sorted(v.Desired)))
			}
			if ann := verifsim.Annotations(wr.Before)[annName]; ann != name {
				out = append(out, fmt.Sprintf("harness bookkeeping: %s carries annotation %q, expected %q", describe(wr), ann, name))
			}
		}
	}

	if w.runner.runaway != "" {
		out = append(out, "requirements loop is not bounded: "+w.runner.runaway)
	}
	if sc.Pipeline {
		for i, n := range w.runner.calls {
			if n > composite.MaxRequirementsIterations+1 {
				out = append(out, fmt.Sprintf("step %d was called %d times in one reconcile; MaxRequirementsIterations=%d allows at most %d", i, n, composite.MaxRequirementsIterations, composite.MaxRequirementsIterations+1))
			}
		}
	}

	switch {
	case sc.Pipeline && v.Fails:
		if len(mutations) > 0 {
			out = append(out, fmt.Sprintf("pipeline fails (%s at step %d) but the reconcile mutated composed resources: %s", v.Why, v.FailStep, strings.Join(mutations, "; ")))
		}
		if b, a := refsOf(before), refsOf(after); a != b {
			out = append(out, fmt.Sprintf("pipeline fails (%s at step %d) but spec.resourceRefs changed:\n  before %s\n  after  %s", v.Why, v.FailStep, b, a))
		}
	case !v.Fails && strings.HasPrefix(w.staleClass, "first"):
		// M9: the script would succeed, but the reconcile may legitimately have been refused; one direction only.
		for _, n := range sorted(deleted) {
			if !v.ExpectDel[n] && baseName(n) != v.WeakPair {
				out = append(out, fmt.Sprintf("stale first read of the XR: deleted %q which is not collectable (collectable %v, final desired %v)", n, sorted(v.ExpectDel), sorted(v.Desired)))
			}
		}
	case !v.Fails:
		if sc.Pipeline {
			// M8, for collisions that first arise in this reconcile: what it composed must be referenced.
			want := map[string]bool{}
			for n := range v.Desired {
				if n != v.WeakPair {
					want[n] = true
				}
			}
			if miss := w.unreferenced(want); len(miss) > 0 {
				out = append(out, fmt.Sprintf("GC cannot be exact: composition succeeds but spec.resourceRefs %s has no reference (kind, namespace, name) to still-desired composed %s", refsOf(after), strings.Join(miss, ", ")))
			}
		}
		if v.WeakPair != "" {
			delete(deleted, v.WeakPair)
			delete(deleted, v.WeakPair+twinSuffix)
		}
		if got, want := sorted(deleted), sorted(v.ExpectDel); strings.Join(got, ",") != strings.Join(want, ",") {
			out = append(out, fmt.Sprintf("composition succeeds but deleted set %v != expected %v (observed-and-collectable %v, final desired %v); writes on composed kinds: %s", got, want, sorted(v.Observed), sorted(v.Desired), strings.Join(mutations, "; ")))
		}
	default: // P&T run that does not succeed: one direction only (M5)
		for _, n := range sorted(deleted) {
			if !v.ExpectDel[n] {
				out = append(out, fmt.Sprintf("P&T deleted %q whose template still exists or which it does not own; collectable set is %v", n, sorted(v.ExpectDel)))
			}
		}
	}
	return out
}

// ---------------------------------------------------------------------------
// generators

func genReqs(t *rapid.T, mustNotStabilise bool) []int {
	distinctRun := func(l int) []int {
		// l requirement sets each different from its predecessor, then the last one repeats.
		out := make([]int, 0, seqLen)
		prev := reqNil
		for i := 0; i < l; i++ {
			c := rapid.IntRange(reqEmpty, 5).Draw(t, "req")
			if c == prev {
				c = reqEmpty + (c-reqEmpty+1)%5
			}
			out = append(out, c)
			prev = c
		}
		for len(out) < seqLen {
			out = append(out, prev)
		}
		return out
	}
	if mustNotStabilise {
		return distinctRun(rapid.IntRange(composite.MaxRequirementsIterations+1, seqLen-1).Draw(t, "unstableLen"))
	}
	switch rapid.IntRange(0, 9).Draw(t, "reqform") {
	case 0, 1, 2:
		return nil // never asks for anything
	case 3, 4, 5, 6:
		// weight the boundary: exactly MaxRequirementsIterations changes still stabilise
		l := rapid.SampledFrom([]int{1, 2, 3, 4, 5, 5, 5}).Draw(t, "stableLen")
		return distinctRun(l)
	case 7:
		return distinctRun(rapid.IntRange(0, seqLen-1).Draw(t, "anyLen"))
	default:
		out := make([]int, seqLen)
		for i := range out {
			out[i] = rapid.IntRange(reqNil, 5).Draw(t, "req")
		}
		return out
	}
}

// compatible reports whether name can join the desired set without two desired
// resources asking for the same kind and explicit metadata.name.
func compatible(cur map[string]bool, sc *scenario, name string) bool {
	if sc.Fixed[name] == "" {
		return true
	}
	for m := range cur {
		if m != name && kindOf(m) == kindOf(name) && sc.NS[m] == sc.NS[name] && sc.Fixed[m] == sc.Fixed[name] {
			return false
		}
	}
	return true
}

// sameNameOtherNamespace reports whether two names of the set share kind and explicit metadata.name across namespaces.
func sameNameOtherNamespace(set map[string]bool, sc scenario) bool {
	for a := range set {
		for b := range set {
			if a < b && kindOf(a) == kindOf(b) && sc.Fixed[a] != "" && sc.Fixed[a] == sc.Fixed[b] && sc.NS[a] != sc.NS[b] {
				return true
			}
		}
	}
	return false
}

func genScenario() *rapid.Generator[scenario] {
	return rapid.Custom(func(t *rapid.T) scenario {
		sc := scenario{Pipeline: rapid.IntRange(0, 3).Draw(t, "mode") > 0, Fixed: map[string]string{}, Perturb: map[string]string{}, Seed: rapid.Int64Range(1, 1<<40).Draw(t, "nameseed")}
		sc.NS = map[string]string{}
		for _, kind := range []string{"KindA", "KindB"} {
			// P&T stays cluster-scoped: RenderFromJSON resets a base template's metadata.namespace to the
			// (empty) one of the reference, so a plain base cannot place a resource in a namespace.
			if !sc.Pipeline || !rapid.Bool().Draw(t, "namespaced") {
				continue
			}
			for i := 0; i < poolSize; i++ {
				if kindOf(pname(i)) == kind {
					sc.NS[pname(i)] = rapid.SampledFrom([]string{"ns-a", "ns-b"}).Draw(t, "ns")
				}
			}
		}
		if sc.Pipeline {
			for i := 0; i < poolSize; i++ {
				choices := []string{"", "", "fixed-0", "fixed-1"}
				if sc.NS[pname(i)] != "" {
					// same kind and name in different namespaces should be common
					choices = []string{"", "fixed-0", "fixed-0", "fixed-0", "fixed-1"}
				}
				if f := rapid.SampledFrom(choices).Draw(t, "fixed"); f != "" {
					sc.Fixed[pname(i)] = f
				}
			}
		}
		goodSet := map[string]bool{}
		for i := 0; i < poolSize; i++ {
			if rapid.IntRange(0, 9).Draw(t, "ingood") < 5 && compatible(goodSet, &sc, pname(i)) {
				goodSet[pname(i)] = true
			}
		}
		sc.Good = sorted(goodSet)
		for _, n := range sc.Good {
			sc.Perturb[n] = rapid.SampledFrom([]string{pPresent, pPresent, pPresent, pMissing, pTerminating, pUncontrolled, pForeign}).Draw(t, "perturb")
			if sc.Perturb[n] == pForeign {
				if fp := rapid.SampledFrom([]string{"", "first", "first", "last"}).Draw(t, "foreignplain"); fp != "" {
					if sc.ForeignPlain == nil {
						sc.ForeignPlain = map[string]string{}
					}
					sc.ForeignPlain[n] = fp
				}
			}
		}
		if len(sc.Good) > 0 {
			switch rapid.IntRange(0, 7).Draw(t, "refsperturb") {
			case 0, 1:
				sc.DupRef = rapid.SampledFrom(sc.Good).Draw(t, "dupref")
				sc.DupFront = rapid.Bool().Draw(t, "dupfront")
			case 2, 3:
				sc.Twin = rapid.SampledFrom(sc.Good).Draw(t, "twin")
				sc.TwinFront = rapid.Bool().Draw(t, "twinfront")
			case 4:
				sc.DupRef = rapid.SampledFrom(sc.Good).Draw(t, "dupref")
				sc.DupFront = rapid.Bool().Draw(t, "dupfront")
				sc.Twin = rapid.SampledFrom(sc.Good).Draw(t, "twin")
				sc.TwinFront = rapid.Bool().Draw(t, "twinfront")
			}
		}
		sc.CacheLag = rapid.IntRange(0, 2).Draw(t, "cachelag") == 0
		if sc.Pipeline && len(sc.Good) > 0 && rapid.IntRange(0, 5).Draw(t, "stalexr") == 0 {
			sc.StaleXR = true
			if rapid.Bool().Draw(t, "hasprev") {
				prev := map[string]bool{}
				for i := 0; i < poolSize; i++ {
					if rapid.Bool().Draw(t, "inprev") && compatible(prev, &sc, pname(i)) {
						prev[pname(i)] = true
					}
				}
				sc.Prev = sorted(prev)
			}
		}
		if !sc.StaleXR && len(sc.Good) > 0 && rapid.IntRange(0, 5).Draw(t, "observefault") == 0 {
			sc.ObserveFault = rapid.SampledFrom(sc.Good).Draw(t, "faultref")
			sc.ObserveFaultLive = rapid.IntRange(0, 2).Draw(t, "faultlive") > 0
			sc.ObserveFaultErr = rapid.SampledFrom([]string{"server", "timeout", "conflict"}).Draw(t, "faulterr")
			if sc.ObserveFaultLive && rapid.Bool().Draw(t, "forcelag") {
				sc.CacheLag = true
			}
		}
		if !sc.Pipeline {
			for i := 0; i < poolSize; i++ {
				p := 3
				if goodSet[pname(i)] {
					p = 6
				}
				if rapid.IntRange(0, 9).Draw(t, "intemplates") < p {
					sc.Templates = append(sc.Templates, pname(i))
				}
			}
			if len(sc.Templates) == 0 {
				// A Composition in Resources mode needs at least one template (CompositionRevision validation).
				sc.Templates = []string{pname(rapid.IntRange(0, poolSize-1).Draw(t, "onlytemplate"))}
			}
			return sc
		}

		nsteps := rapid.IntRange(1, 4).Draw(t, "nsteps")
		failMode := rapid.SampledFrom([]string{"", "", "", "error", "fatal", "unstable", "badselector"}).Draw(t, "failmode")
		failStep := rapid.IntRange(0, nsteps-1).Draw(t, "failstep")
		cur := map[string]bool{}
		for i := 0; i < nsteps; i++ {
			st := stepSpec{Result: rapid.SampledFrom([]string{"", "", "normal", "warning"}).Draw(t, "result")}
			if i == 0 {
				st.KeepObserved = rapid.IntRange(0, 2).Draw(t, "keepobs") > 0
			} else {
				st.KeepObserved = rapid.IntRange(0, 9).Draw(t, "keepobs") == 0
			}
			if st.KeepObserved {
				obs, _ := sc.observedModel()
				for _, n := range sorted(obs) {
					cur[n] = true
				}
			}
			nops := rapid.IntRange(0, 4).Draw(t, "nops")
			for j := 0; j < nops; j++ {
				a := pname(rapid.IntRange(0, poolSize-1).Draw(t, "a"))
				switch rapid.SampledFrom([]string{"add", "add", "drop", "drop", "rename", "keep"}).Draw(t, "op") {
				case "add":
					if compatible(cur, &sc, a) {
						st.Ops = append(st.Ops, op{Op: "add", A: a})
						cur[a] = true
					}
				case "drop":
					st.Ops = append(st.Ops, op{Op: "drop", A: a})
					delete(cur, a)
				case "rename":
					b := pname(rapid.IntRange(0, poolSize-1).Draw(t, "b"))
					if a == b {
						continue
					}
					without := map[string]bool{}
					for n := range cur {
						if n != a {
							without[n] = true
						}
					}
					if !compatible(without, &sc, b) {
						continue
					}
					st.Ops = append(st.Ops, op{Op: "rename", A: a, B: b})
					if cur[a] {
						delete(cur, a)
						cur[b] = true
					}
				default:
					st.Ops = append(st.Ops, op{Op: "keep"})
				}
			}
			forced := failMode != "" && i == failStep
			st.Reqs = genReqs(t, forced && failMode == "unstable")
			switch {
			case forced && (failMode == "error" || failMode == "fatal"):
				// place the failure on a call the protocol really makes
				st.Fail = failMode
				_, _, calls := runStep(stepSpec{Reqs: st.Reqs})
				st.FailCall = rapid.IntRange(0, calls-1).Draw(t, "failcall")
			case forced && failMode == "badselector":
				_, _, calls := runStep(stepSpec{Reqs: st.Reqs})
				if len(st.Reqs) == 0 {
					st.Reqs = make([]int, seqLen)
				}
				at := rapid.IntRange(0, calls-1).Draw(t, "badat")
				for k := at; k < seqLen; k++ {
					st.Reqs[k] = reqBad
				}
			case !forced && rapid.IntRange(0, 9).Draw(t, "strayfail") == 0:
				// a failure scripted anywhere, possibly on a call that is never made
				st.Fail = rapid.SampledFrom([]string{"error", "fatal"}).Draw(t, "stray")
				st.FailCall = rapid.IntRange(0, seqLen-1).Draw(t, "straycall")
			}
			sc.Steps = append(sc.Steps, st)
		}
		return sc
	})
}

// ---------------------------------------------------------------------------
// evidence helpers

func classify(rec *verifkit.Recorder, sc scenario, v verdict) {
	if !sc.Pipeline {
		rec.Label("mode=pt")
		switch {
		case v.Fails:
			rec.Label("pt:not-succeeding(" + v.Why + ")")
		case len(v.ExpectDel) > 0:
			rec.Label("pt:success,deletes")
		default:
			rec.Label("pt:success,no-deletes")
		}
	} else {
		rec.Label("mode=pipeline")
		rec.Labelf("steps=%d", len(sc.Steps))
		if v.Fails {
			rec.Labelf("fail:%s", v.Why)
			rec.Labelf("failstep=%d/%d", v.FailStep, len(sc.Steps))
		} else if len(v.ExpectDel) > 0 {
			rec.Label("success,deletes")
		} else {
			rec.Label("success,no-deletes")
		}
		for i, st := range sc.Steps {
			if v.Fails && i > v.FailStep {
				break
			}
			rec.Labelf("calls-per-step=%d", v.CallBudget[i])
			_ = st
		}
	}
	for _, n := range sc.Good {
		rec.Label("perturb=" + sc.Perturb[n])
		if fp := sc.ForeignPlain[n]; fp != "" && sc.Perturb[n] == pForeign {
			m, state := "pt", "name-undesired"
			if sc.Pipeline {
				m = "pipeline"
			}
			if v.Desired[n] {
				state = "name-still-desired"
			}
			if v.Fails {
				state = "not-succeeding"
			}
			rec.Labelf("foreign+plain-ref-to-this-XR-%s(%s,%s)", fp, m, state)
		}
	}
	mode := "pt"
	if sc.Pipeline {
		mode = "pipeline"
	}
	nsKinds := 0
	for _, kind := range []string{"KindA", "KindB"} {
		if sc.kindNamespace(kind) != "" {
			nsKinds++
		}
	}
	rec.Labelf("ns:namespaced-kinds=%d", nsKinds)
	goodSet := map[string]bool{}
	nsGood := false
	for _, n := range sc.Good {
		goodSet[n] = true
		nsGood = nsGood || sc.NS[n] != ""
	}
	if nsGood {
		rec.Label("ns:composed-namespaced-resources," + mode)
	}
	if sameNameOtherNamespace(goodSet, sc) {
		rec.Label("ns:same-kind+name-in-two-namespaces:composed-before")
		for n := range v.ExpectDel {
			for _, m := range sc.Good {
				if !v.Fails && m != n && kindOf(m) == kindOf(n) && sc.Fixed[m] != "" && sc.Fixed[m] == sc.Fixed[n] && sc.NS[m] != sc.NS[n] {
					rec.Label("ns:same-kind+name-in-two-namespaces:one-or-both-must-be-collected")
				}
			}
		}
	}
	if sc.Pipeline && !v.Fails && sameNameOtherNamespace(v.Desired, sc) {
		rec.Label("ns:same-kind+name-in-two-namespaces:in-final-desired")
	}
	if sc.CacheLag {
		rec.Label("cache-lag(" + mode + ")")
	}
	if v.StaleClass != "" {
		script := "script-would-succeed"
		if v.Fails {
			script = "pipeline-fails(" + v.Why + ")"
		}
		rec.Labelf("stale-xr:%s,%s", v.StaleClass, script)
		if v.Fails && strings.HasPrefix(v.StaleClass, "first") {
			rec.Label("stale-xr:ANY-first-XR-read-stale+new-revision+failing-pipeline")
		}
		if sc.Prev != nil {
			rec.Label("stale-xr:stale-copy-shows-an-earlier-script's-refs")
		}
	}
	if v.FaultClass != "" {
		rec.Labelf("observe:%s,%s", v.FaultClass, mode)
		if strings.Contains(v.FaultClass, "live-read-fault") {
			rec.Label("observe:ANY-live-read-fault-after-cached-NotFound," + mode)
		}
	}
	still := func(n string) string {
		if v.Fails && sc.Pipeline {
			return "pipeline-fails"
		}
		if v.Desired[n] {
			return "name-still-desired"
		}
		return "name-undesired"
	}
	if sc.DupRef != "" {
		rec.Labelf("refs:dup(%s,%s,%s)", mode, sc.Perturb[sc.DupRef], still(sc.DupRef))
	}
	if sc.Twin != "" {
		rec.Labelf("refs:twin(%s,orig-%s,%s)", mode, sc.Perturb[sc.Twin], still(sc.Twin))
	}
	nontrivial := (sc.Pipeline && v.Fails && v.FailStep >= 1 && v.Existing >= 1) || (!v.Fails && len(v.ExpectDel) > 0)
	if nontrivial {
		rec.Label("nontrivial")
		rec.NonTrivial(verifkit.JSON(sc), func() any {
			return map[string]any{"scenario": sc, "fails": v.Fails, "why": v.Why, "failStep": v.FailStep, "finalDesired": sorted(v.Desired), "expectDeleted": sorted(v.ExpectDel)}
		})
	}
}

// ---------------------------------------------------------------------------
// tests

const rule = "case = earlier successful script/revision composing 0-6 resources, a perturbation of each (present/missing/terminating/uncontrolled/foreign-controlled), optionally an injected error on the Get of one referenced resource, then ONE reconcile with a generated pipeline (1-4 scripted steps: desired add/drop/rename/keep-observed, normal/warning/fatal results, Go error, requirement sequences that stabilise after 0..5 changes or never, selector that cannot be fetched) or with a new P&T revision (templates removed/renamed/added); non-trivial = pipeline failure at step >= 1 with >= 1 existing composed resource, or success with a non-empty expected deletion set"

// TestVerifC03Generated is the generated search.
func TestVerifC03Generated(t *testing.T) {
	rec := verifkit.New(t, "C03", rule)
	rapid.Check(t, func(t *rapid.T) {
		sc := genScenario().Draw(t, "scenario")
		rec.Eval()
		v, bad := judge(sc)
		classify(rec, sc, v)
		if len(bad) > 0 {
			t.Fatalf("C03 violated:\n  %s\nscenario: %s", strings.Join(bad, "\n  "), verifkit.JSON(sc))
		}
	})
}

// TestVerifC03EveryPosition enumerates, without randomness, every pipeline length x failing
// position x failure kind x call index of the failure x perturbation of the one resource
// that an earlier step has already dropped from the desired state.
func TestVerifC03EveryPosition(t *testing.T) {
	rec := verifkit.New(t, "C03", "exhaustive: pipeline length 1-4 x failing step x {error,fatal,unstable(6,7),badselector} x call index 0..5 x perturbation; step 0 desires r0 and a new r2 but no longer the perturbed r1; later steps pass the desired state through")
	for nsteps := 1; nsteps <= 4; nsteps++ {
		for failStep := 0; failStep < nsteps; failStep++ {
			for _, mode := range []string{"error", "fatal", "unstable", "badselector"} {
				for at := 0; at <= composite.MaxRequirementsIterations; at++ {
					if mode == "unstable" && at > 1 {
						continue
					}
					for _, p := range perturbations {
						sc := scenario{Pipeline: true, Good: []string{"r0", "r1"}, Perturb: map[string]string{"r0": pPresent, "r1": p}, Seed: int64(1000*nsteps + 100*failStep + at + 1)}
						for i := 0; i < nsteps; i++ {
							st := stepSpec{}
							if i == 0 {
								// r1 (the perturbed one) is no longer desired, r2 is new
								st.Ops = []op{{Op: "add", A: "r0"}, {Op: "add", A: "r2"}}
							}
							if i == failStep {
								// `at` requirement changes happen before the failure
								reqs := make([]int, seqLen)
								for k := range reqs {
									reqs[k] = 2 + k%2
								}
								switch mode {
								case "error", "fatal":
									st.Fail, st.FailCall, st.Reqs = mode, at, reqs
								case "unstable":
									st.Reqs = reqs
									if at == 1 { // changes exactly Max+1 times, then would stabilise
										for k := composite.MaxRequirementsIterations + 1; k < seqLen; k++ {
											st.Reqs[k] = st.Reqs[composite.MaxRequirementsIterations]
										}
									}
								case "badselector":
									for k := at; k < seqLen; k++ {
										reqs[k] = reqBad
									}
									st.Reqs = reqs
								}
							}
							sc.Steps = append(sc.Steps, st)
						}
						rec.Eval()
						v, bad := judge(sc)
						if !v.Fails || v.FailStep != failStep {
							t.Fatalf("harness: interpreter says fails=%v at %d for %s", v.Fails, v.FailStep, verifkit.JSON(sc))
						}
						classify(rec, sc, v)
						if len(bad) > 0 {
							t.Fatalf("C03 violated:\n  %s\nscenario: %s", strings.Join(bad, "\n  "), verifkit.JSON(sc))
						}
					}
				}
			}
		}
	}
}

// TestVerifC03Pinned holds hand-written rows: the boundary cases of the requirements protocol, one row per
// clause of the property, and guards against a vacuously quiet harness (rows that must delete something).
func TestVerifC03Pinned(t *testing.T) {
	rec := verifkit.New(t, "C03", "pinned rows")
	changes := func(n int) []int { // n requirement changes, then stable
		out := make([]int, seqLen)
		for k := range out {
			j := k
			if j >= n {
				j = n - 1
			}
			if n == 0 {
				out[k] = reqNil
			} else {
				out[k] = 2 + j%2
			}
		}
		return out
	}
	add := func(names ...string) []op {
		var o []op
		for _, n := range names {
			o = append(o, op{Op: "add", A: n})
		}
		return o
	}
	all := map[string]string{"r0": pPresent, "r1": pPresent, "r2": pPresent}
	rows := []struct {
		name        string
		sc          scenario
		fails       bool
		expectDel   string
		mustMention string
	}{
		{name: "drop one of three", sc: scenario{Pipeline: true, Good: []string{"r0", "r1", "r2"}, Perturb: all, Steps: []stepSpec{{Ops: add("r0", "r2")}}}, expectDel: "r1"},
		{name: "fatal at step 1 after step 0 dropped a resource", sc: scenario{Pipeline: true, Good: []string{"r0", "r1", "r2"}, Perturb: all, Steps: []stepSpec{{Ops: add("r0")}, {Fail: "fatal"}}}, fails: true},
		{name: "go error at last of four steps", sc: scenario{Pipeline: true, Good: []string{"r0", "r1"}, Perturb: all, Steps: []stepSpec{{Ops: add("r3")}, {}, {Result: "warning"}, {Fail: "error"}}}, fails: true},
		{name: "five requirement changes still stabilise", sc: scenario{Pipeline: true, Good: []string{"r0", "r1"}, Perturb: all, Steps: []stepSpec{{Ops: add("r0"), Reqs: changes(5)}}}, expectDel: "r1"},
		{name: "six requirement changes never stabilise", sc: scenario{Pipeline: true, Good: []string{"r0", "r1"}, Perturb: all, Steps: []stepSpec{{Ops: add("r0"), Reqs: changes(6)}}}, fails: true},
		{name: "fatal scripted for a call that is never made", sc: scenario{Pipeline: true, Good: []string{"r0", "r1"}, Perturb: all, Steps: []stepSpec{{Ops: add("r1"), Reqs: changes(2), Fail: "fatal", FailCall: 3}}}, expectDel: "r0"},
		{name: "fatal on the stabilising call", sc: scenario{Pipeline: true, Good: []string{"r0", "r1"}, Perturb: all, Steps: []stepSpec{{Ops: add("r1"), Reqs: changes(2), Fail: "fatal", FailCall: 2}}}, fails: true},
		{name: "empty non-nil requirements stabilise on the second call", sc: scenario{Pipeline: true, Good: []string{"r0"}, Perturb: all, Steps: []stepSpec{{Reqs: []int{reqEmpty}}}}, expectDel: "r0"},
		{name: "rename keeps the explicit metadata.name", sc: scenario{Pipeline: true, Good: []string{"r0", "r1"}, Fixed: map[string]string{"r0": "fixed-0", "r2": "fixed-0"}, Perturb: all, Steps: []stepSpec{{KeepObserved: true, Ops: []op{{Op: "rename", A: "r0", B: "r2"}}}}}, expectDel: "r0"},
		{name: "foreign-controlled undesired is left alone, uncontrolled and terminating are collected", sc: scenario{Pipeline: true, Good: []string{"r0", "r1", "r2", "r3"}, Perturb: map[string]string{"r0": pForeign, "r1": pUncontrolled, "r2": pTerminating, "r3": pMissing}, Steps: []stepSpec{{Ops: add("r4")}}}, expectDel: "r1,r2"},
		{name: "observe error", sc: scenario{Pipeline: true, Good: []string{"r0", "r1"}, Perturb: all, ObserveFault: "r1", Steps: []stepSpec{{Ops: add("r3")}}}, fails: true},
		{name: "selector that cannot be fetched", sc: scenario{Pipeline: true, Good: []string{"r0"}, Perturb: all, Steps: []stepSpec{{}, {Reqs: []int{2, reqBad}}}}, fails: true},
		{name: "P&T template removed and renamed", sc: scenario{Good: []string{"r0", "r1", "r2"}, Perturb: map[string]string{"r0": pPresent, "r1": pUncontrolled, "r2": pPresent}, Templates: []string{"r2", "r4"}}, expectDel: "r0,r1"},
		{name: "P&T nothing removed", sc: scenario{Good: []string{"r0", "r1"}, Perturb: map[string]string{"r0": pPresent, "r1": pTerminating}, Templates: []string{"r0", "r1", "r5"}}, expectDel: ""},
		{name: "P&T duplicated reference, template exists", sc: scenario{Good: []string{"r0", "r1"}, Perturb: all, DupRef: "r0", Templates: []string{"r0", "r1"}}, expectDel: ""},
		{name: "P&T duplicated reference at the front, another template removed", sc: scenario{Good: []string{"r0", "r1"}, Perturb: all, DupRef: "r1", DupFront: true, Templates: []string{"r1"}}, expectDel: "r0"},
		{name: "P&T duplicated reference, template removed", sc: scenario{Good: []string{"r0", "r1"}, Perturb: map[string]string{"r0": pTerminating, "r1": pPresent}, DupRef: "r0", Templates: []string{"r1"}}, expectDel: "r0"},
		{name: "P&T two objects with the same extant template name", sc: scenario{Good: []string{"r0", "r1"}, Perturb: all, Twin: "r0", Templates: []string{"r0", "r1"}}, expectDel: ""},
		{name: "P&T two objects with the same extant template name, twin first", sc: scenario{Good: []string{"r0", "r1"}, Perturb: all, Twin: "r1", TwinFront: true, Templates: []string{"r0", "r1"}}, expectDel: ""},
		{name: "P&T two objects with the same removed template name", sc: scenario{Good: []string{"r0", "r1"}, Perturb: all, Twin: "r0", Templates: []string{"r1"}}, expectDel: "r0,r0+twin"},
		{name: "pipeline duplicated reference, still desired", sc: scenario{Pipeline: true, Good: []string{"r0", "r1"}, Perturb: all, DupRef: "r0", Steps: []stepSpec{{Ops: add("r0")}}}, expectDel: "r1"},
		{name: "pipeline duplicated reference, undesired", sc: scenario{Pipeline: true, Good: []string{"r0", "r1"}, Perturb: all, DupRef: "r1", DupFront: true, Steps: []stepSpec{{Ops: add("r0")}}}, expectDel: "r1"},
		{name: "pipeline two objects with the same name, still desired", sc: scenario{Pipeline: true, Good: []string{"r0", "r1"}, Perturb: all, Twin: "r0", Steps: []stepSpec{{KeepObserved: true, Ops: []op{{Op: "drop", A: "r1"}}}}}, expectDel: "r1"},
		{name: "pipeline fatal with duplicated and twin references", sc: scenario{Pipeline: true, Good: []string{"r0", "r1"}, Perturb: all, DupRef: "r0", Twin: "r1", Steps: []stepSpec{{Ops: add("r2")}, {Fail: "fatal"}}}, fails: true},
		{name: "cache has not seen the resource yet, live read fails", sc: scenario{Pipeline: true, Good: []string{"r0", "r1"}, Perturb: all, CacheLag: true, ObserveFault: "r1", ObserveFaultLive: true, ObserveFaultErr: "timeout", Steps: []stepSpec{{Ops: add("r0", "r3")}}}, fails: true},
		{name: "resource really gone, live read fails", sc: scenario{Pipeline: true, Good: []string{"r0", "r1"}, Perturb: map[string]string{"r0": pMissing, "r1": pPresent}, ObserveFault: "r0", ObserveFaultLive: true, Steps: []stepSpec{{Ops: add("r0", "r3")}}}, fails: true},
		{name: "cache lag only, nothing fails", sc: scenario{Pipeline: true, Good: []string{"r0", "r1"}, Perturb: all, CacheLag: true, Steps: []stepSpec{{Ops: add("r0")}}}, expectDel: "r1"},
		{name: "P&T cache lag, template removed", sc: scenario{Good: []string{"r0", "r1"}, Perturb: all, CacheLag: true, Templates: []string{"r1"}}, expectDel: "r0"},
		{name: "same kind and name in two namespaces, one stops being desired", sc: scenario{Pipeline: true, Good: []string{"r0", "r1", "r3"}, NS: map[string]string{"r1": "ns-a", "r3": "ns-b", "r5": "ns-a"}, Fixed: map[string]string{"r1": "app-config", "r3": "app-config"}, Perturb: map[string]string{"r0": pPresent, "r1": pPresent, "r3": pPresent}, Steps: []stepSpec{{Ops: add("r0", "r1")}}}, expectDel: "r3"},
		{name: "same kind and name in two namespaces, the other one stops being desired", sc: scenario{Pipeline: true, Good: []string{"r0", "r1", "r3"}, NS: map[string]string{"r1": "ns-a", "r3": "ns-b", "r5": "ns-a"}, Fixed: map[string]string{"r1": "app-config", "r3": "app-config"}, Perturb: map[string]string{"r0": pPresent, "r1": pPresent, "r3": pPresent}, Steps: []stepSpec{{Ops: add("r0", "r3")}}}, expectDel: "r1"},
		{name: "same kind and name in two namespaces, both stop being desired", sc: scenario{Pipeline: true, Good: []string{"r0", "r1", "r3"}, NS: map[string]string{"r1": "ns-a", "r3": "ns-b", "r5": "ns-a"}, Fixed: map[string]string{"r1": "app-config", "r3": "app-config"}, Perturb: map[string]string{"r0": pPresent, "r1": pUncontrolled, "r3": pTerminating}, Steps: []stepSpec{{Ops: add("r0")}}}, expectDel: "r1,r3"},
		{name: "same kind and name in a second namespace is added by the reconcile under test", sc: scenario{Pipeline: true, Good: []string{"r1"}, NS: map[string]string{"r1": "ns-a", "r3": "ns-b", "r5": "ns-a"}, Fixed: map[string]string{"r1": "app-config", "r3": "app-config"}, Perturb: map[string]string{"r1": pPresent}, Steps: []stepSpec{{KeepObserved: true, Ops: add("r3")}}}, expectDel: ""},
		{name: "generated names in two namespaces, fatal result", sc: scenario{Pipeline: true, Good: []string{"r1", "r3"}, NS: map[string]string{"r1": "ns-a", "r3": "ns-b", "r5": "ns-b"}, Perturb: map[string]string{"r1": pPresent, "r3": pPresent}, Steps: []stepSpec{{Ops: add("r1")}, {Fail: "fatal"}}}, fails: true},
		{name: "stale first XR read (refs before the first write), new revision, fatal pipeline", sc: scenario{Pipeline: true, Good: []string{"r0", "r1"}, Perturb: all, StaleXR: true, Steps: []stepSpec{{Ops: add("r0")}, {Fail: "fatal"}}}, fails: true},
		{name: "stale first XR read (refs of an earlier script), new revision, go error", sc: scenario{Pipeline: true, Prev: []string{"r0", "r2", "r3"}, Good: []string{"r0", "r1"}, Perturb: all, StaleXR: true, Steps: []stepSpec{{Ops: add("r0"), Fail: "error"}}}, fails: true},
		{name: "stale first XR read (before a refs edit), new revision, unstable requirements", sc: scenario{Pipeline: true, Good: []string{"r0", "r1"}, Perturb: all, StaleXR: true, DupRef: "r1", Steps: []stepSpec{{Ops: add("r0"), Reqs: changes(6)}}}, fails: true},
		{name: "stale first XR read, new revision, script would succeed", sc: scenario{Pipeline: true, Prev: []string{"r2"}, Good: []string{"r0", "r1"}, Perturb: all, StaleXR: true, Steps: []stepSpec{{Ops: add("r0")}}}, expectDel: "r1"},
		{name: "foreign-controlled, plain ref to this XR first, undesired (pipeline)", sc: scenario{Pipeline: true, Good: []string{"r0", "r1"}, Perturb: map[string]string{"r0": pForeign, "r1": pPresent}, ForeignPlain: map[string]string{"r0": "first"}, Steps: []stepSpec{{Ops: add("r2")}}}, expectDel: "r1"},
		{name: "foreign-controlled, plain ref to this XR last, undesired (pipeline)", sc: scenario{Pipeline: true, Good: []string{"r0", "r1"}, Perturb: map[string]string{"r0": pForeign, "r1": pPresent}, ForeignPlain: map[string]string{"r0": "last"}, Steps: []stepSpec{{Ops: add("r2")}}}, expectDel: "r1"},
		{name: "foreign-controlled, plain ref to this XR first, template gone (P&T)", sc: scenario{Good: []string{"r0", "r1"}, Perturb: map[string]string{"r0": pForeign, "r1": pPresent}, ForeignPlain: map[string]string{"r0": "first"}, Templates: []string{"r1"}}, fails: true},
		{name: "foreign-controlled, plain ref to this XR last, template gone (P&T)", sc: scenario{Good: []string{"r0", "r1"}, Perturb: map[string]string{"r0": pForeign, "r1": pPresent}, ForeignPlain: map[string]string{"r0": "last"}, Templates: []string{"r1"}}, fails: true},
		{name: "P&T foreign-controlled without template", sc: scenario{Good: []string{"r0", "r1"}, Perturb: map[string]string{"r0": pForeign, "r1": pPresent}, Templates: []string{"r1"}}, fails: true},
	}
	for i, row := range rows {
		row.sc.Seed = int64(77 + i)
		if row.sc.Perturb == nil {
			row.sc.Perturb = map[string]string{}
		}
		rec.Eval()
		v, bad := judge(row.sc)
		if v.Fails != row.fails || (!row.fails && strings.Join(sorted(v.ExpectDel), ",") != row.expectDel) {
			t.Fatalf("row %q: harness interpreter disagrees with the hand-computed expectation: fails=%v expectDel=%v", row.name, v.Fails, sorted(v.ExpectDel))
		}
		classify(rec, row.sc, v)
		if len(bad) > 0 {
			t.Fatalf("C03 violated in pinned row %q:\n  %s\nscenario: %s", row.name, strings.Join(bad, "\n  "), verifkit.JSON(row.sc))
		}
	}
}

// TestVerifC03ObserveSweep enumerates, without randomness, the failed-observation class: composer mode x
// coherent/lagging cache x perturbation pattern x referenced resource x {first read, live fallback read} x
// {server error, timeout, conflict}. Every pipeline case must write nothing (M7).
func TestVerifC03ObserveSweep(t *testing.T) {
	rec := verifkit.New(t, "C03", "exhaustive: mode x cache lag x 5 perturbation patterns of r0,r1,r2 x faulted reference x {first read, live fallback read} x {server,timeout,conflict}; the script drops r1, keeps r0,r2 and adds r3")
	patterns := []map[string]string{
		{"r0": pPresent, "r1": pPresent, "r2": pPresent},
		{"r0": pMissing, "r1": pPresent, "r2": pTerminating},
		{"r0": pPresent, "r1": pMissing, "r2": pUncontrolled},
		{"r0": pUncontrolled, "r1": pTerminating, "r2": pMissing},
		{"r0": pPresent, "r1": pForeign, "r2": pPresent},
	}
	live := 0
	for _, pipeline := range []bool{true, false} {
		for _, lag := range []bool{false, true} {
			for pi, pat := range patterns {
				for _, target := range []string{"r0", "r1", "r2"} {
					for _, onLive := range []bool{false, true} {
						for _, kind := range []string{"server", "timeout", "conflict"} {
							sc := scenario{Pipeline: pipeline, Good: []string{"r0", "r1", "r2"}, Perturb: pat, CacheLag: lag,
								ObserveFault: target, ObserveFaultLive: onLive, ObserveFaultErr: kind, Seed: int64(500 + pi)}
							if pipeline {
								sc.Steps = []stepSpec{{Ops: []op{{Op: "add", A: "r0"}, {Op: "add", A: "r2"}, {Op: "add", A: "r3"}}}, {Result: "normal"}}
							} else {
								sc.Templates = []string{"r0", "r2", "r3"}
							}
							rec.Eval()
							v, bad := judge(sc)
							if !v.Fails {
								t.Fatalf("harness: interpreter does not predict a failure for %s", verifkit.JSON(sc))
							}
							classify(rec, sc, v)
							if strings.Contains(v.FaultClass, "live-read-fault") {
								live++
							}
							if len(bad) > 0 {
								t.Fatalf("C03 violated:\n  %s\nscenario: %s", strings.Join(bad, "\n  "), verifkit.JSON(sc))
							}
						}
					}
				}
			}
		}
	}
	if live < 60 {
		t.Fatalf("harness: only %d cases reached the live fallback read; the sweep is vacuous", live)
	}
}
