//go:build verif

package xrd

import (
	"context"
	"fmt"
	"sort"
	"strings"
	"testing"

	extv1 "k8s.io/apiextensions-apiserver/pkg/apis/apiextensions/v1"
	kerrors "k8s.io/apimachinery/pkg/api/errors"
	metav1 "k8s.io/apimachinery/pkg/apis/meta/v1"
	"k8s.io/apimachinery/pkg/runtime"
	"k8s.io/apimachinery/pkg/runtime/schema"
	"k8s.io/apimachinery/pkg/util/validation/field"
	"k8s.io/utils/ptr"
	"pgregory.net/rapid"

	v1 "github.com/crossplane/crossplane/apis/apiextensions/v1"
	"github.com/crossplane/crossplane/internal/verifchecks/c11gen"
	"github.com/crossplane/crossplane/internal/verifkit"
	"github.com/crossplane/crossplane/internal/verifsim"
)

var c11CRDGK = schema.GroupKind{Group: "apiextensions.k8s.io", Kind: "CustomResourceDefinition"}

func c11ToCRD(o verifsim.Obj) (*extv1.CustomResourceDefinition, error) {
	crd := &extv1.CustomResourceDefinition{}
	err := runtime.DefaultUnstructuredConverter.FromUnstructured(o, crd)
	return crd, err
}

// c11NewSim returns a simulated API server that refuses CRDs whose schemas are
// not structural (the one part of CRD validation that is available offline).
func c11NewSim() *verifsim.Sim {
	s := verifsim.New(verifsim.NewScheme())
	s.AddAdmission(func(_ *verifsim.View, op verifsim.Op) error {
		if op.Key.GK() != c11CRDGK || op.New == nil || (op.Verb != "create" && op.Verb != "update") {
			return nil
		}
		crd, err := c11ToCRD(op.New)
		if err != nil {
			return kerrors.NewBadRequest(err.Error())
		}
		if errs := c11gen.StructuralErrors(crd); len(errs) > 0 {
			var fl field.ErrorList
			for _, e := range errs {
				fl = append(fl, field.Invalid(field.NewPath("spec", "versions"), "schema", e))
			}
			return kerrors.NewInvalid(c11CRDGK, op.Key.Name, fl)
		}
		return nil
	})
	return s
}

func c11BareCRD(owner *v1.CompositeResourceDefinition, name, group string, names extv1.CustomResourceDefinitionNames, scope extv1.ResourceScope) *extv1.CustomResourceDefinition {
	crd := &extv1.CustomResourceDefinition{}
	crd.Name = name
	crd.OwnerReferences = []metav1.OwnerReference{{APIVersion: v1.SchemeGroupVersion.String(), Kind: v1.CompositeResourceDefinitionKind, Name: owner.Name, UID: owner.UID, Controller: ptr.To(true), BlockOwnerDeletion: ptr.To(true)}}
	crd.Spec.Group = group
	crd.Spec.Names = names
	crd.Spec.Scope = scope
	crd.Spec.Versions = []extv1.CustomResourceDefinitionVersion{{Name: "v0", Served: true, Storage: true, Schema: &extv1.CustomResourceValidation{
		OpenAPIV3Schema: &extv1.JSONSchemaProps{Type: "object"}}}}
	return crd
}

type c11Outcome struct {
	submitted map[string]*extv1.CustomResourceDefinition // dry-run writes the server admitted, by CRD name
	refused   int
}

// c11Observe checks that the validator had no side effects and returns what it submitted.
func c11Observe(t *rapid.T, s *verifsim.Sim, digest string, logFrom int) c11Outcome {
	out := c11Outcome{submitted: map[string]*extv1.CustomResourceDefinition{}}
	if d := s.Digest(); d != digest {
		t.Fatalf("the validating webhook changed the API server's state:\n before %s\n after  %s", digest, d)
	}
	for _, w := range s.Log()[logFrom:] {
		if !w.DryRun {
			t.Fatalf("the validating webhook issued a write that is not a dry run: %s %s", w.Verb, w.Key)
		}
		if w.Key.GK() != c11CRDGK {
			t.Fatalf("the validating webhook wrote something that is not a CRD: %s %s", w.Verb, w.Key)
		}
		if w.Err != "" {
			out.refused++
			continue
		}
		crd, err := c11ToCRD(w.After)
		if err != nil {
			t.Fatalf("cannot decode submitted CRD: %v", err)
		}
		out.submitted[w.Key.Name] = crd
	}
	return out
}

func c11Parses(c *c11gen.Case) bool {
	for _, vr := range c.XRD.Spec.Versions {
		if _, ok := c11gen.ParseAuthor(vr); !ok {
			return false
		}
	}
	return true
}

func c11AllStructural(c *c11gen.Case) bool {
	for _, b := range c.Structural {
		if !b {
			return false
		}
	}
	return true
}

// c11Judge is the admission oracle shared by create and update.
func c11Judge(t *rapid.T, rec *verifkit.Recorder, what string, c *c11gen.Case, immutableChanged []string, err error, out c11Outcome) {
	x := c.XRD
	desc := func() string { return c11gen.JSON(x) }
	parses := c11Parses(c)
	switch {
	case len(immutableChanged) > 0:
		rec.Label(what + ":immutable-change")
		if err == nil {
			t.Fatalf("%s admitted although %v changed\nXRD: %s", what, immutableChanged, desc())
		}
	case c.ConvInvalid:
		rec.Label(what + ":conversion-invalid")
		if err == nil {
			t.Fatalf("%s admitted webhook conversion without client config\nXRD: %s", what, desc())
		}
	case !parses:
		rec.Label(what + ":undecodable-schema")
		if err == nil {
			t.Fatalf("%s admitted an XRD with a missing or undecodable schema\nXRD: %s", what, desc())
		}
	case c.Collide != "":
		rec.Label(what + ":claim-collision")
		if err == nil {
			t.Fatalf("%s admitted claim names that collide with the composite's %s\nXRD: %s", what, c.Collide, desc())
		}
	case out.refused > 0:
		rec.Label(what + ":server-refused-crd")
		if err == nil {
			t.Fatalf("%s admitted although the API server refused a derived CRD\nXRD: %s", what, desc())
		}
	case c11AllStructural(c):
		rec.Label(what + ":admitted")
		if err != nil {
			t.Fatalf("%s refused a well-formed XRD: %v\nXRD: %s", what, err, desc())
		}
	default:
		rec.Label(what + ":hostile-schema-outcome-free")
	}
	if err != nil {
		return
	}
	// What was validated is what the property describes: exactly the composite CRD and, if offered, the claim CRD.
	want := map[string]c11gen.Kind{x.Name: c11gen.Composite}
	if x.Spec.ClaimNames != nil {
		want[x.Spec.ClaimNames.Plural+"."+x.Spec.Group] = c11gen.Claim
	}
	for name, k := range want {
		crd, ok := out.submitted[name]
		if !ok {
			t.Fatalf("%s admitted the XRD without submitting the derived CRD %s for validation\nXRD: %s", what, name, desc())
		}
		// The store stamps metadata (uid etc.) on what it would persist; the oracle only reads spec, name and owner references.
		c11gen.CheckCRD(t, k, c, crd)
	}
	for name := range out.submitted {
		if _, ok := want[name]; !ok {
			t.Fatalf("%s submitted an unexpected CRD %s", what, name)
		}
	}
}

func TestVerifC11WebhookCreate(t *testing.T) {
	rec := verifkit.New(t, "C11", "validator.ValidateCreate on a generated XRD against the simulated API server (dry-run, structural admission); non-trivial = admitted; distinct = XRD JSON")
	rapid.Check(t, func(t *rapid.T) {
		c := c11gen.XRD(t)
		rec.Eval()
		s := c11NewSim()
		v := &validator{client: s.Client("xrd-webhook")}
		digest := s.Digest()
		var err error
		func() {
			defer func() {
				if r := recover(); r != nil {
					t.Fatalf("PANIC in ValidateCreate: %v\nXRD: %s", r, c11gen.JSON(c.XRD))
				}
			}()
			_, err = v.ValidateCreate(context.Background(), c.XRD)
		}()
		out := c11Observe(t, s, digest, 0)
		c11Judge(t, rec, "create", c, nil, err, out)
		if err == nil {
			rec.NonTrivial(c11gen.JSON(c.XRD), func() any { return map[string]any{"xrd": c11gen.Norm(c.XRD), "submitted": len(out.submitted)} })
		}
	})
}

// c11RunUpdate runs validator.ValidateUpdate for one (old,new) pair on a fresh simulated API server.
func c11RunUpdate(t *rapid.T, old, upd *c11gen.Case, claimCRDExists bool) (error, c11Outcome) {
	s := c11NewSim()
	// The CRDs the old XRD is served by. Their content is irrelevant: the validator replaces the spec.
	s.MustCreate("setup", c11BareCRD(old.XRD, old.XRD.Name, old.XRD.Spec.Group, old.XRD.Spec.Names, extv1.ClusterScoped))
	if cn := old.XRD.Spec.ClaimNames; cn != nil && cn.Plural != old.XRD.Spec.Names.Plural && claimCRDExists {
		s.MustCreate("setup", c11BareCRD(old.XRD, cn.Plural+"."+old.XRD.Spec.Group, old.XRD.Spec.Group, *cn, extv1.NamespaceScoped))
	}
	v := &validator{client: s.Client("xrd-webhook")}
	digest := s.Digest()
	from := s.LogLen()
	var err error
	func() {
		defer func() {
			if r := recover(); r != nil {
				t.Fatalf("PANIC in ValidateUpdate: %v\nold: %s\nnew: %s", r, c11gen.JSON(old.XRD), c11gen.JSON(upd.XRD))
			}
		}()
		_, err = v.ValidateUpdate(context.Background(), old.XRD, upd.XRD)
	}()
	return err, c11Observe(t, s, digest, from)
}

func TestVerifC11WebhookUpdate(t *testing.T) {
	rec := verifkit.New(t, "C11", "validator.ValidateUpdate on generated (old,new) XRD pairs, live and terminating (deletionTimestamp + finalizers on both sides), with the old CRDs (claim CRD present or not) in the simulated API server; every pair is judged in both lifecycles and the verdicts must agree; non-trivial = admitted; distinct = (old,new) JSON")
	rapid.Check(t, func(t *rapid.T) {
		old := c11gen.XRD(t)
		upd, m := c11gen.Update(t, old)
		claimCRDExists := rapid.IntRange(0, 3).Draw(t, "claimcrdexists") != 0
		rec.Eval()
		if claimCRDExists && old.XRD.Spec.ClaimNames != nil {
			rec.Label("update:claim-crd-exists")
		}
		var changed []string
		for f, b := range map[string]bool{"group": m.Group, "kind": m.Kind, "plural": m.Plural, "claim kind": m.ClaimKind, "claim plural": m.ClaimPlural} {
			if b {
				changed = append(changed, f)
			}
		}
		sort.Strings(changed)

		// The same update is submitted for a live XRD and for one that is being deleted but still holds its
		// finalizers (its controllers still reconcile it and still render CRDs from it). Each is judged by the
		// same oracle, and the two verdicts must agree.
		verdict := map[string]error{}
		for _, lc := range []string{"update", "update-terminating"} {
			o, u := old, upd
			if lc == "update-terminating" {
				o, u = c11gen.Terminate(old), c11gen.Terminate(upd)
			}
			err, out := c11RunUpdate(t, o, u, claimCRDExists)
			c11Judge(t, rec, lc, u, changed, err, out)
			if err != nil && len(changed) > 0 && !strings.Contains(err.Error(), "immutable") {
				t.Fatalf("%s refused, but not because %v is immutable: %v", lc, changed, err)
			}
			verdict[lc] = err
			if err == nil {
				rec.NonTrivial(c11gen.JSON([]any{o.XRD, u.XRD}), func() any {
					return map[string]any{"lifecycle": lc, "mutation": m, "submitted": fmt.Sprint(len(out.submitted))}
				})
			}
		}
		if live, term := verdict["update"], verdict["update-terminating"]; (live == nil) != (term == nil) {
			t.Fatalf("the same update is judged differently for a terminating XRD (deletionTimestamp set, finalizers held): live => %v, terminating => %v\nold: %s\nnew: %s",
				live, term, c11gen.JSON(old.XRD), c11gen.JSON(upd.XRD))
		}
		if m.ClaimAdded {
			rec.Label("update:claim-added")
		}
	})
}
