//go:build verif

// Package c11gen holds what the two C11 test packages (internal/xcrd and the
// XRD webhook validator) share: the XRD generator, the golden schemas of the
// Crossplane machinery fields, and the structural-schema judge.
//
// It must not import internal/xcrd (the in-package tests of xcrd import it).
package c11gen

import (
	"encoding/json"
	"fmt"
	"sort"
	"strings"
	"time"

	extv1 "k8s.io/apiextensions-apiserver/pkg/apis/apiextensions/v1"
	metav1 "k8s.io/apimachinery/pkg/apis/meta/v1"
	"k8s.io/apimachinery/pkg/runtime"
	"k8s.io/apimachinery/pkg/types"
	"k8s.io/utils/ptr"
	"pgregory.net/rapid"

	xpv1 "github.com/crossplane/crossplane-runtime/apis/common/v1"

	v1 "github.com/crossplane/crossplane/apis/apiextensions/v1"
)

// ---------------------------------------------------------------------------
// Golden machinery schemas.
//
// Written by hand as JSON from the documented contract: the field paths and Go
// types the claim/composite accessors of crossplane-runtime read and write
// (pkg/resource/unstructured/{claim,composite}), i.e.
//
//   spec.compositionRef, spec.compositionRevisionRef      corev1.ObjectReference, only "name" is used
//   spec.compositionSelector, ...RevisionSelector         metav1.LabelSelector, only matchLabels
//   spec.compositionUpdatePolicy                          xpv1.UpdatePolicy   Automatic|Manual
//   spec.compositeDeletePolicy (claim)                    xpv1.CompositeDeletePolicy Background|Foreground
//   spec.claimRef (XR)                                    claim.Reference {apiVersion,kind,namespace,name}
//   spec.resourceRef (claim)                              corev1.ObjectReference {apiVersion,kind,name}
//   spec.resourceRefs (XR)                                []corev1.ObjectReference, replaced atomically
//   spec.writeConnectionSecretToRef                       XR: xpv1.SecretReference{name,namespace}; claim: LocalSecretReference{name}
//   spec.publishConnectionDetailsTo                       xpv1.PublishConnectionDetailsTo
//   status.conditions                                     []xpv1.Condition, list-map keyed by type
//   status.connectionDetails.lastPublishedTime            metav1.Time
//   status.claimConditionTypes                            []xpv1.ConditionType (set)
//
// and then compared once against the pinned tree's internal/xcrd/schemas.go.
// Order inside "required" lists is not significant (the comparison sorts them).

const goldenRef = `{"type":"object","required":["name"],"properties":{"name":{"type":"string"}}}`

const goldenSelector = `{"type":"object","required":["matchLabels"],"properties":{"matchLabels":{"type":"object","additionalProperties":{"type":"string"}}}}`

const goldenUpdatePolicy = `{"type":"string","enum":["Automatic","Manual"]}`

const goldenDeletePolicy = `{"type":"string","enum":["Background","Foreground"]}`

const goldenPublishTo = `{"type":"object","required":["name"],"properties":{
  "name":{"type":"string"},
  "configRef":{"type":"object","default":{"name":"default"},"properties":{"name":{"type":"string"}}},
  "metadata":{"type":"object","properties":{
     "labels":{"type":"object","additionalProperties":{"type":"string"}},
     "annotations":{"type":"object","additionalProperties":{"type":"string"}},
     "type":{"type":"string"}}}}}`

// GoldenCompositeSpec is the machinery of a composite resource's spec.
const GoldenCompositeSpec = `{
 "compositionRef":` + goldenRef + `,
 "compositionSelector":` + goldenSelector + `,
 "compositionRevisionRef":` + goldenRef + `,
 "compositionRevisionSelector":` + goldenSelector + `,
 "compositionUpdatePolicy":` + goldenUpdatePolicy + `,
 "claimRef":{"type":"object","required":["apiVersion","kind","namespace","name"],"properties":{
    "apiVersion":{"type":"string"},"kind":{"type":"string"},"namespace":{"type":"string"},"name":{"type":"string"}}},
 "resourceRefs":{"type":"array","x-kubernetes-list-type":"atomic","items":{"type":"object","required":["apiVersion","kind"],"properties":{
    "apiVersion":{"type":"string"},"kind":{"type":"string"},"name":{"type":"string"}}}},
 "publishConnectionDetailsTo":` + goldenPublishTo + `,
 "writeConnectionSecretToRef":{"type":"object","required":["name","namespace"],"properties":{"name":{"type":"string"},"namespace":{"type":"string"}}}
}`

// GoldenClaimSpec is the machinery of a claim's spec.
const GoldenClaimSpec = `{
 "compositionRef":` + goldenRef + `,
 "compositionSelector":` + goldenSelector + `,
 "compositionRevisionRef":` + goldenRef + `,
 "compositionRevisionSelector":` + goldenSelector + `,
 "compositionUpdatePolicy":` + goldenUpdatePolicy + `,
 "compositeDeletePolicy":` + goldenDeletePolicy + `,
 "resourceRef":{"type":"object","required":["apiVersion","kind","name"],"properties":{
    "apiVersion":{"type":"string"},"kind":{"type":"string"},"name":{"type":"string"}}},
 "publishConnectionDetailsTo":` + goldenPublishTo + `,
 "writeConnectionSecretToRef":{"type":"object","required":["name"],"properties":{"name":{"type":"string"}}}
}`

// GoldenStatus is the machinery of both kinds' status.
const GoldenStatus = `{
 "conditions":{"description":"Conditions of the resource.","type":"array","x-kubernetes-list-type":"map","x-kubernetes-list-map-keys":["type"],
   "items":{"type":"object","required":["lastTransitionTime","reason","status","type"],"properties":{
     "lastTransitionTime":{"type":"string","format":"date-time"},
     "message":{"type":"string"},"reason":{"type":"string"},"status":{"type":"string"},"type":{"type":"string"}}}},
 "connectionDetails":{"type":"object","properties":{"lastPublishedTime":{"type":"string","format":"date-time"}}},
 "claimConditionTypes":{"type":"array","x-kubernetes-list-type":"set","items":{"type":"string"}}
}`

// Golden parses one of the golden documents into property name -> schema.
func Golden(doc string) map[string]any {
	m := map[string]any{}
	if err := json.Unmarshal([]byte(doc), &m); err != nil {
		panic("c11gen: bad golden: " + err.Error())
	}
	return SortRequired(m).(map[string]any)
}

// SortRequired sorts every "required" string list in a JSON schema value (the
// order of required property names carries no meaning).
func SortRequired(v any) any {
	switch x := v.(type) {
	case map[string]any:
		for k, e := range x {
			if k == "required" {
				if l, ok := e.([]any); ok {
					ss := make([]string, 0, len(l))
					allStr := true
					for _, s := range l {
						str, ok := s.(string)
						if !ok {
							allStr = false
							break
						}
						ss = append(ss, str)
					}
					if allStr {
						sort.Strings(ss)
						nl := make([]any, len(ss))
						for i := range ss {
							nl[i] = ss[i]
						}
						x[k] = nl
						continue
					}
				}
			}
			x[k] = SortRequired(e)
		}
	case []any:
		for i := range x {
			x[i] = SortRequired(x[i])
		}
	}
	return v
}

// Norm converts any JSON-marshalable value into plain JSON data.
func Norm(v any) any {
	b, err := json.Marshal(v)
	if err != nil {
		panic("c11gen.Norm: " + err.Error())
	}
	var out any
	if err := json.Unmarshal(b, &out); err != nil {
		panic("c11gen.Norm: " + err.Error())
	}
	return out
}

// JSON renders v compactly with sorted keys.
func JSON(v any) string {
	b, err := json.Marshal(v)
	if err != nil {
		return fmt.Sprintf("<%v>", err)
	}
	return string(b)
}

// Machinery property names (union over both kinds), used to draw author
// properties that try to shadow them.
var (
	SpecMachineryNames = []string{
		"compositionRef", "compositionSelector", "compositionRevisionRef", "compositionRevisionSelector",
		"compositionUpdatePolicy", "compositeDeletePolicy", "claimRef", "resourceRef", "resourceRefs",
		"publishConnectionDetailsTo", "writeConnectionSecretToRef",
	}
	StatusMachineryNames = []string{"conditions", "connectionDetails", "claimConditionTypes"}
)

// ---------------------------------------------------------------------------
// Generated cases.

// A Case is one generated XRD plus what the generator knows about it.
type Case struct {
	// XRD as an API client would hold it: decoded from its JSON form.
	XRD *v1.CompositeResourceDefinition
	// Structural[i]: version i's author schema is structural by construction.
	Structural []bool
	// SchemaKind[i]: "grammar", "hostile", "nil".
	SchemaKind []string
	// Collide names the claim name field that equals the composite's ("" = none).
	Collide string
	// ConvInvalid: webhook conversion strategy without a client config.
	ConvInvalid bool
	// Shadows counts author properties named like machinery fields.
	Shadows int
	// Terminating: the XRD carries a deletionTimestamp and still holds its finalizers.
	Terminating bool
	Labels  []string
}

var kinds = []string{"XDatabase", "XBucket", "CompositeCluster", "Network"}
var groups = []string{"example.org", "db.example.org", "a.b.c"}
var versionNames = []string{"v1alpha1", "v1beta1", "v1", "v2"}
var authorNames = []string{"size", "region", "parameters", "engine", "replicas", "tags", "id", "address"}

var celRules = []map[string]any{
	{"rule": "self.size > 0"},
	{"rule": "has(self.region) || has(self.engine)", "message": "one of region or engine is required"},
	{"rule": "self == oldSelf", "message": "immutable", "reason": "FieldValueForbidden"},
	{"rule": "!has(self.compositionRef)", "messageExpression": "'no ref for ' + self.region", "fieldPath": ".compositionRef"},
	{"rule": "size(self.tags) < 10", "optionalOldSelf": true},
}

// Hostile raw schema documents: everything a client can put into the
// (preserve-unknown-fields) openAPIV3Schema of an XRD.
var hostileRaw = []string{
	`{}`,
	`{"type":"object"}`,
	`{"properties":null}`,
	`{"properties":{"spec":null,"status":null,"metadata":null}}`,
	`{"properties":{"spec":{"properties":null}}}`,
	`{"properties":{"spec":{"type":"string"}}}`,
	`{"properties":{"spec":{"type":"object","properties":{"compositionRef":null,"claimRef":{"type":"string"},"resourceRefs":{"type":"object"}}}}}`,
	`{"properties":{"status":{"type":"object","properties":{"conditions":{"type":"string"},"connectionDetails":{"type":"array","items":{"type":"string"}}}}}}`,
	`{"properties":{"metadata":{"properties":{"name":{"maxLength":0}}}}}`,
	`{"properties":{"metadata":{"type":"object","properties":{"name":{"type":"integer","maxLength":1000},"labels":{"type":"object"}}}}}`,
	`{"type":"string","properties":{"spec":{"anyOf":[{"required":["a"]}],"allOf":[{"required":["b"]}],"not":{"required":["c"]}}}}`,
	`{"properties":{"spec":{"$ref":"#/definitions/x","additionalProperties":true,"properties":{"a":{"type":"string"}}}}}`,
	`{"properties":{"spec":{"properties":{"a":{"type":"array","items":[{"type":"string"},{"type":"integer"}]}}}}}`,
	`{"required":["spec","status"],"x-kubernetes-validations":[{"rule":"true"}],"properties":{"apiVersion":{"type":"integer"},"kind":{"enum":["x"]},"extra":{"type":"string"}}}`,
	`{"properties":{"spec":{"required":["compositionRef","claimRef","nope"],"oneOf":[{"required":["compositionRef"]},{"required":["compositionSelector"]}]}}}`,
	`{"properties":{"spec":{"x-kubernetes-preserve-unknown-fields":true,"properties":{"writeConnectionSecretToRef":{"type":"object","x-kubernetes-preserve-unknown-fields":true}}}}}`,
	`{"description":"d","properties":{"spec":{"description":"s","properties":{"compositionUpdatePolicy":{"type":"string","enum":["Never"],"default":"Never"},"compositeDeletePolicy":{"type":"string","default":"Orphan"}}}}}`,
	// Decodable, but the derived CRD is not structural: the API server refuses it.
	`{"properties":{"spec":{"properties":{"a":{}}}}}`,
	`{"properties":{"spec":{"properties":{"a":{"type":"object","additionalProperties":{"type":"string"},"properties":{"b":{"type":"string"}}}}}}}`,
	`{"properties":{"spec":{"oneOf":[{"type":"string"}],"properties":{"a":{"type":"string"}}}}}`,
	`{"properties":{"status":{"properties":{"a":{"type":"array"}}}}}`,
	// Not decodable into a JSON schema: derivation may only fail cleanly.
	`[]`, `"x"`, `7`, `{"properties":[]}`, `{"properties":{"spec":{"required":"a"}}}`, `{"type":7}`,
}

func subset(t *rapid.T, names []string, label string) []string {
	out := []string{}
	for _, n := range names {
		if rapid.IntRange(0, 2).Draw(t, label+":"+n) == 0 {
			out = append(out, n)
		}
	}
	return out
}

func anyStrings(ss []string) []any {
	out := make([]any, len(ss))
	for i := range ss {
		out[i] = ss[i]
	}
	return out
}

// prop generates a structural property schema.
func prop(t *rapid.T, depth int) map[string]any {
	max := 9
	if depth <= 0 {
		max = 4
	}
	p := map[string]any{}
	switch rapid.IntRange(0, max).Draw(t, "ptype") {
	case 0:
		p["type"] = "string"
		switch rapid.IntRange(0, 5).Draw(t, "strflavour") {
		case 0:
			p["enum"] = []any{"small", "large"}
			p["default"] = "small"
		case 1:
			p["pattern"] = "^[a-z]+$"
			p["maxLength"] = int64(rapid.IntRange(1, 64).Draw(t, "maxlen"))
		case 2:
			p["format"] = "date-time"
		case 3:
			p["minLength"] = int64(1)
			p["nullable"] = true
		}
	case 1:
		p["type"] = "integer"
		if rapid.Bool().Draw(t, "bounds") {
			p["minimum"] = float64(rapid.IntRange(-5, 5).Draw(t, "min"))
			p["maximum"] = float64(rapid.IntRange(6, 100).Draw(t, "max"))
		}
		if rapid.Bool().Draw(t, "intdefault") {
			p["default"] = int64(rapid.IntRange(0, 5).Draw(t, "defint"))
			p["format"] = "int32"
		}
	case 2:
		p["type"] = "boolean"
		if rapid.Bool().Draw(t, "booldefault") {
			p["default"] = rapid.Bool().Draw(t, "defbool")
		}
	case 3:
		p["type"] = "number"
		if rapid.Bool().Draw(t, "exclmin") {
			p["minimum"] = 0.5
			p["exclusiveMinimum"] = true
		}
	case 4:
		p["x-kubernetes-int-or-string"] = true
	case 5:
		p["type"] = "array"
		it := prop(t, depth-1)
		p["items"] = it
		if rapid.Bool().Draw(t, "maxitems") {
			p["maxItems"] = int64(rapid.IntRange(1, 20).Draw(t, "nmax"))
		}
		switch it["type"] {
		case "string", "integer", "boolean":
			if rapid.Bool().Draw(t, "listset") {
				p["x-kubernetes-list-type"] = "set"
			}
		default:
			if rapid.Bool().Draw(t, "listatomic") {
				p["x-kubernetes-list-type"] = "atomic"
			}
		}
	case 6, 7:
		p["type"] = "object"
		names := subset(t, []string{"name", "size", "key", "ref"}, "sub")
		props := map[string]any{}
		for _, n := range names {
			props[n] = prop(t, depth-1)
		}
		if len(props) > 0 {
			p["properties"] = props
			if req := subset(t, names, "subreq"); len(req) > 0 {
				p["required"] = anyStrings(req)
			}
		}
		if rapid.IntRange(0, 3).Draw(t, "subcel") == 0 {
			p["x-kubernetes-validations"] = []any{rapid.SampledFrom(celRules).Draw(t, "subrule")}
		}
		if rapid.IntRange(0, 4).Draw(t, "submaptype") == 0 {
			p["x-kubernetes-map-type"] = "atomic"
		}
	case 8:
		p["type"] = "object"
		p["additionalProperties"] = prop(t, depth-1)
	case 9:
		p["type"] = "object"
		p["x-kubernetes-preserve-unknown-fields"] = true
		if rapid.Bool().Draw(t, "embedded") {
			p["x-kubernetes-embedded-resource"] = true
		}
	}
	if rapid.IntRange(0, 3).Draw(t, "pdesc") == 0 {
		p["description"] = rapid.SampledFrom([]string{"The size.", "A thing.", "compositionRef"}).Draw(t, "pdescv")
	}
	return p
}

// node generates the author's spec or status schema (structural).
func node(t *rapid.T, which string, shadows *int) map[string]any {
	n := map[string]any{}
	if rapid.IntRange(0, 5).Draw(t, which+"type") != 0 {
		n["type"] = "object"
	}
	if rapid.IntRange(0, 2).Draw(t, which+"desc") == 0 {
		n["description"] = "The " + which + " of the resource."
	}
	machinery := SpecMachineryNames
	if which == "status" {
		machinery = StatusMachineryNames
	}
	props := map[string]any{}
	var names []string
	for _, a := range subset(t, authorNames, which+"author") {
		props[a] = prop(t, 2)
		names = append(names, a)
	}
	nShadow := rapid.SampledFrom([]int{0, 0, 1, 1, 2, 4}).Draw(t, which+"nshadow")
	for i := 0; i < nShadow; i++ {
		m := rapid.SampledFrom(machinery).Draw(t, which+"shadow")
		if _, dup := props[m]; dup {
			continue
		}
		props[m] = prop(t, 1)
		names = append(names, m)
		*shadows++
	}
	if len(props) > 0 || rapid.Bool().Draw(t, which+"emptyprops") {
		n["properties"] = props
	}
	reqPool := append([]string{}, names...)
	reqPool = append(reqPool, rapid.SampledFrom(machinery).Draw(t, which+"reqmach"))
	if req := subset(t, reqPool, which+"req"); len(req) > 0 {
		n["required"] = anyStrings(req)
	}
	if k := rapid.IntRange(0, 3).Draw(t, which+"ncel"); k < 3 {
		var rules []any
		for i := 0; i < k; i++ {
			rules = append(rules, rapid.SampledFrom(celRules).Draw(t, which+"rule"))
		}
		if len(rules) > 0 {
			n["x-kubernetes-validations"] = rules
		}
	}
	if rapid.IntRange(0, 2).Draw(t, which+"oneof") == 0 {
		var alts []any
		k := rapid.IntRange(1, 3).Draw(t, which+"nalt")
		for i := 0; i < k; i++ {
			alts = append(alts, map[string]any{"required": []any{rapid.SampledFrom(append(append([]string{}, authorNames...), machinery...)).Draw(t, which+"alt")}})
		}
		n["oneOf"] = alts
	}
	if rapid.IntRange(0, 3).Draw(t, which+"puf") == 0 {
		n["x-kubernetes-preserve-unknown-fields"] = true
	}
	return n
}

// grammarSchema generates a whole author schema document (structural).
func grammarSchema(t *rapid.T, shadows *int) map[string]any {
	root := map[string]any{}
	if rapid.IntRange(0, 4).Draw(t, "roottype") != 0 {
		root["type"] = "object"
	}
	if rapid.IntRange(0, 2).Draw(t, "rootdesc") == 0 {
		root["description"] = "A generated composite resource."
	}
	if rapid.IntRange(0, 3).Draw(t, "rootreq") == 0 {
		root["required"] = []any{"spec"}
	}
	props := map[string]any{}
	if rapid.IntRange(0, 9).Draw(t, "hasspec") != 0 {
		props["spec"] = node(t, "spec", shadows)
	}
	if rapid.IntRange(0, 3).Draw(t, "hasstatus") != 0 {
		props["status"] = node(t, "status", shadows)
	}
	if rapid.IntRange(0, 2).Draw(t, "hasmeta") == 0 {
		name := map[string]any{"type": "string"}
		if rapid.IntRange(0, 4).Draw(t, "hasmaxlen") != 0 {
			name["maxLength"] = rapid.SampledFrom([]int64{0, 1, 20, 57, 62, 63, 64, 253}).Draw(t, "maxlen")
		}
		props["metadata"] = map[string]any{"type": "object", "properties": map[string]any{"name": name}}
	}
	if len(props) > 0 || rapid.Bool().Draw(t, "emptyrootprops") {
		root["properties"] = props
	}
	return root
}

var looseNames = []string{"spec", "status", "metadata", "name", "size", "region", "compositionRef", "claimRef", "resourceRefs", "resourceRef",
	"writeConnectionSecretToRef", "publishConnectionDetailsTo", "compositionUpdatePolicy", "compositeDeletePolicy", "conditions", "connectionDetails", "claimConditionTypes"}

// Loose generates a document that decodes as a Kubernetes JSON schema but is
// otherwise unconstrained: any keyword anywhere, odd values, nulls.
func Loose(t *rapid.T, depth int) map[string]any {
	n := map[string]any{}
	has := func(k string) bool { return rapid.IntRange(0, 3).Draw(t, "has:"+k) == 0 }
	subs := func(label string) []any {
		var l []any
		k := rapid.IntRange(0, 2).Draw(t, label)
		for i := 0; i < k; i++ {
			l = append(l, Loose(t, depth-1))
		}
		return l
	}
	if has("type") {
		n["type"] = rapid.SampledFrom([]string{"object", "string", "array", "integer", "", "bogus"}).Draw(t, "type")
	}
	if depth > 0 && rapid.IntRange(0, 1).Draw(t, "has:properties") == 0 {
		if rapid.IntRange(0, 9).Draw(t, "nullprops") == 0 {
			n["properties"] = nil
		} else {
			props := map[string]any{}
			np := rapid.IntRange(0, 4).Draw(t, "nprops")
			for i := 0; i < np; i++ {
				name := rapid.SampledFrom(looseNames).Draw(t, "pname")
				if rapid.IntRange(0, 9).Draw(t, "nullprop") == 0 {
					props[name] = nil
				} else {
					props[name] = Loose(t, depth-1)
				}
			}
			n["properties"] = props
		}
	}
	if has("required") {
		n["required"] = anyStrings(subset(t, looseNames[:8], "lreq"))
	}
	if depth > 0 && has("items") {
		if rapid.Bool().Draw(t, "itemsarray") {
			n["items"] = subs("nitems")
		} else {
			n["items"] = Loose(t, depth-1)
		}
	}
	if depth > 0 && has("additionalProperties") {
		if rapid.Bool().Draw(t, "apbool") {
			n["additionalProperties"] = rapid.Bool().Draw(t, "apv")
		} else {
			n["additionalProperties"] = Loose(t, depth-1)
		}
	}
	if has("maxLength") {
		n["maxLength"] = rapid.SampledFrom([]int64{-1, 0, 1, 62, 63, 64, 1 << 40}).Draw(t, "lmaxlen")
	}
	if has("enum") {
		n["enum"] = []any{"a", int64(1), nil, true, map[string]any{"k": "v"}}[:rapid.IntRange(0, 5).Draw(t, "nenum")]
	}
	if has("default") {
		n["default"] = rapid.SampledFrom([]any{"Automatic", "Never", int64(3), nil, map[string]any{"name": "x"}, []any{}}).Draw(t, "ldefault")
	}
	if has("x-kubernetes-validations") {
		n["x-kubernetes-validations"] = []any{map[string]any{"rule": rapid.SampledFrom([]string{"true", "self.x", ""}).Draw(t, "lrule")}}
	}
	for _, j := range []string{"oneOf", "anyOf", "allOf"} {
		if depth > 0 && rapid.IntRange(0, 5).Draw(t, "has:"+j) == 0 {
			n[j] = subs("n" + j)
		}
	}
	if depth > 0 && rapid.IntRange(0, 7).Draw(t, "has:not") == 0 {
		n["not"] = Loose(t, depth-1)
	}
	if has("x-kubernetes-preserve-unknown-fields") {
		n["x-kubernetes-preserve-unknown-fields"] = rapid.Bool().Draw(t, "lpuf")
	}
	for _, kv := range []struct {
		k string
		v any
	}{{"x-kubernetes-int-or-string", true}, {"x-kubernetes-embedded-resource", true}, {"nullable", true}, {"description", "d"},
		{"format", "date-time"}, {"$ref", "#/definitions/x"}, {"pattern", "["}, {"x-kubernetes-list-type", "map"}, {"title", "t"}} {
		if rapid.IntRange(0, 7).Draw(t, "has:"+kv.k) == 0 {
			n[kv.k] = kv.v
		}
	}
	return n
}

func printerColumns(t *rapid.T) []extv1.CustomResourceColumnDefinition {
	n := rapid.SampledFrom([]int{0, 0, 0, 1, 2, 3, 5, 9, 10, 12, 17}).Draw(t, "ncols")
	var cols []extv1.CustomResourceColumnDefinition
	for i := 0; i < n; i++ {
		cols = append(cols, extv1.CustomResourceColumnDefinition{Name: fmt.Sprintf("COL%d", i), Type: "string", JSONPath: fmt.Sprintf(".spec.f%d", i)})
	}
	return cols
}

func names(kind string, t *rapid.T, label string) extv1.CustomResourceDefinitionNames {
	n := extv1.CustomResourceDefinitionNames{Kind: kind, Plural: strings.ToLower(kind) + "s"}
	if rapid.Bool().Draw(t, label+"singular") {
		n.Singular = strings.ToLower(kind)
	}
	if rapid.Bool().Draw(t, label+"listkind") {
		n.ListKind = kind + "List"
	}
	if rapid.IntRange(0, 2).Draw(t, label+"short") == 0 {
		n.ShortNames = []string{strings.ToLower(kind[:2]) + label[:1]}
	}
	if rapid.IntRange(0, 2).Draw(t, label+"cats") == 0 {
		n.Categories = []string{"crossplane", "all"}[:rapid.IntRange(1, 2).Draw(t, label+"ncats")]
	}
	return n
}

// XRD generates one case.
func XRD(t *rapid.T) *Case {
	c := &Case{}
	x := &v1.CompositeResourceDefinition{}
	x.APIVersion = v1.SchemeGroupVersion.String()
	x.Kind = v1.CompositeResourceDefinitionKind
	kind := rapid.SampledFrom(kinds).Draw(t, "kind")
	x.Spec.Group = rapid.SampledFrom(groups).Draw(t, "group")
	x.Spec.Names = names(kind, t, "x")
	x.Name = x.Spec.Names.Plural + "." + x.Spec.Group
	x.UID = types.UID(rapid.SampledFrom([]string{"7c2f1a3e-0000-4000-8000-000000000001", "uid-2", "u"}).Draw(t, "uid"))
	if rapid.IntRange(0, 2).Draw(t, "haslabels") == 0 {
		x.Labels = map[string]string{"team": "a"}
	}
	if rapid.IntRange(0, 3).Draw(t, "hasspecmeta") == 0 {
		x.Spec.Metadata = &v1.CompositeResourceDefinitionSpecMetadata{Labels: map[string]string{"tier": "gold"}}
		if rapid.Bool().Draw(t, "specannotations") {
			x.Spec.Metadata.Annotations = map[string]string{"note": "n"}
		}
	}

	switch mode := rapid.IntRange(0, 9).Draw(t, "claimmode"); {
	case mode <= 2:
		c.Labels = append(c.Labels, "claim:none")
	case mode <= 6:
		cn := names(strings.TrimPrefix(kind, "X")+"Claim", t, "c")
		x.Spec.ClaimNames = &cn
		c.Labels = append(c.Labels, "claim:distinct")
	default:
		cn := names(strings.TrimPrefix(kind, "X")+"Claim", t, "c")
		f := rapid.SampledFrom([]string{"kind", "plural", "singular", "listKind"}).Draw(t, "collide")
		switch f {
		case "kind":
			cn.Kind = x.Spec.Names.Kind
		case "plural":
			cn.Plural = x.Spec.Names.Plural
		case "singular":
			if x.Spec.Names.Singular == "" {
				x.Spec.Names.Singular = strings.ToLower(kind)
			}
			cn.Singular = x.Spec.Names.Singular
		case "listKind":
			if x.Spec.Names.ListKind == "" {
				x.Spec.Names.ListKind = kind + "List"
			}
			cn.ListKind = x.Spec.Names.ListKind
		}
		x.Spec.ClaimNames = &cn
		c.Collide = f
		c.Labels = append(c.Labels, "claim:collide-"+f)
	}

	switch rapid.IntRange(0, 2).Draw(t, "cdp") {
	case 1:
		x.Spec.DefaultCompositeDeletePolicy = ptr.To(xpv1.CompositeDeleteBackground)
	case 2:
		x.Spec.DefaultCompositeDeletePolicy = ptr.To(xpv1.CompositeDeleteForeground)
	}
	switch rapid.IntRange(0, 2).Draw(t, "cup") {
	case 1:
		x.Spec.DefaultCompositionUpdatePolicy = ptr.To(xpv1.UpdateAutomatic)
	case 2:
		x.Spec.DefaultCompositionUpdatePolicy = ptr.To(xpv1.UpdateManual)
	}
	switch rapid.IntRange(0, 7).Draw(t, "conv") {
	case 0, 1:
		x.Spec.Conversion = &extv1.CustomResourceConversion{Strategy: extv1.NoneConverter}
		c.Labels = append(c.Labels, "conv:none")
	case 2:
		x.Spec.Conversion = &extv1.CustomResourceConversion{Strategy: extv1.WebhookConverter, Webhook: &extv1.WebhookConversion{
			ClientConfig:             &extv1.WebhookClientConfig{Service: &extv1.ServiceReference{Namespace: "crossplane-system", Name: "conv", Path: ptr.To("/convert")}},
			ConversionReviewVersions: []string{"v1"},
		}}
		c.Labels = append(c.Labels, "conv:webhook")
	case 3:
		x.Spec.Conversion = &extv1.CustomResourceConversion{Strategy: extv1.WebhookConverter}
		if rapid.Bool().Draw(t, "convhalf") {
			x.Spec.Conversion.Webhook = &extv1.WebhookConversion{ConversionReviewVersions: []string{"v1"}}
		}
		c.ConvInvalid = true
		c.Labels = append(c.Labels, "conv:invalid")
	}

	nv := rapid.IntRange(1, 3).Draw(t, "nversions")
	vnames := rapid.Permutation(versionNames).Draw(t, "vnames")[:nv]
	ref := rapid.IntRange(0, nv-1).Draw(t, "referenceable")
	var shared map[string]any
	for i := 0; i < nv; i++ {
		vr := v1.CompositeResourceDefinitionVersion{Name: vnames[i], Referenceable: i == ref, Served: i == ref || rapid.Bool().Draw(t, "served")}
		switch rapid.IntRange(0, 3).Draw(t, "deprecated") {
		case 0:
			vr.Deprecated = ptr.To(true)
			if rapid.Bool().Draw(t, "depwarn") {
				vr.DeprecationWarning = ptr.To("use a newer version")
			}
		case 1:
			vr.Deprecated = ptr.To(false)
		}
		vr.AdditionalPrinterColumns = printerColumns(t)
		switch k := rapid.IntRange(0, 29).Draw(t, "schemakind"); {
		case k == 29:
			c.SchemaKind = append(c.SchemaKind, "nil")
			c.Structural = append(c.Structural, false)
		case k >= 25:
			raw := rapid.SampledFrom(hostileRaw).Draw(t, "hostile")
			vr.Schema = &v1.CompositeResourceValidation{OpenAPIV3Schema: runtime.RawExtension{Raw: []byte(raw)}}
			c.SchemaKind = append(c.SchemaKind, "hostile")
			c.Structural = append(c.Structural, false)
		default:
			var doc map[string]any
			if shared != nil && rapid.Bool().Draw(t, "sameschema") {
				doc = shared
			} else {
				doc = grammarSchema(t, &c.Shadows)
				shared = doc
			}
			raw, err := json.Marshal(doc)
			if err != nil {
				panic(err)
			}
			vr.Schema = &v1.CompositeResourceValidation{OpenAPIV3Schema: runtime.RawExtension{Raw: raw}}
			c.SchemaKind = append(c.SchemaKind, "grammar")
			c.Structural = append(c.Structural, true)
		}
		x.Spec.Versions = append(x.Spec.Versions, vr)
	}
	c.Labels = append(c.Labels, fmt.Sprintf("versions=%d", nv))

	// Hand the XRD over the way the API does: as JSON.
	c.XRD = RoundTrip(x)
	if got := Collision(c.XRD); got != c.Collide {
		panic(fmt.Sprintf("c11gen: generator bug: constructed collision %q, found %q", c.Collide, got))
	}
	return c
}

// Terminate returns the same case with the XRD being deleted: deletionTimestamp
// set, the definition (and, if it offers a claim, the offered) controller's
// finalizers still held. This is the state in which the XRD's controllers
// still reconcile it, so nothing the property says about names, collisions or
// the derived CRDs is relaxed by it.
func Terminate(c *Case) *Case {
	n := *c
	x := c.XRD.DeepCopy()
	ts := metav1.Date(2024, 5, 17, 10, 0, 0, 0, time.UTC)
	x.DeletionTimestamp = &ts
	x.DeletionGracePeriodSeconds = ptr.To[int64](0)
	x.Finalizers = []string{"defined.apiextensions.crossplane.io"}
	if x.Spec.ClaimNames != nil {
		x.Finalizers = append(x.Finalizers, "offered.apiextensions.crossplane.io")
	}
	n.XRD = RoundTrip(x)
	n.Terminating = true
	n.Labels = append(append([]string{}, c.Labels...), "xrd:terminating")
	return &n
}

// Collision names the claim name field that equals the composite's name of the
// same field ("" = none). Singular and listKind are optional: unset ones do not collide.
func Collision(x *v1.CompositeResourceDefinition) string {
	cn := x.Spec.ClaimNames
	switch {
	case cn == nil:
		return ""
	case cn.Kind == x.Spec.Names.Kind:
		return "kind"
	case cn.Plural == x.Spec.Names.Plural:
		return "plural"
	case cn.Singular != "" && cn.Singular == x.Spec.Names.Singular:
		return "singular"
	case cn.ListKind != "" && cn.ListKind == x.Spec.Names.ListKind:
		return "listKind"
	}
	return ""
}

// RoundTrip encodes and decodes an XRD.
func RoundTrip(x *v1.CompositeResourceDefinition) *v1.CompositeResourceDefinition {
	b, err := json.Marshal(x)
	if err != nil {
		panic("c11gen: cannot encode generated XRD: " + err.Error())
	}
	out := &v1.CompositeResourceDefinition{}
	if err := json.Unmarshal(b, out); err != nil {
		panic("c11gen: cannot decode generated XRD: " + err.Error())
	}
	return out
}

// ParseAuthor decodes a version's author schema the way any consumer of the
// Kubernetes JSON schema type does. ok=false: there is no decodable schema.
func ParseAuthor(vr v1.CompositeResourceDefinitionVersion) (*extv1.JSONSchemaProps, bool) {
	if vr.Schema == nil {
		return nil, false
	}
	s := &extv1.JSONSchemaProps{}
	if err := json.Unmarshal(vr.Schema.OpenAPIV3Schema.Raw, s); err != nil {
		return nil, false
	}
	return s, true
}

// Mutation describes what an update changed.
type Mutation struct {
	Group, Kind, Plural, ClaimKind, ClaimPlural bool
	ClaimAdded, ClaimRemoved                    bool
	Other                                       []string
}

// Update derives an updated XRD from old and reports what was changed.
func Update(t *rapid.T, old *Case) (*Case, Mutation) {
	n := &Case{XRD: old.XRD.DeepCopy(), ConvInvalid: old.ConvInvalid, Structural: append([]bool{}, old.Structural...), SchemaKind: append([]string{}, old.SchemaKind...)}
	x := n.XRD
	m := Mutation{}
	muts := subset(t, []string{"claimToggle", "singular", "listKind", "shortNames", "served", "schema", "addVersion", "policies", "conversion", "claimSingular"}, "mut")
	if rapid.Bool().Draw(t, "immutables") {
		immut := []string{"group", "kind", "plural", "claimKind", "claimPlural"}
		muts = append(muts, rapid.SampledFrom(immut).Draw(t, "immut1"))
		for _, mu := range subset(t, immut, "immut") {
			if mu != muts[len(muts)-1] {
				muts = append(muts, mu)
			}
		}
	}
	for _, mu := range muts {
		switch mu {
		case "group":
			x.Spec.Group = "new." + x.Spec.Group
			m.Group = true
		case "kind":
			x.Spec.Names.Kind += "New"
			m.Kind = true
		case "plural":
			x.Spec.Names.Plural = "new" + x.Spec.Names.Plural
			m.Plural = true
		case "claimKind":
			if x.Spec.ClaimNames != nil {
				x.Spec.ClaimNames.Kind += "New"
				m.ClaimKind = true
			}
		case "claimPlural":
			if x.Spec.ClaimNames != nil {
				x.Spec.ClaimNames.Plural = "new" + x.Spec.ClaimNames.Plural
				m.ClaimPlural = true
			}
		case "claimToggle":
			if x.Spec.ClaimNames != nil {
				x.Spec.ClaimNames = nil
				m.ClaimRemoved = true
				m.ClaimKind, m.ClaimPlural = false, false
			} else {
				x.Spec.ClaimNames = &extv1.CustomResourceDefinitionNames{Kind: "AddedClaim", Plural: "addedclaims"}
				m.ClaimAdded = true
			}
		case "singular":
			x.Spec.Names.Singular = "othersingular"
			m.Other = append(m.Other, mu)
		case "listKind":
			x.Spec.Names.ListKind = "OtherList"
			m.Other = append(m.Other, mu)
		case "shortNames":
			x.Spec.Names.ShortNames = append(x.Spec.Names.ShortNames, "zz")
			m.Other = append(m.Other, mu)
		case "claimSingular":
			if x.Spec.ClaimNames != nil {
				x.Spec.ClaimNames.Singular = "otherclaimsingular"
				m.Other = append(m.Other, mu)
			}
		case "served":
			for i := range x.Spec.Versions {
				if !x.Spec.Versions[i].Referenceable {
					x.Spec.Versions[i].Served = !x.Spec.Versions[i].Served
				}
			}
			m.Other = append(m.Other, mu)
		case "schema":
			doc := grammarSchema(t, &n.Shadows)
			raw, _ := json.Marshal(doc)
			x.Spec.Versions[0].Schema = &v1.CompositeResourceValidation{OpenAPIV3Schema: runtime.RawExtension{Raw: raw}}
			n.Structural[0], n.SchemaKind[0] = true, "grammar"
			m.Other = append(m.Other, mu)
		case "addVersion":
			x.Spec.Versions = append(x.Spec.Versions, v1.CompositeResourceDefinitionVersion{Name: "v9", Served: true,
				Schema: &v1.CompositeResourceValidation{OpenAPIV3Schema: runtime.RawExtension{Raw: []byte(`{"type":"object","properties":{"spec":{"type":"object","properties":{"size":{"type":"integer"}}}}}`)}}})
			n.Structural, n.SchemaKind = append(n.Structural, true), append(n.SchemaKind, "grammar")
			m.Other = append(m.Other, mu)
		case "policies":
			x.Spec.DefaultCompositionUpdatePolicy = ptr.To(xpv1.UpdateManual)
			x.Spec.DefaultCompositeDeletePolicy = ptr.To(xpv1.CompositeDeleteForeground)
			m.Other = append(m.Other, mu)
		case "conversion":
			x.Spec.Conversion = &extv1.CustomResourceConversion{Strategy: extv1.NoneConverter}
			n.ConvInvalid = false
			m.Other = append(m.Other, mu)
		}
	}
	x.Generation++
	x.ResourceVersion = "2"
	n.XRD = RoundTrip(x)
	n.Collide = Collision(n.XRD)
	// What changed is read off the pair, not off the mutation script.
	o, u := old.XRD.Spec, n.XRD.Spec
	m.Group = o.Group != u.Group
	m.Kind = o.Names.Kind != u.Names.Kind
	m.Plural = o.Names.Plural != u.Names.Plural
	both := o.ClaimNames != nil && u.ClaimNames != nil
	m.ClaimKind = both && o.ClaimNames.Kind != u.ClaimNames.Kind
	m.ClaimPlural = both && o.ClaimNames.Plural != u.ClaimNames.Plural
	m.ClaimAdded = o.ClaimNames == nil && u.ClaimNames != nil
	m.ClaimRemoved = o.ClaimNames != nil && u.ClaimNames == nil
	return n, m
}

var _ = metav1.ObjectMeta{}
