//go:build verif

package c11gen

import (
	"fmt"
	"reflect"
	"sort"

	extv1 "k8s.io/apiextensions-apiserver/pkg/apis/apiextensions/v1"
	"k8s.io/utils/ptr"
)

// Fataler is what the oracle needs of a test handle (*rapid.T, *testing.T, ...).
type Fataler interface {
	Fatalf(format string, args ...any)
}

func strList(l []string) []string {
	if l == nil {
		return []string{}
	}
	return l
}

// nodeSansProps renders everything of a schema node except its properties.
func nodeSansProps(n extv1.JSONSchemaProps, dropPreserve bool) any {
	n = *n.DeepCopy()
	n.Properties = nil
	if dropPreserve {
		n.XPreserveUnknownFields = nil
	}
	if len(n.Required) == 0 {
		n.Required = nil
	}
	if len(n.XValidations) == 0 {
		n.XValidations = nil
	}
	if len(n.OneOf) == 0 {
		n.OneOf = nil
	}
	return Norm(n)
}

type Kind struct {
	name      string // "composite" | "claim"
	scope     extv1.ResourceScope
	golden    string
	policyKey string // machinery property that takes the XRD's default policy
}

var (
	Composite = Kind{"composite", extv1.ClusterScoped, GoldenCompositeSpec, "compositionUpdatePolicy"}
	Claim     = Kind{"claim", extv1.NamespaceScoped, GoldenClaimSpec, "compositeDeletePolicy"}
)

// CheckCRD is the oracle for one derived CRD. It reads only the XRD (as
// data), the golden machinery documents and the Kubernetes schema types.
func CheckCRD(t Fataler, k Kind, c *Case, crd *extv1.CustomResourceDefinition) {
	x := c.XRD
	fail := func(format string, a ...any) {
		t.Fatalf("%s CRD of XRD %s: %s\nXRD: %s", k.name, x.Name, fmt.Sprintf(format, a...), JSON(x))
	}
	if crd == nil {
		fail("derivation returned neither a CRD nor an error")
	}

	// scope, group, names
	if crd.Spec.Scope != k.scope {
		fail("scope is %q, want %q", crd.Spec.Scope, k.scope)
	}
	if crd.Spec.Group != x.Spec.Group {
		fail("group is %q, want %q", crd.Spec.Group, x.Spec.Group)
	}
	wantNames := x.Spec.Names
	wantName := x.Name
	if k.name == "claim" {
		wantNames = *x.Spec.ClaimNames
		wantName = x.Spec.ClaimNames.Plural + "." + x.Spec.Group
	}
	if crd.Name != wantName {
		fail("CRD name is %q, want %q", crd.Name, wantName)
	}
	got := crd.Spec.Names
	if got.Kind != wantNames.Kind || got.Plural != wantNames.Plural || got.Singular != wantNames.Singular || got.ListKind != wantNames.ListKind ||
		!reflect.DeepEqual(strList(got.ShortNames), strList(wantNames.ShortNames)) {
		fail("names are %s, want %s", JSON(got), JSON(wantNames))
	}
	for _, cat := range wantNames.Categories {
		found := false
		for _, g := range got.Categories {
			found = found || g == cat
		}
		if !found {
			fail("category %q of the XRD's names is missing: %v", cat, got.Categories)
		}
	}

	// controller reference to the XRD
	if len(crd.OwnerReferences) != 1 {
		fail("has %d owner references, want exactly the XRD", len(crd.OwnerReferences))
	}
	or := crd.OwnerReferences[0]
	if or.APIVersion != "apiextensions.crossplane.io/v1" || or.Kind != "CompositeResourceDefinition" || or.Name != x.Name || or.UID != x.UID || or.Controller == nil || !*or.Controller {
		fail("owner reference %s is not a controller reference to the XRD (uid %s)", JSON(or), x.UID)
	}

	// versions
	if len(crd.Spec.Versions) != len(x.Spec.Versions) {
		fail("has %d versions, XRD has %d", len(crd.Spec.Versions), len(x.Spec.Versions))
	}
	storage := 0
	golden := Golden(k.golden)
	goldenStatus := Golden(GoldenStatus)
	var policy string
	switch {
	case k.name == "composite" && x.Spec.DefaultCompositionUpdatePolicy != nil:
		policy = string(*x.Spec.DefaultCompositionUpdatePolicy)
	case k.name == "claim" && x.Spec.DefaultCompositeDeletePolicy != nil:
		policy = string(*x.Spec.DefaultCompositeDeletePolicy)
	}
	if policy != "" {
		golden[k.policyKey].(map[string]any)["default"] = policy
	}

	for i, vr := range x.Spec.Versions {
		cv := crd.Spec.Versions[i]
		vfail := func(format string, a ...any) {
			fail("version %s: %s", vr.Name, fmt.Sprintf(format, a...))
		}
		if cv.Name != vr.Name {
			vfail("is called %q in the CRD", cv.Name)
		}
		if cv.Served != vr.Served {
			vfail("served=%v, XRD says %v", cv.Served, vr.Served)
		}
		if cv.Deprecated != ptr.Deref(vr.Deprecated, false) {
			vfail("deprecated=%v, XRD says %v", cv.Deprecated, ptr.Deref(vr.Deprecated, false))
		}
		if ptr.Deref(cv.DeprecationWarning, "") != ptr.Deref(vr.DeprecationWarning, "") {
			vfail("deprecation warning %q, XRD says %q", ptr.Deref(cv.DeprecationWarning, ""), ptr.Deref(vr.DeprecationWarning, ""))
		}
		if cv.Storage != vr.Referenceable {
			vfail("storage=%v but referenceable=%v", cv.Storage, vr.Referenceable)
		}
		if cv.Storage {
			storage++
		}
		if cv.Subresources == nil || cv.Subresources.Status == nil {
			vfail("status subresource is not enabled")
		}
		if cv.Schema == nil || cv.Schema.OpenAPIV3Schema == nil {
			vfail("has no schema")
		}
		root := cv.Schema.OpenAPIV3Schema
		author, _ := ParseAuthor(vr) // the caller established that it parses
		if root.Type != "object" {
			vfail("root type is %q", root.Type)
		}
		for _, p := range []string{"apiVersion", "kind", "metadata", "spec", "status"} {
			if _, ok := root.Properties[p]; !ok {
				vfail("root property %q is missing", p)
			}
		}
		if root.Properties["apiVersion"].Type != "string" || root.Properties["kind"].Type != "string" {
			vfail("apiVersion/kind are not strings")
		}
		hasSpec := false
		for _, r := range root.Required {
			hasSpec = hasSpec || r == "spec"
		}
		if !hasSpec {
			vfail("spec is not required at the root")
		}

		// metadata.name length limit: names are used as label values, so never more than 63, and never
		// more than what the author asked for.
		wantMax := int64(63)
		if a := author.Properties["metadata"].Properties["name"].MaxLength; a != nil && *a < wantMax {
			wantMax = *a
		}
		md := root.Properties["metadata"]
		name, ok := md.Properties["name"]
		if md.Type != "object" || !ok || name.Type != "string" || name.MaxLength == nil || *name.MaxLength != wantMax {
			vfail("metadata schema is %s, want an object whose name is a string of maxLength %d", JSON(md), wantMax)
		}

		// spec: author's properties unless named like machinery; machinery = golden; nothing else
		checkNode(vfail, "spec", root.Properties["spec"], author.Properties["spec"], golden, false)
		// status likewise. Whether status-level x-kubernetes-preserve-unknown-fields survives is not part of the property.
		checkNode(vfail, "status", root.Properties["status"], author.Properties["status"], goldenStatus, true)
	}
	if storage != 1 {
		fail("%d storage versions", storage)
	}

	// conversion settings are carried over
	if !reflect.DeepEqual(Norm(crd.Spec.Conversion), Norm(x.Spec.Conversion)) {
		fail("conversion is %s, XRD says %s", JSON(crd.Spec.Conversion), JSON(x.Spec.Conversion))
	}
}

func checkNode(vfail func(string, ...any), which string, got, author extv1.JSONSchemaProps, golden map[string]any, dropPreserve bool) {
	if got.Type != "object" {
		vfail("%s type is %q", which, got.Type)
	}
	want := map[string]any{}
	for name, p := range author.Properties {
		want[name] = Norm(p)
	}
	for name, g := range golden {
		want[name] = g
	}
	gotProps := map[string]any{}
	for name, p := range got.Properties {
		n := Norm(p)
		if _, isMachinery := golden[name]; isMachinery {
			n = SortRequired(n)
		}
		gotProps[name] = n
	}
	var names []string
	for n := range want {
		names = append(names, n)
	}
	for n := range gotProps {
		if _, ok := want[n]; !ok {
			names = append(names, n)
		}
	}
	sort.Strings(names)
	for _, n := range names {
		w, wok := want[n]
		g, gok := gotProps[n]
		_, isMachinery := golden[n]
		switch {
		case !gok && isMachinery:
			vfail("machinery field %s.%s is missing", which, n)
		case !gok:
			vfail("author's property %s.%s is missing", which, n)
		case !wok:
			vfail("%s.%s is neither an author property nor machinery: %s", which, n, JSON(g))
		case !reflect.DeepEqual(w, g) && isMachinery:
			vfail("machinery field %s.%s does not have its standard schema:\n got  %s\n want %s", which, n, JSON(g), JSON(w))
		case !reflect.DeepEqual(w, g):
			vfail("author's property %s.%s was altered:\n got  %s\n want %s", which, n, JSON(g), JSON(w))
		}
	}
	// required, CEL rules, oneOf, (spec:) preserve-unknown-fields, description
	wantNode := extv1.JSONSchemaProps{
		Type: "object", Required: author.Required, XValidations: author.XValidations, OneOf: author.OneOf,
		XPreserveUnknownFields: author.XPreserveUnknownFields, Description: author.Description,
	}
	if g, w := nodeSansProps(got, dropPreserve), nodeSansProps(wantNode, dropPreserve); !reflect.DeepEqual(g, w) {
		vfail("%s node (required / x-kubernetes-validations / oneOf / preserve-unknown-fields) differs from the author's:\n got  %s\n want %s", which, JSON(g), JSON(w))
	}
}

