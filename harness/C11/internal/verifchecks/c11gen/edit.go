//go:build verif

package c11gen

import (
	"encoding/json"
	"fmt"
	"sort"

	"k8s.io/apimachinery/pkg/runtime"
	"k8s.io/utils/ptr"
	"pgregory.net/rapid"

	extv1 "k8s.io/apiextensions-apiserver/pkg/apis/apiextensions/v1"

	xpv1 "github.com/crossplane/crossplane-runtime/apis/common/v1"

	v1 "github.com/crossplane/crossplane/apis/apiextensions/v1"
)

// An XRD edit that a user may make to an existing XRD without touching the
// immutable names: subtractive (only removes something), additive (only adds)
// or a value change.
type edit struct {
	name  string
	class string // "subtractive" | "additive" | "value"
	apply func()
}

func sortedKeys(m map[string]any) []string {
	ks := make([]string, 0, len(m))
	for k := range m {
		ks = append(ks, k)
	}
	sort.Strings(ks)
	return ks
}

func objAt(m map[string]any, path ...string) map[string]any {
	cur := m
	for _, p := range path {
		next, ok := cur[p].(map[string]any)
		if !ok {
			return nil
		}
		cur = next
	}
	return cur
}

// Edit derives an edited XRD (immutable names, claim offering and UID untouched)
// from old and reports the applied edits and their class: "subtractive",
// "additive", "value", "mixed" or "none".
func Edit(t *rapid.T, old *Case) (*Case, []string, string) {
	n := &Case{XRD: old.XRD.DeepCopy(), ConvInvalid: old.ConvInvalid, Terminating: old.Terminating,
		Structural: make([]bool, len(old.Structural)), SchemaKind: append([]string{}, old.SchemaKind...)}
	x := n.XRD

	// decode the author schemas that are JSON objects
	docs := make([]map[string]any, len(x.Spec.Versions))
	for i, vr := range x.Spec.Versions {
		if vr.Schema == nil {
			continue
		}
		d := map[string]any{}
		if err := json.Unmarshal(vr.Schema.OpenAPIV3Schema.Raw, &d); err == nil {
			docs[i] = d
		}
	}
	removed := map[int]bool{}

	var cands []edit
	add := func(name, class string, f func()) { cands = append(cands, edit{name, class, f}) }

	for i := range x.Spec.Versions {
		i := i
		d := docs[i]
		if d == nil {
			continue
		}
		for _, which := range []string{"spec", "status"} {
			which := which
			node := objAt(d, "properties", which)
			if node == nil {
				continue
			}
			if req, ok := node["required"].([]any); ok && len(req) > 0 {
				add(fmt.Sprintf("drop-last-required:%s", which), "subtractive", func() {
					if len(req) == 1 {
						delete(node, "required")
					} else {
						node["required"] = req[:len(req)-1]
					}
				})
				if len(req) > 1 {
					add(fmt.Sprintf("drop-first-required:%s", which), "subtractive", func() { node["required"] = req[1:] })
				}
			}
			if rules, ok := node["x-kubernetes-validations"].([]any); ok && len(rules) > 0 {
				add(fmt.Sprintf("drop-cel-rules:%s", which), "subtractive", func() { delete(node, "x-kubernetes-validations") })
				if len(rules) > 1 {
					add(fmt.Sprintf("drop-last-cel-rule:%s", which), "subtractive", func() { node["x-kubernetes-validations"] = rules[:len(rules)-1] })
				}
			}
			if _, ok := node["oneOf"]; ok {
				add(fmt.Sprintf("drop-oneOf:%s", which), "subtractive", func() { delete(node, "oneOf") })
			}
			if _, ok := node["description"]; ok {
				add(fmt.Sprintf("drop-description:%s", which), "subtractive", func() { delete(node, "description") })
			}
			if _, ok := node["x-kubernetes-preserve-unknown-fields"]; ok && which == "spec" {
				add("drop-preserve-unknown-fields:spec", "subtractive", func() { delete(node, "x-kubernetes-preserve-unknown-fields") })
			}
			props, _ := node["properties"].(map[string]any)
			for _, pn := range sortedKeys(props) {
				pn := pn
				add(fmt.Sprintf("drop-property:%s.%s", which, pn), "subtractive", func() { delete(props, pn) })
				add(fmt.Sprintf("change-property:%s.%s", which, pn), "value", func() {
					if _, ok := props[pn]; ok {
						props[pn] = map[string]any{"type": "array", "items": map[string]any{"type": "string"}, "maxItems": int64(7)}
					}
				})
				if pm, ok := props[pn].(map[string]any); ok {
					if sub, ok := pm["properties"].(map[string]any); ok && len(sub) > 0 {
						add(fmt.Sprintf("drop-nested-property:%s.%s", which, pn), "subtractive", func() { delete(sub, sortedKeys(sub)[0]) })
					}
				}
			}
			if props != nil {
				add(fmt.Sprintf("add-property:%s", which), "additive", func() { props["added"] = map[string]any{"type": "string"} })
			}
			add(fmt.Sprintf("add-required:%s", which), "additive", func() {
				req, _ := node["required"].([]any)
				node["required"] = append(append([]any{}, req...), "added")
			})
		}
		if name := objAt(d, "properties", "metadata", "properties", "name"); name != nil {
			if _, ok := name["maxLength"]; ok {
				add("drop-name-maxLength", "subtractive", func() { delete(name, "maxLength") })
				add("change-name-maxLength", "value", func() { name["maxLength"] = int64(33) })
			}
		}
		if !x.Spec.Versions[i].Referenceable && len(x.Spec.Versions) > 1 {
			if i == len(x.Spec.Versions)-1 {
				add("drop-last-version", "subtractive", func() { removed[i] = true })
			} else {
				add("drop-inner-version", "subtractive", func() { removed[i] = true })
			}
			add("toggle-served", "value", func() { x.Spec.Versions[i].Served = !x.Spec.Versions[i].Served })
		}
		if x.Spec.Versions[i].Deprecated != nil {
			add("drop-deprecated", "subtractive", func() { x.Spec.Versions[i].Deprecated, x.Spec.Versions[i].DeprecationWarning = nil, nil })
		}
	}
	if x.Spec.Conversion != nil {
		add("drop-conversion", "subtractive", func() { x.Spec.Conversion = nil; n.ConvInvalid = false })
	}
	if x.Spec.DefaultCompositionUpdatePolicy != nil {
		add("drop-default-update-policy", "subtractive", func() { x.Spec.DefaultCompositionUpdatePolicy = nil })
		add("change-default-update-policy", "value", func() {
			if p := x.Spec.DefaultCompositionUpdatePolicy; p == nil || *p == xpv1.UpdateManual {
				x.Spec.DefaultCompositionUpdatePolicy = ptr.To(xpv1.UpdateAutomatic)
			} else {
				x.Spec.DefaultCompositionUpdatePolicy = ptr.To(xpv1.UpdateManual)
			}
		})
	} else {
		add("add-default-update-policy", "additive", func() { x.Spec.DefaultCompositionUpdatePolicy = ptr.To(xpv1.UpdateManual) })
	}
	if x.Spec.DefaultCompositeDeletePolicy != nil {
		add("drop-default-delete-policy", "subtractive", func() { x.Spec.DefaultCompositeDeletePolicy = nil })
	} else {
		add("add-default-delete-policy", "additive", func() { x.Spec.DefaultCompositeDeletePolicy = ptr.To(xpv1.CompositeDeleteForeground) })
	}
	if len(x.Spec.Names.ShortNames) > 0 {
		add("drop-short-names", "subtractive", func() { x.Spec.Names.ShortNames = nil })
	} else {
		add("add-short-name", "additive", func() { x.Spec.Names.ShortNames = []string{"zz"} })
	}
	add("add-version", "additive", func() {
		x.Spec.Versions = append(x.Spec.Versions, v1.CompositeResourceDefinitionVersion{Name: "v9", Served: true,
			Schema: &v1.CompositeResourceValidation{OpenAPIV3Schema: runtime.RawExtension{Raw: []byte(`{"type":"object","properties":{"spec":{"type":"object","properties":{"size":{"type":"integer"}}}}}`)}}})
		docs = append(docs, nil)
		n.Structural, n.SchemaKind = append(n.Structural, true), append(n.SchemaKind, "grammar")
	})

	// choose a class, then 1-3 applicable edits of it
	mode := rapid.SampledFrom([]string{"subtractive", "subtractive", "subtractive", "subtractive", "additive", "value", "mixed", "mixed", "none"}).Draw(t, "editmode")
	var pool []edit
	for _, c := range cands {
		if mode == "mixed" || c.class == mode {
			pool = append(pool, c)
		}
	}
	var applied []string
	classes := map[string]bool{}
	if len(pool) > 0 && mode != "none" {
		k := rapid.IntRange(1, 3).Draw(t, "nedits")
		perm := rapid.Permutation(intsTo(len(pool))).Draw(t, "editorder")
		for _, idx := range perm {
			if k == 0 {
				break
			}
			pool[idx].apply()
			applied = append(applied, pool[idx].name)
			classes[pool[idx].class] = true
			k--
		}
	}
	class := "none"
	switch {
	case len(classes) > 1:
		class = "mixed"
	case len(classes) == 1:
		for c := range classes {
			class = c
		}
	}

	// re-encode the schemas and drop removed versions
	var versions []v1.CompositeResourceDefinitionVersion
	var structural []bool
	var kinds []string
	for i := range x.Spec.Versions {
		if removed[i] {
			continue
		}
		vr := x.Spec.Versions[i]
		if i < len(docs) && docs[i] != nil {
			raw, err := json.Marshal(docs[i])
			if err != nil {
				panic(err)
			}
			vr.Schema = &v1.CompositeResourceValidation{OpenAPIV3Schema: runtime.RawExtension{Raw: raw}}
		}
		versions = append(versions, vr)
		structural = append(structural, false) // edits do not preserve structural-by-construction
		kinds = append(kinds, n.SchemaKind[i])
	}
	x.Spec.Versions = versions
	n.Structural, n.SchemaKind = structural, kinds
	x.Generation++
	n.XRD = RoundTrip(x)
	n.Collide = Collision(n.XRD)
	return n, applied, class
}

func intsTo(n int) []int {
	out := make([]int, n)
	for i := range out {
		out[i] = i
	}
	return out
}

var _ = extv1.CustomResourceDefinition{}
