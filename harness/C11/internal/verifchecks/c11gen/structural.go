//go:build verif

package c11gen

import (
	"fmt"

	"k8s.io/apiextensions-apiserver/pkg/apis/apiextensions"
	extv1 "k8s.io/apiextensions-apiserver/pkg/apis/apiextensions/v1"
	structuralschema "k8s.io/apiextensions-apiserver/pkg/apiserver/schema"
	"k8s.io/apimachinery/pkg/util/validation/field"
)

// StructuralErrors judges every version's schema of a CRD the way the API
// server's structural-schema check does (conversion to the internal type,
// schema.NewStructural, schema.ValidateStructural). Full CRD validation is not
// available offline; this is the structural half only.
func StructuralErrors(crd *extv1.CustomResourceDefinition) []string {
	var out []string
	for i := range crd.Spec.Versions {
		v := crd.Spec.Versions[i]
		if v.Schema == nil || v.Schema.OpenAPIV3Schema == nil {
			out = append(out, fmt.Sprintf("version %s: no schema", v.Name))
			continue
		}
		for _, e := range SchemaStructuralErrors(v.Schema.OpenAPIV3Schema) {
			out = append(out, fmt.Sprintf("version %s: %s", v.Name, e))
		}
	}
	return out
}

// SchemaStructuralErrors judges one schema.
func SchemaStructuralErrors(s *extv1.JSONSchemaProps) []string {
	internal := &apiextensions.JSONSchemaProps{}
	if err := extv1.Convert_v1_JSONSchemaProps_To_apiextensions_JSONSchemaProps(s.DeepCopy(), internal, nil); err != nil {
		return []string{"conversion to internal schema: " + err.Error()}
	}
	ss, err := structuralschema.NewStructural(internal)
	if err != nil {
		return []string{"NewStructural: " + err.Error()}
	}
	var out []string
	for _, e := range structuralschema.ValidateStructural(field.NewPath("openAPIV3Schema"), ss) {
		out = append(out, e.Error())
	}
	return out
}
