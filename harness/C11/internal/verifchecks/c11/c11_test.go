//go:build verif

// Package c11 holds the part of property C11 that needs the real XRD
// reconcilers: over a history "XRD created -> reconciled -> XRD updated ->
// reconciled", the CRDs in the API server are the CRDs the property describes
// for the XRD as it is now.
package c11

import (
	"context"
	"fmt"
	"strings"
	"testing"

	extv1 "k8s.io/apiextensions-apiserver/pkg/apis/apiextensions/v1"
	"k8s.io/apimachinery/pkg/runtime"
	"k8s.io/apimachinery/pkg/types"
	"pgregory.net/rapid"
	"sigs.k8s.io/controller-runtime/pkg/client"
	"sigs.k8s.io/controller-runtime/pkg/reconcile"

	v1 "github.com/crossplane/crossplane/apis/apiextensions/v1"
	"github.com/crossplane/crossplane/internal/controller/apiextensions/definition"
	"github.com/crossplane/crossplane/internal/controller/apiextensions/offered"
	"github.com/crossplane/crossplane/internal/verifchecks/c11gen"
	"github.com/crossplane/crossplane/internal/verifkit"
	"github.com/crossplane/crossplane/internal/verifsim"
)

type env struct {
	t   *rapid.T
	sim *verifsim.Sim
	def *definition.Reconciler
	off *offered.Reconciler
}

// bytePreserving models an API server (or client cache) that hands a CRD's
// embedded JSON values (schema defaults, enums, examples) back byte-for-byte as
// they were submitted. The API contract promises neither this nor the
// re-serialisation verifsim (like today's kube-apiserver) performs, so the
// reconcilers have to be right under both. Only the bytes differ: whenever the
// stored spec is not JSON-equal to what this client last wrote, the stored one
// is returned untouched.
type bytePreserving struct {
	client.Client
	last map[string]*extv1.CustomResourceDefinitionSpec
}

func (c *bytePreserving) Get(ctx context.Context, key client.ObjectKey, obj client.Object, opts ...client.GetOption) error {
	err := c.Client.Get(ctx, key, obj, opts...)
	if crd, ok := obj.(*extv1.CustomResourceDefinition); ok && err == nil {
		if l := c.last[crd.Name]; l != nil && c11gen.JSON(c11gen.Norm(l)) == c11gen.JSON(c11gen.Norm(crd.Spec)) {
			l.DeepCopyInto(&crd.Spec)
		}
	}
	return err
}

func (c *bytePreserving) Create(ctx context.Context, obj client.Object, opts ...client.CreateOption) error {
	co := &client.CreateOptions{}
	co.ApplyOptions(opts)
	var spec *extv1.CustomResourceDefinitionSpec
	if crd, ok := obj.(*extv1.CustomResourceDefinition); ok {
		spec = crd.Spec.DeepCopy()
	}
	err := c.Client.Create(ctx, obj, opts...)
	if crd, ok := obj.(*extv1.CustomResourceDefinition); ok && err == nil && len(co.DryRun) == 0 {
		c.last[crd.Name] = spec
	}
	return err
}

func (c *bytePreserving) Update(ctx context.Context, obj client.Object, opts ...client.UpdateOption) error {
	uo := &client.UpdateOptions{}
	uo.ApplyOptions(opts)
	var spec *extv1.CustomResourceDefinitionSpec
	if crd, ok := obj.(*extv1.CustomResourceDefinition); ok {
		spec = crd.Spec.DeepCopy() // the inner client overwrites obj with the server's (re-serialised) answer
	}
	err := c.Client.Update(ctx, obj, opts...)
	if crd, ok := obj.(*extv1.CustomResourceDefinition); ok && err == nil && len(uo.DryRun) == 0 {
		c.last[crd.Name] = spec
	}
	return err
}

// newEnv wires the real reconcilers the way their Setup functions do (default
// client applicators, default CRD renderers, default finalizers). The
// controller engine is the packages' own NopEngine: the XR / claim controllers
// the reconcilers would start are not part of this property.
func newEnv(t *rapid.T, preserveBytes bool) *env {
	s := verifsim.New(verifsim.NewScheme())
	var dc, oc client.Client = s.Client("definition-controller"), s.Client("offered-controller")
	if preserveBytes {
		dc = &bytePreserving{Client: dc, last: map[string]*extv1.CustomResourceDefinitionSpec{}}
		oc = &bytePreserving{Client: oc, last: map[string]*extv1.CustomResourceDefinitionSpec{}}
	}
	return &env{
		t:   t,
		sim: s,
		def: definition.NewReconciler(definition.NewClientApplicator(dc), definition.WithControllerEngine(&definition.NopEngine{})),
		off: offered.NewReconciler(offered.NewClientApplicator(oc), offered.WithControllerEngine(&offered.NopEngine{})),
	}
}

func (e *env) reconcile(name string, claim bool, phase string) {
	req := reconcile.Request{NamespacedName: types.NamespacedName{Name: name}}
	func() {
		defer func() {
			if r := recover(); r != nil {
				e.t.Fatalf("%s: PANIC in the reconciler: %v", phase, r)
			}
		}()
		if _, err := e.def.Reconcile(context.Background(), req); err != nil {
			e.t.Fatalf("%s: definition reconciler: %v", phase, err)
		}
		if claim {
			if _, err := e.off.Reconcile(context.Background(), req); err != nil {
				e.t.Fatalf("%s: offered reconciler: %v", phase, err)
			}
		}
	}()
}

// establish plays the API server's naming/establishing controllers.
func (e *env) establish(names ...string) {
	c := e.sim.Client("apiserver")
	for _, n := range names {
		crd := &extv1.CustomResourceDefinition{}
		if err := c.Get(context.Background(), types.NamespacedName{Name: n}, crd); err != nil {
			e.t.Fatalf("CRD %s does not exist after the first reconcile: %v", n, err)
		}
		crd.Status.Conditions = []extv1.CustomResourceDefinitionCondition{
			{Type: extv1.NamesAccepted, Status: extv1.ConditionTrue, Reason: "NoConflicts"},
			{Type: extv1.Established, Status: extv1.ConditionTrue, Reason: "InitialNamesAccepted"},
		}
		crd.Status.AcceptedNames = crd.Spec.Names
		if err := c.Status().Update(context.Background(), crd); err != nil {
			e.t.Fatalf("cannot establish CRD %s: %v", n, err)
		}
	}
}

func (e *env) storedXRD(name string) *v1.CompositeResourceDefinition {
	x := &v1.CompositeResourceDefinition{}
	if err := e.sim.Client("observer").Get(context.Background(), types.NamespacedName{Name: name}, x); err != nil {
		e.t.Fatalf("cannot read XRD %s: %v", name, err)
	}
	return x
}

// judge compares the CRDs in the store with what the property says about the stored XRD. The oracle is
// c11gen.CheckCRD (golden machinery + author schema + versions/scope/owner), not a freshly rendered CRD.
// Server-populated metadata is not looked at.
func (e *env) judge(phase string, c *c11gen.Case) {
	x := e.storedXRD(c.XRD.Name)
	cc := *c
	cc.XRD = x
	f := &prefixed{t: e.t, prefix: phase + ": the CRD in the API server is not the one the XRD describes: "}
	check := func(name string, k c11gen.Kind) {
		o := e.sim.Get(verifsim.Key{Group: "apiextensions.k8s.io", Kind: "CustomResourceDefinition", Name: name})
		if o == nil {
			e.t.Fatalf("%s: CRD %s does not exist", phase, name)
		}
		crd := &extv1.CustomResourceDefinition{}
		if err := runtime.DefaultUnstructuredConverter.FromUnstructured(o, crd); err != nil {
			e.t.Fatalf("%s: cannot decode stored CRD %s: %v", phase, name, err)
		}
		c11gen.CheckCRD(f, k, &cc, crd)
	}
	check(x.Name, c11gen.Composite)
	if x.Spec.ClaimNames != nil {
		check(x.Spec.ClaimNames.Plural+"."+x.Spec.Group, c11gen.Claim)
	}
}

type prefixed struct {
	t      *rapid.T
	prefix string
}

func (p *prefixed) Fatalf(format string, args ...any) {
	p.t.Fatalf("%s%s", p.prefix, fmt.Sprintf(format, args...))
}

func parses(c *c11gen.Case) bool {
	for _, vr := range c.XRD.Spec.Versions {
		if _, ok := c11gen.ParseAuthor(vr); !ok {
			return false
		}
	}
	return true
}

func TestVerifC11History(t *testing.T) {
	rec := verifkit.New(t, "C11", "history on the simulated API server with the real definition/offered reconcilers and their default applicators: create XRD, reconcile, establish CRDs, reconcile, then 1-2 generated XRD edits (subtractive / additive / value change; immutable names untouched) each followed by ONE reconcile of each controller; after every step the stored CRDs are judged by the golden-machinery + author-schema oracle for the stored XRD; non-trivial = at least one edit applied; distinct = (XRD, edits)")
	rapid.Check(t, func(t *rapid.T) {
		c := c11gen.XRD(t)
		rec.Eval()
		// The reconcilers only store CRDs for XRDs the webhook admits: make the case derivable.
		if c.Collide != "" {
			c.XRD.Spec.ClaimNames, c.Collide = nil, ""
			rec.Label("history:collision-removed")
		}
		for i, vr := range c.XRD.Spec.Versions {
			if _, ok := c11gen.ParseAuthor(vr); !ok {
				c.XRD.Spec.Versions[i].Schema = &v1.CompositeResourceValidation{OpenAPIV3Schema: runtime.RawExtension{Raw: []byte(`{"type":"object"}`)}}
				rec.Label("history:undecodable-schema-replaced")
			}
		}
		preserve := rapid.Bool().Draw(t, "server-preserves-embedded-json-bytes")
		if preserve {
			rec.Label("history:server-preserves-bytes")
		} else {
			rec.Label("history:server-reserialises")
		}
		e := newEnv(t, preserve)
		x := c.XRD.DeepCopy()
		x.UID, x.ResourceVersion = "", ""
		e.sim.MustCreate("user", x)
		name, claim := x.Name, x.Spec.ClaimNames != nil
		crds := []string{name}
		if claim {
			crds = append(crds, x.Spec.ClaimNames.Plural+"."+x.Spec.Group)
			rec.Label("history:with-claim")
		}

		e.reconcile(name, claim, "first reconcile")
		e.judge("after creation", c)
		e.establish(crds...)
		e.reconcile(name, claim, "reconcile after the CRDs were established")
		e.judge("after establishing", c)

		cur := c
		var trail []string
		steps := rapid.IntRange(1, 2).Draw(t, "nupdates")
		for i := 0; i < steps; i++ {
			next, applied, class := c11gen.Edit(t, cur)
			rec.Label("edit:" + class)
			for _, a := range applied {
				rec.Label("edit-kind:" + strings.SplitN(a, ":", 2)[0])
			}
			if !parses(next) {
				rec.Label("history:edit-underivable")
				break
			}
			// the user updates the XRD's spec
			uc := e.sim.Client("user")
			live := e.storedXRD(name)
			live.Spec = next.XRD.Spec
			if err := uc.Update(context.Background(), live); err != nil {
				t.Fatalf("cannot update the XRD: %v", err)
			}
			// the update event triggers each controller once
			phase := fmt.Sprintf("after update %d (%s: %v)", i+1, class, applied)
			e.reconcile(name, claim, phase)
			e.judge(phase, next)
			cur = next
			trail = append(trail, applied...)
		}
		if len(trail) > 0 {
			rec.NonTrivial(c11gen.JSON([]any{c.XRD, trail}), func() any { return map[string]any{"xrd": c11gen.Norm(c.XRD), "edits": trail} })
		}
	})
}
