//go:build verif

package xcrd

import (
	"fmt"
	"reflect"
	"testing"

	extv1 "k8s.io/apiextensions-apiserver/pkg/apis/apiextensions/v1"
	"k8s.io/apimachinery/pkg/runtime"
	"k8s.io/utils/ptr"
	"pgregory.net/rapid"

	xpv1 "github.com/crossplane/crossplane-runtime/apis/common/v1"

	v1 "github.com/crossplane/crossplane/apis/apiextensions/v1"
	"github.com/crossplane/crossplane/internal/verifchecks/c11gen"
	"github.com/crossplane/crossplane/internal/verifkit"
)

// ---------------------------------------------------------------------------
// helpers

type c11Fataler = c11gen.Fataler

func c11Call(t c11Fataler, what string, f func()) {
	defer func() {
		if r := recover(); r != nil {
			t.Fatalf("PANIC in %s: %v", what, r)
		}
	}()
	f()
}

// ---------------------------------------------------------------------------
// the property

func c11DeriveProp(rec *verifkit.Recorder) func(t *rapid.T) {
	return func(t *rapid.T) {
		c := c11gen.XRD(t)
		if rapid.IntRange(0, 3).Draw(t, "terminating") == 0 {
			// An XRD that is being deleted is still rendered by its controllers (to find the CRD to clean up):
			// the derived CRDs are the same.
			c = c11gen.Terminate(c)
		}
		rec.Eval()
		for _, l := range c.Labels {
			rec.Label(l)
		}
		x := c.XRD
		parses, structural := true, true
		for i, vr := range x.Spec.Versions {
			rec.Label("schema:" + c.SchemaKind[i])
			if _, ok := c11gen.ParseAuthor(vr); !ok {
				parses = false
			}
			structural = structural && c.Structural[i]
		}
		before := c11gen.JSON(x)

		// composite
		var comp *extv1.CustomResourceDefinition
		var err error
		c11Call(t, "ForCompositeResource", func() { comp, err = ForCompositeResource(x) })
		switch {
		case !parses && err == nil:
			t.Fatalf("ForCompositeResource succeeded although a version has no decodable schema\nXRD: %s", before)
		case !parses:
			rec.Label("composite:undecodable-schema-refused")
		case err != nil:
			t.Fatalf("ForCompositeResource failed for an XRD whose schemas all decode: %v\nXRD: %s", err, before)
		default:
			c11gen.CheckCRD(t, c11gen.Composite, c, comp)
			if structural {
				if errs := c11gen.StructuralErrors(comp); len(errs) > 0 {
					t.Fatalf("composite CRD derived from structural author schemas is not structural: %v\nXRD: %s", errs, before)
				}
				rec.Label("composite:structural-ok")
			}
		}

		// claim
		var claim *extv1.CustomResourceDefinition
		c11Call(t, "ForCompositeResourceClaim", func() { claim, err = ForCompositeResourceClaim(x) })
		switch {
		case x.Spec.ClaimNames == nil:
			if err == nil {
				t.Fatalf("ForCompositeResourceClaim produced a CRD for an XRD that offers no claim\nXRD: %s", before)
			}
		case c.Collide != "":
			if err == nil {
				t.Fatalf("claim %s %q collides with the composite's but ForCompositeResourceClaim accepted it\nXRD: %s", c.Collide, c11gen.JSON(x.Spec.ClaimNames), before)
			}
			rec.Label("claim:collision-refused")
		case !parses && err == nil:
			t.Fatalf("ForCompositeResourceClaim succeeded although a version has no decodable schema\nXRD: %s", before)
		case !parses:
		case err != nil:
			t.Fatalf("ForCompositeResourceClaim failed for distinct claim names and decodable schemas: %v\nXRD: %s", err, before)
		default:
			c11gen.CheckCRD(t, c11gen.Claim, c, claim)
			if structural {
				if errs := c11gen.StructuralErrors(claim); len(errs) > 0 {
					t.Fatalf("claim CRD derived from structural author schemas is not structural: %v\nXRD: %s", errs, before)
				}
				rec.Label("claim:structural-ok")
			}
			rec.Label("claim:derived")
		}

		// The webhook validator derives both CRDs from one XRD object and submits both: the property's clauses
		// must still hold for the composite CRD after the claim CRD has been derived from the same object.
		if parses && comp != nil {
			c11gen.CheckCRD(t, c11gen.Composite, c, comp)
			if structural {
				if errs := c11gen.StructuralErrors(comp); len(errs) > 0 {
					t.Fatalf("composite CRD is no longer structural after the claim CRD was derived from the same XRD: %v\nXRD: %s", errs, before)
				}
			}
		}

		if parses {
			if c.Shadows > 0 {
				rec.Label("shadowing")
			}
			rec.NonTrivial(before, func() any { return map[string]any{"xrd": c11gen.Norm(x), "collide": c.Collide, "shadows": c.Shadows} })
		}
	}
}

func TestVerifC11Derive(t *testing.T) {
	rec := verifkit.New(t, "C11", "generated XRD (1-3 versions, one referenceable, grammar/hostile/nil schemas, claim names none/distinct/colliding, policies, conversion) -> both CRDs vs oracle; non-trivial = all schemas decode; distinct = XRD JSON")
	rapid.Check(t, c11DeriveProp(rec))
}

func FuzzVerifC11Derive(f *testing.F) {
	rec := verifkit.New(f, "C11", "fuzz: derivation")
	f.Fuzz(rapid.MakeFuzz(c11DeriveProp(rec)))
}

// ---------------------------------------------------------------------------
// Observations (NOT part of the property; they never fail the check).
//
// Deriving both CRDs from one XRD object, as the webhook's getAllCRDsForXRD
// does, shares mutable state on the pinned tree: (1) both derivations append
// their default printer columns into the XRD's column slice, so the composite
// CRD's default columns are rewritten when the claim CRD is derived (needs
// spare slice capacity, e.g. 9 author columns); (2) setCrdMetadata merges
// spec.metadata.labels into the XRD's own label map. Property C11 says nothing
// about printer columns or about the XRD argument, so these are only counted
// as labels in the evidence. Whether the PROPERTY's clauses survive same-object
// derivation is checked in c11DeriveProp (the composite CRD is re-judged after
// the claim CRD has been derived from the same object).

// c11Observe returns the observation labels for one XRD ("" entries omitted).
func c11Observe(x *v1.CompositeResourceDefinition) (labels []string, derived bool) {
	defer func() {
		if r := recover(); r != nil {
			labels, derived = nil, false
		}
	}()
	x = c11gen.RoundTrip(x) // a private copy that keeps the slice capacities JSON decoding produces
	before := c11gen.JSON(x)
	comp, err := ForCompositeResource(x)
	if err != nil {
		return nil, false
	}
	if c11gen.JSON(x) != before {
		labels = append(labels, "observation:derivation-wrote-xrd-labels")
	}
	compJSON := c11gen.JSON(comp)
	if _, err := ForCompositeResourceClaim(x); err != nil {
		return labels, false
	}
	if c11gen.JSON(comp) != compJSON {
		labels = append(labels, "observation:printer-column-aliasing")
	}
	return labels, true
}

func TestVerifC11Observations(t *testing.T) {
	rec := verifkit.New(t, "C11", "observations only (never fail): same-object derivation of both CRDs; labels count XRDs whose label map was written / whose composite CRD printer columns were rewritten")
	rapid.Check(t, func(t *rapid.T) {
		c := c11gen.XRD(t)
		rec.Eval()
		labels, derived := c11Observe(c.XRD)
		for _, l := range labels {
			rec.Label(l)
		}
		if derived {
			rec.Label("observation:both-derived")
		}
	})
}

// c11RawProp feeds arbitrary bytes as the author schema: derivation is total,
// and whenever the bytes decode as a JSON schema the machinery, versions,
// scope and owner reference oracles hold whatever the schema says.
func c11RawProp(rec *verifkit.Recorder) func(t *rapid.T) {
	return func(t *rapid.T) {
		c := c11gen.XRD(t)
		rec.Eval()
		var raw []byte
		if rapid.IntRange(0, 5).Draw(t, "bytes") == 0 {
			raw = rapid.SliceOfN(rapid.Byte(), 0, 200).Draw(t, "raw")
		} else {
			raw = []byte(c11gen.JSON(c11gen.Loose(t, 4)))
		}
		x := c.XRD
		i := rapid.IntRange(0, len(x.Spec.Versions)-1).Draw(t, "which")
		x.Spec.Versions[i].Schema = &v1.CompositeResourceValidation{OpenAPIV3Schema: runtime.RawExtension{Raw: raw}}
		c.Structural[i] = false
		parses := true
		for _, vr := range x.Spec.Versions {
			if _, ok := c11gen.ParseAuthor(vr); !ok {
				parses = false
			}
		}
		var comp, claim *extv1.CustomResourceDefinition
		var err, cerr error
		c11Call(t, "ForCompositeResource", func() { comp, err = ForCompositeResource(x) })
		c11Call(t, "ForCompositeResourceClaim", func() { claim, cerr = ForCompositeResourceClaim(x) })
		if parses != (err == nil) {
			t.Fatalf("ForCompositeResource: schemas decode=%v but err=%v\nraw: %q", parses, err, raw)
		}
		if !parses {
			rec.Label("raw:undecodable")
			return
		}
		rec.Label("raw:decodable")
		c11gen.CheckCRD(t, c11gen.Composite, c, comp)
		if x.Spec.ClaimNames != nil && c.Collide == "" {
			if cerr != nil {
				t.Fatalf("ForCompositeResourceClaim: %v\nraw: %q", cerr, raw)
			}
			c11gen.CheckCRD(t, c11gen.Claim, c, claim)
		} else if cerr == nil {
			t.Fatalf("ForCompositeResourceClaim accepted missing or colliding claim names")
		}
		rec.NonTrivial(string(raw), func() any { return string(raw) })
	}
}

func TestVerifC11Raw(t *testing.T) {
	rec := verifkit.New(t, "C11", "arbitrary bytes / schema-ish JSON as the author schema; non-trivial = decodes as a JSON schema; distinct = bytes")
	rapid.Check(t, c11RawProp(rec))
}

func FuzzVerifC11Raw(f *testing.F) {
	rec := verifkit.New(f, "C11", "fuzz: raw author schema")
	f.Fuzz(rapid.MakeFuzz(c11RawProp(rec)))
}

// ---------------------------------------------------------------------------
// updates: group and kind/plural (and claim kind/plural once both sides have them) cannot change

func TestVerifC11ValidateUpdate(t *testing.T) {
	rec := verifkit.New(t, "C11", "(old,new) XRD pairs, new = old with a drawn subset of 15 mutations; non-trivial = at least one mutation; distinct = (old,new) JSON")
	rapid.Check(t, func(t *rapid.T) {
		old := c11gen.XRD(t)
		upd, m := c11gen.Update(t, old)
		if rapid.IntRange(0, 2).Draw(t, "terminating") == 0 {
			// being deleted, finalizers held: immutability is not relaxed
			old, upd = c11gen.Terminate(old), c11gen.Terminate(upd)
			rec.Label("validate-update:terminating")
		}
		rec.Eval()
		var errs []string
		fields := map[string]bool{}
		c11Call(t, "ValidateUpdate", func() {
			_, el := upd.XRD.ValidateUpdate(old.XRD)
			for _, e := range el {
				errs = append(errs, e.Error())
				// Which names were refused is read from the error's field path, never from its wording.
				switch e.Field {
				case "spec.group", "spec.names.kind", "spec.names.plural", "spec.claimNames.kind", "spec.claimNames.plural":
					fields[e.Field] = true
				}
			}
		})
		want := map[string]bool{}
		for f, changed := range map[string]bool{
			"spec.group": m.Group, "spec.names.kind": m.Kind, "spec.names.plural": m.Plural,
			"spec.claimNames.kind": m.ClaimKind, "spec.claimNames.plural": m.ClaimPlural,
		} {
			if changed {
				want[f] = true
				rec.Label("changed:" + f)
			}
		}
		for f := range want {
			if !fields[f] {
				t.Fatalf("%s changed but ValidateUpdate did not refuse it (errors: %v)\nold: %s\nnew: %s", f, errs, c11gen.JSON(old.XRD), c11gen.JSON(upd.XRD))
			}
		}
		for f := range fields {
			if !want[f] {
				t.Fatalf("ValidateUpdate refuses %s but it did not change\nold: %s\nnew: %s", f, c11gen.JSON(old.XRD), c11gen.JSON(upd.XRD))
			}
		}
		if len(want) > 0 && len(errs) == 0 {
			t.Fatalf("immutable names changed but the update was accepted")
		}
		if len(want) == 0 && !upd.ConvInvalid && len(errs) > 0 {
			t.Fatalf("an update that changes no immutable name and has valid conversion settings was refused: %v\nold: %s\nnew: %s", errs, c11gen.JSON(old.XRD), c11gen.JSON(upd.XRD))
		}
		if upd.ConvInvalid && len(errs) == 0 {
			t.Fatalf("webhook conversion without client config was accepted")
		}
		if m.ClaimAdded {
			rec.Label("claim-added")
		}
		if m.ClaimRemoved {
			rec.Label("claim-removed")
		}
		if len(want) == 0 {
			rec.Label("no-immutable-change")
		}
		if len(want) > 0 || len(m.Other) > 0 || m.ClaimAdded || m.ClaimRemoved {
			rec.NonTrivial(c11gen.JSON([]any{old.XRD, upd.XRD}), func() any { return map[string]any{"mutation": m, "errors": errs} })
		}
	})
}

// ---------------------------------------------------------------------------
// the golden documents agree with what the tree exports (an edit to schemas.go
// shows up here even before a derived CRD is looked at)

func TestVerifC11Golden(t *testing.T) {
	rec := verifkit.New(t, "C11", "golden machinery documents vs exported schema functions")
	for _, row := range []struct {
		name   string
		golden string
		got    map[string]extv1.JSONSchemaProps
	}{
		{"CompositeResourceSpecProps", c11gen.GoldenCompositeSpec, CompositeResourceSpecProps()},
		{"CompositeResourceClaimSpecProps", c11gen.GoldenClaimSpec, CompositeResourceClaimSpecProps()},
		{"CompositeResourceStatusProps", c11gen.GoldenStatus, CompositeResourceStatusProps()},
	} {
		rec.Eval()
		want := c11gen.Golden(row.golden)
		got := c11gen.SortRequired(c11gen.Norm(row.got))
		if !reflect.DeepEqual(got, any(want)) {
			t.Errorf("%s differs from the golden machinery schema:\n got  %s\n want %s", row.name, c11gen.JSON(got), c11gen.JSON(want))
		}
		rec.NonTrivial(row.name, func() any { return row.name })
	}
}

// ---------------------------------------------------------------------------
// pinned rows (hand-written XRDs; every failure ever found is added here)

func c11Pinned(schema string, mut func(*v1.CompositeResourceDefinition)) *c11gen.Case {
	x := &v1.CompositeResourceDefinition{}
	x.Name = "xdatabases.example.org"
	x.UID = "pinned-uid"
	x.Spec.Group = "example.org"
	x.Spec.Names = extv1.CustomResourceDefinitionNames{Kind: "XDatabase", Plural: "xdatabases", Singular: "xdatabase", ListKind: "XDatabaseList"}
	x.Spec.ClaimNames = &extv1.CustomResourceDefinitionNames{Kind: "Database", Plural: "databases"}
	x.Spec.Versions = []v1.CompositeResourceDefinitionVersion{
		{Name: "v1alpha1", Served: true, Schema: &v1.CompositeResourceValidation{OpenAPIV3Schema: runtime.RawExtension{Raw: []byte(schema)}}},
		{Name: "v1", Served: true, Referenceable: true, Schema: &v1.CompositeResourceValidation{OpenAPIV3Schema: runtime.RawExtension{Raw: []byte(schema)}}},
	}
	if mut != nil {
		mut(x)
	}
	return &c11gen.Case{XRD: c11gen.RoundTrip(x), Structural: []bool{true, true}, SchemaKind: []string{"pinned", "pinned"}}
}

func TestVerifC11Pinned(t *testing.T) {
	rec := verifkit.New(t, "C11", "pinned XRDs")
	shadowAll := `{"type":"object","properties":{
	  "spec":{"type":"object","required":["size","claimRef"],"x-kubernetes-validations":[{"rule":"self.size > 0"}],
	    "oneOf":[{"required":["size"]},{"required":["compositionRef"]}],
	    "properties":{"size":{"type":"integer"},
	      "compositionRef":{"type":"string"},"compositionSelector":{"type":"string"},"compositionRevisionRef":{"type":"string"},
	      "compositionRevisionSelector":{"type":"string"},"compositionUpdatePolicy":{"type":"integer","default":3},
	      "compositeDeletePolicy":{"type":"string","default":"Orphan"},"claimRef":{"type":"string"},"resourceRef":{"type":"string"},
	      "resourceRefs":{"type":"string"},"publishConnectionDetailsTo":{"type":"string"},"writeConnectionSecretToRef":{"type":"object","x-kubernetes-preserve-unknown-fields":true}}},
	  "status":{"type":"object","required":["address"],"x-kubernetes-validations":[{"rule":"has(self.address)"}],
	    "properties":{"address":{"type":"string"},"conditions":{"type":"string"},"connectionDetails":{"type":"string"},"claimConditionTypes":{"type":"string"}}},
	  "metadata":{"type":"object","properties":{"name":{"type":"string","maxLength":20}}}}}`
	rows := []struct {
		name string
		c    *c11gen.Case
	}{
		{"shadow-every-machinery-field", c11Pinned(shadowAll, nil)},
		{"shadow-with-default-policies", c11Pinned(shadowAll, func(x *v1.CompositeResourceDefinition) {
			x.Spec.DefaultCompositeDeletePolicy = ptr.To(xpv1.CompositeDeleteForeground)
			x.Spec.DefaultCompositionUpdatePolicy = ptr.To(xpv1.UpdateManual)
		})},
		{"empty-schema", c11Pinned(`{}`, nil)},
		{"maxlength-above-63", c11Pinned(`{"properties":{"metadata":{"properties":{"name":{"maxLength":253}}}}}`, nil)},
	}
	for _, r := range rows {
		rec.Eval()
		pt := &c11Pin{t: t, name: r.name}
		func() {
			defer func() {
				if p := recover(); p != nil && p != any(pt) {
					t.Errorf("pinned %s: PANIC %v", r.name, p)
				}
			}()
			comp, err := ForCompositeResource(r.c.XRD)
			if err != nil {
				pt.Fatalf("ForCompositeResource: %v", err)
			}
			c11gen.CheckCRD(pt, c11gen.Composite, r.c, comp)
			claim, err := ForCompositeResourceClaim(r.c.XRD)
			if err != nil {
				pt.Fatalf("ForCompositeResourceClaim: %v", err)
			}
			c11gen.CheckCRD(pt, c11gen.Claim, r.c, claim)
			for _, crd := range []*extv1.CustomResourceDefinition{comp, claim} {
				if errs := c11gen.StructuralErrors(crd); len(errs) > 0 {
					pt.Fatalf("not structural: %v", errs)
				}
			}
		}()
		rec.NonTrivial(r.name, func() any { return r.name })
	}

	// Observations on the pinned tree (not part of the property, never fail; see c11Observe).
	for _, r := range []struct {
		name string
		c    *c11gen.Case
	}{
		{"nine-printer-columns", c11Pinned(`{}`, func(x *v1.CompositeResourceDefinition) {
			for i := range x.Spec.Versions {
				for j := 0; j < 9; j++ {
					x.Spec.Versions[i].AdditionalPrinterColumns = append(x.Spec.Versions[i].AdditionalPrinterColumns,
						extv1.CustomResourceColumnDefinition{Name: fmt.Sprintf("C%d", j), Type: "string", JSONPath: fmt.Sprintf(".spec.c%d", j)})
				}
			}
		})},
		{"xrd-labels-and-spec-metadata-labels", c11Pinned(`{}`, func(x *v1.CompositeResourceDefinition) {
			x.Labels = map[string]string{"team": "a"}
			x.Spec.Metadata = &v1.CompositeResourceDefinitionSpecMetadata{Labels: map[string]string{"tier": "gold"}}
		})},
	} {
		rec.Eval()
		labels, _ := c11Observe(r.c.XRD)
		for _, l := range labels {
			rec.Label(l + ":pinned-" + r.name)
		}
		// The property's clauses hold for these XRDs when both CRDs come from the same object.
		pt := &c11Pin{t: t, name: r.name}
		func() {
			defer func() {
				if p := recover(); p != nil && p != any(pt) {
					t.Errorf("pinned %s: PANIC %v", r.name, p)
				}
			}()
			x := r.c.XRD
			comp, err := ForCompositeResource(x)
			if err != nil {
				pt.Fatalf("ForCompositeResource: %v", err)
			}
			claim, err := ForCompositeResourceClaim(x)
			if err != nil {
				pt.Fatalf("ForCompositeResourceClaim: %v", err)
			}
			c11gen.CheckCRD(pt, c11gen.Composite, r.c, comp)
			c11gen.CheckCRD(pt, c11gen.Claim, r.c, claim)
		}()
		rec.NonTrivial(r.name, func() any { return r.name })
	}

	// collisions, one per name field
	for _, f := range []string{"kind", "plural", "singular", "listKind"} {
		rec.Eval()
		c := c11Pinned(`{}`, func(x *v1.CompositeResourceDefinition) {
			switch f {
			case "kind":
				x.Spec.ClaimNames.Kind = x.Spec.Names.Kind
			case "plural":
				x.Spec.ClaimNames.Plural = x.Spec.Names.Plural
			case "singular":
				x.Spec.ClaimNames.Singular = x.Spec.Names.Singular
			case "listKind":
				x.Spec.ClaimNames.ListKind = x.Spec.Names.ListKind
			}
		})
		if _, err := ForCompositeResourceClaim(c.XRD); err == nil {
			t.Errorf("pinned collision on %s: accepted", f)
		}
		rec.NonTrivial("collide-"+f, func() any { return f })
	}
}

type c11Pin struct {
	t    *testing.T
	name string
}

func (p *c11Pin) Fatalf(format string, args ...any) {
	p.t.Errorf("pinned %s: %s", p.name, fmt.Sprintf(format, args...))
	panic(any(p))
}
