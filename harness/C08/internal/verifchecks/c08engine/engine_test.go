//go:build verif

// Package c08engine is the engine half of property C08: the XRD reconcilers delete the CRD once
// ControllerEngine.Stop has returned nil (and treat a controller that IsRunning does not report as
// stopped), so "the controller serving the instances has been stopped" holds only if the real engine keeps
// that promise - also when a watch fails to stop and the Stop is retried. The fakes, the scheduler and the
// world are the ones of the C13 check (copied; package c13 explains them).
package c08engine

import (
	"context"
	"fmt"
	"sort"
	"strings"
	"sync"
	"testing"
	"time"

	corev1 "k8s.io/api/core/v1"
	"k8s.io/apimachinery/pkg/apis/meta/v1/unstructured"
	"k8s.io/apimachinery/pkg/runtime/schema"
	"pgregory.net/rapid"
	"sigs.k8s.io/controller-runtime/pkg/client"
	kcontroller "sigs.k8s.io/controller-runtime/pkg/controller"
	"sigs.k8s.io/controller-runtime/pkg/manager"

	"github.com/crossplane/crossplane-runtime/pkg/resource"
	"github.com/crossplane/crossplane-runtime/pkg/resource/unstructured/composite"

	v1 "github.com/crossplane/crossplane/apis/apiextensions/v1"
	"github.com/crossplane/crossplane/internal/controller/apiextensions/composite/watch"
	"github.com/crossplane/crossplane/internal/engine"
	"github.com/crossplane/crossplane/internal/verifkit"
	"github.com/crossplane/crossplane/internal/verifsim"
)

var (
	ctrlNames     = []string{"c0", "c1"}
	composedKinds = []string{"KindA", "KindB", "KindC"}
	revGVK        = v1.CompositionRevisionGroupVersionKind
)

func gvk(kind string) schema.GroupVersionKind {
	return schema.GroupVersionKind{Group: "example.org", Version: "v1", Kind: kind}
}

func xrKind(ctrl string) string    { return "X" + strings.ToUpper(ctrl) }
func claimKind(ctrl string) string { return "Claim" + strings.ToUpper(ctrl) }

// watchSpec names one watch of a controller.
type watchSpec struct {
	Type engine.WatchType
	GVK  schema.GroupVersionKind
}

func (w watchSpec) String() string { return string(w.Type) + ":" + w.GVK.Kind }

// allWatches lists every watch a controller may ask for.
func allWatches(ctrl string) []watchSpec {
	ws := []watchSpec{
		{engine.WatchTypeCompositeResource, gvk(xrKind(ctrl))},
		{engine.WatchTypeCompositionRevision, revGVK},
		{engine.WatchTypeClaim, gvk(claimKind(ctrl))},
	}
	for _, k := range composedKinds {
		ws = append(ws, watchSpec{engine.WatchTypeComposedResource, gvk(k)})
	}
	return ws
}

// world wires the real engine to the fakes.
type world struct {
	sim   *verifsim.Sim
	y     *sched
	cache *fakeCache
	infs  *yieldingInfs
	eng   *engine.ControllerEngine
	hits  *hitLog

	mu         sync.Mutex
	instances_ map[string][]*fakeController
	failNext   map[string]bool
	removed    map[schema.GroupVersionKind]bool // RemoveInformer was issued for this kind at some point
}

func newWorld() *world {
	s := verifsim.New(verifsim.NewScheme())
	y := newSched()
	fc := newFakeCache(s.Scheme, y)
	w := &world{sim: s, y: y, cache: fc, hits: &hitLog{}, instances_: map[string][]*fakeController{}, failNext: map[string]bool{}, removed: map[schema.GroupVersionKind]bool{}}
	w.infs = &yieldingInfs{InformerTrackingCache: engine.TrackInformers(fc, s.Scheme), y: y}
	mgr := &fakeManager{scheme: s.Scheme, elected: make(chan struct{})}
	close(mgr.elected)
	c := s.Client("engine")
	w.eng = engine.New(mgr, w.infs, c, c)
	return w
}

func (w *world) newControllerFn(name string, _ manager.Manager, _ kcontroller.Options) (kcontroller.Controller, error) {
	w.y.yield("NewControllerFn " + name)
	w.mu.Lock()
	defer w.mu.Unlock()
	fc := &fakeController{name: name, y: w.y, failing: w.failNext[name], quit: make(chan struct{})}
	w.failNext[name] = false
	w.instances_[name] = append(w.instances_[name], fc)
	return fc, nil
}

func (w *world) kindObj(g schema.GroupVersionKind) client.Object {
	if g == revGVK {
		return &v1.CompositionRevision{}
	}
	u := &unstructured.Unstructured{}
	u.SetGroupVersionKind(g)
	return u
}

func (w *world) watchFor(ctrl string, ws watchSpec) engine.Watch {
	return engine.WatchFor(w.kindObj(ws.GVK), ws.Type, &idHandler{id: handlerID{Controller: ctrl, Type: ws.Type, GVK: ws.GVK}, log: w.hits})
}

// ---------------------------------------------------------------------------
// operations

type op struct {
	Kind    string      `json:"op"`
	Ctrl    string      `json:"ctrl,omitempty"`
	Failing bool        `json:"failing,omitempty"`
	Watches []watchSpec `json:"watches,omitempty"`
	GVK     string      `json:"gvk,omitempty"`
}

func (o op) String() string {
	switch o.Kind {
	case "Start":
		return fmt.Sprintf("Start(%s,failing=%v)", o.Ctrl, o.Failing)
	case "StartWatches", "StopWatches":
		return fmt.Sprintf("%s(%s,%v)", o.Kind, o.Ctrl, o.Watches)
	case "RemoveInformer", "FailGet", "FailRemove":
		return o.Kind + "(" + o.GVK + ")"
	}
	return o.Kind + "(" + o.Ctrl + ")"
}

func genOp(lifecycle bool) *rapid.Generator[op] {
	return rapid.Custom(func(t *rapid.T) op {
		ctrl := rapid.SampledFrom(ctrlNames).Draw(t, "ctrl")
		kinds := []string{"StartWatches", "StartWatches", "StartWatches", "StopWatches", "GetWatches", "IsRunning", "GC", "RemoveInformer", "FailGet", "FailRemove"}
		if lifecycle {
			kinds = append(kinds, "Start", "Start", "Stop")
		}
		o := op{Kind: rapid.SampledFrom(kinds).Draw(t, "op"), Ctrl: ctrl}
		switch o.Kind {
		case "Start":
			o.Failing = rapid.IntRange(0, 5).Draw(t, "failing") == 0
		case "StartWatches", "StopWatches":
			all := allWatches(ctrl)
			n := rapid.IntRange(1, 3).Draw(t, "nw")
			for i := 0; i < n; i++ {
				o.Watches = append(o.Watches, rapid.SampledFrom(all).Draw(t, "w"))
			}
		case "RemoveInformer", "FailGet", "FailRemove":
			o.GVK = rapid.SampledFrom(append(append([]string{}, composedKinds...), xrKind(ctrl))).Draw(t, "rmkind")
		}
		return o
	})
}

// exec runs one operation against the real engine and returns a one-line result.
func (w *world) exec(o op) string {
	ctx := context.Background()
	switch o.Kind {
	case "Start":
		w.mu.Lock()
		w.failNext[o.Ctrl] = o.Failing
		w.mu.Unlock()
		err := w.eng.Start(o.Ctrl, engine.WithNewControllerFn(w.newControllerFn))
		return fmt.Sprint(err)
	case "Stop":
		return fmt.Sprint(w.eng.Stop(ctx, o.Ctrl))
	case "IsRunning":
		return fmt.Sprint(w.eng.IsRunning(o.Ctrl))
	case "StartWatches":
		var ws []engine.Watch
		for _, s := range o.Watches {
			ws = append(ws, w.watchFor(o.Ctrl, s))
		}
		return fmt.Sprint(w.eng.StartWatches(o.Ctrl, ws...))
	case "StopWatches":
		var ids []engine.WatchID
		for _, s := range o.Watches {
			ids = append(ids, engine.WatchID{Type: s.Type, GVK: s.GVK})
		}
		n, err := w.eng.StopWatches(ctx, o.Ctrl, ids...)
		return fmt.Sprint(n, err)
	case "GetWatches":
		ids, err := w.eng.GetWatches(o.Ctrl)
		return fmt.Sprint(len(ids), err)
	case "GC":
		gc := watch.NewGarbageCollector(o.Ctrl, resource.CompositeKind(gvk(xrKind(o.Ctrl))), w.eng)
		return fmt.Sprint(gc.GarbageCollectWatchesNow(ctx))
	case "FailGet":
		w.cache.mu.Lock()
		w.cache.failGet[gvk(o.GVK)] = 1
		w.cache.mu.Unlock()
		return "armed"
	case "FailRemove":
		w.cache.mu.Lock()
		w.cache.failRemove[gvk(o.GVK)] = 1
		w.cache.mu.Unlock()
		return "armed"
	case "RemoveInformer":
		w.mu.Lock()
		w.removed[gvk(o.GVK)] = true
		w.mu.Unlock()
		return fmt.Sprint(w.infs.RemoveInformer(ctx, w.kindObj(gvk(o.GVK))))
	}
	return "?"
}

// cleanup stops every controller so that a finished case leaves no goroutines behind (20 000 cases per shard
// in the thorough tier would otherwise accumulate blocked controller goroutines until the process is killed).
func (w *world) cleanup() {
	w.y.mu.Lock()
	w.y.enabled = false
	w.y.mu.Unlock()
	w.cache.mu.Lock()
	w.cache.failGet = map[schema.GroupVersionKind]int{}
	w.cache.failRemove = map[schema.GroupVersionKind]int{}
	w.cache.mu.Unlock()
	// Bounded: after a detected deadlock the engine's locks are held for good and Stop would hang with them -
	// the failure must still be reported (a hanging cleanup turns a violation into a timeout).
	done := make(chan struct{})
	go func() {
		defer close(done)
		for _, c := range ctrlNames {
			_ = w.eng.Stop(context.Background(), c)
		}
	}()
	select {
	case <-done:
	case <-time.After(3 * time.Second):
	}
	// instances that were created but are no longer tracked by the engine (seeded defects may orphan them)
	w.mu.Lock()
	for _, l := range w.instances_ {
		for _, fc := range l {
			fc.abandon()
		}
	}
	w.mu.Unlock()
}

// seedXRs stores XRs of the controller's kind referencing the given composed kinds.
func (w *world) seedXRs(ctrl string, refs [][]string) {
	for i, kinds := range refs {
		xr := composite.New(composite.WithGroupVersionKind(gvk(xrKind(ctrl))))
		xr.SetName(fmt.Sprintf("%s-xr%d", ctrl, i))
		var rr []corev1.ObjectReference
		for j, k := range kinds {
			rr = append(rr, corev1.ObjectReference{APIVersion: "example.org/v1", Kind: k, Name: fmt.Sprintf("cd%d", j)})
		}
		xr.SetResourceReferences(rr)
		w.sim.MustCreate("setup", xr)
	}
}

// ---------------------------------------------------------------------------
// observations shared by the tests

func (w *world) listed(ctrl string) (map[watchSpec]bool, bool) {
	ids, err := w.eng.GetWatches(ctrl)
	if err != nil {
		return nil, false
	}
	out := map[watchSpec]bool{}
	for _, id := range ids {
		out[watchSpec{id.Type, id.GVK}] = true
	}
	return out, true
}

// instances reports the live (started, context not cancelled) and the pending (created, but the engine's
// goroutine has not called Start yet) controller instances of a name. A pending instance is neither proof of a
// running controller nor of a leaked one: the goroutine may simply not have been scheduled yet.
func (w *world) instances(ctrl string) (alive, pending int) {
	w.mu.Lock()
	defer w.mu.Unlock()
	for _, fc := range w.instances_[ctrl] {
		if fc.failing {
			continue
		}
		fc.mu.Lock()
		started := fc.started
		fc.mu.Unlock()
		switch {
		case !started:
			pending++
		case !fc.cancelled():
			alive++
		}
	}
	return alive, pending
}

// instancesOK is the property's "running exactly from a successful start until its stop" at the level of
// controller instances: a running controller has exactly one live instance, a stopped one has none.
func (w *world) instancesOK(ctrl string, running bool) (bool, int, int) {
	a, p := w.instances(ctrl)
	if running {
		return a <= 1 && a+p >= 1, a, p
	}
	return a == 0, a, p
}

func (w *world) aliveInstances(ctrl string) int { a, _ := w.instances(ctrl); return a }

// settle waits (bounded) for the engine's own goroutines to finish reacting.
func (w *world) settle(cond func() bool) {
	deadline := time.Now().Add(2 * time.Second)
	for time.Now().Before(deadline) {
		if cond() {
			return
		}
		time.Sleep(200 * time.Microsecond)
	}
}

func sortedSpecs(m map[watchSpec]bool) []string {
	var out []string
	for k := range m {
		out = append(out, k.String())
	}
	sort.Strings(out)
	return out
}

// ---------------------------------------------------------------------------
// Stop means stopped

func TestVerifC08EngineStop(t *testing.T) {
	rec := verifkit.New(t, "C08", "real ControllerEngine on recording informers: op sequences (Start, StartWatches, StopWatches, Stop, RemoveInformer, injected informer failures so that a watch fails to start or to stop) over 2 controllers; oracle: whenever the engine does not report a controller running - in particular after a Stop that returned nil, incl. a retried Stop - no instance of it is alive (context not cancelled) and none of its event handlers is registered (a failed Stop may leave it reported running or not, but never unreported and alive); non-trivial = a Stop failed on an injected fault and a later Stop of the same controller returned nil; distinct=(ops)")
	rapid.Check(t, func(t *rapid.T) {
		w := newWorld()
		defer w.cleanup()
		for _, c := range ctrlNames {
			w.seedXRs(c, [][]string{{"KindA"}})
		}
		rec.Eval()
		n := rapid.IntRange(2, 14).Draw(t, "nops")
		var hist []string
		failedStop := map[string]bool{}
		interesting := false
		// Half of the cases start with the teardown shape the XRD reconcilers produce: a running controller with
		// watches, one informer failing when its watch is stopped, Stop, Stop again.
		var script []op
		if rapid.Bool().Draw(t, "directed") {
			c := rapid.SampledFrom(ctrlNames).Draw(t, "dctrl")
			ws := rapid.SliceOfNDistinct(rapid.SampledFrom(allWatches(c)), 1, 3, func(s watchSpec) string { return s.String() }).Draw(t, "dwatches")
			failKind := rapid.SampledFrom([]string{"FailRemove", "FailGet"}).Draw(t, "dfail")
			script = []op{{Kind: "Start", Ctrl: c}, {Kind: "StartWatches", Ctrl: c, Watches: ws},
				{Kind: failKind, Ctrl: c, GVK: rapid.SampledFrom(ws).Draw(t, "dfailwatch").GVK.Kind}}
			rec.Label("directed-teardown-prefix")
		}
		for i := 0; i < n; i++ {
			var o op
			if len(script) > 0 {
				o, script = script[0], script[1:]
			} else {
				o = genOp(true).Draw(t, "op")
			}
			if o.Kind == "GC" {
				continue
			}
			o.Failing = false
			batch := []op{o}
			if o.Kind == "FailRemove" || o.Kind == "FailGet" {
				if rapid.Bool().Draw(t, "thenstop") {
					batch = []op{o, {Kind: "Stop", Ctrl: o.Ctrl}, {Kind: "Stop", Ctrl: o.Ctrl}}
				}
			}
			// the XRD reconcilers retry a failed Stop on their next reconcile
			if o.Kind == "Stop" && rapid.Bool().Draw(t, "retried") {
				batch = []op{o, o}
			}
			for _, o := range batch {
				res := w.exec(o)
				hist = append(hist, o.String()+"="+res)
				if o.Kind == "Stop" {
					switch {
					case res != "<nil>" && strings.Contains(res, "injected"):
						rec.Label("stop-failed-on-injected-fault")
						failedStop[o.Ctrl] = true
					case res == "<nil>":
						if failedStop[o.Ctrl] {
							rec.Label("stop-succeeded-after-failed-stop")
							interesting = true
							failedStop[o.Ctrl] = false
						}
						if w.eng.IsRunning(o.Ctrl) {
							t.Fatalf("Stop(%s) returned nil but the controller is still reported running; history %v", o.Ctrl, hist)
						}
					}
				}
				for _, c := range ctrlNames {
					if w.eng.IsRunning(c) {
						continue
					}
					w.settle(func() bool { a, _ := w.instances(c); return a == 0 })
					if a, p := w.instances(c); a != 0 {
						t.Fatalf("controller %s is not reported running (the XRD reconcilers would go on to delete its CRD) but %d of its instances are alive and %d pending; history %v", c, a, p, hist)
					}
				}
				for id, cnt := range attribute(w.cache, w.hits) {
					if cnt > 0 && !w.eng.IsRunning(id.Controller) {
						t.Fatalf("controller %s is not reported running but still has %d live event handler(s) %v; history %v", id.Controller, cnt, id, hist)
					}
				}
			}
		}
		if interesting {
			rec.NonTrivial(strings.Join(hist, ";"), func() any { return hist })
		}
	})
}
