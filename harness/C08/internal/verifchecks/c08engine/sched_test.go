//go:build verif

package c08engine

import (
	"bytes"
	"fmt"
	"runtime"
	"strconv"
	"strings"
	"sync"
	"time"
)

// sched is a cooperative scheduler: registered goroutines park at every yield
// point (calls into the harness-owned fakes) and the scheduler decides which
// parked goroutine proceeds. Unregistered goroutines pass through.
type sched struct {
	mu      sync.Mutex
	enabled bool
	workers map[int64]*worker
	order   []*worker
	wake    chan struct{}
	trace   []string
}

type worker struct {
	name   string
	gid    int64
	resume chan struct{}
	parked bool
	done   bool
	at     string
}

func newSched() *sched {
	return &sched{workers: map[int64]*worker{}, wake: make(chan struct{}, 1024)}
}

func goid() int64 {
	var buf [64]byte
	n := runtime.Stack(buf[:], false)
	// "goroutine 123 [running]:"
	f := bytes.Fields(buf[:n])
	if len(f) < 2 {
		return -1
	}
	id, _ := strconv.ParseInt(string(f[1]), 10, 64)
	return id
}

func (s *sched) notify() {
	select {
	case s.wake <- struct{}{}:
	default:
	}
}

// register makes the calling goroutine schedulable.
func (s *sched) register(name string) *worker {
	w := &worker{name: name, gid: goid(), resume: make(chan struct{})}
	s.mu.Lock()
	s.workers[w.gid] = w
	s.order = append(s.order, w)
	s.mu.Unlock()
	return w
}

// finish marks the calling goroutine as no longer schedulable.
func (s *sched) finish() {
	gid := goid()
	s.mu.Lock()
	if w := s.workers[gid]; w != nil {
		w.done = true
		delete(s.workers, gid)
	}
	s.mu.Unlock()
	s.notify()
}

// yield parks the calling goroutine (if registered) until the scheduler resumes it.
func (s *sched) yield(where string) {
	s.mu.Lock()
	if !s.enabled {
		s.mu.Unlock()
		return
	}
	w := s.workers[goid()]
	if w == nil {
		s.mu.Unlock()
		return
	}
	w.parked = true
	w.at = where
	s.mu.Unlock()
	s.notify()
	<-w.resume
}

type schedResult struct {
	deadlock     bool
	inconclusive string
	stacks       string
}

// run drives the schedule until every registered goroutine has finished.
// choose(n) picks one of n parked goroutines.
func (s *sched) run(choose func(n int) int, grace, deadlockAfter time.Duration) schedResult {
	lastProgress := time.Now()
	for {
		s.mu.Lock()
		var parked, running []*worker
		for _, w := range s.order {
			switch {
			case w.done:
			case w.parked:
				parked = append(parked, w)
			default:
				running = append(running, w)
			}
		}
		s.mu.Unlock()
		if len(parked) == 0 && len(running) == 0 {
			return schedResult{}
		}
		if len(running) > 0 {
			// Give running goroutines a moment to reach their next yield point. If they do not, they are
			// blocked on a lock held by a parked goroutine (or merely slow: then two goroutines run truly
			// concurrently for a moment, which is still a legal schedule).
			select {
			case <-s.wake:
				lastProgress = time.Now()
				continue
			case <-time.After(grace):
			}
		}
		if len(parked) == 0 {
			if time.Since(lastProgress) > deadlockAfter {
				buf := make([]byte, 1<<20)
				n := runtime.Stack(buf, true)
				st := string(buf[:n])
				res := schedResult{stacks: st}
				if allBlockedOnLocks(st, running) {
					res.deadlock = true
				} else {
					res.inconclusive = "goroutines neither parked nor finished and not all blocked on locks"
				}
				return res
			}
			continue
		}
		i := 0
		if len(parked) > 1 {
			i = choose(len(parked))
		}
		w := parked[i]
		s.mu.Lock()
		w.parked = false
		s.trace = append(s.trace, fmt.Sprintf("%s@%s", w.name, w.at))
		s.mu.Unlock()
		lastProgress = time.Now()
		w.resume <- struct{}{}
		// wait briefly for it to park again or finish before making the next choice
		select {
		case <-s.wake:
		case <-time.After(grace):
		}
	}
}

func allBlockedOnLocks(stacks string, running []*worker) bool {
	blocks := strings.Split(stacks, "\n\n")
	for _, w := range running {
		found := false
		for _, b := range blocks {
			if strings.HasPrefix(b, fmt.Sprintf("goroutine %d [", w.gid)) {
				found = true
				if !(strings.Contains(b, "sync.(*RWMutex).Lock") || strings.Contains(b, "sync.(*RWMutex).RLock") || strings.Contains(b, "sync.(*Mutex).Lock")) {
					return false
				}
			}
		}
		if !found {
			return false
		}
	}
	return true
}
