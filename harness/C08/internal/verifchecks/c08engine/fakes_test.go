//go:build verif

package c08engine

import (
	"context"
	"fmt"
	"sort"
	"sync"
	"time"

	"github.com/go-logr/logr"
	"k8s.io/apimachinery/pkg/apis/meta/v1/unstructured"
	"k8s.io/apimachinery/pkg/runtime"
	"k8s.io/apimachinery/pkg/runtime/schema"
	kcache "k8s.io/client-go/tools/cache"
	"k8s.io/client-go/util/workqueue"
	"sigs.k8s.io/controller-runtime/pkg/cache"
	"sigs.k8s.io/controller-runtime/pkg/client"
	kcontroller "sigs.k8s.io/controller-runtime/pkg/controller"
	"sigs.k8s.io/controller-runtime/pkg/event"
	"sigs.k8s.io/controller-runtime/pkg/handler"
	"sigs.k8s.io/controller-runtime/pkg/manager"
	"sigs.k8s.io/controller-runtime/pkg/reconcile"
	"sigs.k8s.io/controller-runtime/pkg/source"

	"github.com/crossplane/crossplane/internal/engine"
)

// ---------------------------------------------------------------------------
// fake manager

type fakeManager struct {
	manager.Manager
	scheme  *runtime.Scheme
	elected chan struct{}
}

func (m *fakeManager) Elected() <-chan struct{}   { return m.elected }
func (m *fakeManager) GetScheme() *runtime.Scheme { return m.scheme }
func (m *fakeManager) GetLogger() logr.Logger     { return logr.Discard() }

// ---------------------------------------------------------------------------
// fake cache whose informers record handler registrations

type registration struct {
	id      int
	handler kcache.ResourceEventHandler
}

func (r *registration) HasSynced() bool { return true }

type fakeInformer struct {
	c    *fakeCache
	gvk  schema.GroupVersionKind
	mu   sync.Mutex
	regs map[*registration]bool
	gone bool
}

func (i *fakeInformer) AddEventHandler(h kcache.ResourceEventHandler) (kcache.ResourceEventHandlerRegistration, error) {
	i.c.y.yield("informer.AddEventHandler " + i.gvk.Kind)
	i.mu.Lock()
	defer i.mu.Unlock()
	i.c.mu.Lock()
	i.c.nextReg++
	id := i.c.nextReg
	i.c.mu.Unlock()
	r := &registration{id: id, handler: h}
	i.regs[r] = true
	return r, nil
}

func (i *fakeInformer) AddEventHandlerWithResyncPeriod(h kcache.ResourceEventHandler, _ time.Duration) (kcache.ResourceEventHandlerRegistration, error) {
	return i.AddEventHandler(h)
}

func (i *fakeInformer) RemoveEventHandler(h kcache.ResourceEventHandlerRegistration) error {
	i.c.y.yield("informer.RemoveEventHandler " + i.gvk.Kind)
	i.c.mu.Lock()
	if i.c.failRemove[i.gvk] > 0 {
		i.c.failRemove[i.gvk]--
		i.c.mu.Unlock()
		return fmt.Errorf("injected: cannot remove event handler for %s", i.gvk.Kind)
	}
	i.c.mu.Unlock()
	i.mu.Lock()
	defer i.mu.Unlock()
	r, ok := h.(*registration)
	if !ok {
		return fmt.Errorf("invalid key type %T", h)
	}
	// client-go: removing an unknown registration is a no-op.
	delete(i.regs, r)
	return nil
}

func (i *fakeInformer) AddIndexers(kcache.Indexers) error { return nil }
func (i *fakeInformer) HasSynced() bool                   { return true }
func (i *fakeInformer) IsStopped() bool                   { i.mu.Lock(); defer i.mu.Unlock(); return i.gone }

func (i *fakeInformer) live() []*registration {
	i.mu.Lock()
	defer i.mu.Unlock()
	out := make([]*registration, 0, len(i.regs))
	for r := range i.regs {
		out = append(out, r)
	}
	sort.Slice(out, func(a, b int) bool { return out[a].id < out[b].id })
	return out
}

type fakeCache struct {
	cache.Cache
	scheme  *runtime.Scheme
	y       *sched
	mu      sync.Mutex
	infs    map[schema.GroupVersionKind]*fakeInformer
	nextReg int
	// failGet[gvk] > 0: that many next GetInformer calls for the kind fail (a cache that cannot sync, a
	// kind whose CRD is gone). failRemove likewise for RemoveEventHandler.
	failGet    map[schema.GroupVersionKind]int
	failRemove map[schema.GroupVersionKind]int
}

func newFakeCache(s *runtime.Scheme, y *sched) *fakeCache {
	return &fakeCache{scheme: s, y: y, infs: map[schema.GroupVersionKind]*fakeInformer{}, failGet: map[schema.GroupVersionKind]int{}, failRemove: map[schema.GroupVersionKind]int{}}
}

func gvkOf(obj client.Object) schema.GroupVersionKind {
	return obj.GetObjectKind().GroupVersionKind()
}

func (c *fakeCache) GetInformer(_ context.Context, obj client.Object, _ ...cache.InformerGetOption) (cache.Informer, error) {
	gvk := gvkOf(obj)
	c.y.yield("cache.GetInformer " + gvk.Kind)
	c.mu.Lock()
	defer c.mu.Unlock()
	if c.failGet[gvk] > 0 {
		c.failGet[gvk]--
		return nil, fmt.Errorf("injected: cannot get informer for %s", gvk.Kind)
	}
	i, ok := c.infs[gvk]
	if !ok {
		i = &fakeInformer{c: c, gvk: gvk, regs: map[*registration]bool{}}
		c.infs[gvk] = i
	}
	return i, nil
}

func (c *fakeCache) RemoveInformer(_ context.Context, obj client.Object) error {
	gvk := gvkOf(obj)
	c.y.yield("cache.RemoveInformer " + gvk.Kind)
	c.mu.Lock()
	defer c.mu.Unlock()
	if i, ok := c.infs[gvk]; ok {
		// the informer stops and all its listeners go away with it
		i.mu.Lock()
		i.gone = true
		i.regs = map[*registration]bool{}
		i.mu.Unlock()
		delete(c.infs, gvk)
	}
	return nil
}

func (c *fakeCache) informer(gvk schema.GroupVersionKind) *fakeInformer {
	c.mu.Lock()
	defer c.mu.Unlock()
	return c.infs[gvk]
}

// yieldingInfs wraps the real InformerTrackingCache so that ActiveInformers is a scheduling point too.
type yieldingInfs struct {
	*engine.InformerTrackingCache
	y *sched
}

func (i *yieldingInfs) ActiveInformers() []schema.GroupVersionKind {
	i.y.yield("ActiveInformers")
	return i.InformerTrackingCache.ActiveInformers()
}

// ---------------------------------------------------------------------------
// handler identity: every (controller, watch type, kind) gets its own handler
// so that a live registration can be attributed by firing it.

type handlerID struct {
	Controller string
	Type       engine.WatchType
	GVK        schema.GroupVersionKind
}

type hitLog struct {
	mu   sync.Mutex
	hits []handlerID
}

type idHandler struct {
	id  handlerID
	log *hitLog
}

func (h *idHandler) Create(context.Context, event.CreateEvent, workqueue.TypedRateLimitingInterface[reconcile.Request]) {
	h.log.mu.Lock()
	h.log.hits = append(h.log.hits, h.id)
	h.log.mu.Unlock()
}
func (h *idHandler) Update(context.Context, event.UpdateEvent, workqueue.TypedRateLimitingInterface[reconcile.Request]) {
}
func (h *idHandler) Delete(context.Context, event.DeleteEvent, workqueue.TypedRateLimitingInterface[reconcile.Request]) {
}
func (h *idHandler) Generic(context.Context, event.GenericEvent, workqueue.TypedRateLimitingInterface[reconcile.Request]) {
}

var _ handler.EventHandler = &idHandler{}

// attribute fires every live registration of every informer and reports how many live registrations
// answer for each handler identity.
func attribute(c *fakeCache, log *hitLog) map[handlerID]int {
	out := map[handlerID]int{}
	c.mu.Lock()
	infs := make([]*fakeInformer, 0, len(c.infs))
	for _, i := range c.infs {
		infs = append(infs, i)
	}
	c.mu.Unlock()
	for _, i := range infs {
		for _, r := range i.live() {
			log.mu.Lock()
			log.hits = nil
			log.mu.Unlock()
			probe := &unstructured.Unstructured{}
			probe.SetGroupVersionKind(i.gvk)
			probe.SetName("probe")
			r.handler.OnAdd(probe, false)
			log.mu.Lock()
			for _, id := range log.hits {
				out[id]++
			}
			log.mu.Unlock()
		}
	}
	return out
}

// ---------------------------------------------------------------------------
// fake controller-runtime controller

type fakeController struct {
	name    string
	y       *sched
	failing bool // Start returns an error instead of blocking
	quit    chan struct{}

	mu      sync.Mutex
	started bool
	ctx     context.Context
	done    bool
}

func (c *fakeController) Reconcile(context.Context, reconcile.Request) (reconcile.Result, error) {
	return reconcile.Result{}, nil
}

func (c *fakeController) Watch(src source.TypedSource[reconcile.Request]) error {
	c.y.yield("controller.Watch " + c.name)
	return src.Start(context.Background(), nil)
}

func (c *fakeController) Start(ctx context.Context) error {
	c.mu.Lock()
	c.started = true
	c.ctx = ctx
	c.mu.Unlock()
	if c.failing {
		c.mu.Lock()
		c.done = true
		c.mu.Unlock()
		return fmt.Errorf("controller %s failed to start", c.name)
	}
	select {
	case <-ctx.Done():
	case <-c.quit:
	}
	c.mu.Lock()
	c.done = true
	c.mu.Unlock()
	return nil
}

// abandon releases a controller goroutine at the end of a case (harness cleanup, not an engine action).
func (c *fakeController) abandon() {
	c.mu.Lock()
	defer c.mu.Unlock()
	select {
	case <-c.quit:
	default:
		close(c.quit)
	}
}

func (c *fakeController) GetLogger() logr.Logger { return logr.Discard() }

// alive: started (or about to start) and its context not cancelled and not failed.
func (c *fakeController) cancelled() bool {
	c.mu.Lock()
	defer c.mu.Unlock()
	if c.done {
		return true
	}
	if c.ctx == nil {
		return false
	}
	select {
	case <-c.ctx.Done():
		return true
	default:
		return false
	}
}

var _ kcontroller.Controller = &fakeController{}
