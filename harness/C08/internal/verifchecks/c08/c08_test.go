//go:build verif

package c08

import (
	"fmt"
	"os"
	"strings"
	"testing"

	"pgregory.net/rapid"

	"github.com/crossplane/crossplane/internal/verifkit"
	"github.com/crossplane/crossplane/internal/verifsim"
)

const (
	ruleHistories = "random histories (rapid state machine) over a small universe: 1 XRD offering a claim, 1-2 claims with their XRs and 1-2 P&T-composed resources each, optionally a composed Usage and a ProviderRevision with a Lock entry, started at a drawn bring-up stage; actions = user deletes (claim, XR, XRD, revision, Usage, using resource; foreground/background), reconciles of the six real controllers (optionally with one fault at a drawn API call), GC steps, CRD establishment, third-party finalizer removal, provider finalizers, process restart; monitors (a)-(f) at the instant of every write and engine.Stop; non-trivial = the history contains a user delete and >=1 finalizer removal by a controller"
	ruleDFS       = "bounded-exhaustive DFS over ALL action sequences up to a depth bound on the smallest universe (1 XRD with claim, 1 claim, 1 XR, 1 composed resource; both compositeDeletePolicies) with Snapshot/Restore and state-digest pruning; a second pass expands every reconcile with every single fault at every API call index up to a smaller depth; evaluations = executed edges"
)

// ---------------------------------------------------------------------------
// generators

func genUniverse() *rapid.Generator[universe] {
	return rapid.Custom(func(t *rapid.T) universe {
		u := universe{
			Claims:    rapid.IntRange(1, 2).Draw(t, "claims"),
			Templates: rapid.IntRange(1, 2).Draw(t, "templates"),
			SSA:       rapid.IntRange(0, 2).Draw(t, "ssa") == 0,
			Revision:  rapid.Bool().Draw(t, "revision"),
			RevKind:   rapid.SampledFrom([]string{"", "Function"}).Draw(t, "revkind"),
			Usage:     rapid.IntRange(0, 2).Draw(t, "usage") == 0,
			Seed:      rapid.Int64Range(1, 1<<40).Draw(t, "nameseed"),
		}
		if u.Usage {
			u.Templates = 2
		}
		for i := 0; i < u.Claims; i++ {
			u.Foreground = append(u.Foreground, rapid.Bool().Draw(t, "foreground"))
		}
		// Mostly start from a fully composed world; sometimes earlier in the bring-up.
		u.Stage = rapid.SampledFrom([]int{stageFull, stageFull, stageFull, stageFull, stageFull, stageClaims, stageControllers, stageCRDsApplied, stageXRDOnly}).Draw(t, "stage")
		return u
	})
}

func drawFault(t *rapid.T, a act) act {
	if rapid.IntRange(0, 2).Draw(t, "faulty") != 0 {
		return a
	}
	a.F = rapid.SampledFrom(faultNames).Draw(t, "fault")
	a.K = rapid.IntRange(0, 12).Draw(t, "k")
	return a
}

// ---------------------------------------------------------------------------
// random histories

func TestVerifC08Histories(t *testing.T) {
	rec := verifkit.New(t, "C08", ruleHistories)
	rapid.Check(t, func(t *rapid.T) {
		u := genUniverse().Draw(t, "universe")
		rec.Eval()
		w := newWorld(u, rec)
		if v := w.sim.TakeViolations(); len(v) > 0 {
			t.Fatalf("universe %s: violation during the fault-free bring-up:\n%s", verifkit.JSON(u), strings.Join(v, "\n"))
		}
		var hist []act
		step := func(a act) {
			out := w.do(a)
			hist = append(hist, a)
			if v := w.sim.TakeViolations(); len(v) > 0 {
				t.Fatalf("universe %s\nhistory %s\nlast action %s -> %s\n%s", verifkit.JSON(u), verifkit.JSON(hist), a, out, strings.Join(v, "\n"))
			}
		}
		idx := func(t *rapid.T) int { return rapid.IntRange(0, u.Claims-1).Draw(t, "i") }
		t.Repeat(map[string]func(*rapid.T){
			"del-claim": func(t *rapid.T) { step(act{Op: "del-claim", I: idx(t), FG: rapid.Bool().Draw(t, "fg")}) },
			"del-xr":    func(t *rapid.T) { step(act{Op: "del-xr", I: idx(t), FG: rapid.Bool().Draw(t, "fg")}) },
			"del-xrd": func(t *rapid.T) {
				// Deleting the XRD tears the whole universe down; keep some histories in which it comes late or never.
				if rapid.IntRange(0, 2).Draw(t, "really") == 0 {
					step(act{Op: "del-xrd", FG: rapid.Bool().Draw(t, "fg")})
				}
			},
			"del-rev": func(t *rapid.T) { step(act{Op: "del-rev", FG: rapid.Bool().Draw(t, "fg")}) },
			"del-composed": func(t *rapid.T) {
				tm := []string{"r0", "r1"}[:u.Templates]
				if u.Usage {
					tm = append(tm, "usage", "usage", "r1")
				}
				step(act{Op: "del-composed", I: idx(t), Obj: rapid.SampledFrom(tm).Draw(t, "tmpl"), FG: rapid.Bool().Draw(t, "fg")})
			},
			"rec-claim":    func(t *rapid.T) { step(drawFault(t, act{Op: "rec-claim", I: idx(t)})) },
			"rec-xr":       func(t *rapid.T) { step(drawFault(t, act{Op: "rec-xr", I: idx(t)})) },
			"rec-def":      func(t *rapid.T) { step(drawFault(t, act{Op: "rec-def"})) },
			"rec-off":      func(t *rapid.T) { step(drawFault(t, act{Op: "rec-off"})) },
			"rec-rev":      func(t *rapid.T) { step(drawFault(t, act{Op: "rec-rev"})) },
			"rec-usage":    func(t *rapid.T) { step(drawFault(t, act{Op: "rec-usage", I: idx(t)})) },
			"rec-usage2":   func(t *rapid.T) { step(act{Op: "rec-usage", I: idx(t)}) },
			"gc":           func(t *rapid.T) { step(act{Op: "gc"}) },
			"gc2":          func(t *rapid.T) { step(act{Op: "gc"}) },
			"establish":    func(t *rapid.T) { step(act{Op: "establish"}) },
			"create-claim": func(t *rapid.T) { step(act{Op: "create-claim", I: idx(t)}) },
			"unfin": func(t *rapid.T) {
				rm := w.removable()
				if len(rm) == 0 {
					return
				}
				step(rm[rapid.IntRange(0, len(rm)-1).Draw(t, "which")])
			},
			"addfin": func(t *rapid.T) {
				step(act{Op: "addfin", I: idx(t), J: rapid.IntRange(0, u.Templates-1).Draw(t, "j")})
			},
			"restart": func(t *rapid.T) {
				if rapid.IntRange(0, 3).Draw(t, "really") == 0 {
					step(act{Op: "restart"})
				}
			},
			// schedules at API-call granularity: another actor's whole step runs before a drawn call of an XRD reconcile
			"rec-xrd-interloped": func(t *rapid.T) {
				mid := interloperOps[rapid.IntRange(0, len(interloperOps)-1).Draw(t, "interloper")]
				mid.I = idx(t)
				step(act{Op: rapid.SampledFrom([]string{"rec-def", "rec-off"}).Draw(t, "xrdctrl"), Mid: &mid, MidK: rapid.IntRange(0, 6).Draw(t, "midk")})
			},
			// Usage selectors: a user clears the recorded reference(s) (forcing re-selection), possibly asking for a
			// label the using resource does not carry yet; someone gives the using resource that label
			"unresolve-usage": func(t *rapid.T) {
				if !rapid.Bool().Draw(t, "really") {
					return
				}
				step(act{Op: "unresolve-usage", I: idx(t), Obj: rapid.SampledFrom([]string{"by", "by", "of", "both"}).Draw(t, "side"), J: rapid.IntRange(0, 1).Draw(t, "mismatch")})
			},
			"relabel-using": func(t *rapid.T) {
				if rapid.Bool().Draw(t, "really") {
					step(act{Op: "relabel-using", I: idx(t), Obj: rapid.SampledFrom([]string{"none", "other"}).Draw(t, "to")})
				}
			},
			"label-using": func(t *rapid.T) {
				if rapid.Bool().Draw(t, "really") {
					step(act{Op: "label-using", I: idx(t)})
				}
			},
			// CRD lifecycle: the API server's cleanup controller, out-of-band CRD deletion, third-party CRD finalizers
			"crd-cleanup":  func(t *rapid.T) { step(act{Op: "crd-cleanup"}) },
			"crd-cleanup2": func(t *rapid.T) { step(act{Op: "crd-cleanup"}) },
			"del-crd": func(t *rapid.T) {
				if rapid.IntRange(0, 2).Draw(t, "really") == 0 {
					step(act{Op: "del-crd", Obj: rapid.SampledFrom([]string{"xr", "claim"}).Draw(t, "which"), FG: rapid.Bool().Draw(t, "fg")})
				}
			},
			"addfin-crd": func(t *rapid.T) {
				step(act{Op: "addfin-crd", Obj: rapid.SampledFrom([]string{"xr", "claim"}).Draw(t, "which")})
			},
			"lock-upgrade": func(t *rapid.T) {
				step(act{Op: "lock-upgrade", Obj: rapid.SampledFrom(lockShapes).Draw(t, "shape")})
			},
			"deactivate-rev": func(t *rapid.T) { step(act{Op: "deactivate-rev"}) },
			"rec-rev2":       func(t *rapid.T) { step(drawFault(t, act{Op: "rec-rev"})) },
			"lock-churn":     func(t *rapid.T) { step(act{Op: "lock-churn", I: rapid.IntRange(0, 2).Draw(t, "n")}) },
		})

		// generator classification
		rec.Labelf("stage=%d", u.Stage)
		rec.Labelf("claims=%d templates=%d", u.Claims, u.Templates)
		if u.Usage {
			rec.Label("with-usage")
		}
		if u.Revision {
			rec.Label("with-revision")
		}
		if w.userDeletes > 0 {
			rec.Label("has-user-delete")
		}
		if w.faultsHit > 0 {
			rec.Label("fault-hit")
		}
		if w.inactiveInLockDeletes > 0 {
			rec.Label("revision-deleted-while-inactive-and-still-in-lock")
		}
		if w.usageUnresolvedAtDelete > 0 {
			rec.Label("usage-deleted-with-unresolved-selector")
		}
		if w.usageDelRecUnresolved > 0 {
			rec.Label("usage-deletion-reconcile-unresolved-selector-using-alive")
		}
		if w.usageDelRecUnresolvedFault > 0 {
			rec.Label("usage-deletion-reconcile-unresolved-selector-using-alive+fault")
		}
		if w.usageDelRecForeignUsing > 0 {
			rec.Label("usage-deletion-reconcile-using-alive-without-the-usages-composite-label")
		}
		if w.usageLabelMismatch > 0 {
			rec.Label("usage-deletion-reconcile-selector-label-mismatch")
		}
		for sh, n := range w.revRecShapes {
			if n > 0 {
				rec.Label("revision-reconcile lock-entry-shape=" + sh)
			}
		}
		if w.recTermCRD > 0 {
			rec.Label("xrd-reconcile-with-terminating-but-existing-crd")
		}
		if w.recTermCRDLive > 0 {
			rec.Label("xrd-reconcile-with-terminating-but-existing-crd+live-instances")
		}
		if w.midRan > 0 {
			rec.Label("interloper-ran")
		}
		if w.midExcluded > 0 {
			rec.Label("interloper-excluded-known")
		}
		if w.crdDeletes > 0 {
			rec.Label("crd-deleted-by-xrd-controller")
		}
		if w.effectiveStops > 0 {
			rec.Label("engine-stopped-a-running-controller")
		}
		for f, n := range w.ctrlFinRemoved {
			if n > 0 {
				rec.Label("controller-removed:" + f)
			}
		}
		if w.nonTrivial() {
			rec.Label("nontrivial")
			rec.NonTrivial(verifkit.JSON(u)+verifkit.JSON(hist), func() any { return map[string]any{"universe": u, "history": hist} })
		}
	})
}

// ---------------------------------------------------------------------------
// bounded-exhaustive DFS

type dfs struct {
	t        *testing.T
	w        *world
	rec      *verifkit.Recorder
	faults   bool
	maxDepth int
	visited  map[string]int
	states   int
	edges    int
	pruned   int
	shard    int
	shards   int
	noOOB    bool
	first    int
}

// enabled enumerates every action of the smallest universe (fault-free).
func (d *dfs) enabled() []act {
	w := d.w
	out := []act{
		{Op: "del-claim"},
		{Op: "del-xr"}, {Op: "del-xr", FG: true},
		{Op: "del-xrd"}, {Op: "del-xrd", FG: true},
		{Op: "rec-claim"}, {Op: "rec-xr"}, {Op: "rec-def"}, {Op: "rec-off"},
		{Op: "gc"},
		{Op: "addfin"},
		{Op: "del-composed", Obj: "r0"},
		{Op: "restart"},
		{Op: "crd-cleanup"},
	}
	if !d.noOOB {
		out = append(out, act{Op: "del-crd", Obj: "xr"}, act{Op: "del-crd", Obj: "claim"})
	}
	for _, a := range w.removable() {
		if !strings.HasPrefix(a.Obj, "crd:") { // third-party finalizer games on CRDs: random histories and the sweep only
			out = append(out, a)
		}
	}
	return out
}

func isWriteCall(call string) bool {
	return !strings.HasPrefix(call, "get ") && !strings.HasPrefix(call, "list ")
}

func (d *dfs) explore(depth int, path []act) {
	w := d.w
	remaining := d.maxDepth - depth
	dig := w.digest()
	if prev, ok := d.visited[dig]; ok && prev >= remaining {
		d.pruned++
		return
	}
	if _, ok := d.visited[dig]; !ok {
		d.states++
	}
	d.visited[dig] = remaining
	if remaining == 0 {
		return
	}
	snap := w.snapshot()
	try := func(a act) (ran bool, run *verifsim.Run) {
		w.restore(snap)
		before := w.sim.LogLen()
		ncalls := len(w.eng.calls)
		out := w.do(a)
		d.edges++
		d.rec.Eval()
		p := append(append([]act(nil), path...), a)
		if v := w.sim.TakeViolations(); len(v) > 0 {
			d.t.Fatalf("DFS (faults=%v) universe %s\npath %s\nlast action %s -> %s\n%s", d.faults, verifkit.JSON(w.u), verifkit.JSON(p), a, out, strings.Join(v, "\n"))
		}
		if w.nonTrivial() {
			d.rec.NonTrivial(fmt.Sprintf("%v|%v|%s", d.faults, w.u.Foreground, verifkit.JSON(p)), func() any { return map[string]any{"universe": w.u, "path": p, "faults": d.faults} })
		}
		run = w.lastRun
		if w.sim.LogLen() == before && len(w.eng.calls) == ncalls {
			return true, run // nothing was written and the engine was not called: same state
		}
		d.explore(depth+1, p)
		return true, run
	}
	for i, a := range d.enabled() {
		// Shards partition the tree by the first TWO actions (finer than by the first: subtrees differ a lot in size).
		if depth == 0 {
			d.first = i
		}
		if depth == 1 && (d.first*31+i)%d.shards != d.shard {
			continue
		}
		w.lastRun = nil
		_, run := try(a)
		if !d.faults || run == nil || !strings.HasPrefix(a.Op, "rec-") {
			continue
		}
		calls := append([]string(nil), run.Calls...)
		for k, c := range calls {
			kinds := []string{"err-server"}
			if isWriteCall(c) {
				kinds = []string{"err-server", "err-conflict", "errafter-timeout", "crash-after"}
			}
			for _, f := range kinds {
				fa := a
				fa.F, fa.K = f, k
				try(fa)
			}
		}
	}
	w.restore(snap)
}

func TestVerifC08Exhaustive(t *testing.T) {
	rec := verifkit.New(t, "C08", ruleDFS)
	depthFree, depthFault := 5, 3
	if verifkit.Tier() == "thorough" {
		depthFree, depthFault = 7, 4
	}
	if v := os.Getenv("VERIF_C08_DEPTHS"); v != "" { // experiments only
		fmt.Sscanf(v, "%d,%d", &depthFree, &depthFault)
	}
	shard, shards := verifkit.Shard()
	for _, fg := range []bool{false, true} {
		type dfsPass struct {
			faults bool
			depth  int
			oob    bool // include out-of-band CRD deletion by a user
		}
		passes := []dfsPass{{false, depthFree, true}, {true, depthFault, true}}
		if verifkit.Tier() == "thorough" && os.Getenv("VERIF_C08_DEPTHS") == "" {
			// out-of-band CRD deletion widens the tree a lot: the deepest pass goes without it
			passes = []dfsPass{{false, depthFree, false}, {false, depthFree - 2, true}, {true, depthFault, true}}
		}
		for _, pass := range passes {
			u := universe{Claims: 1, Templates: 1, Foreground: []bool{fg}, Stage: stageFull, Seed: 11}
			w := newWorld(u, rec)
			if v := w.sim.TakeViolations(); len(v) > 0 {
				t.Fatalf("violation during bring-up: %v", v)
			}
			d := &dfs{t: t, w: w, rec: rec, faults: pass.faults, noOOB: !pass.oob, maxDepth: pass.depth, visited: map[string]int{}, shard: shard, shards: shards}
			d.explore(0, nil)
			rec.AddExtra(fmt.Sprintf("dfs_states_faults_%v", pass.faults), d.states)
			rec.AddExtra(fmt.Sprintf("dfs_edges_faults_%v", pass.faults), d.edges)
			rec.AddExtra(fmt.Sprintf("dfs_pruned_faults_%v", pass.faults), d.pruned)
			rec.Extra(fmt.Sprintf("dfs_depth_faults_%v", pass.faults), fmt.Sprint(pass.depth))
			rec.Labelf("dfs fg=%v faults=%v depth=%d crd-deleted-out-of-band=%v", fg, pass.faults, pass.depth, pass.oob)
		}
	}
}

// ---------------------------------------------------------------------------
// directed histories (pinned rows): each drives one clause through its critical moment

type milestone struct {
	after int // index into script after which it is checked (-1: at the end)
	desc  string
	ok    func(w *world) bool
}

type directed struct {
	name   string
	u      universe
	script []act
	checks []milestone
}

func rep(n int, as ...act) []act {
	var out []act
	for i := 0; i < n; i++ {
		out = append(out, as...)
	}
	return out
}

func cat(parts ...[]act) []act {
	var out []act
	for _, p := range parts {
		out = append(out, p...)
	}
	return out
}

func (w *world) gone(des string) bool {
	for _, k := range w.resolve(des) {
		if w.sim.Get(k) != nil {
			return false
		}
	}
	return true
}

func (w *world) hasFin(des, fin string) bool {
	for _, k := range w.resolve(des) {
		if o := w.sim.Get(k); o != nil && has(verifsim.Finalizers(o), fin) {
			return true
		}
	}
	return false
}

func directedRows() []directed {
	full := func(mod func(*universe)) universe {
		u := universe{Claims: 1, Templates: 2, Foreground: []bool{false}, Stage: stageFull, Seed: 5}
		if mod != nil {
			mod(&u)
		}
		return u
	}
	one := func(op string) []act { return []act{{Op: op}} }
	return []directed{
		{
			name:   "background claim delete: finalizer goes once the XR is terminating",
			u:      full(nil),
			script: cat(one("del-claim"), one("rec-claim"), one("rec-xr"), rep(4, act{Op: "gc"})),
			checks: []milestone{
				{after: 1, desc: "claim is gone after its first deletion reconcile", ok: func(w *world) bool { return w.gone("claim:0") }},
				{after: -1, desc: "XR and composed resources are gone", ok: func(w *world) bool { return w.gone("xr:0") && w.gone("composed:0:r0") && w.gone("composed:0:r1") }},
			},
		},
		{
			name:   "foreground claim delete: the claim waits until the XR is gone",
			u:      full(func(u *universe) { u.Foreground = []bool{true} }),
			script: cat(one("del-claim"), one("rec-claim"), one("rec-claim"), one("rec-xr"), one("rec-claim"), rep(5, act{Op: "gc"}), one("rec-claim")),
			checks: []milestone{
				{after: 2, desc: "claim still holds its finalizer while the XR is terminating", ok: func(w *world) bool { return w.hasFin("claim:0", finClaim) }},
				{after: 4, desc: "claim still holds its finalizer while the XR waits for foreground GC", ok: func(w *world) bool { return w.hasFin("claim:0", finClaim) && !w.gone("xr:0") }},
				{after: -1, desc: "claim and XR are gone", ok: func(w *world) bool { return w.gone("claim:0") && w.gone("xr:0") }},
			},
		},
		{
			name: "foreground claim delete with a provider finalizer on a composed resource",
			u:    full(func(u *universe) { u.Foreground = []bool{true} }),
			script: cat([]act{{Op: "addfin", J: 0}}, one("del-claim"), one("rec-claim"), one("rec-xr"), rep(4, act{Op: "gc"}), one("rec-claim"),
				[]act{{Op: "unfin", Obj: "composed:0:r0", Fin: finProvider}}, rep(3, act{Op: "gc"}), one("rec-claim")),
			checks: []milestone{
				{after: 8, desc: "claim waits while a composed resource blocks the XR's foreground deletion", ok: func(w *world) bool { return w.hasFin("claim:0", finClaim) && !w.gone("xr:0") }},
				{after: -1, desc: "claim and XR are gone", ok: func(w *world) bool { return w.gone("claim:0") && w.gone("xr:0") }},
			},
		},
		{
			name: "XRD delete: instances first, then Stop, then the CRD, then the finalizers",
			u:    full(nil),
			script: cat(one("del-xrd"), one("rec-def"), one("rec-def"), one("rec-off"), one("rec-off"), one("rec-xr"), one("rec-claim"),
				rep(3, act{Op: "rec-def"}, act{Op: "rec-off"}, act{Op: "gc"}, act{Op: "crd-cleanup"}), one("rec-xr"), rep(3, act{Op: "rec-def"}, act{Op: "rec-off"}, act{Op: "gc"}, act{Op: "crd-cleanup"}), rep(3, act{Op: "gc"})),
			checks: []milestone{
				{after: 2, desc: "the XR CRD survives while a terminating XR exists, XR controller still running", ok: func(w *world) bool {
					return w.sim.Get(xrCRDKey) != nil && w.eng.running[xrCtrl] && !w.gone("xr:0")
				}},
				{after: 4, desc: "the claim CRD survives while a terminating claim exists, claim controller still running", ok: func(w *world) bool {
					return w.sim.Get(claimCRDKey) != nil && w.eng.running[claimCtrl] && !w.gone("claim:0")
				}},
				{after: -1, desc: "XRD, both CRDs and all instances are gone; both controllers were stopped", ok: func(w *world) bool {
					return w.sim.Get(xrdKey) == nil && w.sim.Get(xrCRDKey) == nil && w.sim.Get(claimCRDKey) == nil && w.gone("xr:0") && w.gone("claim:0") &&
						len(w.eng.running) == 0 && w.crdDeletes >= 2 && w.effectiveStops == 2 && w.ctrlFinRemoved[finDefined] == 1 && w.ctrlFinRemoved[finOffered] == 1
				}},
			},
		},
		{
			name: "XRD delete interrupted between Stop and the CRD delete",
			u:    full(nil),
			script: cat(one("del-claim"), one("rec-claim"), one("rec-xr"), rep(3, act{Op: "gc"}), one("del-xrd"),
				[]act{{Op: "rec-def", F: "err-server", K: 5}, {Op: "rec-def", F: "crash-after", K: 5}, {Op: "rec-off", F: "err-server", K: 4}},
				rep(4, act{Op: "rec-def"}, act{Op: "rec-off"}, act{Op: "crd-cleanup"})),
			checks: []milestone{
				{after: -1, desc: "XRD and CRDs are gone", ok: func(w *world) bool {
					return w.sim.Get(xrdKey) == nil && w.sim.Get(xrCRDKey) == nil && w.sim.Get(claimCRDKey) == nil
				}},
			},
		},
		{
			// found by the fault DFS when the reconcilers were edited to swallow read errors: pinned
			name:   "a failing read of the XR / CRD is not taken for absence",
			u:      full(nil),
			script: []act{{Op: "del-claim"}, {Op: "rec-claim", F: "err-server", K: 1}, {Op: "del-xrd"}, {Op: "rec-def", F: "err-server", K: 2}, {Op: "rec-off", F: "err-server", K: 2}},
			checks: []milestone{
				{after: 1, desc: "the faulted call was the read of the XR and the claim keeps its finalizer", ok: func(w *world) bool {
					return strings.HasPrefix(callName(w.lastRun, 1), "get example.org/XThing/") && w.hasFin("claim:0", finClaim) && !w.gone("xr:0")
				}},
				{after: 3, desc: "the faulted call was the read of the XR CRD and the XRD keeps its finalizer", ok: func(w *world) bool {
					return strings.HasPrefix(callName(w.lastRun, 2), "get apiextensions.k8s.io/CustomResourceDefinition//xthings") && w.hasFin("xrd", finDefined) && w.eng.running[xrCtrl]
				}},
				{after: 4, desc: "the faulted call was the read of the claim CRD and the XRD keeps its finalizer", ok: func(w *world) bool {
					return strings.HasPrefix(callName(w.lastRun, 2), "get apiextensions.k8s.io/CustomResourceDefinition//things") && w.hasFin("xrd", finOffered) && w.eng.running[claimCtrl]
				}},
			},
		},
		{
			name:   "package revision leaves the Lock before it is finalized",
			u:      full(func(u *universe) { u.Revision = true }),
			script: cat(one("del-rev"), []act{{Op: "rec-rev", F: "err-server", K: 2}, {Op: "rec-rev", F: "err-conflict", K: 3}, {Op: "rec-rev"}}),
			checks: []milestone{
				{after: 0, desc: "revision is terminating and listed in the Lock", ok: func(w *world) bool { return !w.gone("rev") && w.lockHas(revName) }},
				{after: -1, desc: "revision gone, Lock lost exactly its entry", ok: func(w *world) bool {
					return w.gone("rev") && !w.lockHas(revName) && w.lockHas("provider-other-aaaaaaaaaaaa") && w.ctrlFinRemoved[finRevision] == 1
				}},
			},
		},
		{
			name:   "inactive revision: deactivation loses the Lock update to a conflict, then the revision is deleted",
			u:      full(func(u *universe) { u.Revision = true }),
			script: []act{{Op: "deactivate-rev"}, {Op: "rec-rev", F: "err-conflict", K: 3}, {Op: "del-rev"}, {Op: "rec-rev"}},
			checks: []milestone{
				{after: 1, desc: "the faulted call was the Lock update of the deactivation and the entry is still there", ok: func(w *world) bool {
					return strings.HasPrefix(callName(w.lastRun, 3), "update pkg.crossplane.io/Lock") && w.lockHas(revName) && !w.gone("rev")
				}},
				{after: -1, desc: "revision gone, Lock lost exactly its entry", ok: func(w *world) bool {
					return w.gone("rev") && !w.lockHas(revName) && w.lockHas("provider-other-aaaaaaaaaaaa") && w.ctrlFinRemoved[finRevision] == 1
				}},
			},
		},
		{
			name:   "inactive revision: deactivation fails on the Lock update (500, then crash), then the revision is deleted",
			u:      full(func(u *universe) { u.Revision = true }),
			script: []act{{Op: "deactivate-rev"}, {Op: "rec-rev", F: "err-server", K: 3}, {Op: "rec-rev", F: "crash-before", K: 3}, {Op: "del-rev", FG: true}, {Op: "rec-rev"}, {Op: "gc"}, {Op: "crd-cleanup"}, {Op: "gc"}, {Op: "gc"}},
			checks: []milestone{
				{after: 2, desc: "still listed in the Lock", ok: func(w *world) bool { return w.lockHas(revName) }},
				{after: -1, desc: "revision gone, Lock lost its entry", ok: func(w *world) bool { return w.gone("rev") && !w.lockHas(revName) }},
			},
		},
		{
			name:   "inactive revision: the Inactive edit and the delete are observed by the same reconcile",
			u:      full(func(u *universe) { u.Revision = true }),
			script: []act{{Op: "deactivate-rev"}, {Op: "del-rev"}, {Op: "rec-rev"}},
			checks: []milestone{
				{after: 1, desc: "terminating, Inactive, still listed in the Lock", ok: func(w *world) bool {
					o := w.sim.Get(w.revKey())
					return o != nil && verifsim.Terminating(o) && verifsim.Nested(o, "spec", "desiredState") == "Inactive" && w.lockHas(revName)
				}},
				{after: -1, desc: "revision gone, Lock lost its entry", ok: func(w *world) bool { return w.gone("rev") && !w.lockHas(revName) }},
			},
		},
		{
			name:   "inactive revision: clean deactivation, deleted later",
			u:      full(func(u *universe) { u.Revision = true }),
			script: []act{{Op: "deactivate-rev"}, {Op: "rec-rev"}, {Op: "rec-rev"}, {Op: "del-rev"}, {Op: "rec-rev"}},
			checks: []milestone{
				{after: 1, desc: "deactivation removed the Lock entry, released the owned CRD, kept the revision and its finalizer", ok: func(w *world) bool {
					crd := w.sim.Get(verifsim.Key{Group: crdGK.Group, Kind: crdGK.Kind, Name: revOwnedCRD})
					return !w.lockHas(revName) && w.hasFin("rev", finRevision) && crd != nil && verifsim.ControllerUID(crd) == "" && len(verifsim.OwnerRefs(crd)) == 1
				}},
				{after: -1, desc: "revision gone", ok: func(w *world) bool {
					return w.gone("rev") && !w.lockHas(revName) && w.lockHas("provider-other-aaaaaaaaaaaa")
				}},
			},
		},
		{
			name: "composed Usage deleted on its own waits for its using resource",
			u:    full(func(u *universe) { u.Usage = true }),
			script: cat([]act{{Op: "addfin", J: 1}}, []act{{Op: "del-composed", Obj: "usage"}}, one("rec-usage"), []act{{Op: "del-composed", Obj: "r1"}}, one("rec-usage"),
				[]act{{Op: "unfin", Obj: "composed:0:r1", Fin: finProvider}}, one("rec-usage")),
			checks: []milestone{
				{after: 0, desc: "the Usage is composed, labelled, finalized and resolved", ok: func(w *world) bool {
					ks := w.composedKeys(0, "usage")
					if len(ks) != 1 {
						return false
					}
					o := w.sim.Get(ks[0])
					n, _ := verifsim.Nested(o, "spec", "by", "resourceRef", "name").(string)
					return n != "" && verifsim.Labels(o)[labelComposite] != "" && has(verifsim.Finalizers(o), finUsage)
				}},
				{after: 2, desc: "the terminating Usage keeps its finalizer while the using resource is live", ok: func(w *world) bool {
					return w.hasFin("composed:0:usage", finUsage) && !w.gone("composed:0:r1")
				}},
				{after: 4, desc: "the terminating Usage keeps its finalizer while the using resource is terminating", ok: func(w *world) bool {
					return w.hasFin("composed:0:usage", finUsage) && !w.gone("composed:0:r1")
				}},
				{after: -1, desc: "Usage gone after the using resource", ok: func(w *world) bool {
					return w.gone("composed:0:usage") && w.gone("composed:0:r1") && w.ctrlFinRemoved[finUsage] == 1
				}},
			},
		},
		{
			// Foreground deletion of the XR: the garbage collector deletes the Usage together with its siblings,
			// so the Usage is terminating while the using resource (held by its provider) still exists.
			name:   "composed Usage deleted with its XR (foreground) waits for its using resource",
			u:      full(func(u *universe) { u.Usage = true }),
			script: cat([]act{{Op: "addfin", J: 1}}, []act{{Op: "del-xr", FG: true}}, one("rec-xr"), rep(4, act{Op: "gc"}), one("rec-usage"), one("rec-usage")),
			checks: []milestone{
				{after: -1, desc: "the terminating Usage keeps its finalizer while the using resource exists", ok: func(w *world) bool {
					for _, k := range w.resolve("composed:0:usage") {
						if !verifsim.Terminating(w.sim.Get(k)) {
							return false
						}
					}
					return w.hasFin("composed:0:usage", finUsage) && !w.gone("composed:0:r1")
				}},
			},
		},
	}
}

func TestVerifC08Directed(t *testing.T) {
	rec := verifkit.New(t, "C08", "directed histories: one scripted teardown per clause with milestones that prove the critical waiting state was reached")
	for _, row := range directedRows() {
		rec.Eval()
		w := newWorld(row.u, rec)
		if v := w.sim.TakeViolations(); len(v) > 0 {
			t.Fatalf("%s: violation during bring-up: %v", row.name, v)
		}
		check := func(at int) {
			for _, m := range row.checks {
				if m.after == at && !m.ok(w) {
					t.Fatalf("%s: milestone not reached after step %d: %s\nstore: %v\nengine: %v %v", row.name, at, m.desc, w.sim.AllKeys(), w.eng.running, w.eng.calls)
				}
			}
		}
		for i, a := range row.script {
			out := w.do(a)
			if v := w.sim.TakeViolations(); len(v) > 0 {
				t.Fatalf("%s: step %d %s -> %s\n%s", row.name, i, a, out, strings.Join(v, "\n"))
			}
			check(i)
		}
		check(-1)
		if w.nonTrivial() {
			rec.NonTrivial("directed|"+row.name, func() any { return map[string]any{"directed": row.name, "universe": row.u, "history": row.script} })
		}
		rec.Label("directed")
	}
}

// ---------------------------------------------------------------------------
// the monitors themselves: a controller that does the wrong thing is reported

func TestVerifC08MonitorsFire(t *testing.T) {
	expect := func(name, clause string, u universe, bad func(w *world)) {
		w := newWorld(u, nil)
		if v := w.sim.TakeViolations(); len(v) > 0 {
			t.Fatalf("%s: violation during bring-up: %v", name, v)
		}
		bad(w)
		v := w.sim.TakeViolations()
		for _, s := range v {
			if strings.HasPrefix(s, clause) {
				return
			}
		}
		t.Fatalf("%s: expected a %s finding, got %v", name, clause, v)
	}
	base := universe{Claims: 1, Templates: 2, Foreground: []bool{false}, Stage: stageFull, Seed: 3}
	strip := func(w *world, actor, des, fin string) {
		for _, k := range w.resolve(des) {
			u := verifsim.U(w.sim.Get(k))
			var keep []string
			for _, f := range u.GetFinalizers() {
				if f != fin {
					keep = append(keep, f)
				}
			}
			u.SetFinalizers(keep)
			if err := w.sim.Client(actor).Update(ctx, u); err != nil {
				t.Fatalf("strip %s %s: %v", des, fin, err)
			}
		}
	}
	expect("claim finalizer with a live XR", "(a)", base, func(w *world) {
		w.do(act{Op: "del-claim"})
		strip(w, actorClaim, "claim:0", finClaim)
	})
	fgU := base
	fgU.Foreground = []bool{true}
	expect("foreground claim finalizer with a terminating XR", "(a)", fgU, func(w *world) {
		w.do(act{Op: "del-claim"})
		w.do(act{Op: "del-xr"})
		strip(w, actorClaim, "claim:0", finClaim)
	})
	expect("CRD deleted with instances", "(b)", base, func(w *world) {
		_ = w.sim.Client(actorDef).Delete(ctx, verifsim.U(w.sim.Get(xrCRDKey)))
	})
	expect("Stop with instances", "(c)", base, func(w *world) { _ = w.eng.Stop(ctx, xrCtrl) })
	expect("XRD finalizer with a controlled CRD", "(d)", base, func(w *world) {
		w.do(act{Op: "del-xrd"})
		strip(w, actorOff, "xrd", finOffered)
	})
	revU := base
	revU.Revision = true
	expect("revision finalizer while in the Lock", "(e)", revU, func(w *world) {
		w.do(act{Op: "del-rev"})
		strip(w, actorRev, "rev", finRevision)
	})
	usU := base
	usU.Usage = true
	expect("usage finalizer with a live using resource", "(f)", usU, func(w *world) {
		w.do(act{Op: "del-composed", Obj: "usage"})
		strip(w, actorUsage, "composed:0:usage", finUsage)
	})
	expect("usage finalizer with an unresolved selector that still selects a live resource", "(f)", usU, func(w *world) {
		w.do(act{Op: "unresolve-usage", Obj: "by"})
		w.do(act{Op: "del-composed", Obj: "usage"})
		strip(w, actorUsage, "composed:0:usage", finUsage)
	})
	expect("usage finalizer with a cleared reference and a selector that selects nothing yet", "(f)", usU, func(w *world) {
		w.do(act{Op: "unresolve-usage", Obj: "by", J: 1})
		w.do(act{Op: "del-composed", Obj: "usage"})
		strip(w, actorUsage, "composed:0:usage", finUsage)
	})
	expect("in-use label lifted while the using resource lives", "(f2)", usU, func(w *world) {
		w.do(act{Op: "del-composed", Obj: "usage"})
		for _, k := range w.resolve("composed:0:r0") {
			u := verifsim.U(w.sim.Get(k))
			l := u.GetLabels()
			delete(l, labelInUse)
			u.SetLabels(l)
			if err := w.sim.Client(actorUsage).Update(ctx, u); err != nil {
				t.Fatal(err)
			}
		}
	})
	// and a third party doing the same is not a finding
	w := newWorld(base, nil)
	w.do(act{Op: "del-claim"})
	w.do(act{Op: "unfin", Obj: "claim:0", Fin: finClaim})
	if v := w.sim.TakeViolations(); len(v) > 0 {
		t.Fatalf("third-party finalizer removal was reported: %v", v)
	}
}
