//go:build verif

package c08

import (
	"fmt"
	"strings"
	"testing"

	"github.com/crossplane/crossplane/internal/verifkit"
	"github.com/crossplane/crossplane/internal/verifsim"
)

// controlEntries are Lock entries of OTHER packages, in old and new shapes and of other kinds. They
// must survive whatever the revision under test does to its own entry.
var controlEntries = []verifsim.Obj{
	{"name": "function-ctl-111111111111", "apiVersion": "pkg.crossplane.io/v1beta1", "kind": "Function", "type": nil, "source": "xpkg.upbound.io/acme/function-ctl", "version": "v0.1.0", "dependencies": []any{}},
	{"name": "configuration-ctl-222222222222", "type": "Configuration", "source": "xpkg.upbound.io/acme/configuration-ctl", "version": "v0.2.0", "dependencies": []any{}},
	{"name": "provider-ctl-333333333333", "type": nil, "source": "xpkg.upbound.io/acme/provider-ctl", "version": "v0.3.0", "dependencies": []any{}},
}

func (w *world) addControlEntries() {
	u := verifsim.U(w.sim.Get(lockKey))
	l, _ := u.Object["packages"].([]any)
	for _, e := range controlEntries {
		l = append(l, verifsim.DeepCopy(e))
	}
	u.Object["packages"] = l
	if err := w.sim.Client("crossplane-upgrade").Update(ctx, u); err != nil {
		panic(err)
	}
}

func (w *world) controlsIntact() bool {
	for _, e := range controlEntries {
		if !w.lockHas(fmt.Sprint(e["name"])) {
			return false
		}
	}
	return w.lockHas("provider-other-aaaaaaaaaaaa")
}

// TestVerifC08LockShapes: clause (e) for every admissible shape of the revision's own Lock entry
// (identity in the Lock is the entry's name - that is how Resolve finds "itself"), for a Provider
// and a Function revision, deleted while Active and deactivated first; the revision reconcile is
// swept over every API call index x every fault kind.
func TestVerifC08LockShapes(t *testing.T) {
	rec := verifkit.New(t, "C08", "package revision (Provider, Function) whose own Lock entry has each admissible shape of its optional type fields (current apiVersion+kind; an older served apiVersion; older apiVersion + deprecated type; only the deprecated type; only kind; none), next to control entries of other packages and kinds; path = delete while Active | deactivate (swept) then delete; the revision reconcile is swept over every API call index x {conflict, 500, lost reply, crash-before, crash-after}, then fault-free reconciles; clause (e) at the instant of the finalizer removal; non-trivial = every swept run (the entry is present when the reconcile starts)")
	shard, shards := verifkit.Shard()
	n := 0
	for _, kind := range []string{"", "Function"} {
		for _, shape := range lockShapes {
			for _, path := range []string{"delete", "deactivate"} {
				n++
				if n%shards != shard {
					continue
				}
				u := universe{Claims: 1, Templates: 1, Foreground: []bool{false}, Revision: true, RevKind: kind, Stage: stageControllers, Seed: 23}
				w := newWorld(u, rec)
				w.addControlEntries()
				pre := []act{{Op: "lock-upgrade", Obj: shape}}
				if path == "delete" {
					pre = append(pre, act{Op: "del-rev"})
				} else {
					pre = append(pre, act{Op: "deactivate-rev"})
				}
				for _, a := range pre {
					if out := w.do(a); out != "ok" {
						t.Fatalf("kind %q shape %s path %s: setup step %s -> %s", kind, shape, path, a, out)
					}
				}
				if got := lockEntryShape(w.sim.Get(lockKey), revName); got != shape {
					t.Fatalf("kind %q: entry shape is %q, want %q", kind, got, shape)
				}
				rec.Labelf("lock-shape-sweep shape=%s", shape)
				rec.Labelf("lock-shape-sweep path=%s kind=%s", path, w.pkgKind())
				base := w.snapshot()
				w.do(act{Op: "rec-rev"})
				calls := append([]string(nil), w.lastRun.Calls...)
				tail := []act{{Op: "rec-rev"}, {Op: "rec-rev"}}
				if path == "deactivate" {
					tail = []act{{Op: "rec-rev"}, {Op: "del-rev"}, {Op: "rec-rev"}, {Op: "rec-rev"}}
				}
				variants := []act{{Op: "rec-rev"}}
				for k := range calls {
					for _, f := range faultNames {
						variants = append(variants, act{Op: "rec-rev", F: f, K: k})
					}
				}
				for vi, a := range variants {
					w.restore(base)
					rec.Eval()
					hist := append(append([]act(nil), pre...), a)
					out := w.do(a)
					fail := func() {
						if v := w.sim.TakeViolations(); len(v) > 0 {
							t.Fatalf("%s revision, own Lock entry shape %q, path %s\nhistory %s\nlast action -> %s (calls of the undisturbed reconcile: %v)\nLock: %s\n%s", w.pkgKind(), shape, path, verifkit.JSON(hist), out, calls, verifkit.JSON(w.sim.Get(lockKey)["packages"]), strings.Join(v, "\n"))
						}
						if !w.controlsIntact() {
							t.Fatalf("%s revision, shape %q, path %s, history %s: a control entry of another package left the Lock: %s", w.pkgKind(), shape, path, verifkit.JSON(hist), verifkit.JSON(w.sim.Get(lockKey)["packages"]))
						}
					}
					fail()
					for _, ta := range tail {
						hist = append(hist, ta)
						out = w.do(ta)
						fail()
					}
					if vi == 0 && (!w.gone("rev") || w.lockHas(revName)) {
						t.Fatalf("%s revision, shape %q, path %s: the fault-free history %s did not finish the teardown (revision gone=%v, entry present=%v)", w.pkgKind(), shape, path, verifkit.JSON(hist), w.gone("rev"), w.lockHas(revName))
					}
					rec.NonTrivial(fmt.Sprintf("lock|%s|%s|%s|%s", kind, shape, path, a), func() any {
						return map[string]any{"kind": w.pkgKind(), "shape": shape, "path": path, "history": hist, "calls": calls}
					})
				}
			}
		}
	}
}
