//go:build verif

package c08

import (
	"fmt"
	"strings"
	"testing"

	"github.com/crossplane/crossplane/internal/verifkit"
	"github.com/crossplane/crossplane/internal/verifsim"
)

// usageScenario brings a composed, finalized Usage into deletion with unresolved selectors.
type usageScenario struct {
	Side     string `json:"side"`     // which recorded reference(s) the user cleared: by | of | both
	Mismatch bool   `json:"mismatch"` // the edited `by` selector asks for a label the using resource lacks
	How      string `json:"how"`      // how the Usage came to be deleted
	Hold     bool   `json:"hold"`     // the using resource's provider holds a finalizer on it
	// UsingLabel: the using resource's crossplane.io/composite label: "" same root as the Usage, "none"
	// stripped (hand-created), "other" another root composite's value
	UsingLabel string `json:"usingLabel,omitempty"`
}

func (sc usageScenario) script() []act {
	var s []act
	if sc.Hold {
		s = append(s, act{Op: "addfin", J: 1})
	}
	j := 0
	if sc.Mismatch {
		j = 1
	}
	if sc.UsingLabel != "" {
		s = append(s, act{Op: "relabel-using", Obj: sc.UsingLabel})
	}
	if sc.Side != "resolved" { // "resolved": spec.by / spec.of keep their recorded resourceRefs
		s = append(s, act{Op: "unresolve-usage", Obj: sc.Side, J: j})
	}
	switch sc.How {
	case "user-deletes-usage":
		s = append(s, act{Op: "del-composed", Obj: "usage"})
	case "used-resource-gone-first": // then spec.of's selector fails before spec.by is even tried
		s = append(s, act{Op: "del-composed", Obj: "r0"}, act{Op: "del-composed", Obj: "usage"})
	case "xr-foreground": // the garbage collector deletes the Usage with its siblings
		s = append(s, act{Op: "del-xr", FG: true}, act{Op: "rec-xr"}, act{Op: "gc"}, act{Op: "gc"}, act{Op: "gc"}, act{Op: "gc"})
	case "using-deleted-too": // the using resource is itself terminating (held by its provider)
		s = append(s, act{Op: "del-composed", Obj: "usage"}, act{Op: "del-composed", Obj: "r1"})
	}
	return s
}

// TestVerifC08UsageSelectors: the Usage half of the property for Usages that reach deletion with
// unresolved selectors. For every scenario the deletion reconcile is swept over every API call
// index x every fault kind (and run fault-free), followed by fault-free deletion reconciles;
// monitors (f) and (f2) judge every write.
func TestVerifC08UsageSelectors(t *testing.T) {
	rec := verifkit.New(t, "C08", "composed Usage (of r0 by r1 through matchControllerRef selectors), finalized, whose recorded reference(s) were cleared by a user (optionally with a label requirement the using resource does not meet yet), deleted by a user / by GC with its foreground-deleted XR / after its used resource; the deletion reconcile is swept over every API call index x {conflict, 500, lost reply, crash-before, crash-after}, then fault-free reconciles, then the label appears and more reconciles; monitors (f), (f2); non-trivial = the deletion reconcile started with an unresolved selector while a using resource was alive")
	var scs []usageScenario
	for _, side := range []string{"by", "of", "both"} {
		for _, mm := range []bool{false, true} {
			if mm && side == "of" {
				continue
			}
			for _, how := range []string{"user-deletes-usage", "used-resource-gone-first", "xr-foreground", "using-deleted-too"} {
				for _, hold := range []bool{false, true} {
					if how == "using-deleted-too" && !hold {
						continue // without a holder the using resource is simply gone
					}
					scs = append(scs, usageScenario{Side: side, Mismatch: mm, How: how, Hold: hold})
				}
			}
		}
	}
	// the using resource does not carry the Usage's composite label: by.resourceRef and by.resourceSelector
	for _, side := range []string{"resolved", "by"} {
		for _, ul := range []string{"", "none", "other"} {
			if side == "by" && ul == "" {
				continue // already above
			}
			for _, how := range []string{"user-deletes-usage", "used-resource-gone-first", "xr-foreground", "using-deleted-too"} {
				for _, hold := range []bool{false, true} {
					if how == "using-deleted-too" && !hold {
						continue
					}
					scs = append(scs, usageScenario{Side: side, How: how, Hold: hold, UsingLabel: ul})
				}
			}
		}
	}
	shard, shards := verifkit.Shard()
	reached := 0
	for si, sc := range scs {
		if si%shards != shard {
			continue
		}
		u := universe{Claims: 1, Templates: 2, Foreground: []bool{false}, Usage: true, Stage: stageFull, Seed: 17}
		w := newWorld(u, rec)
		for _, a := range sc.script() {
			w.do(a)
		}
		if v := w.sim.TakeViolations(); len(v) > 0 {
			t.Fatalf("scenario %s: violation before the deletion reconcile: %v", verifkit.JSON(sc), v)
		}
		ks := w.composedKeys(0, "usage")
		if len(ks) != 1 {
			t.Fatalf("scenario %s: expected the Usage to linger, store: %v", verifkit.JSON(sc), w.sim.AllKeys())
		}
		foreign := w.usageForeignUsing(ks[0])
		if sc.UsingLabel != "" && foreign != sc.UsingLabel {
			t.Fatalf("scenario %s: the using resource's label state is %q at the deletion reconcile", verifkit.JSON(sc), foreign)
		}
		if foreign != "" {
			rec.Labelf("usage-scenario using resource alive, composite label=%s, by=%s", foreign, map[bool]string{true: "resourceRef", false: "resourceSelector"}[sc.Side == "resolved"])
		}
		inClass := w.usageClass(ks[0]) || foreign != ""
		rec.Labelf("usage-scenario how=%s", sc.How)
		if inClass {
			reached++
			rec.Label("usage-scenario-in-class(unresolved selector, finalizer held, using resource alive)")
		}
		base := w.snapshot()
		w.do(act{Op: "rec-usage"})
		probe := w.lastRun
		if v := w.sim.TakeViolations(); len(v) > 0 {
			t.Fatalf("scenario %s: fault-free deletion reconcile (calls %v):\n%s", verifkit.JSON(sc), probe.Calls, strings.Join(v, "\n"))
		}
		calls := append([]string(nil), probe.Calls...)
		variants := []act{{Op: "rec-usage"}}
		for k := range calls {
			for _, f := range faultNames {
				variants = append(variants, act{Op: "rec-usage", F: f, K: k})
			}
		}
		tail := []act{{Op: "rec-usage"}, {Op: "rec-usage"}, {Op: "label-using"}, {Op: "rec-usage"}, {Op: "rec-usage"}}
		for _, a := range variants {
			w.restore(base)
			rec.Eval()
			hist := append(sc.script(), a)
			out := w.do(a)
			fail := func() {
				if v := w.sim.TakeViolations(); len(v) > 0 {
					t.Fatalf("scenario %s\nhistory %s\nlast action -> %s (calls of the undisturbed deletion reconcile: %v)\n%s", verifkit.JSON(sc), verifkit.JSON(hist), out, calls, strings.Join(v, "\n"))
				}
			}
			fail()
			for _, ta := range tail {
				hist = append(hist, ta)
				out = w.do(ta)
				fail()
			}
			if inClass {
				rec.NonTrivial(fmt.Sprintf("usage|%s|%s", verifkit.JSON(sc), a), func() any { return map[string]any{"scenario": sc, "history": hist, "calls": calls} })
			}
		}
		// The Usage never lost its finalizer while its user was alive; if the user is gone by now the finalizer may go.
		_ = verifsim.Key{}
	}
	if shards == 1 && reached == 0 {
		t.Fatalf("no scenario reached the class")
	}
}
