//go:build verif

package c08

import (
	"context"
	"fmt"
	"strings"
	"testing"

	"k8s.io/apimachinery/pkg/runtime/schema"
	"sigs.k8s.io/controller-runtime/pkg/client"

	"github.com/crossplane/crossplane/internal/verifkit"
	"github.com/crossplane/crossplane/internal/verifsim"
)

// Interlopers: the "schedules" part of the quantifier at API-call granularity.
// While an XRD reconcile (definition or offered) runs, another actor's whole
// step runs atomically just before the reconcile's MidK-th API call. The
// monitors are unchanged: they judge the CRD delete / engine.Stop / finalizer
// removal at its own instant, whatever ran in between.

const (
	// Known-finding keys: an instance of the kind is created after the XRD
	// reconciler listed the instances of that kind (empty) and before the same
	// reconcile deletes the kind's CRD.
	findingClaimCtrl = "xr-recreated-by-claim-controller-between-empty-list-and-crd-delete"
	findingUser      = "instance-created-by-user-between-empty-list-and-crd-delete"
)

// interloperOps are the steps another actor may take in the middle of an XRD reconcile.
var interloperOps = []act{{Op: "rec-claim"}, {Op: "rec-xr"}, {Op: "create-xr"}, {Op: "create-extra-claim"}, {Op: "gc"}}

func findingFor(op string) string {
	if op == "rec-claim" {
		return findingClaimCtrl
	}
	return findingUser
}

// excludeKnown says whether interleavings of an open known-finding class are steered away from.
// The pinned reproducers switch it off.
var excludeKnown = true

type hookClient struct {
	client.Client
	before func(call string)
}

func (h *hookClient) Get(ctx context.Context, key client.ObjectKey, obj client.Object, opts ...client.GetOption) error {
	h.before("get " + obj.GetObjectKind().GroupVersionKind().Kind)
	return h.Client.Get(ctx, key, obj, opts...)
}

func (h *hookClient) List(ctx context.Context, list client.ObjectList, opts ...client.ListOption) error {
	h.before("list " + list.GetObjectKind().GroupVersionKind().Kind)
	return h.Client.List(ctx, list, opts...)
}

func (h *hookClient) Create(ctx context.Context, obj client.Object, opts ...client.CreateOption) error {
	h.before("create")
	return h.Client.Create(ctx, obj, opts...)
}

func (h *hookClient) Delete(ctx context.Context, obj client.Object, opts ...client.DeleteOption) error {
	h.before("delete")
	return h.Client.Delete(ctx, obj, opts...)
}

func (h *hookClient) Update(ctx context.Context, obj client.Object, opts ...client.UpdateOption) error {
	h.before("update")
	return h.Client.Update(ctx, obj, opts...)
}

func (h *hookClient) Patch(ctx context.Context, obj client.Object, p client.Patch, opts ...client.PatchOption) error {
	h.before("patch")
	return h.Client.Patch(ctx, obj, p, opts...)
}

func (h *hookClient) DeleteAllOf(ctx context.Context, obj client.Object, opts ...client.DeleteAllOfOption) error {
	h.before("deleteallof")
	return h.Client.DeleteAllOf(ctx, obj, opts...)
}

func (h *hookClient) Status() client.SubResourceWriter { return &hookSub{h: h, w: h.Client.Status()} }

type hookSub struct {
	h *hookClient
	w client.SubResourceWriter
}

func (s *hookSub) Create(ctx context.Context, obj, sub client.Object, opts ...client.SubResourceCreateOption) error {
	s.h.before("status-create")
	return s.w.Create(ctx, obj, sub, opts...)
}

func (s *hookSub) Update(ctx context.Context, obj client.Object, opts ...client.SubResourceUpdateOption) error {
	s.h.before("status-update")
	return s.w.Update(ctx, obj, opts...)
}

func (s *hookSub) Patch(ctx context.Context, obj client.Object, p client.Patch, opts ...client.SubResourcePatchOption) error {
	s.h.before("status-patch")
	return s.w.Patch(ctx, obj, p, opts...)
}

// interloped returns the client of an XRD reconcile: the run's own client, or,
// if the action carries an interloper, a wrapper that lets it run before API
// call a.MidK. gk is the instance kind this reconciler tears down.
func (w *world) interloped(run *verifsim.Run, a act, gk schema.GroupKind) client.Client {
	c := run.Client()
	if a.Mid == nil {
		return c
	}
	fired, listed := false, false
	h := &hookClient{Client: c}
	h.before = func(call string) {
		idx := run.N // the index the upcoming call will get
		defer func() {
			if call == "list "+gk.Kind || call == "list "+gk.Kind+"List" {
				listed = true
			}
		}()
		if fired || idx != a.MidK || run.Crashed {
			return
		}
		fired = true
		saveC, saveRun, saveLast := w.eng.c, w.eng.run, w.lastRun
		restoreOuter := func() { w.eng.c, w.eng.run, w.lastRun = saveC, saveRun, saveLast }
		defer restoreOuter()

		count := func() int { return len(w.sim.Keys(gk)) }
		n0 := count()
		var snap *worldSnap
		var pending []string
		open := excludeKnown && listed && verifkit.OpenFinding("C08", findingFor(a.Mid.Op))
		if open {
			pending = w.sim.TakeViolations()
			snap = w.snapshot()
		}
		w.do(*a.Mid)
		w.midRan++
		if open {
			if count() > n0 {
				// Exactly the known class: an instance appeared after this reconcile listed none.
				// Undo the interloper's step; the reconcile continues as if it had not run.
				w.restore(snap)
				w.midRan--
				w.midExcluded++
				if w.rec != nil {
					w.rec.Excluded()
				}
			}
			w.sim.Violations = append(pending, w.sim.Violations...)
		}
	}
	return h
}

// afterEmptyList reports whether call index k of a recorded run comes after the run's list of gk.
func afterList(calls []string, k int, gk schema.GroupKind) bool {
	for i := 0; i < k && i < len(calls); i++ {
		if strings.HasPrefix(calls[i], "list "+gk.Group+"/"+gk.Kind+"/") {
			return true
		}
	}
	return false
}

// ---------------------------------------------------------------------------
// deterministic sweep

var followUp = []act{{Op: "rec-def"}, {Op: "rec-off"}, {Op: "rec-claim"}, {Op: "rec-xr"}, {Op: "gc"}, {Op: "rec-def"}, {Op: "rec-off"}}

// TestVerifC08Interleavings: from every state reachable by a short fault-free
// teardown prefix after the XRD was deleted, each XRD reconcile is run with
// every interloper before every one of its API calls, followed by a fixed
// fault-free tail.
func TestVerifC08Interleavings(t *testing.T) {
	rec := verifkit.New(t, "C08", "interleavings at API-call granularity: for every state reached by <= N fault-free teardown steps after `user deletes XRD`, the definition and the offered reconcile are each run with every interloper (claim reconcile, XR reconcile, user creates an XR, user creates a claim, GC step; controllers only while the engine runs them) before every API call index, then a fault-free tail; monitors (a)-(d) unchanged; non-trivial = the interloper ran after the reconcile's first write or after its instance list")
	depth := 4
	if verifkit.Tier() == "thorough" {
		depth = 6
	}
	prefixOps := []act{{Op: "rec-def"}, {Op: "rec-off"}, {Op: "rec-claim"}, {Op: "rec-xr"}, {Op: "gc"}, {Op: "del-claim"}}
	shard, shards := verifkit.Shard()
	for _, fg := range []bool{false, true} {
		u := universe{Claims: 1, Templates: 1, Foreground: []bool{fg}, Stage: stageFull, Seed: 13}
		w := newWorld(u, rec)
		type base struct {
			snap *worldSnap
			path []act
		}
		w.do(act{Op: "del-xrd"})
		seen := map[string]bool{w.digest(): true}
		level := []base{{w.snapshot(), []act{{Op: "del-xrd"}}}}
		all := append([]base(nil), level...)
		for d := 0; d < depth; d++ {
			var next []base
			for _, b := range level {
				for _, a := range prefixOps {
					w.restore(b.snap)
					w.do(a)
					if v := w.sim.TakeViolations(); len(v) > 0 {
						t.Fatalf("prefix %s + %s: %v", verifkit.JSON(b.path), a, v)
					}
					if dg := w.digest(); !seen[dg] {
						seen[dg] = true
						nb := base{w.snapshot(), append(append([]act(nil), b.path...), a)}
						next = append(next, nb)
						all = append(all, nb)
					}
				}
			}
			level = next
		}
		rec.AddExtra("interleaving_base_states", len(all))
		for bi, b := range all {
			if bi%shards != shard {
				continue
			}
			for _, recOp := range []string{"rec-def", "rec-off"} {
				gk := xrGK
				if recOp == "rec-off" {
					gk = claimGK
				}
				w.restore(b.snap)
				w.do(act{Op: recOp})
				probe := w.lastRun
				calls := append([]string(nil), probe.Calls...)
				firstWrite := probe.FirstWrite
				for n := 0; n < len(calls); n++ {
					for _, io := range interloperOps {
						mid := io
						a := act{Op: recOp, Mid: &mid, MidK: n}
						w.restore(b.snap)
						w.midRan, w.midExcluded = 0, 0
						out := w.do(a)
						rec.Eval()
						fail := func(stage string) {
							if v := w.sim.TakeViolations(); len(v) > 0 {
								t.Fatalf("interleaving (%s) universe %s\nprefix %s\naction %s -> %s (calls of the undisturbed reconcile: %v)\n%s", stage, verifkit.JSON(u), verifkit.JSON(b.path), a, out, calls, strings.Join(v, "\n"))
							}
						}
						fail("during the reconcile")
						for _, f := range followUp {
							w.do(f)
							fail(fmt.Sprintf("tail, after %s", f))
						}
						rec.Label("interloper:" + io.Op)
						if w.midExcluded > 0 {
							rec.Label("interloper-excluded-known:" + io.Op)
						}
						if w.midRan > 0 && (afterList(calls, n, gk) || (firstWrite >= 0 && n > firstWrite)) {
							if afterList(calls, n, gk) {
								rec.Label("interloper-after-instance-list")
							}
							rec.NonTrivial(fmt.Sprintf("il|%v|%s|%s", fg, verifkit.JSON(b.path), a), func() any {
								return map[string]any{"universe": u, "prefix": b.path, "action": a, "calls": calls}
							})
						}
					}
				}
			}
		}
	}
}
