//go:build verif

package c08

import (
	"context"
	"fmt"
	"strings"
	"testing"

	"k8s.io/apimachinery/pkg/apis/meta/v1/unstructured"
	"k8s.io/apimachinery/pkg/runtime/schema"
	"sigs.k8s.io/controller-runtime/pkg/client"

	"github.com/crossplane/crossplane/internal/verifkit"
	"github.com/crossplane/crossplane/internal/verifsim"
)

// Interlopers: the "schedules" part of the quantifier at API-call granularity.
// While an XRD reconcile (definition or offered) runs, another actor's whole
// step runs atomically just before the reconcile's MidK-th API call. The
// monitors are unchanged: they judge the CRD delete / engine.Stop / finalizer
// removal at its own instant, whatever ran in between.

const (
	// Known-finding key (status fixed since /repo 19b4a1b, so it suppresses nothing): an XR is
	// re-created by the claim controller after the definition reconciler listed the XRs (empty)
	// and before the same reconcile deletes the XR CRD.
	findingClaimCtrl = "xr-recreated-by-claim-controller-between-empty-list-and-crd-delete"
	// Open: the guard of that repair (the definition controller waits for the offered controller's
	// finalizer) is bypassed when a third party strips that finalizer from the deleting XRD while the
	// claim controller is still running.
	findingStripped = "xr-recreated-by-claim-controller-after-third-party-removed-offered-finalizer"
)

// interloperOps are the steps another actor may take in the middle of an XRD reconcile. They are
// the actors of the property's quantifier (controller reconciles, GC steps); user CREATIONS are
// not quantified over and Crossplane cannot prevent them, so they are not interlopers (see the
// observation rows in TestVerifC08KnownInterleavings).
var interloperOps = []act{{Op: "rec-claim"}, {Op: "rec-xr"}, {Op: "gc"}}

func findingFor(string) string { return findingClaimCtrl }

// excludeKnown says whether interleavings of an open known-finding class are steered away from.
// The pinned reproducers switch it off.
var excludeKnown = true

type hookClient struct {
	client.Client
	before func(call string)
	listed func(kind string, n int)
}

func (h *hookClient) Get(ctx context.Context, key client.ObjectKey, obj client.Object, opts ...client.GetOption) error {
	h.before("get " + obj.GetObjectKind().GroupVersionKind().Kind)
	return h.Client.Get(ctx, key, obj, opts...)
}

func (h *hookClient) List(ctx context.Context, list client.ObjectList, opts ...client.ListOption) error {
	kind := strings.TrimSuffix(list.GetObjectKind().GroupVersionKind().Kind, "List")
	h.before("list " + kind)
	err := h.Client.List(ctx, list, opts...)
	if ul, ok := list.(*unstructured.UnstructuredList); ok && err == nil && h.listed != nil {
		h.listed(kind, len(ul.Items))
	}
	return err
}

func (h *hookClient) Create(ctx context.Context, obj client.Object, opts ...client.CreateOption) error {
	h.before("create")
	return h.Client.Create(ctx, obj, opts...)
}

func (h *hookClient) Delete(ctx context.Context, obj client.Object, opts ...client.DeleteOption) error {
	h.before("delete")
	return h.Client.Delete(ctx, obj, opts...)
}

func (h *hookClient) Update(ctx context.Context, obj client.Object, opts ...client.UpdateOption) error {
	h.before("update")
	return h.Client.Update(ctx, obj, opts...)
}

func (h *hookClient) Patch(ctx context.Context, obj client.Object, p client.Patch, opts ...client.PatchOption) error {
	h.before("patch")
	return h.Client.Patch(ctx, obj, p, opts...)
}

func (h *hookClient) DeleteAllOf(ctx context.Context, obj client.Object, opts ...client.DeleteAllOfOption) error {
	h.before("deleteallof")
	return h.Client.DeleteAllOf(ctx, obj, opts...)
}

func (h *hookClient) Status() client.SubResourceWriter { return &hookSub{h: h, w: h.Client.Status()} }

type hookSub struct {
	h *hookClient
	w client.SubResourceWriter
}

func (s *hookSub) Create(ctx context.Context, obj, sub client.Object, opts ...client.SubResourceCreateOption) error {
	s.h.before("status-create")
	return s.w.Create(ctx, obj, sub, opts...)
}

func (s *hookSub) Update(ctx context.Context, obj client.Object, opts ...client.SubResourceUpdateOption) error {
	s.h.before("status-update")
	return s.w.Update(ctx, obj, opts...)
}

func (s *hookSub) Patch(ctx context.Context, obj client.Object, p client.Patch, opts ...client.SubResourcePatchOption) error {
	s.h.before("status-patch")
	return s.w.Patch(ctx, obj, p, opts...)
}

// interloped returns the client of an XRD reconcile: the run's own client, or,
// if the action carries an interloper, a wrapper that lets it run before API
// call a.MidK. gk is the instance kind this reconciler tears down.
func (w *world) interloped(run *verifsim.Run, a act, gk schema.GroupKind) client.Client {
	c := run.Client()
	if a.Mid == nil {
		return c
	}
	fired, listed := false, false
	h := &hookClient{Client: c}
	// listed: this reconcile has listed the instances of gk and found none.
	h.listed = func(kind string, n int) {
		if kind == gk.Kind {
			listed = n == 0
		}
	}
	h.before = func(call string) {
		idx := run.N // the index the upcoming call will get
		if fired || idx != a.MidK || run.Crashed {
			return
		}
		fired = true
		saveC, saveRun, saveLast := w.eng.c, w.eng.run, w.lastRun
		restoreOuter := func() { w.eng.c, w.eng.run, w.lastRun = saveC, saveRun, saveLast }
		defer restoreOuter()

		count := func() int { return len(w.sim.Keys(gk)) }
		n0 := count()
		var snap *worldSnap
		var pending []string
		open := excludeKnown && listed && verifkit.OpenFinding("C08", findingFor(a.Mid.Op))
		if excludeKnown && listed && !open && a.Op == "rec-def" && a.Mid.Op == "rec-claim" && w.offeredFinalizerStripped() {
			// exactly the shape of the open finding: deleting XRD that offers a claim, offered finalizer gone,
			// claim controller still running, claim reconcile after the definition reconcile's empty XR list
			open = verifkit.OpenFinding("C08", findingStripped)
		}
		if open {
			pending = w.sim.TakeViolations()
			snap = w.snapshot()
		}
		w.do(*a.Mid)
		w.midRan++
		if open {
			if count() > n0 {
				// Exactly the known class: an instance appeared after this reconcile listed none.
				// Undo the interloper's step; the reconcile continues as if it had not run.
				w.restore(snap)
				w.midRan--
				w.midExcluded++
				if w.rec != nil {
					w.rec.Excluded()
				}
			}
			w.sim.Violations = append(pending, w.sim.Violations...)
		}
	}
	return h
}

// offeredFinalizerStripped: the XRD is being deleted, no longer carries the offered controller's
// finalizer, and yet the claim controller it offered is still running - which the offered controller
// never leaves behind by itself (it drops its finalizer only after it stopped that controller).
func (w *world) offeredFinalizerStripped() bool {
	xrd := w.sim.Get(xrdKey)
	return xrd != nil && verifsim.Terminating(xrd) && !has(verifsim.Finalizers(xrd), finOffered) && w.eng.running[claimCtrl]
}

// afterEmptyList reports whether call index k of a recorded run comes after the run's list of gk.
func afterList(calls []string, k int, gk schema.GroupKind) bool {
	for i := 0; i < k && i < len(calls); i++ {
		if strings.HasPrefix(calls[i], "list "+gk.Group+"/"+gk.Kind+"/") {
			return true
		}
	}
	return false
}

// ---------------------------------------------------------------------------
// deterministic sweep

var followUp = []act{{Op: "rec-def"}, {Op: "rec-off"}, {Op: "rec-claim"}, {Op: "rec-xr"}, {Op: "gc"}, {Op: "crd-cleanup"}, {Op: "rec-def"}, {Op: "rec-off"}}

// TestVerifC08Interleavings: from every state reachable by a short fault-free
// teardown prefix after the XRD was deleted, each XRD reconcile is run with
// every interloper before every one of its API calls, followed by a fixed
// fault-free tail.
func TestVerifC08Interleavings(t *testing.T) {
	rec := verifkit.New(t, "C08", "interleavings at API-call granularity: for every state reached by <= N fault-free teardown steps after `user deletes XRD`, the definition and the offered reconcile are each run with every interloper (claim reconcile, XR reconcile, GC step; controllers only while the engine runs them) before every API call index, then a fault-free tail; monitors (a)-(d) unchanged; non-trivial = the interloper ran after the reconcile's first write or after its instance list")
	depth := 5
	if verifkit.Tier() == "thorough" {
		depth = 8
	}
	prefixOps := []act{{Op: "rec-def"}, {Op: "rec-off"}, {Op: "rec-claim"}, {Op: "rec-xr"}, {Op: "gc"}, {Op: "del-claim"}, {Op: "crd-cleanup"}}
	shard, shards := verifkit.Shard()
	for _, fg := range []bool{false, true} {
		u := universe{Claims: 1, Templates: 1, Foreground: []bool{fg}, Stage: stageFull, Seed: 13}
		w := newWorld(u, rec)
		type base struct {
			snap *worldSnap
			path []act
		}
		w.do(act{Op: "del-xrd"})
		seen := map[string]bool{w.digest(): true}
		level := []base{{w.snapshot(), []act{{Op: "del-xrd"}}}}
		all := append([]base(nil), level...)
		for d := 0; d < depth; d++ {
			var next []base
			for _, b := range level {
				for _, a := range prefixOps {
					w.restore(b.snap)
					w.do(a)
					if v := w.sim.TakeViolations(); len(v) > 0 {
						t.Fatalf("prefix %s + %s: %v", verifkit.JSON(b.path), a, v)
					}
					if dg := w.digest(); !seen[dg] {
						seen[dg] = true
						nb := base{w.snapshot(), append(append([]act(nil), b.path...), a)}
						next = append(next, nb)
						all = append(all, nb)
					}
				}
			}
			level = next
		}
		rec.AddExtra("interleaving_base_states", len(all))
		for bi, b := range all {
			if bi%shards != shard {
				continue
			}
			for _, recOp := range []string{"rec-def", "rec-off"} {
				gk := xrGK
				if recOp == "rec-off" {
					gk = claimGK
				}
				w.restore(b.snap)
				w.do(act{Op: recOp})
				probe := w.lastRun
				calls := append([]string(nil), probe.Calls...)
				firstWrite := probe.FirstWrite
				for n := 0; n < len(calls); n++ {
					for _, io := range interloperOps {
						mid := io
						a := act{Op: recOp, Mid: &mid, MidK: n}
						w.restore(b.snap)
						w.midRan, w.midExcluded = 0, 0
						out := w.do(a)
						rec.Eval()
						fail := func(stage string) {
							if v := w.sim.TakeViolations(); len(v) > 0 {
								t.Fatalf("interleaving (%s) universe %s\nprefix %s\naction %s -> %s (calls of the undisturbed reconcile: %v)\n%s", stage, verifkit.JSON(u), verifkit.JSON(b.path), a, out, calls, strings.Join(v, "\n"))
							}
						}
						fail("during the reconcile")
						for _, f := range followUp {
							w.do(f)
							fail(fmt.Sprintf("tail, after %s", f))
						}
						rec.Label("interloper:" + io.Op)
						if w.midExcluded > 0 {
							rec.Label("interloper-excluded-known:" + io.Op)
						}
						if w.midRan > 0 && (afterList(calls, n, gk) || (firstWrite >= 0 && n > firstWrite)) {
							if afterList(calls, n, gk) {
								rec.Label("interloper-after-instance-list")
							}
							rec.NonTrivial(fmt.Sprintf("il|%v|%s|%s", fg, verifkit.JSON(b.path), a), func() any {
								return map[string]any{"universe": u, "prefix": b.path, "action": a, "calls": calls}
							})
						}
					}
				}
			}
		}
	}
}

// ---------------------------------------------------------------------------
// pinned reproducers of the known interleavings

type knownRow struct {
	name, key string
	prefix    []act
	action    act
	wantCall  string // the call the interloper precedes
}

func knownRows() []knownRow {
	return []knownRow{
		{name: "claim-controller", key: findingClaimCtrl,
			prefix:   []act{{Op: "del-xrd"}, {Op: "rec-def"}, {Op: "rec-xr"}},
			action:   act{Op: "rec-def", Mid: &act{Op: "rec-claim"}, MidK: 5},
			wantCall: "delete apiextensions.k8s.io/CustomResourceDefinition//xthings.example.org"},
		{name: "offered-finalizer-stripped", key: findingStripped,
			prefix:   []act{{Op: "del-xrd"}, {Op: "unfin", Obj: "xrd", Fin: finOffered}, {Op: "rec-def"}, {Op: "rec-xr"}},
			action:   act{Op: "rec-def", Mid: &act{Op: "rec-claim"}, MidK: 5},
			wantCall: "delete apiextensions.k8s.io/CustomResourceDefinition//xthings.example.org"},
	}
}

// TestVerifC08KnownInterleavings runs the pinned reproducer of each known
// interleaving with the exclusion switched off. Listed open and still failing:
// KNOWN-FINDING. Not listed open (fixed, or never listed): it must pass.
func observationRows() []knownRow {
	return []knownRow{
		{name: "user-xr",
			prefix: []act{{Op: "del-xrd"}, {Op: "rec-off"}, {Op: "rec-claim"}, {Op: "rec-xr"}, {Op: "rec-off"}, {Op: "rec-off"}},
			action: act{Op: "rec-def", Mid: &act{Op: "create-xr"}, MidK: 5}},
		{name: "user-claim",
			prefix: []act{{Op: "del-xrd"}, {Op: "rec-off"}, {Op: "rec-claim"}},
			action: act{Op: "rec-off", Mid: &act{Op: "create-extra-claim"}, MidK: 4}},
	}
}

func TestVerifC08KnownInterleavings(t *testing.T) {
	rec := verifkit.New(t, "C08", "pinned reproducers of the known schedule-dependent findings")
	excludeKnown = false
	defer func() { excludeKnown = true }()
	for _, row := range knownRows() {
		rec.Eval()
		w := newWorld(universe{Claims: 1, Templates: 1, Foreground: []bool{false}, Stage: stageFull, Seed: 13}, nil)
		for _, a := range row.prefix {
			w.do(a)
		}
		if v := w.sim.TakeViolations(); len(v) > 0 {
			t.Fatalf("%s: violation in the prefix: %v", row.name, v)
		}
		out := w.do(row.action)
		if got := callName(w.lastRun, row.action.MidK); got != row.wantCall && verifkit.OpenFinding("C08", row.key) && w.midRan > 0 {
			t.Fatalf("%s: the reproducer is stale: call %d of the reconcile is %q, want %q (all: %v)", row.name, row.action.MidK, got, row.wantCall, w.lastRun.Calls)
		}
		v := w.sim.TakeViolations()
		reproduced := false
		for _, s := range v {
			reproduced = reproduced || strings.HasPrefix(s, "(b)")
		}
		switch {
		case verifkit.OpenFinding("C08", row.key) && reproduced:
			rec.KnownReproduced(fmt.Sprintf("key=%s reproducer=%s: %s", row.key, row.name, v[0]))
		case verifkit.OpenFinding("C08", row.key):
			t.Logf("%s: finding %s is listed open but its reproducer no longer fails (%s); mark it fixed", row.name, row.key, out)
		case len(v) > 0:
			t.Fatalf("%s: prefix %s action %s -> %s\n%s", row.name, verifkit.JSON(row.prefix), row.action, out, strings.Join(v, "\n"))
		}
	}
	// Observations only (never a failure, never a KNOWN-FINDING): a USER creating an XR / a claim in
	// the same window also leaves an instance at the instant of the CRD delete. User creations are
	// outside the property's quantifier; what the monitors say is recorded as an evidence label.
	for _, row := range observationRows() {
		w := newWorld(universe{Claims: 1, Templates: 1, Foreground: []bool{false}, Stage: stageFull, Seed: 13}, nil)
		for _, a := range row.prefix {
			w.do(a)
		}
		w.sim.TakeViolations()
		w.do(row.action)
		if len(w.sim.TakeViolations()) > 0 {
			rec.Label("observation:user-creation-in-window")
		}
	}
}
