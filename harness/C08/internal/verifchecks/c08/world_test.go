//go:build verif

// Package c08 decides property C08: teardown happens in dependency order and
// nothing is orphaned with a dead controller.
//
// Code under test (all real, wired as their Setup functions wire them, against
// ONE simulated API server): the claim reconciler, the XR reconciler (verifenv),
// the XRD `definition` and `offered` reconcilers, the package revision
// reconciler (deletion branch) with the real PackageDependencyManager, and the
// Usage reconciler. Replaced: the API server (verifsim), the ControllerEngine
// (a recording fake whose IsRunning gates whether the XR / claim actors may be
// scheduled) and the manager.
//
// The oracle is a set of monitors evaluated at the instant of every write and
// of every engine.Stop call; see monitor() and fakeEngine.Stop.
package c08

import (
	"context"
	"crypto/sha256"
	"encoding/json"
	"fmt"
	"net/http"
	"reflect"
	"sort"
	"strings"

	"github.com/go-logr/logr"
	corev1 "k8s.io/api/core/v1"
	extv1 "k8s.io/apiextensions-apiserver/pkg/apis/apiextensions/v1"
	kerrors "k8s.io/apimachinery/pkg/api/errors"
	metav1 "k8s.io/apimachinery/pkg/apis/meta/v1"
	"k8s.io/apimachinery/pkg/runtime"
	"k8s.io/apimachinery/pkg/runtime/schema"
	"k8s.io/apimachinery/pkg/types"
	utilrand "k8s.io/apimachinery/pkg/util/rand"
	"k8s.io/client-go/tools/record"
	"k8s.io/utils/ptr"
	"sigs.k8s.io/controller-runtime/pkg/client"
	"sigs.k8s.io/controller-runtime/pkg/client/apiutil"
	"sigs.k8s.io/controller-runtime/pkg/manager"
	"sigs.k8s.io/controller-runtime/pkg/reconcile"
	"sigs.k8s.io/controller-runtime/pkg/webhook"

	xpv1 "github.com/crossplane/crossplane-runtime/apis/common/v1"
	xpcontroller "github.com/crossplane/crossplane-runtime/pkg/controller"
	"github.com/crossplane/crossplane-runtime/pkg/logging"
	"github.com/crossplane/crossplane-runtime/pkg/resource"
	ucl "github.com/crossplane/crossplane-runtime/pkg/resource/unstructured/claim"

	v1 "github.com/crossplane/crossplane/apis/apiextensions/v1"
	pkgmetav1 "github.com/crossplane/crossplane/apis/pkg/meta/v1"
	pkgv1 "github.com/crossplane/crossplane/apis/pkg/v1"
	"github.com/crossplane/crossplane/internal/controller/apiextensions/claim"
	apiextcontroller "github.com/crossplane/crossplane/internal/controller/apiextensions/controller"
	"github.com/crossplane/crossplane/internal/controller/apiextensions/definition"
	"github.com/crossplane/crossplane/internal/controller/apiextensions/offered"
	usagectrl "github.com/crossplane/crossplane/internal/controller/apiextensions/usage"
	"github.com/crossplane/crossplane/internal/controller/pkg/revision"
	"github.com/crossplane/crossplane/internal/dag"
	"github.com/crossplane/crossplane/internal/engine"
	"github.com/crossplane/crossplane/internal/names"
	"github.com/crossplane/crossplane/internal/usage"
	"github.com/crossplane/crossplane/internal/verifenv"
	"github.com/crossplane/crossplane/internal/verifkit"
	"github.com/crossplane/crossplane/internal/verifsim"
	"github.com/crossplane/crossplane/internal/xpkg"
)

const (
	xrdName     = "xthings.example.org"
	nsName      = "default"
	compName    = "comp"
	revName     = "provider-x-0123456789ab"
	revImage    = "xpkg.upbound.io/acme/provider-x:v1.0.0"
	revOwnedCRD = "widgets.acme.example.org"

	finClaim      = "finalizer.apiextensions.crossplane.io"
	finXR         = "composite.apiextensions.crossplane.io"
	finDefined    = "defined.apiextensions.crossplane.io"
	finOffered    = "offered.apiextensions.crossplane.io"
	finRevision   = "revision.pkg.crossplane.io"
	finUsage      = "usage.apiextensions.crossplane.io"
	finProvider   = "finalizer.managedresource.crossplane.io"
	finCRDCleanup = "customresourcecleanup.apiextensions.k8s.io"
	finCRDHold    = "example.org/crd-hold"

	labelComposite = "crossplane.io/composite"
	labelInUse     = "crossplane.io/in-use"
	labelPick      = "c08.example.org/pick"
	annResName     = "crossplane.io/composition-resource-name"

	xrCtrl    = "composite/" + xrdName
	claimCtrl = "claim/" + xrdName

	actorClaim    = "claim-controller"
	actorXR       = "xr-controller"
	actorDef      = "xrd-definition-controller"
	actorOff      = "xrd-offered-controller"
	actorRev      = "revision-controller"
	actorUsage    = "usage-controller"
	actorUser     = "user"
	actorThird    = "third-party"
	actorAPI      = "apiserver"
	actorSetup    = "setup"
	actorPkgOther = "other-revision-controller"
	actorPkgMgr   = "package-manager"
)

var (
	xrGK    = schema.GroupKind{Group: "example.org", Kind: "XThing"}
	claimGK = schema.GroupKind{Group: "example.org", Kind: "Thing"}
	crdGK   = schema.GroupKind{Group: "apiextensions.k8s.io", Kind: "CustomResourceDefinition"}
	usageGK = schema.GroupKind{Group: "apiextensions.crossplane.io", Kind: "Usage"}

	xrdKey      = verifsim.Key{Group: "apiextensions.crossplane.io", Kind: "CompositeResourceDefinition", Name: xrdName}
	xrCRDKey    = verifsim.Key{Group: crdGK.Group, Kind: crdGK.Kind, Name: "xthings.example.org"}
	claimCRDKey = verifsim.Key{Group: crdGK.Group, Kind: crdGK.Kind, Name: "things.example.org"}
	lockKey     = verifsim.Key{Group: "pkg.crossplane.io", Kind: "Lock", Name: "lock"}

	controllerActors = map[string]bool{actorClaim: true, actorXR: true, actorDef: true, actorOff: true, actorRev: true, actorUsage: true}

	ctx = context.Background()
)

// ---------------------------------------------------------------------------
// universe

// universe is the (small) set of objects a history plays on.
type universe struct {
	Claims     int    `json:"claims"`             // 1-2 claims, each with its XR
	Templates  int    `json:"templates"`          // 1-2 composed resources per XR (r0: KindA, r1: KindB)
	Foreground []bool `json:"foreground"`         // per claim: compositeDeletePolicy Foreground
	SSA        bool   `json:"ssa,omitempty"`      // claim controller uses the server-side syncer (EnableBetaClaimSSA wiring)
	Revision   bool   `json:"revision,omitempty"` // a ProviderRevision with a Lock entry exists
	RevKind    string `json:"revKind,omitempty"`  // kind of the package the revision belongs to: "" (Provider) or "Function"
	Usage      bool   `json:"usage,omitempty"`    // the composition also composes a Usage (of r0, by r1)
	Stage      int    `json:"stage"`              // how far the scripted bring-up got before the history starts (stageFull = everything running)
	Seed       int64  `json:"seed"`
}

const (
	stageXRDOnly     = 0 // XRD created, nothing reconciled
	stageCRDsApplied = 1 // XRD reconcilers ran once: CRDs exist, not established
	stageControllers = 2 // CRDs established, controllers started, no claims
	stageClaims      = 3 // claims created and bound, XRs not composed yet
	stageFull        = 4 // everything composed and settled
)

func claimName(i int) string { return fmt.Sprintf("c%d", i) }

// ---------------------------------------------------------------------------
// fakes: manager, engine

type nopEvents struct{}

func (nopEvents) Event(runtime.Object, string, string, string)                                      {}
func (nopEvents) Eventf(runtime.Object, string, string, string, ...any)                             {}
func (nopEvents) AnnotatedEventf(runtime.Object, map[string]string, string, string, string, ...any) {}

type capturedIndex struct {
	gk    schema.GroupKind
	field string
	fn    client.IndexerFunc
}

// fakeMgr embeds the nil interface: a method the code under test calls that is
// not implemented here panics, which is what we want to learn about.
type fakeMgr struct {
	manager.Manager
	c       client.Client
	scheme  *runtime.Scheme
	indexes []capturedIndex
}

func (m *fakeMgr) GetClient() client.Client                        { return m.c }
func (m *fakeMgr) GetScheme() *runtime.Scheme                      { return m.scheme }
func (m *fakeMgr) GetLogger() logr.Logger                          { return logr.Discard() }
func (m *fakeMgr) GetAPIReader() client.Reader                     { return m.c }
func (m *fakeMgr) GetEventRecorderFor(string) record.EventRecorder { return nopEvents{} }
func (m *fakeMgr) GetFieldIndexer() client.FieldIndexer            { return fakeIndexer{m} }
func (m *fakeMgr) GetWebhookServer() webhook.Server                { return fakeWebhookServer{} }
func (m *fakeMgr) Elected() <-chan struct{}                        { c := make(chan struct{}); close(c); return c }

type fakeIndexer struct{ mgr *fakeMgr }

func (f fakeIndexer) IndexField(_ context.Context, obj client.Object, field string, fn client.IndexerFunc) error {
	gvk, err := apiutil.GVKForObject(obj, f.mgr.scheme)
	if err != nil {
		return err
	}
	f.mgr.indexes = append(f.mgr.indexes, capturedIndex{gk: gvk.GroupKind(), field: field, fn: fn})
	return nil
}

type fakeWebhookServer struct{ webhook.Server }

func (fakeWebhookServer) Register(string, http.Handler) {}

// engineCall is one recorded call of the fake ControllerEngine, stamped with
// the length of the store's write log at that instant.
type engineCall struct {
	Op   string
	Name string
	Seq  int
}

// fakeEngine satisfies definition.ControllerEngine and offered.ControllerEngine.
type fakeEngine struct {
	w       *world
	running map[string]bool
	calls   []engineCall
	c       client.Client // client of the reconcile that is currently running
	run     *verifsim.Run // that reconcile's run (a crashed process calls nothing)
}

var (
	_ definition.ControllerEngine = &fakeEngine{}
	_ offered.ControllerEngine    = &fakeEngine{}
)

func (e *fakeEngine) dead() error {
	if e.run != nil && e.run.Crashed {
		return verifsim.ErrCrashed
	}
	return nil
}

func (e *fakeEngine) Start(name string, _ ...engine.ControllerOption) error {
	if err := e.dead(); err != nil {
		return err
	}
	e.running[name] = true
	e.calls = append(e.calls, engineCall{Op: "Start", Name: name, Seq: e.w.sim.LogLen()})
	return nil
}

// Stop evaluates monitor (c) at the instant of the call: stopping the
// controller that serves a kind while the CRD of that kind is still controlled
// by the XRD requires that no instance of the kind exists.
func (e *fakeEngine) Stop(_ context.Context, name string) error {
	if err := e.dead(); err != nil {
		return err
	}
	crdKey, gk, ok := ctrlKinds(name)
	if ok {
		e.w.sim.With(func(v *verifsim.View) {
			crd := v.Get(crdKey)
			if crd == nil || verifsim.ControllerUID(crd) != e.w.xrdUID {
				return
			}
			if inst := v.List(gk); len(inst) > 0 {
				v.Violate("(c) engine.Stop(%q) at log #%d while CRD %s is still controlled by the XRD and %d instance(s) of %s exist: %v", name, len(v.Log()), crdKey.Name, len(inst), gk.Kind, inst)
			}
		})
	}
	was := e.running[name]
	delete(e.running, name)
	e.calls = append(e.calls, engineCall{Op: "Stop", Name: name, Seq: e.w.sim.LogLen()})
	if was {
		e.w.effectiveStops++
	}
	return nil
}

func (e *fakeEngine) IsRunning(name string) bool                  { return e.running[name] }
func (e *fakeEngine) GetWatches(string) ([]engine.WatchID, error) { return nil, nil }
func (e *fakeEngine) StartWatches(name string, _ ...engine.Watch) error {
	if err := e.dead(); err != nil {
		return err
	}
	e.calls = append(e.calls, engineCall{Op: "StartWatches", Name: name, Seq: e.w.sim.LogLen()})
	return nil
}
func (e *fakeEngine) StopWatches(context.Context, string, ...engine.WatchID) (int, error) {
	return 0, nil
}
func (e *fakeEngine) GetCached() client.Client             { return e.c }
func (e *fakeEngine) GetUncached() client.Client           { return e.c }
func (e *fakeEngine) GetFieldIndexer() client.FieldIndexer { return nil }

// ctrlKinds maps an engine controller name to the CRD and kind it serves.
func ctrlKinds(name string) (verifsim.Key, schema.GroupKind, bool) {
	switch name {
	case xrCtrl:
		return xrCRDKey, xrGK, true
	case claimCtrl:
		return claimCRDKey, claimGK, true
	}
	return verifsim.Key{}, schema.GroupKind{}, false
}

// ---------------------------------------------------------------------------
// world

type world struct {
	u   universe
	env *verifenv.XREnv
	sim *verifsim.Sim
	eng *fakeEngine
	rec *verifkit.Recorder

	xrdUID       string
	xrNames      []string // XR bound to claim i ("" until known)
	claimCreated []bool

	// history bookkeeping (non-triviality, labels)
	userDeletes                int
	ctrlFinRemoved             map[string]int // finalizer -> removals by its controller
	crdDeletes                 int
	effectiveStops             int
	faultsHit                  int
	lastRun                    *verifsim.Run
	inactiveInLockDeletes      int
	midRan, midExcluded        int
	revRecShapes               map[string]int // revision reconciles by the shape of the revision's own Lock entry
	recTermCRD, recTermCRDLive int            // XRD reconciles that found their CRD terminating but existing (and instances alive)

	// Usage bookkeeping: the last using / used resource each Usage recorded in its resourceRefs
	lastBy, lastOf map[verifsim.Key]verifsim.Key
	// class counters (evidence labels)
	usageUnresolvedAtDelete, usageDelRecUnresolved, usageDelRecUnresolvedFault, usageLabelMismatch, usageDelRecForeignUsing int
	hashCache                                                                                                               map[uintptr]cachedHash
}

type worldSnap struct {
	sim            *verifsim.Snapshot
	running        map[string]bool
	ncalls         int
	xrNames        []string
	claimCreated   []bool
	userDeletes    int
	ctrlFinRemoved map[string]int
	crdDeletes     int
	effectiveStops int
	faultsHit      int
	lastBy, lastOf map[verifsim.Key]verifsim.Key
}

func copyKeyMap(m map[verifsim.Key]verifsim.Key) map[verifsim.Key]verifsim.Key {
	out := make(map[verifsim.Key]verifsim.Key, len(m))
	for k, v := range m {
		out[k] = v
	}
	return out
}

func (w *world) snapshot() *worldSnap {
	s := &worldSnap{sim: w.sim.Snapshot(), running: map[string]bool{}, ncalls: len(w.eng.calls),
		xrNames: append([]string(nil), w.xrNames...), claimCreated: append([]bool(nil), w.claimCreated...),
		userDeletes: w.userDeletes, ctrlFinRemoved: map[string]int{}, crdDeletes: w.crdDeletes, effectiveStops: w.effectiveStops, faultsHit: w.faultsHit}
	for k, v := range w.eng.running {
		s.running[k] = v
	}
	for k, v := range w.ctrlFinRemoved {
		s.ctrlFinRemoved[k] = v
	}
	s.lastBy, s.lastOf = copyKeyMap(w.lastBy), copyKeyMap(w.lastOf)
	return s
}

func (w *world) restore(s *worldSnap) {
	w.sim.Restore(s.sim)
	w.eng.running = map[string]bool{}
	for k, v := range s.running {
		w.eng.running[k] = v
	}
	w.eng.calls = w.eng.calls[:s.ncalls]
	w.xrNames = append([]string(nil), s.xrNames...)
	w.claimCreated = append([]bool(nil), s.claimCreated...)
	w.userDeletes, w.crdDeletes, w.effectiveStops, w.faultsHit = s.userDeletes, s.crdDeletes, s.effectiveStops, s.faultsHit
	w.ctrlFinRemoved = map[string]int{}
	for k, v := range s.ctrlFinRemoved {
		w.ctrlFinRemoved[k] = v
	}
	w.lastBy, w.lastOf = copyKeyMap(s.lastBy), copyKeyMap(s.lastOf)
}

func xrdObject() *v1.CompositeResourceDefinition {
	d := &v1.CompositeResourceDefinition{}
	d.SetName(xrdName)
	d.Spec.Group = "example.org"
	d.Spec.Names = extv1.CustomResourceDefinitionNames{Kind: "XThing", Plural: "xthings"}
	d.Spec.ClaimNames = &extv1.CustomResourceDefinitionNames{Kind: "Thing", Plural: "things"}
	d.Spec.Versions = []v1.CompositeResourceDefinitionVersion{{
		Name: "v1", Served: true, Referenceable: true,
		Schema: &v1.CompositeResourceValidation{OpenAPIV3Schema: runtime.RawExtension{Raw: []byte(`{"type":"object","properties":{"spec":{"type":"object","properties":{"param":{"type":"string"}}}}}`)}},
	}}
	return d
}

func (u universe) composition() *v1.Composition {
	c := &v1.Composition{}
	c.SetName(compName)
	c.Spec.CompositeTypeRef = v1.TypeReference{APIVersion: "example.org/v1", Kind: "XThing"}
	c.Spec.Mode = ptr.To(v1.CompositionModeResources)
	kinds := []string{"KindA", "KindB"}
	for i := 0; i < u.Templates; i++ {
		base, _ := json.Marshal(map[string]any{"apiVersion": "example.org/v1", "kind": kinds[i], "spec": map[string]any{"forProvider": map[string]any{"v": "x"}}})
		c.Spec.Resources = append(c.Spec.Resources, v1.ComposedTemplate{Name: ptr.To(fmt.Sprintf("r%d", i)), Base: runtime.RawExtension{Raw: base}})
	}
	if u.Usage {
		// The documented way to compose a Usage: both ends are selected among the
		// resources composed by the same XR (matchControllerRef).
		base, _ := json.Marshal(map[string]any{"apiVersion": "apiextensions.crossplane.io/v1beta1", "kind": "Usage", "spec": map[string]any{
			"of": map[string]any{"apiVersion": "example.org/v1", "kind": "KindA", "resourceSelector": map[string]any{"matchControllerRef": true}},
			"by": map[string]any{"apiVersion": "example.org/v1", "kind": "KindB", "resourceSelector": map[string]any{"matchControllerRef": true}},
		}})
		c.Spec.Resources = append(c.Spec.Resources, v1.ComposedTemplate{Name: ptr.To("usage"), Base: runtime.RawExtension{Raw: base}})
	}
	return c
}

// newWorld builds the universe and runs the scripted bring-up (with the real
// reconcilers) up to u.Stage. Monitors are armed from the start.
func newWorld(u universe, rec *verifkit.Recorder) *world {
	utilrand.Seed(u.Seed)
	env := verifenv.NewXREnv()
	w := &world{u: u, env: env, sim: env.Sim, rec: rec, xrNames: make([]string, u.Claims), claimCreated: make([]bool, u.Claims), ctrlFinRemoved: map[string]int{}, lastBy: map[verifsim.Key]verifsim.Key{}, lastOf: map[verifsim.Key]verifsim.Key{}}
	w.eng = &fakeEngine{w: w, running: map[string]bool{}}
	// XR and claim kinds are served only while their CRD object exists.
	w.sim.Served = func(v *verifsim.View, gk schema.GroupKind) bool {
		switch gk {
		case xrGK:
			return v.Get(xrCRDKey) != nil
		case claimGK:
			return v.Get(claimCRDKey) != nil
		}
		return true
	}
	// The API server's CRD lifecycle: every CRD carries the cleanup finalizer (so a deleted CRD lingers,
	// terminating, until the apiserver's cleanup step has removed every instance), and while a CRD is
	// terminating its kind is still served for reads, updates and deletes but refuses creates.
	w.sim.AddAdmission(func(v *verifsim.View, op verifsim.Op) error {
		if op.Verb != "create" {
			return nil
		}
		if op.Key.GK() == crdGK && op.New != nil {
			if m := verifsim.Meta(op.New); m != nil && !has(verifsim.Finalizers(op.New), finCRDCleanup) {
				l, _ := m["finalizers"].([]any)
				m["finalizers"] = append(l, finCRDCleanup)
			}
			return nil
		}
		for _, ck := range []verifsim.Key{xrCRDKey, claimCRDKey} {
			if gk, _ := crdInstanceKind(v.Get(ck)); gk == op.Key.GK() && verifsim.Terminating(v.Get(ck)) {
				return kerrors.NewMethodNotSupported(schema.GroupResource{Group: gk.Group, Resource: strings.ToLower(gk.Kind) + "s"}, "create (the CustomResourceDefinition is terminating)")
			}
		}
		return nil
	})
	// The real index function of the Usage webhook/controller.
	fm := &fakeMgr{c: w.sim.Client(actorSetup), scheme: w.sim.Scheme}
	if err := usage.SetupWebhookWithManager(fm, xpcontroller.Options{Logger: logging.NewNopLogger()}); err != nil {
		panic(err)
	}
	for _, ix := range fm.indexes {
		w.sim.RegisterIndex(ix.gk, ix.field, ix.fn)
	}
	w.sim.AddMonitor(w.monitor)

	d := xrdObject()
	w.sim.MustCreate(actorUser, d)
	w.xrdUID = string(d.GetUID())
	env.InstallComposition(u.composition(), 1)
	if u.Revision {
		w.installRevision()
	}
	if u.Stage >= stageCRDsApplied {
		w.do(act{Op: "rec-def"})
		w.do(act{Op: "rec-off"})
	}
	if u.Stage >= stageControllers {
		w.do(act{Op: "establish"})
		w.do(act{Op: "rec-def"})
		w.do(act{Op: "rec-off"})
	}
	if u.Stage >= stageClaims {
		for i := 0; i < u.Claims; i++ {
			w.do(act{Op: "create-claim", I: i})
			w.do(act{Op: "rec-claim", I: i})
		}
	}
	if u.Stage >= stageFull {
		for round := 0; round < 2; round++ {
			for i := 0; i < u.Claims; i++ {
				w.do(act{Op: "rec-xr", I: i})
				w.do(act{Op: "rec-xr", I: i})
				if u.Usage {
					w.do(act{Op: "rec-usage", I: i})
					w.do(act{Op: "rec-usage", I: i})
				}
				w.do(act{Op: "rec-claim", I: i})
			}
		}
	}
	return w
}

func (w *world) pkgKind() string {
	if w.u.RevKind == "Function" {
		return "Function"
	}
	return "Provider"
}

func (w *world) revKey() verifsim.Key {
	return verifsim.Key{Group: "pkg.crossplane.io", Kind: w.pkgKind() + "Revision", Name: revName}
}

func (w *world) revGVK() schema.GroupVersionKind {
	return pkgv1.SchemeGroupVersion.WithKind(w.pkgKind() + "Revision")
}

func (w *world) pkgGVK() schema.GroupVersionKind {
	return pkgv1.SchemeGroupVersion.WithKind(w.pkgKind())
}

func (w *world) newRev() pkgv1.PackageRevision {
	if w.u.RevKind == "Function" {
		return &pkgv1.FunctionRevision{}
	}
	return &pkgv1.ProviderRevision{}
}

func (w *world) pkgMeta() pkgmetav1.Pkg {
	if w.u.RevKind == "Function" {
		return &pkgmetav1.Function{}
	}
	return &pkgmetav1.Provider{}
}

// lockShapes are the admissible shapes of the type fields of a Lock entry (apis/pkg/v1beta1
// LockPackage: apiVersion, kind and the deprecated type are all optional).
var lockShapes = []string{"current", "older-version", "older-version+type", "type-only", "kind-only", "none"}

// reshapeLockEntry rewrites the type fields of the Lock entry with the given name, as if an older
// Crossplane had written it (or, for "current", this one).
func (w *world) reshapeLockEntry(name, kind, shape string) bool {
	lock := w.sim.Get(lockKey)
	if lock == nil {
		return false
	}
	u := verifsim.U(lock)
	l, _ := u.Object["packages"].([]any)
	done := false
	for _, e := range l {
		m, ok := e.(map[string]any)
		if !ok || m["name"] != name {
			continue
		}
		delete(m, "apiVersion")
		delete(m, "kind")
		m["type"] = nil
		switch shape {
		case "current":
			m["apiVersion"], m["kind"] = "pkg.crossplane.io/v1", kind
		case "older-version":
			m["apiVersion"], m["kind"] = "pkg.crossplane.io/v1beta1", kind
		case "older-version+type":
			m["apiVersion"], m["kind"], m["type"] = "pkg.crossplane.io/v1beta1", kind, kind
		case "type-only":
			m["type"] = kind
		case "kind-only":
			m["kind"] = kind
		case "none":
		}
		done = true
	}
	if !done {
		return false
	}
	return w.sim.Client("crossplane-upgrade").Update(ctx, u) == nil
}

// lockEntryShape classifies the type fields of an entry.
func lockEntryShape(lock verifsim.Obj, name string) string {
	l, _ := lock["packages"].([]any)
	for _, e := range l {
		m, ok := e.(map[string]any)
		if !ok || m["name"] != name {
			continue
		}
		av, _ := m["apiVersion"].(string)
		k, _ := m["kind"].(string)
		t, _ := m["type"].(string)
		switch {
		case av == "pkg.crossplane.io/v1" && k != "":
			return "current"
		case av != "" && k != "" && t != "":
			return "older-version+type"
		case av != "" && k != "":
			return "older-version"
		case t != "":
			return "type-only"
		case k != "":
			return "kind-only"
		default:
			return "none"
		}
	}
	return ""
}

// installRevision creates an installed-looking ProviderRevision: it carries the
// revision finalizer and the REAL dependency manager has entered it in the Lock.
func (w *world) installRevision() {
	c := w.sim.Client(actorSetup)
	pr := w.newRev()
	pr.SetName(revName)
	pr.SetLabels(map[string]string{"pkg.crossplane.io/package": "provider-x"})
	pr.SetFinalizers([]string{finRevision})
	pr.SetSource(revImage)
	pr.SetDesiredState(pkgv1.PackageRevisionActive)
	pr.SetRevision(1)
	w.sim.MustCreate(actorSetup, pr)
	// An installed revision controls the objects of its package and lists them in
	// status.objectRefs (with that list an Inactive revision is deactivated
	// without fetching its image again).
	owned := verifsim.U(verifsim.Obj{"apiVersion": "apiextensions.k8s.io/v1", "kind": "CustomResourceDefinition",
		"metadata": map[string]any{"name": revOwnedCRD, "ownerReferences": []any{map[string]any{
			"apiVersion": "pkg.crossplane.io/v1", "kind": w.pkgKind() + "Revision", "name": revName, "uid": string(pr.GetUID()), "controller": true, "blockOwnerDeletion": true}}},
		"spec": map[string]any{"group": "acme.example.org", "scope": "Cluster", "names": map[string]any{"kind": "Widget", "plural": "widgets"},
			"versions": []any{map[string]any{"name": "v1", "served": true, "storage": true, "schema": map[string]any{"openAPIV3Schema": map[string]any{"type": "object"}}}}}})
	w.sim.MustCreate(actorSetup, owned)
	pr.SetObjects([]xpv1.TypedReference{{APIVersion: "apiextensions.k8s.io/v1", Kind: "CustomResourceDefinition", Name: revOwnedCRD}})
	pr.SetConditions(pkgv1.Healthy(), pkgv1.Active())
	if err := c.Status().Update(ctx, pr); err != nil {
		panic(fmt.Sprintf("c08: revision status: %v", err))
	}
	dm := revision.NewPackageDependencyManager(c, dag.NewMapDag, w.pkgGVK())
	if _, _, _, err := dm.Resolve(ctx, w.pkgMeta(), pr); err != nil {
		panic(fmt.Sprintf("c08: Resolve for the revision under test: %v", err))
	}
	w.addOtherLockEntry("provider-other-aaaaaaaaaaaa", "xpkg.upbound.io/acme/provider-other:v2.0.0")
	if !w.lockHas(revName) {
		panic("c08: the dependency manager did not enter the revision in the Lock")
	}
}

// addOtherLockEntry lets the real dependency manager enter another (live) revision in the Lock.
func (w *world) addOtherLockEntry(name, image string) {
	c := w.sim.Client(actorPkgOther)
	other := &pkgv1.ProviderRevision{}
	other.SetName(name)
	other.Spec.Package = image
	other.Spec.DesiredState = pkgv1.PackageRevisionActive
	dm := revision.NewPackageDependencyManager(c, dag.NewMapDag, pkgv1.ProviderGroupVersionKind)
	_, _, _, _ = dm.Resolve(ctx, &pkgmetav1.Provider{}, other)
}

func (w *world) lockHas(name string) bool {
	return lockHasEntry(w.sim.Get(lockKey), name)
}

func lockHasEntry(lock verifsim.Obj, name string) bool {
	l, _ := lock["packages"].([]any)
	for _, e := range l {
		if m, ok := e.(map[string]any); ok && m["name"] == name {
			return true
		}
	}
	return false
}

// ---------------------------------------------------------------------------
// the oracle: monitors at the instant of each write

func removedFinalizers(before, after verifsim.Obj) []string {
	var out []string
	have := map[string]bool{}
	for _, f := range verifsim.Finalizers(after) {
		have[f] = true
	}
	for _, f := range verifsim.Finalizers(before) {
		if !have[f] {
			out = append(out, f)
		}
	}
	return out
}

func has(l []string, s string) bool {
	for _, e := range l {
		if e == s {
			return true
		}
	}
	return false
}

func (w *world) monitor(v *verifsim.View, wr *verifsim.Write) {
	if wr.DryRun || wr.Err != "" || wr.Before == nil {
		return
	}
	byController := controllerActors[wr.Actor]

	// (b) a composite or claim CRD controlled by the XRD is deleted by an XRD controller.
	if wr.Verb == "delete" && wr.Key.GK() == crdGK && byController && verifsim.ControllerUID(wr.Before) == w.xrdUID {
		w.crdDeletes++
		for _, name := range []string{xrCtrl, claimCtrl} {
			crdKey, gk, _ := ctrlKinds(name)
			if crdKey != wr.Key {
				continue
			}
			if inst := v.List(gk); len(inst) > 0 {
				v.Violate("(b) CRD %s deleted by %s (write #%d) while %d instance(s) of %s are still in the store: %v", wr.Key.Name, wr.Actor, wr.Seq, len(inst), gk.Kind, inst)
			}
			if w.eng.running[name] {
				v.Violate("(b) CRD %s deleted by %s (write #%d) while the engine is still running controller %q", wr.Key.Name, wr.Actor, wr.Seq, name)
			}
		}
	}

	if !wr.Changed {
		return
	}
	w.usageWrites(v, wr)
	removed := removedFinalizers(wr.Before, wr.After)
	if len(removed) == 0 {
		return
	}
	if byController {
		for _, f := range removed {
			w.ctrlFinRemoved[f]++
		}
	}
	if !byController {
		// A third party (or the garbage collector) removing a finalizer is an
		// environment step of the quantifier, not a controller decision.
		return
	}

	switch {
	// (a) claim finalizer removed => its XR is being deleted or gone (Foreground: gone).
	case wr.Key.GK() == claimGK && has(removed, finClaim):
		xrName, _ := verifsim.Nested(wr.Before, "spec", "resourceRef", "name").(string)
		if xrName == "" {
			return
		}
		fg := verifsim.Nested(wr.Before, "spec", "compositeDeletePolicy") == string(xpv1.CompositeDeleteForeground)
		xr := v.Get(verifsim.Key{Group: xrGK.Group, Kind: xrGK.Kind, Name: xrName})
		switch {
		case xr == nil:
		case fg:
			v.Violate("(a) claim %s/%s (compositeDeletePolicy Foreground) lost its finalizer (write #%d by %s) while its XR %s still exists (terminating=%v)", wr.Key.Namespace, wr.Key.Name, wr.Seq, wr.Actor, xrName, verifsim.Terminating(xr))
		case !verifsim.Terminating(xr):
			v.Violate("(a) claim %s/%s lost its finalizer (write #%d by %s) while its XR %s exists and has no deletionTimestamp", wr.Key.Namespace, wr.Key.Name, wr.Seq, wr.Actor, xrName)
		}

	// (d) XRD finalizer removed => the CRD is absent or not controlled by this XRD.
	case wr.Key == xrdKey:
		uid := verifsim.MetaString(wr.Before, "uid")
		for fin, crdKey := range map[string]verifsim.Key{finDefined: xrCRDKey, finOffered: claimCRDKey} {
			if !has(removed, fin) {
				continue
			}
			if crd := v.Get(crdKey); crd != nil && verifsim.ControllerUID(crd) == uid {
				v.Violate("(d) XRD finalizer %s removed (write #%d by %s) while CRD %s still exists and is controlled by the XRD", fin, wr.Seq, wr.Actor, crdKey.Name)
			}
		}

	// (e) revision finalizer removed => the Lock has no entry with the revision's name.
	case wr.Key.Group == "pkg.crossplane.io" && strings.HasSuffix(wr.Key.Kind, "Revision") && has(removed, finRevision):
		if lockHasEntry(v.Get(lockKey), wr.Key.Name) {
			v.Violate("(e) package revision %s lost its finalizer (write #%d by %s) while the Lock still lists it", wr.Key.Name, wr.Seq, wr.Actor)
		}

	// (f) composed Usage with `by` finalized => no using resource of it exists any more.
	case wr.Key.GK() == usageGK && has(removed, finUsage):
		if using := w.usingResources(v, wr.Key, wr.Before); len(using) > 0 {
			v.Violate("(f) composed Usage %s lost its finalizer (write #%d by %s) while its using resource still exists: %s", wr.Key.Name, wr.Seq, wr.Actor, strings.Join(using, "; "))
		}
	}
}

// usingResources returns the live using resources of a composed Usage (label
// crossplane.io/composite, spec.by set), each with the reason it counts as one;
// nil for any other Usage. "Its using resource" is read off the Usage itself:
//   - the object named by spec.by.resourceRef, if a name is recorded;
//   - otherwise every object of spec.by's apiVersion/kind that spec.by.resourceSelector
//     selects (matchLabels, and for matchControllerRef the same controller as the Usage) -
//     the very candidates the resolver would record;
//   - and, while no name is recorded and spec.by still names the same kind, the object whose
//     name was last recorded there (a cleared reference does not make the user go away).
func (w *world) usingResources(v *verifsim.View, key verifsim.Key, u verifsim.Obj) []string {
	if u == nil || verifsim.Labels(u)[labelComposite] == "" {
		return nil
	}
	by, _ := verifsim.Nested(u, "spec", "by").(map[string]any)
	if by == nil {
		return nil
	}
	gv, _ := schema.ParseGroupVersion(fmt.Sprint(by["apiVersion"]))
	gk := schema.GroupKind{Group: gv.Group, Kind: fmt.Sprint(by["kind"])}
	var out []string
	if name, _ := verifsim.Nested(by, "resourceRef", "name").(string); name != "" {
		k := verifsim.Key{Group: gk.Group, Kind: gk.Kind, Name: name}
		if v.Get(k) != nil {
			out = append(out, fmt.Sprintf("%s (spec.by.resourceRef)", k))
		}
		return out
	}
	seen := map[verifsim.Key]bool{}
	if sel, ok := by["resourceSelector"].(map[string]any); ok {
		want, _ := sel["matchLabels"].(map[string]any)
		mcr, _ := sel["matchControllerRef"].(bool)
		for _, k := range v.List(gk) {
			o := v.Get(k)
			match := true
			for lk, lv := range want {
				if verifsim.Labels(o)[lk] != fmt.Sprint(lv) {
					match = false
				}
			}
			if mcr && (verifsim.ControllerUID(o) == "" || verifsim.ControllerUID(o) != verifsim.ControllerUID(u)) {
				match = false
			}
			if match {
				seen[k] = true
				out = append(out, fmt.Sprintf("%s (selected by the unresolved spec.by.resourceSelector)", k))
			}
		}
	}
	if last, ok := w.lastBy[key]; ok && last.GK() == gk && !seen[last] && v.Get(last) != nil {
		out = append(out, fmt.Sprintf("%s (last recorded in spec.by.resourceRef, since cleared)", last))
	}
	return out
}

// usageWrites is the part of the monitor that runs on every effective write: it remembers the
// last using resource a Usage recorded, and judges (f2): the Usage controller lifts the in-use
// label of a used resource - the first step of finalizing a Usage - only when no composed Usage
// of that resource still has a live using resource.
func (w *world) usageWrites(v *verifsim.View, wr *verifsim.Write) {
	if wr.Key.GK() == usageGK && wr.After != nil && !verifsim.Terminating(wr.Before) && verifsim.Terminating(wr.After) && verifsim.Labels(wr.After)[labelComposite] != "" {
		if by, of := unresolvedSides(wr.After); by || of {
			w.usageUnresolvedAtDelete++
		}
	}
	if wr.Key.GK() == usageGK && wr.After != nil {
		if by, ok := verifsim.Nested(wr.After, "spec", "by").(map[string]any); ok {
			if name, _ := verifsim.Nested(by, "resourceRef", "name").(string); name != "" {
				gv, _ := schema.ParseGroupVersion(fmt.Sprint(by["apiVersion"]))
				w.lastBy[wr.Key] = verifsim.Key{Group: gv.Group, Kind: fmt.Sprint(by["kind"]), Name: name}
			}
		}
		if of, ok := verifsim.Nested(wr.After, "spec", "of").(map[string]any); ok {
			if name, _ := verifsim.Nested(of, "resourceRef", "name").(string); name != "" {
				gv, _ := schema.ParseGroupVersion(fmt.Sprint(of["apiVersion"]))
				w.lastOf[wr.Key] = verifsim.Key{Group: gv.Group, Kind: fmt.Sprint(of["kind"]), Name: name}
			}
		}
	}
	if wr.Actor != actorUsage || wr.Before == nil || wr.After == nil || verifsim.Labels(wr.Before)[labelInUse] == "" || verifsim.Labels(wr.After)[labelInUse] != "" {
		return
	}
	for _, uk := range v.List(usageGK) {
		u := v.Get(uk)
		of, _ := verifsim.Nested(u, "spec", "of").(map[string]any)
		gv, _ := schema.ParseGroupVersion(fmt.Sprint(of["apiVersion"]))
		name, _ := verifsim.Nested(of, "resourceRef", "name").(string)
		if gv.Group != wr.Key.Group || fmt.Sprint(of["kind"]) != wr.Key.Kind {
			continue
		}
		if name == "" {
			if last, ok := w.lastOf[uk]; !ok || last != wr.Key {
				continue
			}
		} else if name != wr.Key.Name {
			continue
		}
		if using := w.usingResources(v, uk, u); len(using) > 0 {
			v.Violate("(f2) the in-use label of used resource %s was removed (write #%d by %s) while composed Usage %s of it still has a live using resource: %s", wr.Key, wr.Seq, wr.Actor, uk.Name, strings.Join(using, "; "))
		}
	}
}

// ---------------------------------------------------------------------------
// actions

// act is one step of a history. It is plain data so that failing histories can be pinned.
type act struct {
	Op  string `json:"op"`
	I   int    `json:"i,omitempty"`   // claim / XR index
	J   int    `json:"j,omitempty"`   // template index (composed resource rJ)
	FG  bool   `json:"fg,omitempty"`  // foreground propagation
	Obj string `json:"obj,omitempty"` // unfin: object designator
	Fin string `json:"fin,omitempty"` // unfin: finalizer
	F   string `json:"f,omitempty"`   // fault kind (reconciles): err-conflict|err-server|errafter-timeout|crash-before|crash-after
	K   int    `json:"k,omitempty"`   // fault call index
	// Mid, if set (rec-def / rec-off only), is an interloper: another actor's whole step runs
	// atomically just before API call number MidK of this reconcile.
	Mid  *act `json:"mid,omitempty"`
	MidK int  `json:"midk,omitempty"`
}

func (a act) String() string { return verifkit.JSON(a) }

var faultKinds = map[string]verifsim.Fault{
	"err-conflict":     {Kind: verifsim.ErrBefore, Err: "conflict"},
	"err-server":       {Kind: verifsim.ErrBefore, Err: "server"},
	"errafter-timeout": {Kind: verifsim.ErrAfter, Err: "timeout"},
	"crash-before":     {Kind: verifsim.CrashBefore},
	"crash-after":      {Kind: verifsim.CrashAfter},
}

var faultNames = []string{"err-conflict", "err-server", "errafter-timeout", "crash-before", "crash-after"}

func (a act) plan() map[int]verifsim.Fault {
	if a.F == "" {
		return nil
	}
	return map[int]verifsim.Fault{a.K: faultKinds[a.F]}
}

func (w *world) xrKey(i int) (verifsim.Key, bool) {
	if w.xrNames[i] == "" {
		if cm := w.sim.Get(w.claimKey(i)); cm != nil {
			w.xrNames[i], _ = verifsim.Nested(cm, "spec", "resourceRef", "name").(string)
		}
	}
	return verifsim.Key{Group: xrGK.Group, Kind: xrGK.Kind, Name: w.xrNames[i]}, w.xrNames[i] != ""
}

func (w *world) claimKey(i int) verifsim.Key {
	return verifsim.Key{Group: claimGK.Group, Kind: claimGK.Kind, Namespace: nsName, Name: claimName(i)}
}

// composedKeys returns the live objects composed by XR i for template tmpl.
func (w *world) composedKeys(i int, tmpl string) []verifsim.Key {
	xk, ok := w.xrKey(i)
	if !ok {
		return nil
	}
	var out []verifsim.Key
	for k, o := range w.sim.State() {
		// composed names are generated from the XR's name; the fallback keeps finding a composed resource
		// whose crossplane.io/composite label was stripped or changed
		if verifsim.Annotations(o)[annResName] == tmpl && (verifsim.Labels(o)[labelComposite] == xk.Name || strings.HasPrefix(k.Name, xk.Name+"-")) {
			out = append(out, k)
		}
	}
	sort.Slice(out, func(a, b int) bool { return out[a].String() < out[b].String() })
	return out
}

// crdInstanceKind returns the kind a CRD object defines.
func crdInstanceKind(crd verifsim.Obj) (schema.GroupKind, bool) {
	if crd == nil {
		return schema.GroupKind{}, false
	}
	g, _ := verifsim.Nested(crd, "spec", "group").(string)
	k, _ := verifsim.Nested(crd, "spec", "names", "kind").(string)
	return schema.GroupKind{Group: g, Kind: k}, g != "" && k != ""
}

// crdCleanupStep is one step of the API server's CRD finalizer controller: for one terminating CRD
// that still carries the cleanup finalizer it deletes the instances that are not yet terminating
// (they go when their own finalizers are gone), or, if no instance is left, removes the finalizer.
func (w *world) crdCleanupStep() bool {
	c := w.sim.Client(actorAPI)
	for _, k := range w.sim.Keys(crdGK) {
		crd := w.sim.Get(k)
		if !verifsim.Terminating(crd) || !has(verifsim.Finalizers(crd), finCRDCleanup) {
			continue
		}
		gk, ok := crdInstanceKind(crd)
		if !ok {
			continue
		}
		inst := w.sim.Keys(gk)
		did := false
		for _, ik := range inst {
			if o := w.sim.Get(ik); !verifsim.Terminating(o) {
				if err := c.Delete(ctx, verifsim.U(o)); err == nil {
					did = true
				}
			}
		}
		if did {
			return true
		}
		if len(inst) > 0 {
			continue // waiting for the instances' own finalizers
		}
		u := verifsim.U(crd)
		var keep []string
		for _, f := range u.GetFinalizers() {
			if f != finCRDCleanup {
				keep = append(keep, f)
			}
		}
		u.SetFinalizers(keep)
		if err := c.Update(ctx, u); err == nil {
			return true
		}
	}
	return false
}

// xrdRecClass classifies an XRD reconcile that is about to run (evidence labels).
func (w *world) xrdRecClass(crdKey verifsim.Key, gk schema.GroupKind) {
	xrd, crd := w.sim.Get(xrdKey), w.sim.Get(crdKey)
	if xrd == nil || !verifsim.Terminating(xrd) || crd == nil || !verifsim.Terminating(crd) || verifsim.ControllerUID(crd) != w.xrdUID {
		return
	}
	w.recTermCRD++
	if len(w.sim.Keys(gk)) > 0 {
		w.recTermCRDLive++
	}
}

// resolve maps an object designator to the store keys it currently denotes.
func (w *world) resolve(des string) []verifsim.Key {
	var i int
	var tmpl string
	switch {
	case des == "xrd":
		return []verifsim.Key{xrdKey}
	case des == "rev":
		return []verifsim.Key{w.revKey()}
	case des == "crd:xr":
		return []verifsim.Key{xrCRDKey}
	case des == "crd:claim":
		return []verifsim.Key{claimCRDKey}
	case strings.HasPrefix(des, "claim:"):
		fmt.Sscanf(des, "claim:%d", &i)
		if i < w.u.Claims {
			return []verifsim.Key{w.claimKey(i)}
		}
	case strings.HasPrefix(des, "xr:"):
		fmt.Sscanf(des, "xr:%d", &i)
		if i < w.u.Claims {
			if k, ok := w.xrKey(i); ok {
				return []verifsim.Key{k}
			}
		}
	case strings.HasPrefix(des, "composed:"):
		p := strings.SplitN(des, ":", 3)
		if len(p) == 3 {
			fmt.Sscanf(p[1], "%d", &i)
			tmpl = p[2]
			if i < w.u.Claims {
				return w.composedKeys(i, tmpl)
			}
		}
	}
	return nil
}

// designators lists every object designator of the universe.
func (w *world) designators() []string {
	out := []string{"xrd"}
	for i := 0; i < w.u.Claims; i++ {
		out = append(out, fmt.Sprintf("claim:%d", i), fmt.Sprintf("xr:%d", i))
		for j := 0; j < w.u.Templates; j++ {
			out = append(out, fmt.Sprintf("composed:%d:r%d", i, j))
		}
		if w.u.Usage {
			out = append(out, fmt.Sprintf("composed:%d:usage", i))
		}
	}
	if w.u.Revision {
		out = append(out, "rev")
	}
	out = append(out, "crd:xr", "crd:claim")
	return out
}

// removable lists the (designator, finalizer) pairs a third party could remove right now.
func (w *world) removable() []act {
	var out []act
	for _, des := range w.designators() {
		seen := map[string]bool{}
		for _, k := range w.resolve(des) {
			for _, f := range verifsim.Finalizers(w.sim.Get(k)) {
				if !seen[f] && f != "foregroundDeletion" && f != "orphan" {
					seen[f] = true
					out = append(out, act{Op: "unfin", Obj: des, Fin: f})
				}
			}
		}
	}
	return out
}

func (w *world) userDelete(k verifsim.Key, gvk schema.GroupVersionKind, fg bool) string {
	if w.sim.Get(k) == nil {
		return "absent"
	}
	u := verifsim.U(verifsim.Obj{"apiVersion": gvk.GroupVersion().String(), "kind": gvk.Kind, "metadata": map[string]any{"name": k.Name, "namespace": k.Namespace}})
	if k.Namespace == "" {
		delete(verifsim.Meta(u.Object), "namespace")
	}
	pol := metav1.DeletePropagationBackground
	if fg {
		pol = metav1.DeletePropagationForeground
	}
	if err := w.sim.Client(actorUser).Delete(ctx, u, client.PropagationPolicy(pol)); err != nil {
		return "refused: " + err.Error()
	}
	w.userDeletes++
	return "ok"
}

func gvkOfObj(o verifsim.Obj) schema.GroupVersionKind {
	gv, _ := schema.ParseGroupVersion(fmt.Sprint(o["apiVersion"]))
	return gv.WithKind(fmt.Sprint(o["kind"]))
}

// reconcileResult describes one reconcile for labels and the DFS fault expansion.
type reconcileResult struct {
	ran   bool
	calls int
	run   *verifsim.Run
}

// do performs one action and returns a short outcome string (for messages).
func (w *world) do(a act) string {
	out := w.doInner(a)
	w.ensureCRDFinalizers()
	return out
}

// ensureCRDFinalizers keeps the API server's cleanup finalizer on every live CRD. The real server puts it
// there at the moment a CRD is deleted; here it is (re-)added right after any step that left a CRD
// without it (the XRD controllers replace the whole CRD with an Update, which drops foreign finalizers),
// so that whoever deletes a CRD next - a controller, a user, the garbage collector - finds it in place.
func (w *world) ensureCRDFinalizers() {
	for _, k := range w.sim.Keys(crdGK) {
		o := w.sim.Get(k)
		if verifsim.Terminating(o) || has(verifsim.Finalizers(o), finCRDCleanup) {
			continue
		}
		u := verifsim.U(o)
		u.SetFinalizers(append(u.GetFinalizers(), finCRDCleanup))
		_ = w.sim.Client(actorAPI).Update(ctx, u)
	}
}

func (w *world) doInner(a act) string {
	utilrand.Seed(w.u.Seed + 7)
	req := func(ns, name string) reconcile.Request {
		return reconcile.Request{NamespacedName: types.NamespacedName{Namespace: ns, Name: name}}
	}
	switch a.Op {
	case "create-claim":
		if a.I >= w.u.Claims || w.claimCreated[a.I] || w.sim.Get(claimCRDKey) == nil {
			return "disabled"
		}
		cm := ucl.New(ucl.WithGroupVersionKind(verifenv.ClaimGVKDefault))
		cm.SetName(claimName(a.I))
		cm.SetNamespace(nsName)
		cm.SetCompositionReference(&corev1.ObjectReference{Name: compName})
		if w.u.Foreground[a.I] {
			cm.SetCompositeDeletePolicy(ptr.To(xpv1.CompositeDeleteForeground))
		}
		if err := w.sim.Client(actorUser).Create(ctx, cm); err != nil {
			return "refused: " + err.Error()
		}
		w.claimCreated[a.I] = true
		return "ok"

	case "create-xr": // a user creates an XR of their own (not bound to any claim)
		if w.sim.Get(xrCRDKey) == nil {
			return "disabled"
		}
		xr := w.env.NewXR(fmt.Sprintf("ux%d", a.I), compName)
		if err := w.sim.Client(actorUser).Create(ctx, xr); err != nil {
			return "refused: " + err.Error()
		}
		return "ok"
	case "create-extra-claim": // a user creates one more claim
		if w.sim.Get(claimCRDKey) == nil {
			return "disabled"
		}
		cm := ucl.New(ucl.WithGroupVersionKind(verifenv.ClaimGVKDefault))
		cm.SetName(fmt.Sprintf("cx%d", a.I))
		cm.SetNamespace(nsName)
		cm.SetCompositionReference(&corev1.ObjectReference{Name: compName})
		if err := w.sim.Client(actorUser).Create(ctx, cm); err != nil {
			return "refused: " + err.Error()
		}
		return "ok"
	case "del-claim":
		if a.I >= w.u.Claims {
			return "disabled"
		}
		return w.userDelete(w.claimKey(a.I), verifenv.ClaimGVKDefault, a.FG)
	case "del-xr":
		if a.I >= w.u.Claims {
			return "disabled"
		}
		k, ok := w.xrKey(a.I)
		if !ok {
			return "disabled"
		}
		return w.userDelete(k, verifenv.XRGVKDefault, a.FG)
	case "del-xrd":
		return w.userDelete(xrdKey, v1.CompositeResourceDefinitionGroupVersionKind, a.FG)
	case "del-rev":
		if !w.u.Revision {
			return "disabled"
		}
		if o := w.sim.Get(w.revKey()); o != nil && !verifsim.Terminating(o) && verifsim.Nested(o, "spec", "desiredState") == string(pkgv1.PackageRevisionInactive) && w.lockHas(revName) {
			w.inactiveInLockDeletes++ // not restored by DFS snapshots (the DFS universe has no revision)
		}
		return w.userDelete(w.revKey(), w.revGVK(), a.FG)
	case "del-composed": // includes "user deletes the Usage" (tmpl usage) and "the using resource" (r1)
		if a.I >= w.u.Claims {
			return "disabled"
		}
		ks := w.composedKeys(a.I, a.Obj)
		if len(ks) == 0 {
			return "absent"
		}
		return w.userDelete(ks[0], gvkOfObj(w.sim.Get(ks[0])), a.FG)

	case "rec-claim":
		if a.I >= w.u.Claims || !w.eng.running[claimCtrl] {
			return "not-running"
		}
		run := w.newRun(actorClaim, a)
		c := run.Client()
		opts := []claim.ReconcilerOption{claim.WithRecorder(w.env.Recorder)}
		if w.u.SSA {
			opts = append(opts,
				claim.WithCompositeSyncer(claim.NewServerSideCompositeSyncer(c, names.NewNameGenerator(c))),
				claim.WithManagedFieldsUpgrader(claim.NewPatchingManagedFieldsUpgrader(c)))
		}
		r := claim.NewReconciler(c, resource.CompositeClaimKind(verifenv.ClaimGVKDefault), resource.CompositeKind(verifenv.XRGVKDefault), opts...)
		_, err := r.Reconcile(ctx, req(nsName, claimName(a.I)))
		w.xrKey(a.I)
		return w.outcome(run, a, err)
	case "rec-xr":
		if a.I >= w.u.Claims || !w.eng.running[xrCtrl] {
			return "not-running"
		}
		k, ok := w.xrKey(a.I)
		if !ok {
			return "disabled"
		}
		run := w.newRun(actorXR, a)
		_, err := w.env.Reconcile(run, k.Name)
		return w.outcome(run, a, err)
	case "rec-def":
		w.xrdRecClass(xrCRDKey, xrGK)
		run := w.newRun(actorDef, a)
		r := definition.NewReconciler(definition.NewClientApplicator(w.interloped(run, a, xrGK)), definition.WithControllerEngine(w.eng), definition.WithRecorder(w.env.Recorder),
			definition.WithOptions(apiextcontroller.Options{Options: xpcontroller.DefaultOptions()}))
		_, err := r.Reconcile(ctx, req("", xrdName))
		return w.outcome(run, a, err)
	case "rec-off":
		w.xrdRecClass(claimCRDKey, claimGK)
		run := w.newRun(actorOff, a)
		r := offered.NewReconciler(offered.NewClientApplicator(w.interloped(run, a, claimGK)), offered.WithControllerEngine(w.eng), offered.WithRecorder(w.env.Recorder),
			offered.WithOptions(apiextcontroller.Options{Options: xpcontroller.DefaultOptions()}))
		_, err := r.Reconcile(ctx, req("", xrdName))
		return w.outcome(run, a, err)
	case "rec-rev":
		// Driven: the deletion branch, and the deactivation path of an Inactive revision (which, with
		// status.objectRefs present, returns before any image is fetched). The install path of an Active
		// revision needs a registry; C15/C16 own it.
		if o := w.sim.Get(w.revKey()); !w.u.Revision || o == nil || !(verifsim.Terminating(o) || verifsim.Nested(o, "spec", "desiredState") == string(pkgv1.PackageRevisionInactive)) {
			return "disabled"
		}
		if sh := lockEntryShape(w.sim.Get(lockKey), revName); sh != "" {
			if w.revRecShapes == nil {
				w.revRecShapes = map[string]int{}
			}
			w.revRecShapes[sh]++
		}
		run := w.newRun(actorRev, a)
		c := run.Client()
		// wired as SetupProviderRevision does, minus the image backend and the runtime hooks
		r := revision.NewReconciler(&fakeMgr{c: c, scheme: w.sim.Scheme},
			revision.WithNewPackageRevisionFn(w.newRev),
			revision.WithDependencyManager(revision.NewPackageDependencyManager(c, dag.NewMapDag, w.pkgGVK())),
			revision.WithEstablisher(revision.NewAPIEstablisher(c, "crossplane-system", 1)),
			revision.WithConfigStore(xpkg.NewImageConfigStore(c, "crossplane-system")),
			revision.WithNamespace("crossplane-system"),
			revision.WithRecorder(w.env.Recorder))
		_, err := r.Reconcile(ctx, req("", revName))
		return w.outcome(run, a, err)
	case "rec-usage":
		if !w.u.Usage || a.I >= w.u.Claims {
			return "disabled"
		}
		ks := w.composedKeys(a.I, "usage")
		if len(ks) == 0 {
			return "absent"
		}
		unresolved := w.usageClass(ks[0])
		if w.usageForeignUsing(ks[0]) != "" {
			w.usageDelRecForeignUsing++
		}
		run := w.newRun(actorUsage, a)
		defer func() {
			if unresolved {
				w.usageDelRecUnresolved++
				if a.F != "" && a.K < run.N {
					w.usageDelRecUnresolvedFault++
				}
			}
		}()
		r := usagectrl.NewReconciler(&fakeMgr{c: run.Client(), scheme: w.sim.Scheme}, usagectrl.WithRecorder(w.env.Recorder))
		_, err := r.Reconcile(ctx, req("", ks[0].Name))
		return w.outcome(run, a, err)

	case "gc":
		if w.sim.GCStep() {
			return "ok"
		}
		return "idle"
	case "establish":
		n := 0
		for _, k := range []verifsim.Key{xrCRDKey, claimCRDKey} {
			crd := w.sim.Get(k)
			if crd == nil || verifsim.Terminating(crd) {
				continue
			}
			if l, _ := verifsim.Nested(crd, "status", "conditions").([]any); len(l) > 0 {
				continue
			}
			u := verifsim.U(crd)
			u.Object["status"] = map[string]any{"conditions": []any{map[string]any{"type": "Established", "status": "True", "reason": "InitialNamesAccepted", "message": "ok", "lastTransitionTime": "2024-01-01T00:00:00Z"}}}
			if err := w.sim.Client(actorAPI).Status().Update(ctx, u); err == nil {
				n++
			}
		}
		if n == 0 {
			return "idle"
		}
		return "ok"
	case "unfin":
		n := 0
		for _, k := range w.resolve(a.Obj) {
			o := w.sim.Get(k)
			if o == nil || !has(verifsim.Finalizers(o), a.Fin) {
				continue
			}
			u := verifsim.U(o)
			var keep []string
			for _, f := range u.GetFinalizers() {
				if f != a.Fin {
					keep = append(keep, f)
				}
			}
			u.SetFinalizers(keep)
			// XR / claim kinds may be unservable; a third party cannot touch them then.
			if err := w.sim.Client(actorThird).Update(ctx, u); err == nil {
				n++
			}
		}
		if n == 0 {
			return "idle"
		}
		return "ok"
	case "addfin": // the provider of a composed resource starts managing it
		n := 0
		for _, k := range w.resolve(fmt.Sprintf("composed:%d:r%d", a.I, a.J)) {
			o := w.sim.Get(k)
			if o == nil || verifsim.Terminating(o) || has(verifsim.Finalizers(o), finProvider) {
				continue
			}
			u := verifsim.U(o)
			u.SetFinalizers(append(u.GetFinalizers(), finProvider))
			if err := w.sim.Client("provider").Update(ctx, u); err == nil {
				n++
			}
		}
		if n == 0 {
			return "idle"
		}
		return "ok"
	case "restart": // the Crossplane process restarts: every dynamic controller is gone until an XRD reconcile starts it again
		if len(w.eng.running) == 0 {
			return "idle"
		}
		w.eng.running = map[string]bool{}
		w.eng.calls = append(w.eng.calls, engineCall{Op: "ProcessRestart", Seq: w.sim.LogLen()})
		return "ok"
	case "crd-cleanup": // the API server's CRD finalizer controller
		if w.crdCleanupStep() {
			return "ok"
		}
		return "idle"
	case "del-crd": // a user deletes a CRD out of band (Obj: xr | claim)
		k := xrCRDKey
		if a.Obj == "claim" {
			k = claimCRDKey
		}
		if o := w.sim.Get(k); o == nil || verifsim.Terminating(o) {
			return "idle"
		}
		return w.userDelete(k, schema.GroupVersionKind{Group: crdGK.Group, Version: "v1", Kind: crdGK.Kind}, a.FG)
	case "addfin-crd": // a third party puts a finalizer of its own on a CRD (Obj: xr | claim)
		k := xrCRDKey
		if a.Obj == "claim" {
			k = claimCRDKey
		}
		o := w.sim.Get(k)
		if o == nil || verifsim.Terminating(o) || has(verifsim.Finalizers(o), finCRDHold) {
			return "idle"
		}
		u := verifsim.U(o)
		u.SetFinalizers(append(u.GetFinalizers(), finCRDHold))
		if err := w.sim.Client(actorThird).Update(ctx, u); err != nil {
			return "refused: " + err.Error()
		}
		return "ok"
	case "unresolve-usage":
		// A user clears the recorded reference(s) of the composed Usage so that the selector is resolved
		// again (the usual way to force re-selection); with J=1 the `by` selector additionally asks for a
		// label that the using resource does not carry (yet).
		if !w.u.Usage || a.I >= w.u.Claims {
			return "disabled"
		}
		ks := w.composedKeys(a.I, "usage")
		if len(ks) == 0 {
			return "absent"
		}
		u := verifsim.U(w.sim.Get(ks[0]))
		n := 0
		for _, side := range []string{"by", "of"} {
			if a.Obj != side && a.Obj != "both" {
				continue
			}
			m, _ := verifsim.Nested(u.Object, "spec", side).(map[string]any)
			if m == nil {
				continue
			}
			if _, ok := m["resourceRef"]; ok {
				delete(m, "resourceRef")
				n++
			}
			sel, _ := m["resourceSelector"].(map[string]any)
			if sel == nil {
				sel = map[string]any{"matchControllerRef": true}
				m["resourceSelector"] = sel
			}
			if side == "by" && a.J == 1 {
				if _, ok := sel["matchLabels"]; !ok {
					n++
				}
				sel["matchLabels"] = map[string]any{labelPick: "yes"}
			}
		}
		if n == 0 {
			return "idle"
		}
		if err := w.sim.Client(actorUser).Update(ctx, u); err != nil {
			return "refused: " + err.Error()
		}
		return "ok"
	case "relabel-using":
		// The using resource stops carrying the Usage's crossplane.io/composite value: the label is stripped
		// (Obj "none": as on a hand-created resource) or names another root composite (Obj "other").
		if !w.u.Usage || a.I >= w.u.Claims {
			return "disabled"
		}
		n := 0
		for _, k := range w.composedKeys(a.I, "r1") {
			u := verifsim.U(w.sim.Get(k))
			l := u.GetLabels()
			if a.Obj == "other" {
				l[labelComposite] = "some-other-root-xr"
			} else {
				delete(l, labelComposite)
			}
			u.SetLabels(l)
			if err := w.sim.Client(actorUser).Update(ctx, u); err == nil {
				n++
			}
		}
		if n == 0 {
			return "idle"
		}
		return "ok"
	case "label-using": // the using resource gets the label the edited selector asks for
		if !w.u.Usage || a.I >= w.u.Claims {
			return "disabled"
		}
		n := 0
		for _, k := range w.composedKeys(a.I, "r1") {
			o := w.sim.Get(k)
			if verifsim.Labels(o)[labelPick] != "" {
				continue
			}
			u := verifsim.U(o)
			l := u.GetLabels()
			l[labelPick] = "yes"
			u.SetLabels(l)
			if err := w.sim.Client(actorUser).Update(ctx, u); err == nil {
				n++
			}
		}
		if n == 0 {
			return "idle"
		}
		return "ok"
	case "deactivate-rev": // the package manager (or a user) flips spec.desiredState to Inactive: a spec edit only
		o := w.sim.Get(w.revKey())
		if !w.u.Revision || o == nil || verifsim.Terminating(o) || verifsim.Nested(o, "spec", "desiredState") == string(pkgv1.PackageRevisionInactive) {
			return "disabled"
		}
		pr := w.newRev()
		c := w.sim.Client(actorPkgMgr)
		if err := c.Get(ctx, types.NamespacedName{Name: revName}, pr); err != nil {
			return "refused: " + err.Error()
		}
		pr.SetDesiredState(pkgv1.PackageRevisionInactive)
		if err := c.Update(ctx, pr); err != nil {
			return "refused: " + err.Error()
		}
		return "ok"
	case "lock-upgrade": // the revision's Lock entry carries the type fields an older Crossplane wrote (Obj: shape)
		if !w.u.Revision || !w.lockHas(revName) {
			return "disabled"
		}
		if !w.reshapeLockEntry(revName, w.pkgKind(), a.Obj) {
			return "refused"
		}
		return "ok"
	case "lock-churn": // another revision controller enters its package in the Lock
		if !w.u.Revision {
			return "disabled"
		}
		w.addOtherLockEntry(fmt.Sprintf("provider-more-%012d", a.I), fmt.Sprintf("xpkg.upbound.io/acme/provider-more%d:v1.0.0", a.I))
		return "ok"
	}
	panic("c08: unknown action " + a.Op)
}

// unresolvedSides reports which selectors of a Usage have no recorded resourceRef.
func unresolvedSides(u verifsim.Obj) (by, of bool) {
	if m, ok := verifsim.Nested(u, "spec", "by").(map[string]any); ok {
		n, _ := verifsim.Nested(m, "resourceRef", "name").(string)
		by = n == ""
	}
	n, _ := verifsim.Nested(u, "spec", "of", "resourceRef", "name").(string)
	return by, n == ""
}

// usageClass: is this a deletion reconcile of a composed, finalized Usage with an unresolved selector
// while a using resource still exists (the class the (f) clause is hardest on)?
func (w *world) usageClass(k verifsim.Key) bool {
	u := w.sim.Get(k)
	if u == nil || !verifsim.Terminating(u) || !has(verifsim.Finalizers(u), finUsage) {
		return false
	}
	by, of := unresolvedSides(u)
	if !by && !of {
		return false
	}
	live := false
	w.sim.With(func(v *verifsim.View) {
		for _, r := range w.usingResources(v, k, u) {
			live = true
			if strings.Contains(r, "since cleared") { // the edited selector does not select the user (yet)
				w.usageLabelMismatch++
			}
		}
	})
	return live
}

// usageForeignUsing: for a terminating, finalized, composed Usage whose using resource is alive, says how
// that resource's crossplane.io/composite label relates to the Usage's: "" (same value, or not in this
// class at all), "none" (no label) or "other" (another root's value).
func (w *world) usageForeignUsing(k verifsim.Key) string {
	u := w.sim.Get(k)
	if u == nil || !verifsim.Terminating(u) || !has(verifsim.Finalizers(u), finUsage) || verifsim.Labels(u)[labelComposite] == "" {
		return ""
	}
	out := ""
	w.sim.With(func(v *verifsim.View) {
		for _, r := range w.usingResources(v, k, u) {
			var rk verifsim.Key
			f := strings.SplitN(strings.SplitN(r, " ", 2)[0], "/", 4)
			if len(f) == 4 {
				rk = verifsim.Key{Group: f[0], Kind: f[1], Namespace: f[2], Name: f[3]}
			}
			switch l, ok := verifsim.Labels(v.Get(rk))[labelComposite]; {
			case !ok:
				out = "none"
			case l != verifsim.Labels(u)[labelComposite]:
				out = "other"
			}
		}
	})
	return out
}

func (w *world) newRun(actor string, a act) *verifsim.Run {
	run := w.sim.NewRun(actor, a.plan())
	w.eng.c = run.Client()
	w.eng.run = run
	w.lastRun = run
	return run
}

func (w *world) outcome(run *verifsim.Run, a act, err error) string {
	w.eng.run = nil
	hit := a.F != "" && a.K < run.N
	if hit {
		w.faultsHit++
	}
	s := fmt.Sprintf("calls=%d", run.N)
	if hit {
		s += fmt.Sprintf(" fault@%s", callName(run, a.K))
	}
	if err != nil {
		s += " err"
	}
	return s
}

func callName(r *verifsim.Run, k int) string {
	if k >= 0 && k < len(r.Calls) {
		return r.Calls[k]
	}
	return "?"
}

// ---------------------------------------------------------------------------
// canonical state digest (DFS pruning)

var volatileKeys = map[string]bool{"resourceVersion": true, "managedFields": true, "creationTimestamp": true, "lastTransitionTime": true, "generation": true, "deletionGracePeriodSeconds": true, "observedGeneration": true}

func canon(v any) any {
	switch t := v.(type) {
	case map[string]any:
		out := make(map[string]any, len(t))
		for k, e := range t {
			if volatileKeys[k] {
				continue
			}
			if k == "deletionTimestamp" {
				out[k] = "T"
				continue
			}
			out[k] = canon(e)
		}
		return out
	case []any:
		out := make([]any, len(t))
		for i, e := range t {
			out[i] = canon(e)
		}
		return out
	}
	return v
}

// digest renders everything future behaviour can depend on: the store modulo
// fields no reconciler under test reads (resourceVersions are only compared
// within one reconcile, which always reads fresh), and the engine's running set.
func (w *world) digest() string {
	st := w.sim.State()
	keys := make([]verifsim.Key, 0, len(st))
	for k := range st {
		keys = append(keys, k)
	}
	sort.Slice(keys, func(i, j int) bool { return keys[i].String() < keys[j].String() })
	h := sha256.New()
	for _, k := range keys {
		h.Write([]byte(k.String()))
		h.Write([]byte{'='})
		h.Write(w.objHash(st[k]))
		h.Write([]byte{'\n'})
	}
	var run []string
	for n, r := range w.eng.running {
		if r {
			run = append(run, n)
		}
	}
	sort.Strings(run)
	h.Write([]byte(strings.Join(run, ",")))
	for i, c := range w.claimCreated {
		fmt.Fprintf(h, "|%d:%v:%s", i, c, w.xrNames[i])
	}
	return string(h.Sum(nil))
}

// objHash caches the canonical hash of a stored object. Stored objects are
// immutable maps; the cache keeps a reference to each, so a map's address is
// never reused for different content while the cache lives.
func (w *world) objHash(o verifsim.Obj) []byte {
	p := reflect.ValueOf(o).Pointer()
	if c, ok := w.hashCache[p]; ok {
		return c.sum
	}
	b, _ := json.Marshal(canon(o))
	sum := sha256.Sum256(b)
	if w.hashCache == nil || len(w.hashCache) > 6000 {
		// Dropping the whole cache also drops every reference, so no stale address can be hit later.
		w.hashCache = map[uintptr]cachedHash{}
	}
	w.hashCache[p] = cachedHash{obj: o, sum: sum[:]}
	return sum[:]
}

type cachedHash struct {
	obj verifsim.Obj
	sum []byte
}

// nonTrivial is the property's rule: the history contains a user delete and at
// least one finalizer removal by a controller.
func (w *world) nonTrivial() bool {
	n := 0
	for _, c := range w.ctrlFinRemoved {
		n += c
	}
	return w.userDeletes > 0 && n > 0
}
