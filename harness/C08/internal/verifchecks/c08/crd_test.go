//go:build verif

package c08

import (
	"fmt"
	"strings"
	"testing"

	"github.com/crossplane/crossplane/internal/verifkit"
	"github.com/crossplane/crossplane/internal/verifsim"
)

// crdScenario brings the deleted XRD's CRD(s) into "terminating but still existing".
type crdScenario struct {
	Name   string `json:"name"`
	FG     bool   `json:"claimForeground"`
	Script []act  `json:"script"`
}

func crdScenarios() []crdScenario {
	gcs := func(n int) []act { return rep(n, act{Op: "gc"}) }
	teardownClaims := []act{{Op: "rec-off"}, {Op: "rec-claim"}, {Op: "rec-xr"}, {Op: "rec-off"}}
	var out []crdScenario
	for _, fg := range []bool{false, true} {
		out = append(out,
			// severe: the CRD is deleted out of band while XRs / claims still exist
			crdScenario{"xrd-foreground-gc-deletes-crds", fg, cat([]act{{Op: "del-xrd", FG: true}}, gcs(3))},
			crdScenario{"xrd-foreground-gc-deletes-crds+cleanup", fg, cat([]act{{Op: "del-xrd", FG: true}}, gcs(3), []act{{Op: "crd-cleanup"}})},
			crdScenario{"user-deletes-xr-crd-then-xrd", fg, []act{{Op: "del-crd", Obj: "xr"}, {Op: "del-xrd"}}},
			crdScenario{"user-deletes-claim-crd-then-xrd", fg, []act{{Op: "del-crd", Obj: "claim"}, {Op: "del-xrd"}}},
			crdScenario{"user-deletes-both-crds-then-xrd+cleanup", fg, []act{{Op: "del-crd", Obj: "xr"}, {Op: "del-crd", Obj: "claim"}, {Op: "crd-cleanup"}, {Op: "del-xrd"}}},
			crdScenario{"xrd-deleted-then-user-deletes-xr-crd", fg, []act{{Op: "del-xrd"}, {Op: "rec-def"}, {Op: "del-crd", Obj: "xr"}}},
			crdScenario{"xr-crd-deleted-claims-torn-down", fg, cat([]act{{Op: "del-crd", Obj: "xr"}, {Op: "del-xrd"}}, teardownClaims, []act{{Op: "crd-cleanup"}, {Op: "rec-off"}})},
			// mild: the reconciler's own CRD delete lingers (cleanup finalizer; a third party's finalizer)
			crdScenario{"own-delete-lingers-on-cleanup-finalizer", fg, cat([]act{{Op: "del-xrd"}}, teardownClaims, []act{{Op: "rec-off"}, {Op: "crd-cleanup"}, {Op: "rec-off"}, {Op: "rec-def"}, {Op: "rec-xr"}, {Op: "rec-def"}})},
			crdScenario{"own-delete-lingers-on-third-party-finalizer", fg, cat([]act{{Op: "del-xrd"}, {Op: "addfin-crd", Obj: "xr"}}, teardownClaims, []act{{Op: "rec-off"}, {Op: "crd-cleanup"}, {Op: "rec-off"}, {Op: "rec-def"}, {Op: "rec-xr"}, {Op: "rec-def"}, {Op: "crd-cleanup"}})},
			crdScenario{"claim-crd-own-delete-lingers-on-third-party-finalizer", fg, cat([]act{{Op: "del-xrd"}, {Op: "addfin-crd", Obj: "claim"}}, teardownClaims, []act{{Op: "rec-off"}, {Op: "crd-cleanup"}})},
		)
	}
	return out
}

// TestVerifC08TerminatingCRD: XRD reconciles that find their CRD terminating but still existing.
// For every scenario both XRD reconcilers are run fault-free and with every fault at every API
// call index, each followed by a fault-free tail; monitors (a)-(d) judge every write and Stop.
func TestVerifC08TerminatingCRD(t *testing.T) {
	rec := verifkit.New(t, "C08", "deleted XRD whose XR / claim CRD is terminating but still exists (cleanup finalizer of the API server, a third party's finalizer, out-of-band deletion by a user or by foreground GC) with and without live instances; definition and offered reconcile swept over every API call index x {conflict, 500, lost reply, crash-before, crash-after}, then a fault-free tail including the API server's CRD cleanup; non-trivial = the swept reconcile started with its CRD terminating, existing and controlled by the XRD")
	tail := []act{{Op: "rec-def"}, {Op: "rec-off"}, {Op: "rec-claim"}, {Op: "rec-xr"}, {Op: "crd-cleanup"}, {Op: "gc"}, {Op: "rec-def"}, {Op: "rec-off"}, {Op: "crd-cleanup"}, {Op: "rec-def"}, {Op: "rec-off"}}
	shard, shards := verifkit.Shard()
	for si, sc := range crdScenarios() {
		if si%shards != shard {
			continue
		}
		u := universe{Claims: 1, Templates: 1, Foreground: []bool{sc.FG}, Stage: stageFull, Seed: 19}
		w := newWorld(u, rec)
		for _, a := range sc.Script {
			w.do(a)
		}
		if v := w.sim.TakeViolations(); len(v) > 0 {
			t.Fatalf("scenario %s: violation while setting the scene (script %s):\n%s", sc.Name, verifkit.JSON(sc.Script), strings.Join(v, "\n"))
		}
		base := w.snapshot()
		for _, recOp := range []string{"rec-def", "rec-off"} {
			w.restore(base)
			w.recTermCRD, w.recTermCRDLive = 0, 0
			w.do(act{Op: recOp})
			inClass, live := w.recTermCRD > 0, w.recTermCRDLive > 0
			if v := w.sim.TakeViolations(); len(v) > 0 {
				t.Fatalf("scenario %s: fault-free %s (calls %v) after %s:\n%s", sc.Name, recOp, w.lastRun.Calls, verifkit.JSON(sc.Script), strings.Join(v, "\n"))
			}
			calls := append([]string(nil), w.lastRun.Calls...)
			rec.Labelf("crd-scenario %s", sc.Name)
			if inClass {
				rec.Label("crd-sweep: " + recOp + " with terminating-but-existing CRD")
			}
			if live {
				rec.Label("crd-sweep: " + recOp + " with terminating-but-existing CRD and live instances")
			}
			variants := []act{{Op: recOp}}
			for k := range calls {
				for _, f := range faultNames {
					variants = append(variants, act{Op: recOp, F: f, K: k})
				}
			}
			for _, a := range variants {
				w.restore(base)
				rec.Eval()
				hist := append(append([]act(nil), sc.Script...), a)
				out := w.do(a)
				fail := func() {
					if v := w.sim.TakeViolations(); len(v) > 0 {
						t.Fatalf("scenario %s (claim foreground=%v)\nhistory %s\nlast action -> %s (calls of the undisturbed reconcile: %v)\n%s", sc.Name, sc.FG, verifkit.JSON(hist), out, calls, strings.Join(v, "\n"))
					}
				}
				fail()
				for _, ta := range tail {
					hist = append(hist, ta)
					out = w.do(ta)
					fail()
				}
				if inClass {
					rec.NonTrivial(fmt.Sprintf("crd|%s|%v|%s", sc.Name, sc.FG, a), func() any { return map[string]any{"scenario": sc, "history": hist, "calls": calls} })
				}
			}
		}
	}
	_ = verifsim.Key{}
}
