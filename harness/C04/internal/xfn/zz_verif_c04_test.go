//go:build verif

package xfn

// Property C04, part B: the transport. The real PackagedFunctionRunner talks
// gRPC over unix sockets to in-process function servers (v1 only, v1 and
// v1beta1, v1beta1 only); Functions and FunctionRevisions live in verifsim.
// A small reference model (which revision of a function is active, which
// endpoint it has, which functions have been dialled) predicts where every
// request must arrive and which connections GarbageCollectConnectionsNow closes.

import (
	"context"
	"encoding/json"
	"fmt"
	"net"
	"os"
	"sort"
	"sync"
	"testing"

	"google.golang.org/grpc"
	"google.golang.org/grpc/connectivity"
	"google.golang.org/protobuf/proto"
	"google.golang.org/protobuf/reflect/protoreflect"
	"google.golang.org/protobuf/types/known/structpb"
	"k8s.io/apimachinery/pkg/types"
	"pgregory.net/rapid"

	fnv1 "github.com/crossplane/crossplane/apis/apiextensions/fn/proto/v1"
	fnv1beta1 "github.com/crossplane/crossplane/apis/apiextensions/fn/proto/v1beta1"
	pkgv1 "github.com/crossplane/crossplane/apis/pkg/v1"
	"github.com/crossplane/crossplane/internal/verifkit"
	"github.com/crossplane/crossplane/internal/verifsim"
)

// ---------------------------------------------------------------------------
// in-process function servers

type c04Received struct {
	API string // v1 | v1beta1
	Raw []byte // deterministic encoding of the request as the server decoded it
	Unk bool   // the decoded request carried unknown fields
}

type c04Server struct {
	id       int
	serveV1  bool
	serveB1  bool
	endpoint string

	mu   sync.Mutex
	reqs []c04Received
}

func (s *c04Server) take() []c04Received {
	s.mu.Lock()
	defer s.mu.Unlock()
	out := s.reqs
	s.reqs = nil
	return out
}

func c04HasUnknown(m protoreflect.Message) bool {
	if len(m.GetUnknown()) > 0 {
		return true
	}
	unk := false
	m.Range(func(fd protoreflect.FieldDescriptor, v protoreflect.Value) bool {
		switch {
		case fd.IsMap():
			if fd.MapValue().Message() != nil {
				v.Map().Range(func(_ protoreflect.MapKey, mv protoreflect.Value) bool {
					unk = unk || c04HasUnknown(mv.Message())
					return !unk
				})
			}
		case fd.IsList():
			if fd.Message() != nil {
				for i := 0; i < v.List().Len(); i++ {
					unk = unk || c04HasUnknown(v.List().Get(i).Message())
				}
			}
		case fd.Message() != nil:
			unk = unk || c04HasUnknown(v.Message())
		}
		return !unk
	})
	return unk
}

func c04Det(m proto.Message) []byte {
	b, err := proto.MarshalOptions{Deterministic: true}.Marshal(m)
	if err != nil {
		panic(err)
	}
	return b
}

// c04Answer is the server's deterministic response: it echoes desired and
// context, names the server, and reports two results and a condition.
func c04Answer(id int, api string, req *fnv1.RunFunctionRequest) *fnv1.RunFunctionResponse {
	rsp := &fnv1.RunFunctionResponse{
		Meta:    &fnv1.ResponseMeta{Tag: fmt.Sprintf("srv-%d-%s-%s", id, api, req.GetMeta().GetTag())},
		Desired: req.GetDesired(),
		Context: req.GetContext(),
		Results: []*fnv1.Result{
			{Severity: fnv1.Severity_SEVERITY_NORMAL, Message: "hello", Reason: proto.String("R"), Target: fnv1.Target_TARGET_COMPOSITE_AND_CLAIM.Enum()},
			{Severity: fnv1.Severity_SEVERITY_WARNING, Message: "careful"},
		},
		Conditions: []*fnv1.Condition{{Type: "T", Status: fnv1.Status_STATUS_CONDITION_TRUE, Reason: "Because", Message: proto.String("m")}},
	}
	if len(req.GetExtraResources()) == 0 {
		rsp.Requirements = &fnv1.Requirements{ExtraResources: map[string]*fnv1.ResourceSelector{
			"a": {ApiVersion: "example.org/v1", Kind: "K", Match: &fnv1.ResourceSelector_MatchName{MatchName: "n"}},
			"b": {ApiVersion: "example.org/v1", Kind: "K", Match: &fnv1.ResourceSelector_MatchLabels{MatchLabels: &fnv1.MatchLabels{Labels: map[string]string{"x": "y"}}}},
		}}
	}
	return rsp
}

type c04V1 struct {
	fnv1.UnimplementedFunctionRunnerServiceServer
	s *c04Server
}

func (h *c04V1) RunFunction(_ context.Context, req *fnv1.RunFunctionRequest) (*fnv1.RunFunctionResponse, error) {
	h.s.mu.Lock()
	h.s.reqs = append(h.s.reqs, c04Received{API: "v1", Raw: c04Det(req), Unk: c04HasUnknown(req.ProtoReflect())})
	h.s.mu.Unlock()
	return c04Answer(h.s.id, "v1", req), nil
}

type c04B1 struct {
	fnv1beta1.UnimplementedFunctionRunnerServiceServer
	s *c04Server
}

func (h *c04B1) RunFunction(_ context.Context, req *fnv1beta1.RunFunctionRequest) (*fnv1beta1.RunFunctionResponse, error) {
	raw := c04Det(req)
	h.s.mu.Lock()
	h.s.reqs = append(h.s.reqs, c04Received{API: "v1beta1", Raw: raw, Unk: c04HasUnknown(req.ProtoReflect())})
	h.s.mu.Unlock()
	// A v1beta1 function computes on v1beta1 messages; for the harness the
	// answer is computed once (on the v1 reading of the same bytes) and re-encoded.
	v := &fnv1.RunFunctionRequest{}
	if err := proto.Unmarshal(raw, v); err != nil {
		return nil, err
	}
	out := &fnv1beta1.RunFunctionResponse{}
	if err := proto.Unmarshal(c04Det(c04Answer(h.s.id, "v1beta1", v)), out); err != nil {
		return nil, err
	}
	return out, nil
}

var (
	c04Once    sync.Once
	c04Servers []*c04Server
)

// c04Pool starts the function servers once per process: 0 serves v1 only, 1
// serves both APIs, 2 and 3 serve only v1beta1.
func c04Pool(t testing.TB) []*c04Server {
	c04Once.Do(func() {
		for i, kind := range []struct{ v1, b1 bool }{{true, false}, {true, true}, {false, true}, {false, true}} {
			s := &c04Server{id: i, serveV1: kind.v1, serveB1: kind.b1}
			// Abstract unix sockets: nothing is left behind in the file system.
			name := fmt.Sprintf("c04fn-%d-%d", os.Getpid(), i)
			lis, err := net.Listen("unix", "@"+name)
			if err != nil {
				t.Fatalf("VERIF-INCONCLUSIVE: cannot listen on unix socket: %v", err)
			}
			s.endpoint = "unix-abstract:" + name
			g := grpc.NewServer()
			if s.serveV1 {
				fnv1.RegisterFunctionRunnerServiceServer(g, &c04V1{s: s})
			}
			if s.serveB1 {
				fnv1beta1.RegisterFunctionRunnerServiceServer(g, &c04B1{s: s})
			}
			go func() { _ = g.Serve(lis) }()
			c04Servers = append(c04Servers, s)
		}
	})
	return c04Servers
}

// ---------------------------------------------------------------------------
// generators

func c04Struct(t *rapid.T, label string) *structpb.Struct {
	m := verifkit.JSONObject(2).Draw(t, label)
	b, err := json.Marshal(m) // what an API server would store: valid UTF-8 JSON
	if err != nil {
		t.Fatalf("%v", err)
	}
	s := &structpb.Struct{}
	if err := s.UnmarshalJSON(b); err != nil {
		t.Fatalf("%v", err)
	}
	return s
}

func c04Resource(t *rapid.T, label string) *fnv1.Resource {
	r := &fnv1.Resource{}
	if rapid.IntRange(0, 5).Draw(t, label+"hasres") > 0 {
		r.Resource = c04Struct(t, label+"res")
	}
	if rapid.Bool().Draw(t, label+"hasconn") {
		r.ConnectionDetails = map[string][]byte{}
		for i, n := 0, rapid.IntRange(0, 2).Draw(t, label+"nconn"); i < n; i++ {
			r.ConnectionDetails[fmt.Sprintf("k%d", i)] = rapid.SliceOfN(rapid.Byte(), 0, 6).Draw(t, label+"conn")
		}
	}
	r.Ready = fnv1.Ready(rapid.IntRange(0, 2).Draw(t, label+"ready"))
	return r
}

func c04State(t *rapid.T, label string) *fnv1.State {
	if rapid.IntRange(0, 5).Draw(t, label+"nil") == 0 {
		return nil
	}
	st := &fnv1.State{}
	if rapid.Bool().Draw(t, label+"hasxr") {
		st.Composite = c04Resource(t, label+"xr")
	}
	for i, n := 0, rapid.IntRange(0, 3).Draw(t, label+"nres"); i < n; i++ {
		if st.Resources == nil {
			st.Resources = map[string]*fnv1.Resource{}
		}
		st.Resources[fmt.Sprintf("r%d", i)] = c04Resource(t, label+"r")
	}
	return st
}

func c04Request(t *rapid.T, tag string) *fnv1.RunFunctionRequest {
	req := &fnv1.RunFunctionRequest{Observed: c04State(t, "obs"), Desired: c04State(t, "des")}
	if rapid.Bool().Draw(t, "hasmeta") {
		req.Meta = &fnv1.RequestMeta{Tag: tag}
	}
	if rapid.Bool().Draw(t, "hasinput") {
		req.Input = c04Struct(t, "input")
	}
	if rapid.Bool().Draw(t, "hasctx") {
		req.Context = c04Struct(t, "ctx")
	}
	for i, n := 0, rapid.IntRange(0, 2).Draw(t, "nextra"); i < n; i++ {
		if req.ExtraResources == nil {
			req.ExtraResources = map[string]*fnv1.Resources{}
		}
		switch rapid.IntRange(0, 3).Draw(t, "extrakind") {
		case 0:
			req.ExtraResources[fmt.Sprintf("e%d", i)] = nil // what FetchingFunctionRunner stores for "not found"
		case 1:
			req.ExtraResources[fmt.Sprintf("e%d", i)] = &fnv1.Resources{}
		default:
			rs := &fnv1.Resources{}
			for j, m := 0, rapid.IntRange(1, 2).Draw(t, "nitems"); j < m; j++ {
				rs.Items = append(rs.Items, c04Resource(t, "item"))
			}
			req.ExtraResources[fmt.Sprintf("e%d", i)] = rs
		}
	}
	for i, n := 0, rapid.IntRange(0, 2).Draw(t, "ncreds"); i < n; i++ {
		if req.Credentials == nil {
			req.Credentials = map[string]*fnv1.Credentials{}
		}
		req.Credentials[fmt.Sprintf("c%d", i)] = &fnv1.Credentials{Source: &fnv1.Credentials_CredentialData{CredentialData: &fnv1.CredentialData{Data: map[string][]byte{"k": rapid.SliceOfN(rapid.Byte(), 0, 6).Draw(t, "creddata")}}}}
	}
	return req
}

// ---------------------------------------------------------------------------
// the lossless re-encoding between v1 and v1beta1

// c04SameShape reports differences between two message descriptors: the
// re-encoding is lossless for every message iff the shapes agree.
func c04SameShape(a, b protoreflect.MessageDescriptor, seen map[protoreflect.FullName]bool, path string, out *[]string) {
	if seen[a.FullName()] {
		return
	}
	seen[a.FullName()] = true
	if a.Fields().Len() != b.Fields().Len() {
		*out = append(*out, fmt.Sprintf("%s: %d fields in v1, %d in v1beta1", path, a.Fields().Len(), b.Fields().Len()))
	}
	for i := 0; i < a.Fields().Len(); i++ {
		fa := a.Fields().Get(i)
		fb := b.Fields().ByNumber(fa.Number())
		p := path + "." + string(fa.Name())
		if fb == nil {
			*out = append(*out, p+": missing in v1beta1")
			continue
		}
		if fa.Name() != fb.Name() || fa.Kind() != fb.Kind() || fa.Cardinality() != fb.Cardinality() || fa.IsMap() != fb.IsMap() || fa.HasPresence() != fb.HasPresence() || (fa.ContainingOneof() == nil) != (fb.ContainingOneof() == nil) {
			*out = append(*out, p+": field differs between v1 and v1beta1")
			continue
		}
		if fa.IsMap() {
			if fa.MapKey().Kind() != fb.MapKey().Kind() || fa.MapValue().Kind() != fb.MapValue().Kind() {
				*out = append(*out, p+": map types differ")
			} else if fa.MapValue().Message() != nil {
				c04SameShape(fa.MapValue().Message(), fb.MapValue().Message(), seen, p, out)
			}
			continue
		}
		if fa.Message() != nil {
			c04SameShape(fa.Message(), fb.Message(), seen, p, out)
		}
		if fa.Enum() != nil {
			if fa.Enum().Values().Len() != fb.Enum().Values().Len() {
				*out = append(*out, p+": enum values differ")
			}
			for j := 0; j < fa.Enum().Values().Len(); j++ {
				va := fa.Enum().Values().Get(j)
				if vb := fb.Enum().Values().ByNumber(va.Number()); vb == nil || vb.Name() != va.Name() {
					*out = append(*out, p+": enum value "+string(va.Name())+" differs")
				}
			}
		}
	}
}

func TestVerifC04BetaShape(t *testing.T) {
	var diffs []string
	c04SameShape((&fnv1.RunFunctionRequest{}).ProtoReflect().Descriptor(), (&fnv1beta1.RunFunctionRequest{}).ProtoReflect().Descriptor(), map[protoreflect.FullName]bool{}, "RunFunctionRequest", &diffs)
	c04SameShape((&fnv1.RunFunctionResponse{}).ProtoReflect().Descriptor(), (&fnv1beta1.RunFunctionResponse{}).ProtoReflect().Descriptor(), map[protoreflect.FullName]bool{}, "RunFunctionResponse", &diffs)
	if len(diffs) > 0 {
		t.Fatalf("the v1 and v1beta1 messages are not replicas of each other, the fallback re-encoding is lossy:\n%v", diffs)
	}
}

func TestVerifC04BetaRoundTrip(t *testing.T) {
	rec := verifkit.New(t, "C04", "transport: generated RunFunctionRequests (nil/empty/filled states, inputs, contexts, extra resources incl. nil entries, credentials) and the responses of the scripted servers go through toBeta / fromBeta; the re-encoded message must be proto.Equal to the original and carry no unknown fields")
	rapid.Check(t, func(t *rapid.T) {
		req := c04Request(t, "tag")
		rec.Eval()
		breq, err := toBeta(req)
		if err != nil {
			t.Fatalf("toBeta: %v", err)
		}
		if c04HasUnknown(breq.ProtoReflect()) {
			t.Fatalf("toBeta(%v) has unknown fields: %v", req, breq)
		}
		back := &fnv1.RunFunctionRequest{}
		if err := proto.Unmarshal(c04Det(breq), back); err != nil {
			t.Fatalf("decode: %v", err)
		}
		if !proto.Equal(back, req) {
			t.Fatalf("the v1beta1 re-encoding does not preserve the request:\n sent %v\n got  %v", req, back)
		}
		rsp := c04Answer(1, "v1", req)
		brsp := &fnv1beta1.RunFunctionResponse{}
		if err := proto.Unmarshal(c04Det(rsp), brsp); err != nil {
			t.Fatalf("decode: %v", err)
		}
		got, err := fromBeta(brsp)
		if err != nil {
			t.Fatalf("fromBeta: %v", err)
		}
		if !proto.Equal(got, rsp) || c04HasUnknown(got.ProtoReflect()) || c04HasUnknown(brsp.ProtoReflect()) {
			t.Fatalf("the v1beta1 re-encoding does not preserve the response:\n sent %v\n got  %v", rsp, got)
		}
	})
}

// ---------------------------------------------------------------------------
// routing: requests reach the active revision's endpoint

type c04Rev struct {
	Name     string
	Active   bool
	Endpoint int // server index, -1 = empty endpoint
}

type c04Model struct {
	exists map[string]bool      // Function objects
	revs   map[string][]*c04Rev // FunctionRevisions by function
	dialed map[string]string    // functions with a cached connection -> target
}

func c04FnNames() []string { return []string{"fn-a", "fn-b", "fn-c"} }

func TestVerifC04Routing(t *testing.T) {
	rec := verifkit.New(t, "C04", "transport: 3 functions x 0-3 FunctionRevisions (at most one Active; endpoints = unix sockets of 4 in-process gRPC servers: v1 only, both, v1beta1 only x2; or empty) in verifsim; random sequences of call / activate another revision / change the endpoint / delete or re-create the Function / GarbageCollectConnectionsNow against the real PackagedFunctionRunner; non-trivial = a call after the active revision or its endpoint changed, or a garbage collection that had to close a connection")
	pool := c04Pool(t)
	rapid.Check(t, func(t *rapid.T) {
		rec.Eval()
		for _, s := range pool {
			s.take()
		}
		sim := verifsim.New(verifsim.NewScheme())
		c := sim.Client("pkg-manager")
		ctx := context.Background()
		r := NewPackagedFunctionRunner(sim.Client("xfn"))
		defer func() {
			for _, cc := range r.conns {
				_ = cc.Close()
			}
		}()
		m := &c04Model{exists: map[string]bool{}, revs: map[string][]*c04Rev{}, dialed: map[string]string{}}

		writeRev := func(fn string, rv *c04Rev) {
			o := &pkgv1.FunctionRevision{}
			err := c.Get(ctx, types.NamespacedName{Name: rv.Name}, o)
			o.SetName(rv.Name)
			o.SetLabels(map[string]string{pkgv1.LabelParentPackage: fn})
			o.Spec.Package = "xpkg.example.org/" + fn + ":v1"
			o.SetDesiredState(pkgv1.PackageRevisionInactive)
			if rv.Active {
				o.SetDesiredState(pkgv1.PackageRevisionActive)
			}
			if err != nil {
				if err := c.Create(ctx, o); err != nil {
					t.Fatalf("setup: %v", err)
				}
			} else if err := c.Update(ctx, o); err != nil {
				t.Fatalf("setup: %v", err)
			}
			o.Status.Endpoint = ""
			if rv.Endpoint >= 0 {
				o.Status.Endpoint = pool[rv.Endpoint].endpoint
			}
			if err := c.Status().Update(ctx, o); err != nil {
				t.Fatalf("setup: %v", err)
			}
		}
		for _, fn := range c04FnNames() {
			f := &pkgv1.Function{}
			f.SetName(fn)
			if err := c.Create(ctx, f); err != nil {
				t.Fatalf("setup: %v", err)
			}
			m.exists[fn] = true
			n := rapid.SampledFrom([]int{0, 1, 2, 2, 3, 3}).Draw(t, "nrevs")
			active := rapid.IntRange(-1, n-1).Draw(t, "active")
			if n > 0 && active < 0 && rapid.IntRange(0, 3).Draw(t, "forceactive") > 0 {
				active = n - 1
			}
			for i := 0; i < n; i++ {
				rv := &c04Rev{Name: fmt.Sprintf("%s-rev%d", fn, i), Active: i == active, Endpoint: rapid.IntRange(-1, len(pool)-1).Draw(t, "endpoint")}
				if rv.Endpoint < 0 && rapid.IntRange(0, 2).Draw(t, "keepempty") > 0 {
					rv.Endpoint = rapid.IntRange(0, len(pool)-1).Draw(t, "endpoint2")
				}
				m.revs[fn] = append(m.revs[fn], rv)
				writeRev(fn, rv)
			}
		}

		changed := map[string]bool{}
		nontrivial := false
		var hist []string
		nops := rapid.IntRange(4, 16).Draw(t, "nops")
		for op := 0; op < nops; op++ {
			fn := rapid.SampledFrom([]string{"fn-a", "fn-a", "fn-a", "fn-b", "fn-b", "fn-c"}).Draw(t, "fn")
			switch kind := rapid.SampledFrom([]string{"call", "call", "call", "call", "activate", "activate", "endpoint", "endpoint", "delete", "create", "gc", "gc"}).Draw(t, "op"); kind {
			case "call":
				req := c04Request(t, fmt.Sprintf("op%d", op))
				sent := proto.Clone(req).(*fnv1.RunFunctionRequest)
				var act *c04Rev
				for _, rv := range m.revs[fn] {
					if rv.Active {
						act = rv
					}
				}
				old := r.conns[fn]
				rsp, err := r.RunFunction(ctx, fn, req)
				hist = append(hist, fmt.Sprintf("call %s", fn))
				if act == nil || act.Endpoint < 0 {
					if err == nil {
						t.Fatalf("%v: function %s has no active revision with an endpoint (%s) but the call succeeded: %v", hist, fn, verifkit.JSON(m.revs[fn]), rsp)
					}
					for _, s := range pool {
						if got := s.take(); len(got) > 0 {
							t.Fatalf("%v: function %s has no active revision with an endpoint but server %d received a request", hist, fn, s.id)
						}
					}
					continue
				}
				srv := pool[act.Endpoint]
				if err != nil {
					t.Fatalf("%v: call of %s (active revision %s at server %d) failed: %v", hist, fn, act.Name, srv.id, err)
				}
				for _, s := range pool {
					got := s.take()
					if s != srv {
						if len(got) > 0 {
							t.Fatalf("%v: the active revision of %s is %s at server %d, but server %d received the request (revisions %s)", hist, fn, act.Name, srv.id, s.id, verifkit.JSON(m.revs[fn]))
						}
						continue
					}
					if len(got) != 1 {
						t.Fatalf("%v: server %d of the active revision %s received %d requests, want 1", hist, srv.id, act.Name, len(got))
					}
					wantAPI := "v1"
					if !srv.serveV1 {
						wantAPI = "v1beta1"
					}
					if got[0].API != wantAPI {
						t.Fatalf("%v: server %d was called through %s, want %s", hist, srv.id, got[0].API, wantAPI)
					}
					back := &fnv1.RunFunctionRequest{}
					if err := proto.Unmarshal(got[0].Raw, back); err != nil {
						t.Fatalf("decode: %v", err)
					}
					if got[0].Unk || !proto.Equal(back, sent) {
						t.Fatalf("%v: the request server %d received over %s is not the request that was sent (unknown fields: %v):\n sent %v\n got  %v", hist, srv.id, got[0].API, got[0].Unk, sent, back)
					}
					if want := c04Answer(srv.id, wantAPI, sent); !proto.Equal(rsp, want) || c04HasUnknown(rsp.ProtoReflect()) {
						t.Fatalf("%v: the response of server %d over %s was not returned unchanged:\n sent %v\n got  %v", hist, srv.id, wantAPI, want, rsp)
					}
				}
				if !proto.Equal(req, sent) {
					t.Fatalf("%v: the runner modified the caller's request", hist)
				}
				cc := r.conns[fn]
				if cc == nil || cc.Target() != srv.endpoint {
					t.Fatalf("%v: cached connection of %s has target %v, want %s", hist, fn, cc, srv.endpoint)
				}
				if old != nil && old != cc && old.GetState() != connectivity.Shutdown {
					t.Fatalf("%v: the connection of %s to its stale endpoint %s was replaced but not closed", hist, fn, old.Target())
				}
				if old != nil && old == cc && m.dialed[fn] != srv.endpoint {
					t.Fatalf("%v: endpoint of %s changed from %s to %s but the connection was reused", hist, fn, m.dialed[fn], srv.endpoint)
				}
				m.dialed[fn] = srv.endpoint
				rec.Labelf("call-ok-%s", wantAPIOf(srv))
				if changed[fn] {
					nontrivial = true
					rec.Label("call-after-change")
					changed[fn] = false
				}
			case "activate":
				if len(m.revs[fn]) == 0 {
					continue
				}
				i := rapid.IntRange(0, len(m.revs[fn])-1).Draw(t, "rev")
				for j, rv := range m.revs[fn] {
					was := rv.Active
					rv.Active = j == i
					if was != rv.Active {
						writeRev(fn, rv)
						changed[fn] = true
					}
				}
				hist = append(hist, fmt.Sprintf("activate %s", m.revs[fn][i].Name))
			case "endpoint":
				if len(m.revs[fn]) == 0 {
					continue
				}
				rv := m.revs[fn][rapid.IntRange(0, len(m.revs[fn])-1).Draw(t, "rev")]
				e := rapid.IntRange(0, len(pool)-1).Draw(t, "endpoint")
				if e != rv.Endpoint {
					rv.Endpoint = e
					writeRev(fn, rv)
					changed[fn] = changed[fn] || rv.Active
				}
				hist = append(hist, fmt.Sprintf("endpoint %s=%d", rv.Name, e))
			case "delete":
				if m.exists[fn] {
					f := &pkgv1.Function{}
					f.SetName(fn)
					if err := c.Delete(ctx, f); err != nil {
						t.Fatalf("setup: %v", err)
					}
					m.exists[fn] = false
					hist = append(hist, "delete "+fn)
				}
			case "create":
				if !m.exists[fn] {
					f := &pkgv1.Function{}
					f.SetName(fn)
					if err := c.Create(ctx, f); err != nil {
						t.Fatalf("setup: %v", err)
					}
					m.exists[fn] = true
					hist = append(hist, "create "+fn)
				}
			case "gc":
				before := map[string]*grpc.ClientConn{}
				for k, v := range r.conns {
					before[k] = v
				}
				n, err := r.GarbageCollectConnectionsNow(ctx)
				hist = append(hist, "gc")
				if err != nil {
					t.Fatalf("%v: gc: %v", hist, err)
				}
				want := 0
				names := make([]string, 0, len(m.dialed))
				for k := range m.dialed {
					names = append(names, k)
				}
				sort.Strings(names)
				for _, k := range names {
					cc := before[k]
					if cc == nil {
						t.Fatalf("%v: function %s was dialled but has no cached connection", hist, k)
					}
					if m.exists[k] {
						if r.conns[k] != cc || cc.GetState() == connectivity.Shutdown {
							t.Fatalf("%v: gc closed or dropped the connection of function %s, which is still installed", hist, k)
						}
						continue
					}
					want++
					if _, still := r.conns[k]; still || cc.GetState() != connectivity.Shutdown {
						t.Fatalf("%v: function %s was deleted but gc left its connection open (state %v, cached %v)", hist, k, cc.GetState(), still)
					}
					delete(m.dialed, k)
				}
				if n != want {
					t.Fatalf("%v: gc reports %d closed connections, want %d", hist, n, want)
				}
				if want > 0 {
					nontrivial = true
					rec.Label("gc-closed")
				}
			}
		}
		if nontrivial {
			rec.NonTrivial(fmt.Sprint(hist, verifkit.JSON(m.revs)), func() any { return map[string]any{"history": hist, "revisions": m.revs} })
		}
	})
}

func wantAPIOf(s *c04Server) string {
	switch {
	case s.serveV1 && s.serveB1:
		return "both"
	case s.serveV1:
		return "v1only"
	}
	return "v1beta1only"
}
