//go:build verif

// Package c04 decides property C04 (part A): every pipeline step sees exactly
// the state the function contract promises. The real XR reconciler with the
// real FunctionComposer, FetchingFunctionRunner and ExistingExtraResourcesFetcher
// runs generated function programs on the simulated API server; a reference
// interpreter of run_function.proto computes, call by call, the request each
// function must receive, and what must be surfaced/applied afterwards.
package c04

import (
	"context"
	"encoding/base64"
	"encoding/json"
	"errors"
	"fmt"
	"os"
	"regexp"
	"sort"
	"strconv"
	"strings"
	"testing"

	"google.golang.org/protobuf/encoding/protojson"
	"google.golang.org/protobuf/proto"
	"google.golang.org/protobuf/types/known/structpb"
	corev1 "k8s.io/api/core/v1"
	metav1 "k8s.io/apimachinery/pkg/apis/meta/v1"
	"k8s.io/apimachinery/pkg/apis/meta/v1/unstructured"
	"k8s.io/apimachinery/pkg/runtime"
	"k8s.io/apimachinery/pkg/runtime/schema"
	"k8s.io/apimachinery/pkg/types"
	utilrand "k8s.io/apimachinery/pkg/util/rand"
	"k8s.io/utils/ptr"
	"pgregory.net/rapid"

	xpv1 "github.com/crossplane/crossplane-runtime/apis/common/v1"

	fnv1 "github.com/crossplane/crossplane/apis/apiextensions/fn/proto/v1"
	v1 "github.com/crossplane/crossplane/apis/apiextensions/v1"
	"github.com/crossplane/crossplane/internal/controller/apiextensions/composite"
	"github.com/crossplane/crossplane/internal/verifenv"
	"github.com/crossplane/crossplane/internal/verifkit"
	"github.com/crossplane/crossplane/internal/verifsim"
)

const (
	annName    = "crossplane.io/composition-resource-name"
	xrName     = "xr1"
	apiVersion = "example.org/v1"
	group      = "example.org"
	credsNS    = "creds"
	connNS     = "conn"
	xrConnName = "xr-conn"

	// keyStepError is the known-findings key of the class "a step fails with an
	// error (not a fatal result) after earlier steps produced results/conditions".
	keyStepError = "results-dropped-on-step-error"
)

// ---------------------------------------------------------------------------
// programs

type selector struct {
	Kind   string            `json:"kind"`
	ByName bool              `json:"byName,omitempty"`
	Name   string            `json:"name,omitempty"`
	Labels map[string]string `json:"labels,omitempty"`
	// Vary: 0 fixed; 1 the round number is part of the selector (changes every
	// round, never stabilises); 2 alternates between two selectors.
	Vary int `json:"vary,omitempty"`
}

type resOp struct {
	Op    string `json:"op"` // set | field | drop | clear | rebuild
	Name  string `json:"name,omitempty"`
	Val   string `json:"val,omitempty"` // literal or $ctx:<k> $extra:<k> $obs:<name> $input $cred:<name> $round
	Conn  string `json:"conn,omitempty"`
	Ready int32  `json:"ready,omitempty"`
	IfCtx string `json:"ifCtx,omitempty"` // only when the request context has this key
}

type ctxOp struct {
	Op    string `json:"op"` // set | del | rewrite | inc | drop
	Key   string `json:"key,omitempty"`
	Val   string `json:"val,omitempty"`
	IfCtx string `json:"ifCtx,omitempty"`
}

type resultSpec struct {
	Sev    int32  `json:"sev"`
	Reason string `json:"reason,omitempty"`
	Target int32  `json:"target"` // -1 unset
}

type condSpec struct {
	Type   string `json:"type"`
	Status int32  `json:"status"`
	Msg    bool   `json:"msg,omitempty"`
	Target int32  `json:"target"` // -1 unset
}

type effect struct {
	Op     string            `json:"op"` // createExtra | deleteExtra | relabelExtra | touchComposed
	Kind   string            `json:"kind,omitempty"`
	Name   string            `json:"name,omitempty"`
	Labels map[string]string `json:"labels,omitempty"`
	Val    string            `json:"val,omitempty"`
}

type roundProg struct {
	Res        []resOp             `json:"res,omitempty"`
	Ctx        []ctxOp             `json:"ctx,omitempty"`
	Reqs       map[string]selector `json:"reqs,omitempty"`
	Results    []resultSpec        `json:"results,omitempty"`
	Conds      []condSpec          `json:"conds,omitempty"`
	Effects    []effect            `json:"effects,omitempty"`
	XRStatus   string              `json:"xrStatus,omitempty"`
	XRConn     map[string]string   `json:"xrConn,omitempty"`
	NilDesired bool                `json:"nilDesired,omitempty"`
	Err        bool                `json:"err,omitempty"` // the function call fails
}

type credSpec struct {
	Name   string `json:"name"`
	Source string `json:"source"`
	Secret string `json:"secret,omitempty"`
}

type stepProg struct {
	Fn     string         `json:"fn"`
	Input  map[string]any `json:"input,omitempty"`
	Creds  []credSpec     `json:"creds,omitempty"`
	Rounds []roundProg    `json:"rounds"`
}

type clusterObj struct {
	Kind   string            `json:"kind"`
	Name   string            `json:"name"`
	Labels map[string]string `json:"labels,omitempty"`
}

type program struct {
	Steps      []stepProg                   `json:"steps"`
	Cluster    []clusterObj                 `json:"cluster,omitempty"`
	Secrets    map[string]map[string]string `json:"secrets,omitempty"` // credential secrets in namespace creds
	ConnWrites []string                     `json:"connWrites,omitempty"`
	Reconciles int                          `json:"reconciles"`
	XRConnRef  bool                         `json:"xrConnRef,omitempty"`
	Seed       int64                        `json:"seed"`
}

var (
	resNames   = []string{"r0", "r1", "r2", "r3"}
	ctxKeys    = []string{"ka", "kb", "kc"}
	extraKinds = []string{"ExtraA", "ExtraB", "KindA"}
	extraNames = []string{"e0", "e1", "e2", "e3"}
	reqKeys    = []string{"qa", "qb", "qc"}
	condTypes  = []string{"TypeA", "TypeB", "TypeC"}
	connNames  = []string{"c0", "c1", "c2"}
	secNames   = []string{"s0", "s1", "s2"}
)

func kindOf(resName string) string {
	if resName == "r1" || resName == "r3" {
		return "KindB"
	}
	return "KindA"
}

func genLabels(t *rapid.T, allowEmpty bool) map[string]string {
	out := map[string]string{}
	if rapid.Bool().Draw(t, "lgrp") {
		out["grp"] = rapid.SampledFrom([]string{"a", "b"}).Draw(t, "grp")
	}
	if rapid.Bool().Draw(t, "ltier") {
		out["tier"] = rapid.SampledFrom([]string{"x", "y"}).Draw(t, "tier")
	}
	if len(out) == 0 && !allowEmpty {
		out["grp"] = "a"
	}
	return out
}

func genVal(t *rapid.T) string {
	switch rapid.IntRange(0, 9).Draw(t, "valkind") {
	case 0, 1:
		return "$ctx:" + rapid.SampledFrom(ctxKeys).Draw(t, "vctx")
	case 2, 3:
		return "$extra:" + rapid.SampledFrom(reqKeys).Draw(t, "vextra")
	case 4:
		return "$obs:" + rapid.SampledFrom(resNames).Draw(t, "vobs")
	case 5:
		return "$input"
	case 6:
		return "$cred:" + rapid.SampledFrom([]string{"cr0", "cr1"}).Draw(t, "vcred")
	case 7:
		return "$round"
	}
	return rapid.SampledFrom([]string{"x", "y", "z"}).Draw(t, "vlit")
}

func genSelector(t *rapid.T, neverStable, noComposed bool) selector {
	kinds := extraKinds
	if noComposed {
		kinds = extraKinds[:2]
	}
	s := selector{Kind: rapid.SampledFrom(kinds).Draw(t, "skind")}
	if s.Kind == "KindA" {
		// composed resources of this XR are selectable by label only (their names are generated)
		s.Labels = map[string]string{"crossplane.io/composite": xrName}
		if rapid.Bool().Draw(t, "sother") {
			s.Labels = map[string]string{"crossplane.io/composite": "other"}
		}
	} else if rapid.Bool().Draw(t, "sbyname") {
		s.ByName = true
		s.Name = rapid.SampledFrom(append([]string{"absent"}, extraNames...)).Draw(t, "sname")
	} else {
		s.Labels = genLabels(t, true)
	}
	if neverStable {
		s.Vary = rapid.IntRange(1, 2).Draw(t, "svary")
	}
	return s
}

func genRound(t *rapid.T, si, nsteps int, neverStable bool, allowFail bool) roundProg {
	rp := roundProg{}
	for i, n := 0, rapid.IntRange(0, 3).Draw(t, "nres"); i < n; i++ {
		op := resOp{Op: rapid.SampledFrom([]string{"set", "set", "set", "field", "drop", "clear", "rebuild"}).Draw(t, "rop")}
		if op.Op == "set" || op.Op == "field" || op.Op == "drop" {
			op.Name = rapid.SampledFrom(resNames).Draw(t, "rname")
		}
		if op.Op == "set" || op.Op == "field" {
			op.Val = genVal(t)
		}
		if op.Op == "set" {
			if rapid.IntRange(0, 2).Draw(t, "rconn") == 0 {
				op.Conn = rapid.SampledFrom(connNames).Draw(t, "rconnname")
			}
			op.Ready = int32(rapid.IntRange(0, 2).Draw(t, "rready"))
		}
		if rapid.IntRange(0, 4).Draw(t, "rif") == 0 {
			op.IfCtx = rapid.SampledFrom(ctxKeys).Draw(t, "rifk")
		}
		rp.Res = append(rp.Res, op)
	}
	for i, n := 0, rapid.IntRange(0, 2).Draw(t, "nctx"); i < n; i++ {
		op := ctxOp{Op: rapid.SampledFrom([]string{"set", "set", "set", "inc", "del", "rewrite", "drop"}).Draw(t, "cop")}
		if op.Op != "drop" {
			op.Key = rapid.SampledFrom(ctxKeys).Draw(t, "ckey")
		}
		if op.Op == "set" || op.Op == "rewrite" {
			op.Val = genVal(t)
		}
		if rapid.IntRange(0, 4).Draw(t, "cif") == 0 {
			op.IfCtx = rapid.SampledFrom(ctxKeys).Draw(t, "cifk")
		}
		rp.Ctx = append(rp.Ctx, op)
	}
	for i, n := 0, rapid.IntRange(0, 3).Draw(t, "nresults"); i < n; i++ {
		r := resultSpec{Sev: int32(rapid.SampledFrom([]int{0, 2, 2, 3, 3, 3}).Draw(t, "sev")), Target: int32(rapid.IntRange(-1, 2).Draw(t, "rtarget"))}
		if allowFail && rapid.IntRange(0, 11).Draw(t, "fatal") == 0 {
			r.Sev = 1
		}
		if rapid.Bool().Draw(t, "hasreason") {
			r.Reason = rapid.SampledFrom([]string{"ReasonA", "ReasonB"}).Draw(t, "reason")
		}
		rp.Results = append(rp.Results, r)
	}
	for i, n := 0, rapid.IntRange(0, 2).Draw(t, "nconds"); i < n; i++ {
		rp.Conds = append(rp.Conds, condSpec{Type: rapid.SampledFrom(condTypes).Draw(t, "ctype"), Status: int32(rapid.IntRange(0, 3).Draw(t, "cstatus")), Msg: rapid.Bool().Draw(t, "cmsg"), Target: int32(rapid.IntRange(-1, 2).Draw(t, "ctarget"))})
	}
	for i, n := 0, rapid.SampledFrom([]int{0, 0, 1, 2}).Draw(t, "neff"); i < n; i++ {
		e := effect{Op: rapid.SampledFrom([]string{"createExtra", "deleteExtra", "relabelExtra", "touchComposed"}).Draw(t, "eop")}
		if e.Op == "touchComposed" {
			e.Name = rapid.SampledFrom(resNames).Draw(t, "ename")
			e.Val = rapid.SampledFrom([]string{"t1", "t2"}).Draw(t, "eval")
		} else {
			e.Kind = rapid.SampledFrom(extraKinds[:2]).Draw(t, "ekind")
			e.Name = rapid.SampledFrom(extraNames).Draw(t, "ename")
			e.Labels = genLabels(t, true)
		}
		rp.Effects = append(rp.Effects, e)
	}
	if rapid.IntRange(0, 3).Draw(t, "xrstatus") == 0 {
		rp.XRStatus = rapid.SampledFrom([]string{"sx", "sy"}).Draw(t, "xrsv")
	}
	if rapid.IntRange(0, 3).Draw(t, "xrconn") == 0 {
		rp.XRConn = map[string]string{rapid.SampledFrom([]string{"user", "pass"}).Draw(t, "xck"): genVal(t)}
	}
	if rapid.IntRange(0, 19).Draw(t, "nildesired") == 0 {
		rp.NilDesired = true
	}
	if allowFail && rapid.IntRange(0, 29).Draw(t, "fnerr") == 0 {
		rp.Err = true
	}
	return rp
}

func genProgram() *rapid.Generator[program] { return genProgramOpt(false, false) }

// genProgramOpt: noFail excludes every failing pipeline; noComposedSel keeps
// requirements away from the composed kinds (used when the cache lags behind for
// those kinds: extra resources are legitimately read from the cache).
func genProgramOpt(noFail, noComposedSel bool) *rapid.Generator[program] {
	return rapid.Custom(func(t *rapid.T) program {
		p := program{Seed: rapid.Int64Range(1, 1<<40).Draw(t, "nameseed"), Reconciles: rapid.IntRange(1, 3).Draw(t, "reconciles"), XRConnRef: rapid.Bool().Draw(t, "xrconnref"), Secrets: map[string]map[string]string{}}
		for _, k := range extraKinds[:2] {
			for _, n := range extraNames {
				if rapid.Bool().Draw(t, "present") {
					p.Cluster = append(p.Cluster, clusterObj{Kind: k, Name: n, Labels: genLabels(t, true)})
				}
			}
		}
		for _, n := range secNames[:2] {
			p.Secrets[n] = map[string]string{"k": "data-" + n + rapid.SampledFrom([]string{"", "-alt"}).Draw(t, "secdata")}
		}
		for _, c := range connNames {
			if rapid.Bool().Draw(t, "connwrite") {
				p.ConnWrites = append(p.ConnWrites, c)
			}
		}
		// Failing pipelines (fatal results, failing calls, absent credential Secrets,
		// never-stabilising requirements) are confined to a third of the programs so
		// that most programs reach later steps and later reconciles.
		allowFail := rapid.IntRange(0, 2).Draw(t, "allowfail") == 0 && !noFail
		nsteps := rapid.IntRange(1, 4).Draw(t, "nsteps")
		for si := 0; si < nsteps; si++ {
			st := stepProg{Fn: fmt.Sprintf("fn-%d", rapid.IntRange(0, 2).Draw(t, "fn"))}
			if rapid.Bool().Draw(t, "hasinput") {
				st.Input = map[string]any{"apiVersion": "fn.example.org/v1", "kind": "Input", "step": float64(si)}
				if rapid.Bool().Draw(t, "inputextra") {
					// printable values only: the input may be copied into desired resources, and a
					// composed resource the API server cannot decode is outside this property.
					spec := map[string]any{}
					for _, k := range []string{"a", "b"} {
						switch rapid.IntRange(0, 4).Draw(t, "inputval") {
						case 0:
							spec[k] = rapid.StringMatching(`[a-zA-Z0-9 _.-]{0,8}`).Draw(t, "inputstr")
						case 1:
							spec[k] = float64(rapid.IntRange(-5, 5).Draw(t, "inputnum"))
						case 2:
							spec[k] = rapid.Bool().Draw(t, "inputbool")
						case 3:
							spec[k] = []any{"x", map[string]any{"n": nil}}
						}
					}
					st.Input["spec"] = spec
				}
				// The input reaches Crossplane as JSON stored by the API server.
				b, err := json.Marshal(st.Input)
				if err != nil {
					t.Fatalf("input: %v", err)
				}
				st.Input = map[string]any{}
				if err := json.Unmarshal(b, &st.Input); err != nil {
					t.Fatalf("input: %v", err)
				}
			}
			used := map[string]bool{}
			for i, n := 0, rapid.SampledFrom([]int{0, 0, 1, 2}).Draw(t, "ncreds"); i < n; i++ {
				c := credSpec{Name: fmt.Sprintf("cr%d", i), Source: "Secret"}
				switch rapid.IntRange(0, 11).Draw(t, "credkind") {
				case 0, 1:
					c.Source = "None" // (source Secret without a secretRef is rejected by Composition validation)
				case 2:
					c.Secret = secNames[2] // absent secret
					if !allowFail {
						c.Secret = secNames[0]
					}
				default:
					c.Secret = rapid.SampledFrom(secNames[:2]).Draw(t, "credsecret")
				}
				if !used[c.Name] {
					used[c.Name] = true
					st.Creds = append(st.Creds, c)
				}
			}
			mode := rapid.IntRange(0, 9).Draw(t, "reqmode") // 0-3 no requirements; 4-8 stabilising; 9 never
			if mode == 9 && !allowFail {
				mode = 8
			} else if mode == 8 && allowFail {
				mode = 9
			}
			nrounds := 1
			if mode >= 4 {
				nrounds = rapid.SampledFrom([]int{1, 1, 2, 2, 3, 3, 4, 5, 6}).Draw(t, "nrounds")
				if noFail && nrounds > 5 {
					nrounds = 5 // six different requirement sets in a row do not stabilise in time
				}
			}
			for r := 0; r < nrounds; r++ {
				rp := genRound(t, si, nsteps, mode == 9, allowFail)
				if mode >= 4 {
					rp.Reqs = map[string]selector{}
					for i, n := 0, rapid.IntRange(1, 2).Draw(t, "nreqs"); i < n; i++ {
						rp.Reqs[rapid.SampledFrom(reqKeys).Draw(t, "reqkey")] = genSelector(t, mode == 9 && i == 0, noComposedSel)
					}
					if mode != 9 && r == nrounds-1 && rapid.IntRange(0, 3).Draw(t, "lastnoreqs") == 0 {
						rp.Reqs = nil
					}
				}
				st.Rounds = append(st.Rounds, rp)
			}
			p.Steps = append(p.Steps, st)
		}
		return p
	})
}

// ---------------------------------------------------------------------------
// program executor: the scripted function, a deterministic function of
// (step, round, request)

func clonePB[T proto.Message](m T) T { return proto.Clone(m).(T) }

func ctxString(c *structpb.Struct, k string) string {
	v, ok := c.GetFields()[k]
	if !ok {
		return "<none>"
	}
	b, _ := protojson.Marshal(v)
	return string(b)
}

func resolve(val string, round int, req *fnv1.RunFunctionRequest) string {
	switch {
	case strings.HasPrefix(val, "$ctx:"):
		return "ctx=" + ctxString(req.GetContext(), strings.TrimPrefix(val, "$ctx:"))
	case strings.HasPrefix(val, "$extra:"):
		rs, ok := req.GetExtraResources()[strings.TrimPrefix(val, "$extra:")]
		if !ok {
			return "extra=absent"
		}
		names := []string{}
		for _, it := range rs.GetItems() {
			names = append(names, it.GetResource().GetFields()["metadata"].GetStructValue().GetFields()["name"].GetStringValue())
		}
		sort.Strings(names)
		return "extra=" + strings.Join(names, ",")
	case strings.HasPrefix(val, "$obs:"):
		r, ok := req.GetObserved().GetResources()[strings.TrimPrefix(val, "$obs:")]
		if !ok {
			return "obs=absent"
		}
		return fmt.Sprintf("obs=present,conn=%d", len(r.GetConnectionDetails()))
	case val == "$input":
		if req.GetInput() == nil {
			return "input=none"
		}
		b, _ := json.Marshal(req.GetInput().AsMap())
		return "input=" + string(b)
	case strings.HasPrefix(val, "$cred:"):
		c, ok := req.GetCredentials()[strings.TrimPrefix(val, "$cred:")]
		if !ok {
			return "cred=absent"
		}
		return "cred=" + string(c.GetCredentialData().GetData()["k"])
	case val == "$round":
		return "round=" + strconv.Itoa(round)
	}
	return val
}

func mustStruct(m map[string]any) *structpb.Struct {
	s, err := structpb.NewStruct(m)
	if err != nil {
		panic(err)
	}
	return s
}

// exec computes the response of step si on its round-th call of reconcile rec.
func (p *program) exec(rec, si, round int, req *fnv1.RunFunctionRequest) (*fnv1.RunFunctionResponse, []effect, error) {
	st := p.Steps[si]
	ri := round
	if ri >= len(st.Rounds) {
		ri = len(st.Rounds) - 1
	}
	rp := st.Rounds[ri]
	if rp.Err {
		return nil, nil, fmt.Errorf("scripted failure of step %d round %d", si, round)
	}
	has := func(k string) bool {
		if k == "" {
			return true
		}
		_, ok := req.GetContext().GetFields()[k]
		return ok
	}

	var d *fnv1.State
	if req.GetDesired() != nil {
		d = clonePB(req.GetDesired())
	} else {
		d = &fnv1.State{}
	}
	if d.Resources == nil {
		d.Resources = map[string]*fnv1.Resource{}
	}
	for _, op := range rp.Res {
		if !has(op.IfCtx) {
			continue
		}
		switch op.Op {
		case "set":
			spec := map[string]any{"forProvider": map[string]any{"v": resolve(op.Val, round, req)}}
			if op.Conn != "" {
				spec["writeConnectionSecretToRef"] = map[string]any{"name": op.Conn, "namespace": connNS}
			}
			d.Resources[op.Name] = &fnv1.Resource{
				Resource: mustStruct(map[string]any{"apiVersion": apiVersion, "kind": kindOf(op.Name), "spec": spec}),
				Ready:    fnv1.Ready(op.Ready),
			}
		case "field":
			if r, ok := d.Resources[op.Name]; ok {
				fp := r.GetResource().GetFields()["spec"].GetStructValue().GetFields()["forProvider"].GetStructValue()
				if fp != nil {
					fp.Fields["extra"] = structpb.NewStringValue(resolve(op.Val, round, req))
				}
			}
		case "drop":
			delete(d.Resources, op.Name)
		case "clear":
			d.Resources = map[string]*fnv1.Resource{}
		case "rebuild":
			names := make([]string, 0, len(d.Resources))
			for n := range d.Resources {
				names = append(names, n)
			}
			sort.Sort(sort.Reverse(sort.StringSlice(names)))
			nm := map[string]*fnv1.Resource{}
			for _, n := range names {
				nm[n] = clonePB(d.Resources[n])
			}
			d.Resources = nm
		}
	}
	if rp.XRStatus != "" || len(rp.XRConn) > 0 {
		if d.Composite == nil {
			d.Composite = &fnv1.Resource{}
		}
		if rp.XRStatus != "" {
			d.Composite.Resource = mustStruct(map[string]any{"status": map[string]any{"val": rp.XRStatus}})
		}
		for k, v := range rp.XRConn {
			if d.Composite.ConnectionDetails == nil {
				d.Composite.ConnectionDetails = map[string][]byte{}
			}
			d.Composite.ConnectionDetails[k] = []byte(resolve(v, round, req))
		}
	}

	var c *structpb.Struct
	if req.GetContext() != nil {
		c = clonePB(req.GetContext())
	} else {
		c = &structpb.Struct{}
	}
	if c.Fields == nil {
		c.Fields = map[string]*structpb.Value{}
	}
	for _, op := range rp.Ctx {
		if !has(op.IfCtx) {
			continue
		}
		switch op.Op {
		case "set":
			c.Fields[op.Key] = structpb.NewStringValue(resolve(op.Val, round, req))
		case "inc":
			c.Fields[op.Key] = structpb.NewNumberValue(c.Fields[op.Key].GetNumberValue() + 1)
		case "del":
			delete(c.Fields, op.Key)
		case "rewrite":
			c = &structpb.Struct{Fields: map[string]*structpb.Value{op.Key: structpb.NewStringValue(resolve(op.Val, round, req))}}
		case "drop":
			c = nil
		}
		if c == nil {
			break
		}
	}

	rsp := &fnv1.RunFunctionResponse{Desired: d, Context: c}
	if rp.NilDesired {
		rsp.Desired = nil
	}
	if len(rp.Reqs) > 0 {
		rsp.Requirements = &fnv1.Requirements{ExtraResources: map[string]*fnv1.ResourceSelector{}}
		for k, s := range rp.Reqs {
			suffix := ""
			switch s.Vary {
			case 1:
				suffix = fmt.Sprintf("-r%d", round)
			case 2:
				suffix = fmt.Sprintf("-alt%d", round%2)
			}
			rs := &fnv1.ResourceSelector{ApiVersion: apiVersion, Kind: s.Kind}
			if s.ByName {
				rs.Match = &fnv1.ResourceSelector_MatchName{MatchName: s.Name + suffix}
			} else {
				l := map[string]string{}
				for lk, lv := range s.Labels {
					l[lk] = lv
				}
				if suffix != "" {
					l["vary"] = suffix[1:]
				}
				rs.Match = &fnv1.ResourceSelector_MatchLabels{MatchLabels: &fnv1.MatchLabels{Labels: l}}
			}
			rsp.Requirements.ExtraResources[k] = rs
		}
	}
	for i, r := range rp.Results {
		res := &fnv1.Result{Severity: fnv1.Severity(r.Sev), Message: fmt.Sprintf("c04res-%d-%d-%d-%d.", rec, si, round, i)}
		if r.Reason != "" {
			res.Reason = ptr.To(r.Reason)
		}
		if r.Target >= 0 {
			res.Target = fnv1.Target(r.Target).Enum()
		}
		rsp.Results = append(rsp.Results, res)
	}
	for i, cs := range rp.Conds {
		cond := &fnv1.Condition{Type: cs.Type, Status: fnv1.Status(cs.Status), Reason: fmt.Sprintf("Why%d%d%d", si, round, i)}
		if cs.Msg {
			cond.Message = ptr.To(fmt.Sprintf("c04cond-%d-%d-%d-%d", rec, si, round, i))
		}
		if cs.Target >= 0 {
			cond.Target = fnv1.Target(cs.Target).Enum()
		}
		rsp.Conditions = append(rsp.Conditions, cond)
	}
	return rsp, rp.Effects, nil
}

// wire returns the message a gRPC client would hand to the caller: a fresh
// message decoded from the encoded one.
func wire(rsp *fnv1.RunFunctionResponse) *fnv1.RunFunctionResponse {
	b, err := proto.Marshal(rsp)
	if err != nil {
		panic(err)
	}
	out := &fnv1.RunFunctionResponse{}
	if err := proto.Unmarshal(b, out); err != nil {
		panic(err)
	}
	return out
}

// ---------------------------------------------------------------------------
// reference interpreter of the function contract

type expEvent struct {
	Token  string
	Type   string
	Reason string
}

type expCond struct {
	Type    string
	Status  string
	Reason  string
	Message string
	Claim   bool
}

type interp struct {
	p   *program
	env *verifenv.XREnv
	rec int

	started bool
	obs     *fnv1.State
	step    int
	round   int
	desired *fnv1.State
	fctx    *structpb.Struct
	extras  map[string]*fnv1.Resources
	creds   map[string]*fnv1.Credentials
	prevReq *fnv1.Requirements

	done     bool
	outcome  string // ok | fatal | unstable | fnerror | creds
	fatalTok string
	final    *fnv1.State
	events   []expEvent
	conds    []expCond

	// run is the API run of the reconcile; firstCallAt is the number of API calls
	// the reconcile had issued when the first function was called (-1: none).
	run         *verifsim.Run
	firstCallAt int
	// forbid, if set, says why the contract allows no function call at all.
	forbid string

	calls      int
	maxRounds  int
	extraItems int
	mutations  int
	mismatch   []string
}

func (it *interp) failf(format string, a ...any) {
	if len(it.mismatch) < 6 {
		it.mismatch = append(it.mismatch, fmt.Sprintf(format, a...))
	}
}

func toStruct(o verifsim.Obj) *structpb.Struct {
	return mustStruct(runtime.DeepCopyJSON(o))
}

// connOf reads the connection details of an object: the data of the Secret its
// spec.writeConnectionSecretToRef names, if both exist.
func connOf(s *verifsim.Sim, o verifsim.Obj) map[string][]byte {
	ref, _ := verifsim.Nested(o, "spec", "writeConnectionSecretToRef").(map[string]any)
	if ref == nil {
		return nil
	}
	ns, _ := ref["namespace"].(string)
	name, _ := ref["name"].(string)
	return secretData(s, ns, name)
}

func secretData(s *verifsim.Sim, ns, name string) map[string][]byte {
	sec := s.Get(verifsim.Key{Kind: "Secret", Namespace: ns, Name: name})
	if sec == nil {
		return nil
	}
	out := map[string][]byte{}
	data, _ := sec["data"].(map[string]any)
	for k, v := range data {
		b, err := base64.StdEncoding.DecodeString(fmt.Sprint(v))
		if err != nil {
			panic(err)
		}
		out[k] = b
	}
	return out
}

// observe builds the observed state the contract promises from the store: the
// XR and its connection details, and every existing composed resource of this
// XR (referenced by it, not controlled by anyone else) with its details.
func observe(env *verifenv.XREnv) *fnv1.State {
	s := env.Sim
	xr := s.Get(env.XRKey(xrName))
	st := &fnv1.State{Composite: &fnv1.Resource{Resource: toStruct(xr), ConnectionDetails: connOf(s, xr)}, Resources: map[string]*fnv1.Resource{}}
	uid := verifsim.MetaString(xr, "uid")
	refs, _ := verifsim.Nested(xr, "spec", "resourceRefs").([]any)
	for _, e := range refs {
		m, _ := e.(map[string]any)
		name, _ := m["name"].(string)
		if name == "" {
			continue
		}
		gv, _ := schema.ParseGroupVersion(fmt.Sprint(m["apiVersion"]))
		ns, _ := m["namespace"].(string)
		o := s.Get(verifsim.Key{Group: gv.Group, Kind: fmt.Sprint(m["kind"]), Namespace: ns, Name: name})
		if o == nil {
			continue
		}
		if c := verifsim.ControllerUID(o); c != "" && c != uid {
			continue
		}
		st.Resources[verifsim.Annotations(o)[annName]] = &fnv1.Resource{Resource: toStruct(o), ConnectionDetails: connOf(s, o)}
	}
	return st
}

// match returns the resources matching a selector right now.
func match(s *verifsim.Sim, sel *fnv1.ResourceSelector) *fnv1.Resources {
	gv, _ := schema.ParseGroupVersion(sel.GetApiVersion())
	out := &fnv1.Resources{}
	switch m := sel.GetMatch().(type) {
	case *fnv1.ResourceSelector_MatchName:
		if o := s.Get(verifsim.Key{Group: gv.Group, Kind: sel.GetKind(), Name: m.MatchName}); o != nil {
			out.Items = append(out.Items, &fnv1.Resource{Resource: toStruct(o)})
		}
	case *fnv1.ResourceSelector_MatchLabels:
		for _, k := range s.Keys(schema.GroupKind{Group: gv.Group, Kind: sel.GetKind()}) {
			o := s.Get(k)
			l := verifsim.Labels(o)
			ok := true
			for lk, lv := range m.MatchLabels.GetLabels() {
				if v, has := l[lk]; !has || v != lv {
					ok = false
				}
			}
			if ok {
				out.Items = append(out.Items, &fnv1.Resource{Resource: toStruct(o)})
			}
		}
	}
	return out
}

// credentials loads the credentials of a step; ok is false if a referenced Secret is missing.
func (it *interp) credentials(si int) (map[string]*fnv1.Credentials, bool) {
	out := map[string]*fnv1.Credentials{}
	for _, c := range it.p.Steps[si].Creds {
		if c.Source != "Secret" || c.Secret == "" {
			continue
		}
		sec := it.env.Sim.Get(verifsim.Key{Kind: "Secret", Namespace: credsNS, Name: c.Secret})
		if sec == nil {
			return nil, false
		}
		out[c.Name] = &fnv1.Credentials{Source: &fnv1.Credentials_CredentialData{CredentialData: &fnv1.CredentialData{Data: secretData(it.env.Sim, credsNS, c.Secret)}}}
	}
	return out, true
}

func itemName(r *fnv1.Resource) string {
	md := r.GetResource().GetFields()["metadata"].GetStructValue().GetFields()
	return r.GetResource().GetFields()["kind"].GetStringValue() + "/" + md["namespace"].GetStringValue() + "/" + md["name"].GetStringValue()
}

// norm maps representations the contract does not distinguish onto one: an
// absent context/desired is an empty one, a nil Resources is an empty one, and
// the items of a Resources have no contractual order.
func norm(r *fnv1.RunFunctionRequest) *fnv1.RunFunctionRequest {
	c := clonePB(r)
	if c.Context == nil {
		c.Context = &structpb.Struct{}
	}
	if c.Desired == nil {
		c.Desired = &fnv1.State{}
	}
	for k, v := range c.ExtraResources {
		if v == nil {
			v = &fnv1.Resources{}
			c.ExtraResources[k] = v
		}
		sort.SliceStable(v.Items, func(i, j int) bool { return itemName(v.Items[i]) < itemName(v.Items[j]) })
	}
	return c
}

func pj(m proto.Message) string {
	if m == nil {
		return "<nil>"
	}
	b, err := protojson.MarshalOptions{}.Marshal(m)
	if err != nil {
		return err.Error()
	}
	if len(b) > 1800 {
		return string(b[:1800]) + "..."
	}
	return string(b)
}

// diffReq names the top-level parts of two requests that differ.
func diffReq(want, got *fnv1.RunFunctionRequest) string {
	var sb strings.Builder
	part := func(name string, w, g proto.Message) {
		if !proto.Equal(w, g) {
			fmt.Fprintf(&sb, "\n  %s differs:\n    want %s\n    got  %s", name, pj(w), pj(g))
		}
	}
	part("observed.composite", want.GetObserved().GetComposite(), got.GetObserved().GetComposite())
	part("observed (whole)", want.GetObserved(), got.GetObserved())
	part("desired", want.GetDesired(), got.GetDesired())
	part("context", want.GetContext(), got.GetContext())
	part("input", want.Input, got.Input)
	part("extra_resources", &fnv1.RunFunctionRequest{ExtraResources: want.GetExtraResources()}, &fnv1.RunFunctionRequest{ExtraResources: got.GetExtraResources()})
	part("credentials", &fnv1.RunFunctionRequest{Credentials: want.GetCredentials()}, &fnv1.RunFunctionRequest{Credentials: got.GetCredentials()})
	part("meta", want.GetMeta(), got.GetMeta())
	if sb.Len() == 0 {
		sb.WriteString("\n  (messages differ outside the known fields)")
	}
	return sb.String()
}

func sevType(s fnv1.Severity) string {
	if s == fnv1.Severity_SEVERITY_NORMAL {
		return "Normal"
	}
	return "Warning"
}

func statusString(s fnv1.Status) string {
	switch s {
	case fnv1.Status_STATUS_CONDITION_TRUE:
		return "True"
	case fnv1.Status_STATUS_CONDITION_FALSE:
		return "False"
	}
	return "Unknown"
}

// surface records what the final response of a step obliges Crossplane to surface.
func (it *interp) surface(rsp *fnv1.RunFunctionResponse) {
	for _, c := range rsp.GetConditions() {
		it.conds = append(it.conds, expCond{Type: c.GetType(), Status: statusString(c.GetStatus()), Reason: c.GetReason(), Message: c.GetMessage(), Claim: c.GetTarget() == fnv1.Target_TARGET_COMPOSITE_AND_CLAIM})
	}
	for _, r := range rsp.GetResults() {
		if r.GetSeverity() == fnv1.Severity_SEVERITY_FATAL {
			break
		}
		reason := r.GetReason()
		if reason == "" {
			reason = "ComposeResources" // run_function.proto: "If omitted, the value will be ComposeResources."
		}
		it.events = append(it.events, expEvent{Token: r.GetMessage(), Type: sevType(r.GetSeverity()), Reason: reason})
	}
}

func hasFatal(rsp *fnv1.RunFunctionResponse) (string, bool) {
	for _, r := range rsp.GetResults() {
		if r.GetSeverity() == fnv1.Severity_SEVERITY_FATAL {
			return r.GetMessage(), true
		}
	}
	return "", false
}

// enterStep prepares the interpreter for the first call of step it.step, or
// finishes the pipeline.
func (it *interp) enterStep() {
	it.round = 0
	it.extras = nil
	it.prevReq = nil
	if it.step >= len(it.p.Steps) {
		it.done, it.outcome, it.final = true, "ok", it.desired
		return
	}
	creds, ok := it.credentials(it.step)
	if !ok {
		it.done, it.outcome = true, "creds"
		return
	}
	it.creds = creds
}

// RunFunction is the scripted, recording function runner. It checks the request
// against the interpreter's expectation, then answers as the program dictates.
func (it *interp) RunFunction(_ context.Context, name string, req *fnv1.RunFunctionRequest) (*fnv1.RunFunctionResponse, error) {
	got := norm(req)
	it.calls++
	if it.calls == 1 && it.run != nil {
		it.firstCallAt = it.run.N
	}
	if it.forbid != "" {
		it.failf("call #%d (function %q) although %s; it was sent observed composed resources %v", it.calls, name, it.forbid, resKeys(got.GetObserved()))
		return nil, errors.New("unexpected call")
	}
	if !it.started {
		// The observed state is "fresh as of the time the pipeline was invoked".
		it.started = true
		it.obs = observe(it.env)
		it.step = 0
		it.enterStep()
	}
	if it.done {
		it.failf("call #%d (function %q): the contract allows no further call: the pipeline was already %s", it.calls, name, it.outcome)
		return nil, errors.New("unexpected call")
	}
	st := it.p.Steps[it.step]
	if name != st.Fn {
		it.failf("call #%d: step %d round %d names function %q but %q was called", it.calls, it.step, it.round, st.Fn, name)
	}
	want := &fnv1.RunFunctionRequest{Observed: it.obs, Desired: it.desired, Context: it.fctx, Credentials: it.creds, ExtraResources: it.extras}
	if st.Input != nil {
		want.Input = mustStruct(st.Input)
	}
	want = norm(want)
	if !proto.Equal(want, got) {
		it.failf("call #%d = step %d (%s) round %d of reconcile %d received a request the contract does not promise:%s", it.calls, it.step, st.Fn, it.round, it.rec, diffReq(want, got))
	}
	for _, rs := range want.GetExtraResources() {
		it.extraItems += len(rs.GetItems())
	}
	if it.round+1 > it.maxRounds {
		it.maxRounds = it.round + 1
	}

	rsp, effects, err := it.p.exec(it.rec, it.step, it.round, want)
	if err != nil {
		it.done, it.outcome = true, "fnerror"
		return nil, err
	}
	rsp = wire(rsp)
	it.applyEffects(effects)
	if !proto.Equal(norm(&fnv1.RunFunctionRequest{Desired: rsp.GetDesired(), Context: rsp.GetContext()}), norm(&fnv1.RunFunctionRequest{Desired: want.GetDesired(), Context: want.GetContext()})) {
		it.mutations++
	}

	switch tok, fatal := hasFatal(rsp); {
	case fatal:
		// "Results of fatal severity stop the Composition process."
		it.surface(rsp)
		it.done, it.outcome, it.fatalTok = true, "fatal", tok
	case proto.Equal(rsp.GetRequirements(), it.prevReq):
		// Requirements stopped changing: this is the step's response.
		it.surface(rsp)
		it.desired, it.fctx = rsp.GetDesired(), rsp.GetContext()
		it.step++
		it.enterStep()
	case it.round >= composite.MaxRequirementsIterations:
		it.done, it.outcome = true, "unstable"
	default:
		it.prevReq = rsp.GetRequirements()
		it.extras = map[string]*fnv1.Resources{}
		for k, sel := range rsp.GetRequirements().GetExtraResources() {
			it.extras[k] = match(it.env.Sim, sel)
		}
		it.fctx = rsp.GetContext()
		it.round++
	}
	// Crossplane gets its own freshly decoded message, untouched by the interpreter.
	return wire(rsp), nil
}

func (it *interp) applyEffects(effs []effect) {
	c := it.env.Sim.Client("env")
	ctx := context.Background()
	for _, e := range effs {
		switch e.Op {
		case "createExtra":
			_ = c.Create(ctx, extraObj(clusterObj{Kind: e.Kind, Name: e.Name, Labels: e.Labels}))
		case "deleteExtra":
			_ = c.Delete(ctx, extraObj(clusterObj{Kind: e.Kind, Name: e.Name}))
		case "relabelExtra":
			u := extraObj(clusterObj{Kind: e.Kind, Name: e.Name})
			if err := c.Get(ctx, types.NamespacedName{Name: e.Name}, u); err == nil {
				u.SetLabels(e.Labels)
				_ = c.Update(ctx, u)
			}
		case "touchComposed":
			for _, k := range it.env.Sim.AllKeys() {
				o := it.env.Sim.Get(k)
				if !strings.HasPrefix(k.Kind, "Kind") || verifsim.Annotations(o)[annName] != e.Name {
					continue
				}
				u := verifsim.U(o)
				_ = unstructured.SetNestedField(u.Object, e.Val, "status", "touched")
				_ = c.Status().Update(ctx, u)
			}
		}
	}
}

func extraObj(o clusterObj) *unstructured.Unstructured {
	u := &unstructured.Unstructured{}
	u.SetAPIVersion(apiVersion)
	u.SetKind(o.Kind)
	u.SetName(o.Name)
	if len(o.Labels) > 0 {
		u.SetLabels(o.Labels)
	}
	_ = unstructured.SetNestedField(u.Object, o.Kind+"-"+o.Name, "spec", "id")
	return u
}

// ---------------------------------------------------------------------------
// world

type world struct {
	p   *program
	env *verifenv.XREnv
	rec *verifkit.Recorder
}

func (p *program) composition() *v1.Composition {
	c := &v1.Composition{}
	c.SetName("comp")
	c.Spec.CompositeTypeRef = v1.TypeReference{APIVersion: apiVersion, Kind: "XThing"}
	c.Spec.Mode = ptr.To(v1.CompositionModePipeline)
	for i, st := range p.Steps {
		ps := v1.PipelineStep{Step: fmt.Sprintf("step-%d", i), FunctionRef: v1.FunctionReference{Name: st.Fn}}
		if st.Input != nil {
			b, _ := json.Marshal(st.Input)
			ps.Input = &runtime.RawExtension{Raw: b}
		}
		for _, cr := range st.Creds {
			fc := v1.FunctionCredentials{Name: cr.Name, Source: v1.FunctionCredentialsSource(cr.Source)}
			if cr.Secret != "" {
				fc.SecretRef = &xpv1.SecretReference{Namespace: credsNS, Name: cr.Secret}
			}
			ps.Credentials = append(ps.Credentials, fc)
		}
		c.Spec.Pipeline = append(c.Spec.Pipeline, ps)
	}
	return c
}

func newWorld(p *program, rec *verifkit.Recorder) *world {
	utilrand.Seed(p.Seed)
	env := verifenv.NewXREnv()
	w := &world{p: p, env: env, rec: rec}
	env.InstallComposition(p.composition(), 1)
	xr := env.NewXR(xrName, "comp")
	if p.XRConnRef {
		xr.SetWriteConnectionSecretToReference(&xpv1.SecretReference{Namespace: connNS, Name: xrConnName})
	}
	env.Sim.MustCreate("user", xr)
	for _, o := range p.Cluster {
		env.Sim.MustCreate("user", extraObj(o))
	}
	names := make([]string, 0, len(p.Secrets))
	for n := range p.Secrets {
		names = append(names, n)
	}
	sort.Strings(names)
	for _, n := range names {
		s := &corev1.Secret{ObjectMeta: metav1.ObjectMeta{Namespace: credsNS, Name: n}, Data: map[string][]byte{}}
		for k, v := range p.Secrets[n] {
			s.Data[k] = []byte(v)
		}
		env.Sim.MustCreate("user", s)
	}
	return w
}

// provider plays the providers between reconciles: it writes the connection
// secrets of composed resources (for the secret names the program lists).
func (w *world) provider(rec int) {
	c := w.env.Sim.Client("provider")
	for _, k := range w.env.Sim.AllKeys() {
		if !strings.HasPrefix(k.Kind, "Kind") {
			continue
		}
		o := w.env.Sim.Get(k)
		ref, _ := verifsim.Nested(o, "spec", "writeConnectionSecretToRef").(map[string]any)
		if ref == nil {
			continue
		}
		name := fmt.Sprint(ref["name"])
		write := false
		for _, n := range w.p.ConnWrites {
			write = write || n == name
		}
		if !write {
			continue
		}
		s := &corev1.Secret{ObjectMeta: metav1.ObjectMeta{Namespace: connNS, Name: name}, Data: map[string][]byte{"endpoint": []byte(fmt.Sprintf("%s-%d", k.Name, rec)), "who": []byte(verifsim.Annotations(o)[annName])}}
		if err := c.Create(context.Background(), s); err != nil {
			cur := &corev1.Secret{}
			if c.Get(context.Background(), types.NamespacedName{Namespace: connNS, Name: name}, cur) == nil {
				cur.Data = s.Data
				_ = c.Update(context.Background(), cur)
			}
		}
	}
}

// composedState lists the composed resources the XR controls: resource name -> kind/spec.
func (w *world) composedState() map[string]string {
	xr := w.env.Sim.Get(w.env.XRKey(xrName))
	uid := verifsim.MetaString(xr, "uid")
	out := map[string]string{}
	for _, k := range w.env.Sim.AllKeys() {
		o := w.env.Sim.Get(k)
		if verifsim.ControllerUID(o) != uid || k.Kind == "Secret" {
			continue
		}
		n := verifsim.Annotations(o)[annName]
		b, _ := json.Marshal(o["spec"])
		key := n
		for i := 1; ; i++ {
			if _, dup := out[key]; !dup {
				break
			}
			key = fmt.Sprintf("%s#%d", n, i)
		}
		out[key] = k.Kind + "/" + k.Name + " " + string(b)
	}
	return out
}

var tokRE = regexp.MustCompile(`c04res-(\d+)-(\d+)-(\d+)-(\d+)\.`)

// reconcile runs one reconcile under the interpreter and checks everything the
// property promises about it. It returns the interpreter for evidence.
func (w *world) reconcile(rec int, fail func(string, ...any)) *interp {
	return w.reconcileOpt(rec, false, fail)
}

// lagComposed is the informer cache of a controller that has not yet seen the
// composed resources it has only just created; everything else is current.
func lagComposed(k verifsim.Key) int {
	if strings.HasPrefix(k.Kind, "Kind") {
		return verifsim.LagHideNew
	}
	return 0
}

func resKeys(st *fnv1.State) []string {
	out := make([]string, 0, len(st.GetResources()))
	for k := range st.GetResources() {
		out = append(out, k)
	}
	sort.Strings(out)
	return out
}

// reconcileOpt is reconcile; with lag the reconciler reads through a cache that
// hides just-created composed resources (uncached reads see the live store).
func (w *world) reconcileOpt(rec int, lag bool, fail func(string, ...any)) *interp {
	run := w.env.Sim.NewRun("xr-controller", nil)
	it := &interp{p: w.p, env: w.env, rec: rec, run: run, firstCallAt: -1}
	w.env.Runner = it
	w.env.Recorder.Reset()
	before := w.composedState()
	var rerr error
	if lag {
		_, rerr = w.env.ReconcileWith(run.StaleClient(lagComposed), run.Client(), xrName)
	} else {
		_, rerr = w.env.Reconcile(run, xrName)
	}
	ctx := fmt.Sprintf("reconcile %d (cache lag %v) of program %s", rec, lag, verifkit.JSON(w.p))

	if len(it.mismatch) > 0 {
		fail("%s:\n%s", ctx, strings.Join(it.mismatch, "\n"))
	}
	if !it.started {
		// A pipeline whose first step cannot load its credentials makes no call at all.
		it.started = true
		it.obs = observe(w.env)
		it.enterStep()
		if !it.done {
			fail("%s: the pipeline was never run (reconcile error %v); events %v", ctx, rerr, w.env.Recorder.Events())
		}
	}
	if !it.done {
		fail("%s: the reconcile ended after %d calls but the contract requires a further call: step %d (%s) round %d", ctx, it.calls, it.step, w.p.Steps[it.step].Fn, it.round)
	}
	if it.calls > len(w.p.Steps)*(composite.MaxRequirementsIterations+1) {
		fail("%s: %d calls exceed the bound of MaxRequirementsIterations+1 per step", ctx, it.calls)
	}

	xr := w.env.Sim.Get(w.env.XRKey(xrName))
	synced := condOf(xr, "Synced")
	after := w.composedState()

	// Results: in pipeline order, none dropped.
	stepErr := it.outcome == "unstable" || it.outcome == "fnerror" || it.outcome == "creds"
	checkSurfaced := true
	if stepErr && (len(it.events) > 0 || len(it.conds) > 0) && verifkit.OpenFinding("C04", keyStepError) {
		checkSurfaced = false
		w.rec.Excluded()
	}
	if checkSurfaced {
		var got []expEvent
		final := map[string]bool{}
		for _, e := range it.events {
			final[e.Token] = true
		}
		for _, e := range w.env.Recorder.Events() {
			if e.Kind != "XThing" {
				continue
			}
			m := tokRE.FindString(e.Message)
			if m == "" || !final[m] {
				// Results of superseded rounds and results after a fatal one are outside the obligation.
				continue
			}
			got = append(got, expEvent{Token: m, Type: string(e.Type), Reason: e.Reason})
		}
		if fmt.Sprint(got) != fmt.Sprint(it.events) {
			fail("%s (outcome %s): results are not surfaced in pipeline order with none dropped:\n  want events %v\n  got events  %v\n  all recorded: %v", ctx, it.outcome, it.events, got, w.env.Recorder.Events())
		}
		// Conditions: the last one of each type in pipeline order wins; none is dropped.
		last := map[string]expCond{}
		claim := map[string]bool{}
		for _, c := range it.conds {
			last[c.Type] = c
			claim[c.Type] = claim[c.Type] || c.Claim
		}
		cct := map[string]bool{}
		if l, ok := verifsim.Nested(xr, "status", "claimConditionTypes").([]any); ok {
			for _, e := range l {
				cct[fmt.Sprint(e)] = true
			}
		}
		for _, typ := range condTypes {
			c, ok := last[typ]
			if !ok {
				continue
			}
			g := condOf(xr, typ)
			if g == nil || g["status"] != c.Status || g["reason"] != c.Reason || fmt.Sprint(orEmpty(g["message"])) != c.Message {
				fail("%s (outcome %s): condition %s of the pipeline is not surfaced on the XR: want %+v, stored %v (all conditions %v)", ctx, it.outcome, typ, c, g, verifsim.Nested(xr, "status", "conditions"))
			}
			if claim[typ] && !cct[typ] {
				fail("%s: condition type %s targets the claim but is not in status.claimConditionTypes %v", ctx, typ, cct)
			}
		}
	}

	switch it.outcome {
	case "ok":
		if synced == nil || synced["status"] != "True" {
			fail("%s: the pipeline completed but the XR is not Synced=True: %v (reconcile error %v, events %v)", ctx, synced, rerr, w.env.Recorder.Events())
		}
		// The final desired state is the last step's output.
		want := map[string]string{}
		for n, r := range it.final.GetResources() {
			spec := r.GetResource().GetFields()["spec"].GetStructValue().AsMap()
			b, _ := json.Marshal(spec)
			want[n] = kindOf(n) + " " + string(b)
		}
		gotm := map[string]string{}
		for n, v := range after {
			kn, spec, _ := strings.Cut(v, " ")
			gotm[n] = strings.SplitN(kn, "/", 2)[0] + " " + spec
		}
		if verifkit.JSON(want) != verifkit.JSON(gotm) {
			fail("%s: composed resources after the reconcile are not the last step's desired resources:\n  want %s\n  got  %s", ctx, verifkit.JSON(want), verifkit.JSON(gotm))
		}
		refs, _ := verifsim.Nested(xr, "spec", "resourceRefs").([]any)
		if len(refs) != len(want) {
			fail("%s: XR references %d resources, last step desired %d", ctx, len(refs), len(want))
		}
		if sv := it.final.GetComposite().GetResource().GetFields()["status"].GetStructValue().GetFields()["val"].GetStringValue(); sv != "" {
			if g := fmt.Sprint(verifsim.Nested(xr, "status", "val")); g != sv {
				fail("%s: desired XR status.val %q of the last step is not applied (stored %q)", ctx, sv, g)
			}
		}
		if w.p.XRConnRef {
			data := secretData(w.env.Sim, connNS, xrConnName)
			for k, v := range it.final.GetComposite().GetConnectionDetails() {
				if string(data[k]) != string(v) {
					fail("%s: XR connection detail %q of the last step's desired state is %q in the published secret, want %q", ctx, k, data[k], v)
				}
			}
		}
	default:
		// "an error when not stabilised" (and for any other failed pipeline): the
		// reconcile reports the failure and applies nothing.
		if synced == nil || synced["status"] != "False" {
			fail("%s: the pipeline failed (%s) but the XR is not Synced=False: %v", ctx, it.outcome, synced)
		}
		if len(w.env.Recorder.Warnings()) == 0 {
			fail("%s: the pipeline failed (%s) but no warning event was recorded", ctx, it.outcome)
		}
		if it.outcome == "fatal" && !strings.Contains(fmt.Sprint(synced["message"]), it.fatalTok) && !warningMentions(w.env.Recorder.Warnings(), it.fatalTok) {
			fail("%s: the fatal result %q is reported neither in the Synced condition nor in a warning event: %v", ctx, it.fatalTok, synced)
		}
		if verifkit.JSON(before) != verifkit.JSON(after) {
			fail("%s: the pipeline failed (%s) but composed resources changed:\n  before %s\n  after  %s", ctx, it.outcome, verifkit.JSON(before), verifkit.JSON(after))
		}
	}
	return it
}

func orEmpty(v any) any {
	if v == nil {
		return ""
	}
	return v
}

func condOf(o verifsim.Obj, typ string) map[string]any {
	l, _ := verifsim.Nested(o, "status", "conditions").([]any)
	for _, e := range l {
		if m, ok := e.(map[string]any); ok && m["type"] == typ {
			return m
		}
	}
	return nil
}

// run executes all reconciles of a program.
func runProgram(p *program, rec *verifkit.Recorder, fail func(string, ...any)) {
	w := newWorld(p, rec)
	nontrivial := false
	for r := 0; r < p.Reconciles; r++ {
		it := w.reconcile(r, fail)
		if rec != nil {
			rec.Labelf("outcome=%s", it.outcome)
			rec.Labelf("calls=%d", min(it.calls, 12))
			rec.Labelf("maxRounds=%d", it.maxRounds)
			rec.Labelf("observedComposed=%d", min(len(it.obs.GetResources()), 4))
			if it.extraItems > 0 {
				rec.Label("extraItemsSupplied>0")
			}
			withConn := 0
			for _, r := range it.obs.GetResources() {
				if len(r.GetConnectionDetails()) > 0 {
					withConn++
				}
			}
			if withConn > 0 {
				rec.Label("observedComposedWithConnDetails")
			}
			if len(it.obs.GetComposite().GetConnectionDetails()) > 0 {
				rec.Label("observedXRConnDetails")
			}
			if len(it.events) > 0 {
				rec.Label("resultsSurfaced")
			}
			if len(it.conds) > 0 {
				rec.Label("conditionsSurfaced")
			}
		}
		if (len(p.Steps) >= 2 && it.mutations > 0 && it.calls >= 2) || it.maxRounds >= 2 {
			nontrivial = true
		}
		w.provider(r)
	}
	if rec != nil {
		rec.Labelf("steps=%d", len(p.Steps))
		if nontrivial {
			rec.NonTrivial(verifkit.JSON(p), func() any { return p })
		}
	}
}

// ---------------------------------------------------------------------------
// tests

const ruleA = "program = 1-4 pipeline steps (function name, input, credential refs, per-round table of desired/context operations, requirements by name/labels incl. never-stabilising ones, results, conditions, cluster side effects, failures) + cluster objects + secrets, run for 1-3 reconciles of the real XR reconciler on verifsim; a reference interpreter of run_function.proto predicts every RunFunctionRequest (proto.Equal), the surfaced results/conditions and the applied composed resources; non-trivial = >=2 steps with a desired/context mutation, or a step with >=2 requirement rounds"

func TestVerifC04Programs(t *testing.T) {
	rec := verifkit.New(t, "C04", ruleA)
	rapid.Check(t, func(t *rapid.T) {
		p := genProgram().Draw(t, "program")
		rec.Eval()
		runProgram(&p, rec, func(f string, a ...any) { t.Fatalf(f, a...) })
	})
}

// pinned rows: programs that must keep passing (plain table, no rapid).
func pinnedPrograms() map[string]program {
	sel := func(kind, name string) selector { return selector{Kind: kind, ByName: true, Name: name} }
	return map[string]program{
		// two steps; the second reads the context and the desired state of the first.
		"thread-context-and-desired": {Seed: 7, Reconciles: 2, Steps: []stepProg{
			{Fn: "fn-0", Rounds: []roundProg{{Res: []resOp{{Op: "set", Name: "r0", Val: "x"}}, Ctx: []ctxOp{{Op: "set", Key: "ka", Val: "hello"}}}}},
			{Fn: "fn-1", Input: map[string]any{"apiVersion": "fn.example.org/v1", "kind": "Input"}, Rounds: []roundProg{{Res: []resOp{{Op: "set", Name: "r1", Val: "$ctx:ka"}, {Op: "field", Name: "r0", Val: "$obs:r0"}}}}},
		}},
		// requirements change between rounds, then stabilise; extra resources must follow the latest.
		"requirements-rounds": {Seed: 8, Reconciles: 1, Cluster: []clusterObj{{Kind: "ExtraA", Name: "e0", Labels: map[string]string{"grp": "a"}}, {Kind: "ExtraA", Name: "e1", Labels: map[string]string{"grp": "a"}}, {Kind: "ExtraB", Name: "e0"}}, Steps: []stepProg{
			{Fn: "fn-0", Rounds: []roundProg{
				{Reqs: map[string]selector{"qa": sel("ExtraA", "e0")}, Ctx: []ctxOp{{Op: "inc", Key: "ka"}}},
				{Reqs: map[string]selector{"qa": {Kind: "ExtraA", Labels: map[string]string{"grp": "a"}}, "qb": sel("ExtraB", "absent")}, Ctx: []ctxOp{{Op: "inc", Key: "ka"}}, Res: []resOp{{Op: "set", Name: "r0", Val: "$extra:qa"}}},
			}},
			{Fn: "fn-1", Rounds: []roundProg{{Res: []resOp{{Op: "set", Name: "r2", Val: "$extra:qa"}}, Results: []resultSpec{{Sev: 3, Target: -1}, {Sev: 2, Target: 2, Reason: "ReasonA"}}, Conds: []condSpec{{Type: "TypeA", Status: 2, Target: 2, Msg: true}}}}},
		}},
		// never stabilises: exactly MaxRequirementsIterations+1 calls, then an error.
		"never-stabilises": {Seed: 9, Reconciles: 1, Steps: []stepProg{
			{Fn: "fn-0", Rounds: []roundProg{{Reqs: map[string]selector{"qa": {Kind: "ExtraA", ByName: true, Name: "e0", Vary: 1}}}}},
		}},
		// credentials and input belong to their own step only.
		"credentials-per-step": {Seed: 10, Reconciles: 1, Secrets: map[string]map[string]string{"s0": {"k": "zero"}, "s1": {"k": "one"}}, Steps: []stepProg{
			{Fn: "fn-0", Creds: []credSpec{{Name: "cr0", Source: "Secret", Secret: "s0"}}, Rounds: []roundProg{{Res: []resOp{{Op: "set", Name: "r0", Val: "$cred:cr0"}}}}},
			{Fn: "fn-0", Creds: []credSpec{{Name: "cr1", Source: "Secret", Secret: "s1"}, {Name: "cr0", Source: "None"}}, Rounds: []roundProg{{Res: []resOp{{Op: "set", Name: "r1", Val: "$cred:cr0"}}}}},
		}},
		// a fatal result in step 1 keeps what step 0 and step 1 reported before it.
		"fatal-keeps-earlier-results": {Seed: 11, Reconciles: 1, Steps: []stepProg{
			{Fn: "fn-0", Rounds: []roundProg{{Results: []resultSpec{{Sev: 2, Target: -1}}, Conds: []condSpec{{Type: "TypeA", Status: 3, Target: -1}}}}},
			{Fn: "fn-1", Rounds: []roundProg{{Results: []resultSpec{{Sev: 3, Target: -1}, {Sev: 1, Target: -1}, {Sev: 3, Target: -1}}, Conds: []condSpec{{Type: "TypeB", Status: 2, Target: -1}}}}},
			{Fn: "fn-2", Rounds: []roundProg{{}}},
		}},
	}
}

func TestVerifC04Pinned(t *testing.T) {
	rows := pinnedPrograms()
	names := make([]string, 0, len(rows))
	for n := range rows {
		names = append(names, n)
	}
	sort.Strings(names)
	for _, n := range names {
		p := rows[n]
		t.Run(n, func(t *testing.T) {
			runProgram(&p, nil, func(f string, a ...any) { t.Fatalf(f, a...) })
		})
	}
}

// TestVerifC04PinnedStepError is the pinned reproducer of the class
// keyStepError: step 0 reports a warning result and a condition, step 1 then
// fails with an error that is not a fatal result (its requirements never
// stabilise / the function call fails / its credential Secret is missing).
// "Results and conditions are surfaced in pipeline order and none is dropped."
func TestVerifC04PinnedStepError(t *testing.T) {
	rec := verifkit.New(t, "C04", "")
	first := stepProg{Fn: "fn-0", Rounds: []roundProg{{Results: []resultSpec{{Sev: 2, Target: -1}, {Sev: 3, Target: -1}}, Conds: []condSpec{{Type: "TypeA", Status: 2, Target: -1, Msg: true}}}}}
	rows := map[string]stepProg{
		"never-stabilises":   {Fn: "fn-1", Rounds: []roundProg{{Reqs: map[string]selector{"qa": {Kind: "ExtraA", ByName: true, Name: "e0", Vary: 2}}}}},
		"function-error":     {Fn: "fn-1", Rounds: []roundProg{{Err: true}}},
		"credentials-absent": {Fn: "fn-1", Creds: []credSpec{{Name: "cr0", Source: "Secret", Secret: "s2"}}, Rounds: []roundProg{{}}},
	}
	var failed []string
	for _, n := range []string{"credentials-absent", "function-error", "never-stabilises"} {
		p := program{Seed: 12, Reconciles: 1, Steps: []stepProg{first, rows[n]}}
		func() {
			defer func() {
				if r := recover(); r != nil {
					if s, ok := r.(pinFail); ok {
						failed = append(failed, n+": "+string(s))
						return
					}
					panic(r)
				}
			}()
			// Evaluate without the exclusion, whatever the ledger says.
			t.Setenv("VERIF_KNOWN", "")
			runProgram(&p, nil, func(f string, a ...any) { panic(pinFail(fmt.Sprintf(f, a...))) })
		}()
	}
	if len(failed) == 0 {
		return
	}
	t.Setenv("VERIF_KNOWN", knownPath)
	if verifkit.OpenFinding("C04", keyStepError) {
		rec.KnownReproduced(keyStepError + ": results and conditions of completed steps are dropped when a later step fails with an error (" + strconv.Itoa(len(failed)) + "/3 rows)")
		return
	}
	t.Fatalf("results/conditions of completed steps are dropped when a later step fails with an error:\n%s", strings.Join(failed, "\n"))
}

type pinFail string

var knownPath = os.Getenv("VERIF_KNOWN")

// warningMentions reports whether some recorded warning event carries the token (a function-supplied message).
func warningMentions(evs []verifenv.RecordedEvent, tok string) bool {
	for _, e := range evs {
		if strings.Contains(e.Message, tok) {
			return true
		}
	}
	return false
}

// ---------------------------------------------------------------------------
// observation under cache lag and read faults

const ruleObserve = "observation: a non-failing program composes >=2 resources in reconcile 0; in reconcile 1 the reconciler's cache hides the composed resources written exactly once (LagHideNew) while uncached reads are live; first fault-free (the interpreter's observed state, built from the LIVE store, must be what every step receives), then every read of the observe phase (cached Get, fallback Get, connection Secret Gets, first step's credential Secret Gets) x {500, timeout, conflict, no-kind-match} is failed: an observation that cannot be completed allows NO RunFunctionRequest, and nothing may be applied; non-trivial = at least one cache miss whose fallback read was failed"

var observeFaults = []string{"server", "timeout", "conflict", "nomatch"}

func TestVerifC04ObserveFaults(t *testing.T) {
	rec := verifkit.New(t, "C04", ruleObserve)
	rapid.Check(t, func(t *rapid.T) {
		p := genProgramOpt(true, true).Draw(t, "program")
		// A last step that makes sure there is something to observe afterwards.
		p.Steps = append(p.Steps, stepProg{Fn: "fn-last", Rounds: []roundProg{{Res: []resOp{
			{Op: "set", Name: "r0", Val: "x", Conn: rapid.SampledFrom(append([]string{""}, connNames...)).Draw(t, "lastconn")},
			{Op: "set", Name: "r1", Val: "$obs:r0"},
		}}}})
		p.Reconciles = 2
		touch := map[string]bool{}
		for _, n := range resNames {
			touch[n] = rapid.IntRange(0, 3).Draw(t, "touch") == 0
		}
		rec.Eval()
		observeFaultCase(&p, touch, rec, func(f string, a ...any) { t.Fatalf(f, a...) })
	})
}

// observeFaultCase: see ruleObserve. touch lists the composed resources the
// provider writes once more before reconcile 1 (the cache has seen those).
func observeFaultCase(p *program, touch map[string]bool, rec *verifkit.Recorder, fail func(string, ...any)) {
	w := newWorld(p, rec)
	if it := w.reconcile(0, fail); it.outcome != "ok" {
		fail("setup: reconcile 0 of a non-failing program ended %s", it.outcome)
	}
	w.provider(0)
	pc := w.env.Sim.Client("provider")
	for _, k := range w.env.Sim.AllKeys() {
		o := w.env.Sim.Get(k)
		if strings.HasPrefix(k.Kind, "Kind") && touch[verifsim.Annotations(o)[annName]] {
			u := verifsim.U(o)
			_ = unstructured.SetNestedField(u.Object, true, "status", "seen")
			_ = pc.Status().Update(context.Background(), u)
		}
	}
	base := w.env.Sim.Snapshot()
	seed := p.Seed + 1

	// Fault-free under cache lag: the fallback read must make the observation complete.
	utilrand.Seed(seed)
	probe := w.reconcileOpt(1, true, fail)
	if probe.firstCallAt < 0 {
		fail("setup: no function was called in the fault-free reconcile 1")
	}
	calls := append([]string(nil), probe.run.Calls...)
	misses := 0
	isComposedGet := func(i int) bool { return i >= 0 && i < len(calls) && strings.HasPrefix(calls[i], "get "+group+"/Kind") }
	isFallback := func(i int) bool { return isComposedGet(i) && isComposedGet(i-1) && calls[i] == calls[i-1] }
	for i := 0; i < probe.firstCallAt; i++ {
		if isFallback(i) {
			misses++
		}
	}
	if rec != nil {
		rec.Labelf("observe: cache misses in reconcile 1 = %d", min(misses, 4))
		rec.Labelf("observe: observed composed (live) = %d", min(len(probe.obs.GetResources()), 4))
	}

	failedFallback := false
	for k := 0; k < probe.firstCallAt; k++ {
		class := ""
		switch {
		case isFallback(k):
			class = "cache miss + live-read fault; requests sent: 0"
		case isComposedGet(k):
			class = "cached composed read fault; requests sent: 0"
		case strings.HasPrefix(calls[k], "get /Secret/"+connNS+"/"):
			class = "connection secret read fault; requests sent: 0"
		case strings.HasPrefix(calls[k], "get /Secret/"+credsNS+"/"):
			class = "credential secret read fault; requests sent: 0"
		default:
			continue // reads of the reconciler before the observation (XR, composition, revision)
		}
		for _, e := range observeFaults {
			w.env.Sim.Restore(base)
			utilrand.Seed(seed)
			run := w.env.Sim.NewRun("xr-controller", map[int]verifsim.Fault{k: {Kind: verifsim.ErrBefore, Err: e}})
			it := &interp{p: w.p, env: w.env, rec: 1, run: run, firstCallAt: -1,
				forbid: fmt.Sprintf("the observation could not be completed: API call %d (%s) failed with an injected %s error", k, calls[k], e)}
			w.env.Runner = it
			w.env.Recorder.Reset()
			before := w.composedState()
			res, rerr := w.env.ReconcileWith(run.StaleClient(lagComposed), run.Client(), xrName)
			ctx := fmt.Sprintf("reconcile 1 under cache lag with %s at API call %d (%s) of program %s", e, k, calls[k], verifkit.JSON(w.p))
			if k >= len(run.Calls) || run.Calls[k] != calls[k] {
				fail("%s: harness: the faulted reconcile diverged from the probe before the fault (%v vs %v)", ctx, run.Calls, calls)
			}
			if len(it.mismatch) > 0 || it.calls > 0 {
				fail("%s: %d RunFunctionRequests were sent:\n%s", ctx, it.calls, strings.Join(it.mismatch, "\n"))
			}
			if !res.Requeue && rerr == nil {
				fail("%s: the reconcile neither returned an error nor asked to be requeued (%+v)", ctx, res)
			}
			if after := w.composedState(); verifkit.JSON(before) != verifkit.JSON(after) {
				fail("%s: composed resources changed although the observation failed:\n  before %s\n  after  %s", ctx, verifkit.JSON(before), verifkit.JSON(after))
			}
			if rec != nil {
				rec.Label("observe: " + class)
			}
		}
		failedFallback = failedFallback || isFallback(k)
	}
	w.env.Sim.Restore(base)
	if rec != nil && failedFallback {
		rec.NonTrivial("observe|"+verifkit.JSON(p)+verifkit.JSON(touch), func() any { return map[string]any{"observe_faults_program": p, "touched": touch} })
	}
}

func TestVerifC04PinnedObserve(t *testing.T) {
	p := program{Seed: 21, Reconciles: 2, ConnWrites: []string{"c0"}, XRConnRef: true, Secrets: map[string]map[string]string{"s0": {"k": "zero"}}, Steps: []stepProg{
		{Fn: "fn-0", Creds: []credSpec{{Name: "cr0", Source: "Secret", Secret: "s0"}}, Rounds: []roundProg{{Res: []resOp{{Op: "set", Name: "r0", Val: "x", Conn: "c0"}, {Op: "set", Name: "r1", Val: "$obs:r0"}, {Op: "set", Name: "r2", Val: "y"}}, XRConn: map[string]string{"user": "u"}}}},
	}}
	observeFaultCase(&p, map[string]bool{"r2": true}, nil, func(f string, a ...any) { t.Fatalf(f, a...) })
}
