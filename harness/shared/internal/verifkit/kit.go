//go:build verif

// Package verifkit holds the small amount of bookkeeping every property check
// shares: counting evaluations, classifying generated cases, counting distinct
// non-trivial cases, keeping samples, and the known-findings ledger.
package verifkit

import (
	"encoding/json"
	"fmt"
	"hash/fnv"
	"os"
	"path/filepath"
	"sort"
	"strconv"
	"sync"
	"testing"
)

// A Recorder accumulates evidence for one test function of one property.
type Recorder struct {
	mu        sync.Mutex
	prop      string
	name      string
	rule      string
	evals     int
	labels    map[string]int
	hashes    map[uint64]struct{}
	samples   []any
	excluded  int
	known     []string
	extra     map[string]any
	maxSample int
}

// New returns a Recorder that is flushed when the test finishes.
func New(t testing.TB, prop, rule string) *Recorder {
	r := &Recorder{prop: prop, name: t.Name(), rule: rule, labels: map[string]int{}, hashes: map[uint64]struct{}{}, extra: map[string]any{}, maxSample: 4}
	t.Cleanup(r.Flush)
	return r
}

// Eval counts one generated case.
func (r *Recorder) Eval() {
	r.mu.Lock()
	r.evals++
	r.mu.Unlock()
}

// Label counts one occurrence of a generator class.
func (r *Recorder) Label(l string) {
	r.mu.Lock()
	r.labels[l]++
	r.mu.Unlock()
}

// Labelf is Label with formatting.
func (r *Recorder) Labelf(f string, a ...any) { r.Label(fmt.Sprintf(f, a...)) }

// NonTrivial records a case that is non-trivial by the property's rule. key
// must canonically describe the case; distinct keys are counted once. sample
// is only called for the first few cases.
func (r *Recorder) NonTrivial(key string, sample func() any) {
	h := fnv.New64a()
	h.Write([]byte(key))
	v := h.Sum64()
	r.mu.Lock()
	defer r.mu.Unlock()
	if _, ok := r.hashes[v]; ok {
		return
	}
	if len(r.hashes) < 400000 {
		r.hashes[v] = struct{}{}
	}
	if len(r.samples) < r.maxSample && sample != nil {
		v := sample()
		if _, err := json.Marshal(v); err != nil {
			v = fmt.Sprintf("%+v", v)
		}
		r.samples = append(r.samples, v)
	}
}

// Excluded counts a generated case that was steered away from a known finding.
func (r *Recorder) Excluded() {
	r.mu.Lock()
	r.excluded++
	r.mu.Unlock()
}

// Extra stores a free-form evidence value (numbers are summed across shards).
func (r *Recorder) Extra(k string, v any) {
	r.mu.Lock()
	r.extra[k] = v
	r.mu.Unlock()
}

// AddExtra adds n to a numeric extra.
func (r *Recorder) AddExtra(k string, n int) {
	r.mu.Lock()
	cur, _ := r.extra[k].(int)
	r.extra[k] = cur + n
	r.mu.Unlock()
}

// KnownReproduced prints the KNOWN-FINDING line for an open finding whose
// pinned reproducer still fails on the tree under test.
func (r *Recorder) KnownReproduced(what string) {
	r.mu.Lock()
	r.known = append(r.known, what)
	r.mu.Unlock()
	fmt.Printf("KNOWN-FINDING: property=%s %s\n", r.prop, what)
}

// Flush writes the part file the driver merges.
func (r *Recorder) Flush() {
	dir := os.Getenv("VERIF_OUT_DIR")
	if dir == "" {
		return
	}
	r.mu.Lock()
	defer r.mu.Unlock()
	hs := make([]string, 0, len(r.hashes))
	for h := range r.hashes {
		hs = append(hs, strconv.FormatUint(h, 16))
	}
	sort.Strings(hs)
	out := map[string]any{
		"property": r.prop, "test": r.name, "rule": r.rule, "evaluations": r.evals, "labels": r.labels,
		"nontrivial_hashes": hs, "samples": r.samples, "excluded_known": r.excluded, "known": r.known, "extra": r.extra,
	}
	b, err := json.Marshal(out)
	if err != nil {
		b, _ = json.Marshal(map[string]any{"property": r.prop, "test": r.name, "evaluations": r.evals, "labels": r.labels, "nontrivial_hashes": hs, "samples": []any{fmt.Sprintf("unmarshalable samples: %v", err)}})
	}
	fn := filepath.Join(dir, fmt.Sprintf("%s-%s-%d-%s.json", r.prop, sanitize(r.name), os.Getpid(), os.Getenv("VERIF_SHARD")))
	_ = os.WriteFile(fn, b, 0o644)
}

func sanitize(s string) string {
	b := []byte(s)
	for i, c := range b {
		if !(c >= 'a' && c <= 'z' || c >= 'A' && c <= 'Z' || c >= '0' && c <= '9') {
			b[i] = '_'
		}
	}
	return string(b)
}

// Tier returns "quick" or "thorough".
func Tier() string {
	if os.Getenv("VERIF_TIER") == "thorough" {
		return "thorough"
	}
	return "quick"
}

// Scale returns the tier's multiplier for non-rapid loops (>= 1).
func Scale() int {
	n, _ := strconv.Atoi(os.Getenv("VERIF_SCALE"))
	if n < 1 {
		n = 1
	}
	return n
}

// Shard returns this process's shard index and the shard count.
func Shard() (int, int) {
	s, _ := strconv.Atoi(os.Getenv("VERIF_SHARD"))
	n, _ := strconv.Atoi(os.Getenv("VERIF_SHARDS"))
	if n < 1 {
		n = 1
	}
	return s, n
}

// Seed returns VERIF_SEED.
func Seed() int64 {
	n, _ := strconv.ParseInt(os.Getenv("VERIF_SEED"), 10, 64)
	return n
}

// Finding is one entry of known_findings.json.
type Finding struct {
	Property string `json:"property"`
	Key      string `json:"key"`
	Status   string `json:"status"` // open | fixed
	Commit   string `json:"commit,omitempty"`
	What     string `json:"what"`
}

// OpenFinding reports whether the known-findings ledger (known_findings.json
// plus known_findings.d/*.json next to it) lists (property,key) as open.
func OpenFinding(prop, key string) bool {
	p := os.Getenv("VERIF_KNOWN")
	if p == "" {
		return false
	}
	files := []string{p}
	more, _ := filepath.Glob(filepath.Join(filepath.Dir(p), "known_findings.d", "*.json"))
	sort.Strings(more)
	files = append(files, more...)
	for _, fn := range files {
		b, err := os.ReadFile(fn)
		if err != nil {
			continue
		}
		var f struct {
			Findings []Finding `json:"findings"`
		}
		var l []Finding
		if json.Unmarshal(b, &f) == nil && len(f.Findings) > 0 {
			l = f.Findings
		} else if json.Unmarshal(b, &l) != nil {
			continue
		}
		for _, e := range l {
			if e.Property == prop && e.Key == key && e.Status == "open" {
				return true
			}
		}
	}
	return false
}

// JSON renders v compactly for samples and messages.
func JSON(v any) string {
	b, err := json.Marshal(v)
	if err != nil {
		return fmt.Sprintf("%+v", v)
	}
	return string(b)
}
