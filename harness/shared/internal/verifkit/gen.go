//go:build verif

package verifkit

import (
	"math"

	"pgregory.net/rapid"
)

// JSONScalar generates a JSON scalar as Kubernetes' decoder would produce it
// (int64 or float64 numbers, string, bool, nil).
func JSONScalar() *rapid.Generator[any] {
	return rapid.OneOf(
		rapid.Map(rapid.Int64(), func(i int64) any { return i }),
		rapid.Map(rapid.SampledFrom([]int64{0, 1, -1, 2, 42, math.MaxInt64, math.MinInt64, 1 << 53, 1<<31 - 1}), func(i int64) any { return i }),
		rapid.Map(rapid.Float64(), func(f float64) any {
			if math.IsNaN(f) || math.IsInf(f, 0) {
				return 0.5
			}
			return f
		}),
		rapid.Map(rapid.SampledFrom([]float64{0, 1, -1, 0.5, 1e21, -1e-7, 3.14159, 1e308}), func(f float64) any { return f }),
		rapid.Map(rapid.String(), func(s string) any { return s }),
		rapid.Map(rapid.SampledFrom([]string{"", "a", "true", "false", "1", "-1", "0", "1.5", "1e3", "abc-def", "eyJhIjoxfQ==", "{\"a\":1}", "[1,2]", "%d", "%!s", "Gi", "100Mi", " x ", "\xff\xfe", "foo.bar", "us-east-1"}), func(s string) any { return s }),
		rapid.Map(rapid.Bool(), func(b bool) any { return b }),
		rapid.Just[any](nil),
	)
}

// JSONKey generates an object key from a small alphabet so that paths hit.
func JSONKey() *rapid.Generator[string] {
	return rapid.SampledFrom([]string{"a", "b", "c", "spec", "status", "name", "x.y", "k-1", "items", "forProvider", "region", "0", "*", "key with space", "metadata", "labels"})
}

// JSONValue generates a nested JSON value of at most the given depth.
func JSONValue(depth int) *rapid.Generator[any] {
	if depth <= 0 {
		return JSONScalar()
	}
	return rapid.Custom(func(t *rapid.T) any {
		switch rapid.IntRange(0, 5).Draw(t, "shape") {
		case 0, 1:
			n := rapid.IntRange(0, 4).Draw(t, "nkeys")
			m := map[string]any{}
			for i := 0; i < n; i++ {
				m[JSONKey().Draw(t, "key")] = JSONValue(depth-1).Draw(t, "val")
			}
			return m
		case 2:
			n := rapid.IntRange(0, 4).Draw(t, "nelem")
			l := make([]any, 0, n)
			for i := 0; i < n; i++ {
				l = append(l, JSONValue(depth-1).Draw(t, "elem"))
			}
			return l
		default:
			return JSONScalar().Draw(t, "scalar")
		}
	})
}

// JSONObject generates a JSON object (map) of at most the given depth.
func JSONObject(depth int) *rapid.Generator[map[string]any] {
	return rapid.Custom(func(t *rapid.T) map[string]any {
		n := rapid.IntRange(0, 5).Draw(t, "nkeys")
		m := map[string]any{}
		for i := 0; i < n; i++ {
			m[JSONKey().Draw(t, "key")] = JSONValue(depth-1).Draw(t, "val")
		}
		return m
	})
}

// DeepCopyJSON copies a JSON value.
func DeepCopyJSON(v any) any {
	switch x := v.(type) {
	case map[string]any:
		m := make(map[string]any, len(x))
		for k, e := range x {
			m[k] = DeepCopyJSON(e)
		}
		return m
	case []any:
		l := make([]any, len(x))
		for i, e := range x {
			l[i] = DeepCopyJSON(e)
		}
		return l
	default:
		return v
	}
}
