//go:build verif

// Package verifenv wires real Crossplane reconcilers to the simulated API
// server the way their Setup functions do, replacing only the outermost
// dependencies (API server, function runner, event recorder).
package verifenv

import (
	"context"
	"fmt"
	"sync"

	corev1 "k8s.io/api/core/v1"
	"k8s.io/apimachinery/pkg/runtime"
	"k8s.io/apimachinery/pkg/runtime/schema"
	"k8s.io/apimachinery/pkg/types"
	"sigs.k8s.io/controller-runtime/pkg/client"
	"sigs.k8s.io/controller-runtime/pkg/reconcile"

	"github.com/crossplane/crossplane-runtime/pkg/event"
	"github.com/crossplane/crossplane-runtime/pkg/meta"
	"github.com/crossplane/crossplane-runtime/pkg/reconciler/managed"
	"github.com/crossplane/crossplane-runtime/pkg/resource"

	v1 "github.com/crossplane/crossplane/apis/apiextensions/v1"
	"github.com/crossplane/crossplane/internal/controller/apiextensions/composite"
	"github.com/crossplane/crossplane/internal/controller/apiextensions/composition"
	"github.com/crossplane/crossplane/internal/verifsim"
)

// RecordedEvent is one event seen by the Recorder.
type RecordedEvent struct {
	Kind, Name string
	Type       event.Type
	Reason     string
	Message    string
}

// Recorder is an event.Recorder that keeps what it is given.
type Recorder struct {
	mu     *sync.Mutex
	events *[]RecordedEvent
}

// NewRecorder returns an empty recording event recorder.
func NewRecorder() *Recorder { return &Recorder{mu: &sync.Mutex{}, events: &[]RecordedEvent{}} }

// Event implements event.Recorder.
func (r *Recorder) Event(obj runtime.Object, e event.Event) {
	r.mu.Lock()
	defer r.mu.Unlock()
	re := RecordedEvent{Type: e.Type, Reason: string(e.Reason), Message: e.Message}
	if obj != nil {
		re.Kind = obj.GetObjectKind().GroupVersionKind().Kind
		if o, ok := obj.(interface{ GetName() string }); ok {
			re.Name = o.GetName()
		}
	}
	*r.events = append(*r.events, re)
}

// WithAnnotations implements event.Recorder.
func (r *Recorder) WithAnnotations(_ ...string) event.Recorder { return r }

// Events returns the events recorded so far.
func (r *Recorder) Events() []RecordedEvent {
	r.mu.Lock()
	defer r.mu.Unlock()
	return append([]RecordedEvent(nil), *r.events...)
}

// Reset forgets recorded events.
func (r *Recorder) Reset() { r.mu.Lock(); *r.events = nil; r.mu.Unlock() }

// Warnings returns the recorded warning events.
func (r *Recorder) Warnings() []RecordedEvent {
	var out []RecordedEvent
	for _, e := range r.Events() {
		if e.Type == event.TypeWarning {
			out = append(out, e)
		}
	}
	return out
}

// XREnv is a composite resource controller environment.
type XREnv struct {
	Sim      *verifsim.Sim
	XRGVK    schema.GroupVersionKind
	XRD      *v1.CompositeResourceDefinition
	Keys     []string // XRD connectionSecretKeys
	Runner   composite.FunctionRunner
	Recorder *Recorder
	// Options are appended to the reconciler options (e.g. composite.WithWatchStarter).
	Options []composite.ReconcilerOption
}

// XRGVKDefault is the XR kind used by the checks.
var XRGVKDefault = schema.GroupVersionKind{Group: "example.org", Version: "v1", Kind: "XThing"}

// ClaimGVKDefault is the claim kind used by the checks.
var ClaimGVKDefault = schema.GroupVersionKind{Group: "example.org", Version: "v1", Kind: "Thing"}

// NewXREnv returns an environment with a fresh simulated API server.
func NewXREnv() *XREnv {
	e := &XREnv{Sim: verifsim.New(verifsim.NewScheme()), XRGVK: XRGVKDefault, Recorder: NewRecorder()}
	e.XRD = &v1.CompositeResourceDefinition{}
	e.XRD.SetName("xthings.example.org")
	e.XRD.Spec.Group = "example.org"
	e.XRD.Spec.Names.Kind = "XThing"
	e.XRD.Spec.Names.Plural = "xthings"
	e.XRD.Spec.Versions = []v1.CompositeResourceDefinitionVersion{{Name: "v1", Served: true, Referenceable: true}}
	return e
}

// Reconciler builds the XR reconciler the way definition.CompositeReconcilerOptions does
// (no feature flags), on the supplied cached/uncached clients.
func (e *XREnv) Reconciler(c, uc client.Client) *composite.Reconciler {
	d := e.XRD.DeepCopy()
	d.Spec.ConnectionSecretKeys = e.Keys
	var fetcher managed.ConnectionDetailsFetcher = composite.NewSecretConnectionDetailsFetcher(c)
	ptc := composite.NewPTComposer(c, uc, composite.WithComposedConnectionDetailsFetcher(fetcher))
	var inner composite.FunctionRunner = e.Runner
	if inner == nil {
		inner = composite.FunctionRunnerFn(func(_ context.Context, name string, _ *RunFunctionRequest) (*RunFunctionResponse, error) {
			return nil, fmt.Errorf("no function runner configured (function %q)", name)
		})
	}
	runner := composite.NewFetchingFunctionRunner(inner, composite.NewExistingExtraResourcesFetcher(c))
	fc := composite.NewFunctionComposer(c, uc, runner,
		composite.WithComposedResourceObserver(composite.NewExistingComposedResourceObserver(c, uc, fetcher)),
		composite.WithCompositeConnectionDetailsFetcher(fetcher),
	)
	return composite.NewReconciler(c, uc, resource.CompositeKind(e.XRGVK), append([]composite.ReconcilerOption{
		composite.WithConnectionPublishers(composite.NewAPIFilteredSecretPublisher(c, d.GetConnectionSecretKeys())),
		composite.WithCompositionSelector(composite.NewCompositionSelectorChain(
			composite.NewEnforcedCompositionSelector(*d, e.Recorder),
			composite.NewAPIDefaultCompositionSelector(c, *meta.ReferenceTo(d, v1.CompositeResourceDefinitionGroupVersionKind), e.Recorder),
			composite.NewAPILabelSelectorResolver(c),
		)),
		composite.WithRecorder(e.Recorder),
		composite.WithComposer(composite.ComposerSelectorFn(func(cm *v1.CompositionMode) composite.Composer {
			if cm != nil && *cm == v1.CompositionModePipeline {
				return fc
			}
			return ptc
		})),
	}, e.Options...)...)
}

// Reconcile runs one XR reconcile within the given run (cached == uncached == live store).
func (e *XREnv) Reconcile(run *verifsim.Run, name string) (reconcile.Result, error) {
	c := run.Client()
	return e.Reconciler(c, c).Reconcile(context.Background(), reconcile.Request{NamespacedName: types.NamespacedName{Name: name}})
}

// ReconcileWith runs one XR reconcile with explicit cached and uncached clients.
func (e *XREnv) ReconcileWith(c, uc client.Client, name string) (reconcile.Result, error) {
	return e.Reconciler(c, uc).Reconcile(context.Background(), reconcile.Request{NamespacedName: types.NamespacedName{Name: name}})
}

// InstallComposition stores the Composition and the CompositionRevision the
// revision controller would derive from it (revision number rev).
func (e *XREnv) InstallComposition(comp *v1.Composition, rev int64) *v1.CompositionRevision {
	c := e.Sim.Client("setup")
	ctx := context.Background()
	cur := &v1.Composition{}
	if err := c.Get(ctx, types.NamespacedName{Name: comp.GetName()}, cur); err == nil {
		comp.SetResourceVersion(cur.GetResourceVersion())
		comp.SetUID(cur.GetUID())
		if err := c.Update(ctx, comp); err != nil {
			panic(err)
		}
	} else if err := c.Create(ctx, comp); err != nil {
		panic(err)
	}
	r := composition.NewCompositionRevision(comp, rev)
	if err := c.Create(ctx, r); err != nil {
		panic(err)
	}
	return r
}

// XRKey returns the store key of the named XR.
func (e *XREnv) XRKey(name string) verifsim.Key {
	return verifsim.Key{Group: e.XRGVK.Group, Kind: e.XRGVK.Kind, Name: name}
}

// NewXR returns an XR that references the named composition.
func (e *XREnv) NewXR(name, compName string) *XR {
	u := NewUnstructuredXR(e.XRGVK, name)
	u.SetCompositionReference(&corev1.ObjectReference{Name: compName})
	return u
}
