//go:build verif

package verifenv

import (
	"k8s.io/apimachinery/pkg/runtime/schema"

	"github.com/crossplane/crossplane-runtime/pkg/resource/unstructured/composite"

	fnv1 "github.com/crossplane/crossplane/apis/apiextensions/fn/proto/v1"
)

// Aliases that keep harness code short.
type (
	RunFunctionRequest  = fnv1.RunFunctionRequest
	RunFunctionResponse = fnv1.RunFunctionResponse
	XR                  = composite.Unstructured
)

// NewUnstructuredXR returns an empty XR of the given kind.
func NewUnstructuredXR(gvk schema.GroupVersionKind, name string) *XR {
	u := composite.New(composite.WithGroupVersionKind(gvk))
	u.SetName(name)
	return u
}
