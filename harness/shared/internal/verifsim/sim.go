//go:build verif

// Package verifsim is a stateful, in-process simulated Kubernetes API server
// that implements controller-runtime's client.Client. It is the observation
// device of the property checks (object store + write log), not an oracle.
// See /verif/DESIGN.md §2 for the semantics it implements and what it does not.
package verifsim

import (
	"encoding/json"
	"fmt"
	"sort"
	"strconv"
	"strings"
	"sync"
	"time"

	kerrors "k8s.io/apimachinery/pkg/api/errors"
	metav1 "k8s.io/apimachinery/pkg/apis/meta/v1"
	"k8s.io/apimachinery/pkg/runtime"
	"k8s.io/apimachinery/pkg/runtime/schema"
	"k8s.io/apimachinery/pkg/util/managedfields"
	"sigs.k8s.io/controller-runtime/pkg/client"
)

// Key identifies a stored object. Version is deliberately absent: all versions
// of a kind share storage (conversion strategy None).
type Key struct {
	Group, Kind, Namespace, Name string
}

func (k Key) String() string {
	return fmt.Sprintf("%s/%s/%s/%s", k.Group, k.Kind, k.Namespace, k.Name)
}

// GK returns the key's group and kind.
func (k Key) GK() schema.GroupKind { return schema.GroupKind{Group: k.Group, Kind: k.Kind} }

// Obj is the JSON content of a stored object. Stored Objs are immutable: a
// write replaces the map, it never edits it.
type Obj = map[string]any

type entry struct {
	// versions[i] is the i-th state of the object; nil means absent.
	versions []Obj
}

func (e *entry) cur() Obj {
	if e == nil || len(e.versions) == 0 {
		return nil
	}
	return e.versions[len(e.versions)-1]
}

// A Write is one mutating request as the server saw it.
type Write struct {
	Seq      int
	Actor    string
	Verb     string // create | update | patch | apply | delete
	Sub      string // "" or "status"
	GVK      schema.GroupVersionKind
	Key      Key
	DryRun   bool
	Manager  string
	Err      string // non-empty if the request was refused
	Changed  bool   // stored bytes changed (never true for dry-run or refused requests)
	Removed  bool   // the object is gone after this write
	Before   Obj    // state before (nil = absent)
	After    Obj    // state after (nil = absent); for dry-run, what would have been stored
	Injected string // fault injected on this call, if any
}

// Op is what admission plugins see.
type Op struct {
	Verb   string
	Sub    string
	Key    Key
	GVK    schema.GroupVersionKind
	Old    Obj
	New    Obj
	DryRun bool
	Actor  string
}

// Admission may refuse a write by returning an API error.
type Admission func(v *View, op Op) error

// Monitor is called under the store lock at the instant a write is committed (or refused).
type Monitor func(v *View, w *Write)

// Sim is the simulated API server.
type Sim struct {
	mu      sync.Mutex
	Scheme  *runtime.Scheme
	objs    map[Key]*entry
	rv      int64
	uid     int64
	seq     int
	log     []Write
	readLog []Read

	// NoStatusSubresource lists kinds whose status is part of the main resource.
	NoStatusSubresource map[schema.GroupKind]bool
	// ClusterScoped answers scope questions; nil means "namespaced iff the object has a namespace".
	ClusterScoped func(gk schema.GroupKind) bool
	// Served, if set, decides whether a kind is known to the server (NoMatch otherwise).
	Served func(v *View, gk schema.GroupKind) bool

	indexes    map[schema.GroupKind]map[string]client.IndexerFunc
	admissions []Admission
	monitors   []Monitor
	fms        map[fmKey]*managedfields.FieldManager
	LogReads   bool

	// Violations collects monitor findings (monitors append through View.Violate).
	Violations []string
}

// Read is one read request (only recorded when LogReads is set).
type Read struct {
	Seq   int
	Actor string
	Key   Key
	RV    string
	Found bool
}

// New returns an empty simulated API server.
func New(scheme *runtime.Scheme) *Sim {
	s := &Sim{
		Scheme: scheme,
		objs:   map[Key]*entry{},
		NoStatusSubresource: map[schema.GroupKind]bool{
			{Group: "", Kind: "Secret"}: true, {Group: "", Kind: "ConfigMap"}: true, {Group: "", Kind: "ServiceAccount"}: true,
			{Group: "", Kind: "Event"}:                                                 true,
			{Group: "rbac.authorization.k8s.io", Kind: "ClusterRole"}:                  true,
			{Group: "rbac.authorization.k8s.io", Kind: "ClusterRoleBinding"}:           true,
			{Group: "rbac.authorization.k8s.io", Kind: "Role"}:                         true,
			{Group: "rbac.authorization.k8s.io", Kind: "RoleBinding"}:                  true,
			{Group: "admissionregistration.k8s.io", Kind: "ValidatingWebhookConfiguration"}: true,
			{Group: "admissionregistration.k8s.io", Kind: "MutatingWebhookConfiguration"}:   true,
			{Group: "coordination.k8s.io", Kind: "Lease"}:                              true,
			{Group: "apiextensions.crossplane.io", Kind: "Composition"}:                true,
			{Group: "pkg.crossplane.io", Kind: "Lock"}:                                 true,
			{Group: "pkg.crossplane.io", Kind: "DeploymentRuntimeConfig"}:              true,
			{Group: "pkg.crossplane.io", Kind: "ControllerConfig"}:                     true,
			{Group: "pkg.crossplane.io", Kind: "ImageConfig"}:                          true,
			{Group: "secrets.crossplane.io", Kind: "StoreConfig"}:                      true,
			{Group: "apiextensions.crossplane.io", Kind: "EnvironmentConfig"}:          true,
		},
		indexes: map[schema.GroupKind]map[string]client.IndexerFunc{},
		fms:     map[fmKey]*managedfields.FieldManager{},
	}
	return s
}

// AddAdmission registers an admission plugin.
func (s *Sim) AddAdmission(a Admission) { s.mu.Lock(); s.admissions = append(s.admissions, a); s.mu.Unlock() }

// AddMonitor registers a monitor.
func (s *Sim) AddMonitor(m Monitor) { s.mu.Lock(); s.monitors = append(s.monitors, m); s.mu.Unlock() }

// ClearHooks removes admission plugins and monitors.
func (s *Sim) ClearHooks() { s.mu.Lock(); s.admissions, s.monitors = nil, nil; s.mu.Unlock() }

// RegisterIndex registers an index function the way a manager's FieldIndexer would.
func (s *Sim) RegisterIndex(gk schema.GroupKind, field string, fn client.IndexerFunc) {
	s.mu.Lock()
	defer s.mu.Unlock()
	if s.indexes[gk] == nil {
		s.indexes[gk] = map[string]client.IndexerFunc{}
	}
	s.indexes[gk][field] = fn
}

func (s *Sim) now() metav1.Time {
	return metav1.NewTime(time.Unix(1700000000+int64(s.seq), 0).UTC())
}

func (s *Sim) hasStatus(gk schema.GroupKind) bool { return !s.NoStatusSubresource[gk] }

// ---------------------------------------------------------------------------
// View: lock-free access for code that already holds the lock (admission,
// monitors) and, through Sim.View, for the harness.

// View gives read access to the store.
type View struct{ s *Sim }

// Get returns the current content of an object (nil if absent). Do not modify it.
func (v *View) Get(k Key) Obj { return v.s.objs[k].cur() }

// List returns the keys of all live objects of a group/kind, sorted.
func (v *View) List(gk schema.GroupKind) []Key {
	var out []Key
	for k, e := range v.s.objs {
		if k.Group == gk.Group && k.Kind == gk.Kind && e.cur() != nil {
			out = append(out, k)
		}
	}
	sortKeys(out)
	return out
}

// All returns the keys of all live objects, sorted.
func (v *View) All() []Key {
	var out []Key
	for k, e := range v.s.objs {
		if e.cur() != nil {
			out = append(out, k)
		}
	}
	sortKeys(out)
	return out
}

// ByUID finds a live object by UID.
func (v *View) ByUID(uid string) (Key, Obj) {
	for k, e := range v.s.objs {
		if o := e.cur(); o != nil && MetaString(o, "uid") == uid {
			return k, o
		}
	}
	return Key{}, nil
}

// Violate records a monitor finding.
func (v *View) Violate(format string, a ...any) {
	v.s.Violations = append(v.s.Violations, fmt.Sprintf(format, a...))
}

// Log returns the write log so far (do not modify).
func (v *View) Log() []Write { return v.s.log }

func sortKeys(ks []Key) {
	sort.Slice(ks, func(i, j int) bool { return ks[i].String() < ks[j].String() })
}

// With runs f with a consistent view of the store.
func (s *Sim) With(f func(v *View)) {
	s.mu.Lock()
	defer s.mu.Unlock()
	f(&View{s})
}

// Get returns a deep copy of the current content of an object (nil if absent).
func (s *Sim) Get(k Key) Obj {
	s.mu.Lock()
	defer s.mu.Unlock()
	return DeepCopy(s.objs[k].cur())
}

// Keys returns the keys of all live objects of a kind.
func (s *Sim) Keys(gk schema.GroupKind) []Key {
	s.mu.Lock()
	defer s.mu.Unlock()
	return (&View{s}).List(gk)
}

// AllKeys returns the keys of all live objects.
func (s *Sim) AllKeys() []Key {
	s.mu.Lock()
	defer s.mu.Unlock()
	return (&View{s}).All()
}

// Log returns a copy of the write log.
func (s *Sim) Log() []Write {
	s.mu.Lock()
	defer s.mu.Unlock()
	return append([]Write(nil), s.log...)
}

// LogLen returns the current length of the write log.
func (s *Sim) LogLen() int {
	s.mu.Lock()
	defer s.mu.Unlock()
	return len(s.log)
}

// Reads returns a copy of the read log.
func (s *Sim) Reads() []Read {
	s.mu.Lock()
	defer s.mu.Unlock()
	return append([]Read(nil), s.readLog...)
}

// TakeViolations returns and clears monitor findings.
func (s *Sim) TakeViolations() []string {
	s.mu.Lock()
	defer s.mu.Unlock()
	v := s.Violations
	s.Violations = nil
	return v
}

// ---------------------------------------------------------------------------
// Snapshot / restore / digests

// Snapshot is a point-in-time copy of the store.
type Snapshot struct {
	objs    map[Key][]Obj
	rv, uid int64
	seq     int
	logLen  int
}

// Snapshot captures the store (cheap: stored objects are immutable).
func (s *Sim) Snapshot() *Snapshot {
	s.mu.Lock()
	defer s.mu.Unlock()
	sn := &Snapshot{objs: make(map[Key][]Obj, len(s.objs)), rv: s.rv, uid: s.uid, seq: s.seq, logLen: len(s.log)}
	for k, e := range s.objs {
		sn.objs[k] = append([]Obj(nil), e.versions...)
	}
	return sn
}

// Restore rewinds the store to a snapshot (the write log is truncated too).
func (s *Sim) Restore(sn *Snapshot) {
	s.mu.Lock()
	defer s.mu.Unlock()
	s.objs = make(map[Key]*entry, len(sn.objs))
	for k, v := range sn.objs {
		s.objs[k] = &entry{versions: append([]Obj(nil), v...)}
	}
	s.rv, s.uid, s.seq = sn.rv, sn.uid, sn.seq
	if len(s.log) > sn.logLen {
		s.log = s.log[:sn.logLen]
	}
	s.Violations = nil
}

// Current returns the live objects of a snapshot (do not modify).
func (sn *Snapshot) Current() map[Key]Obj {
	out := map[Key]Obj{}
	for k, v := range sn.objs {
		if len(v) > 0 && v[len(v)-1] != nil {
			out[k] = v[len(v)-1]
		}
	}
	return out
}

// State returns the live objects (do not modify the Objs).
func (s *Sim) State() map[Key]Obj {
	s.mu.Lock()
	defer s.mu.Unlock()
	out := map[Key]Obj{}
	for k, e := range s.objs {
		if o := e.cur(); o != nil {
			out[k] = o
		}
	}
	return out
}

// Digest is a canonical rendering of the whole store including resourceVersions.
func (s *Sim) Digest() string {
	st := s.State()
	keys := make([]Key, 0, len(st))
	for k := range st {
		keys = append(keys, k)
	}
	sortKeys(keys)
	var sb strings.Builder
	for _, k := range keys {
		b, _ := json.Marshal(st[k])
		sb.WriteString(k.String())
		sb.WriteByte('=')
		sb.Write(b)
		sb.WriteByte('\n')
	}
	return sb.String()
}

// ObjDigest renders one object canonically.
func ObjDigest(o Obj) string {
	if o == nil {
		return "<absent>"
	}
	b, _ := json.Marshal(o)
	return string(b)
}

// ---------------------------------------------------------------------------
// small accessors over Obj

// DeepCopy copies JSON content.
func DeepCopy(o Obj) Obj {
	if o == nil {
		return nil
	}
	return runtime.DeepCopyJSON(o)
}

// Meta returns o.metadata (nil if missing).
func Meta(o Obj) map[string]any {
	m, _ := o["metadata"].(map[string]any)
	return m
}

// MetaString returns a string field of metadata.
func MetaString(o Obj, f string) string {
	s, _ := Meta(o)[f].(string)
	return s
}

// OwnerRefs returns the owner references of o.
func OwnerRefs(o Obj) []map[string]any {
	l, _ := Meta(o)["ownerReferences"].([]any)
	out := make([]map[string]any, 0, len(l))
	for _, e := range l {
		if m, ok := e.(map[string]any); ok {
			out = append(out, m)
		}
	}
	return out
}

// ControllerUID returns the UID of the controller owner reference ("" if none).
func ControllerUID(o Obj) string {
	for _, r := range OwnerRefs(o) {
		if c, _ := r["controller"].(bool); c {
			u, _ := r["uid"].(string)
			return u
		}
	}
	return ""
}

// Finalizers returns the finalizers of o.
func Finalizers(o Obj) []string {
	l, _ := Meta(o)["finalizers"].([]any)
	out := make([]string, 0, len(l))
	for _, e := range l {
		if s, ok := e.(string); ok {
			out = append(out, s)
		}
	}
	return out
}

// Labels returns the labels of o.
func Labels(o Obj) map[string]string {
	m, _ := Meta(o)["labels"].(map[string]any)
	out := map[string]string{}
	for k, v := range m {
		if s, ok := v.(string); ok {
			out[k] = s
		}
	}
	return out
}

// Annotations returns the annotations of o.
func Annotations(o Obj) map[string]string {
	m, _ := Meta(o)["annotations"].(map[string]any)
	out := map[string]string{}
	for k, v := range m {
		if s, ok := v.(string); ok {
			out[k] = s
		}
	}
	return out
}

// Terminating reports whether o has a deletionTimestamp.
func Terminating(o Obj) bool {
	_, ok := Meta(o)["deletionTimestamp"]
	return ok
}

// Nested returns the value at the given keys.
func Nested(o Obj, keys ...string) any {
	var cur any = o
	for _, k := range keys {
		m, ok := cur.(map[string]any)
		if !ok {
			return nil
		}
		cur = m[k]
	}
	return cur
}

// KeyOf computes the store key of JSON content.
func KeyOf(o Obj) Key {
	gv, _ := schema.ParseGroupVersion(fmt.Sprint(o["apiVersion"]))
	return Key{Group: gv.Group, Kind: fmt.Sprint(o["kind"]), Namespace: MetaString(o, "namespace"), Name: MetaString(o, "name")}
}

func (s *Sim) nextRV() string {
	s.rv++
	return strconv.FormatInt(s.rv, 10)
}

func (s *Sim) nextUID() string {
	s.uid++
	return fmt.Sprintf("uid-%04d", s.uid)
}

func statusErr(err error) string {
	if err == nil {
		return ""
	}
	if se, ok := err.(*kerrors.StatusError); ok {
		return fmt.Sprintf("%d %s: %s", se.ErrStatus.Code, se.ErrStatus.Reason, se.ErrStatus.Message)
	}
	return err.Error()
}
