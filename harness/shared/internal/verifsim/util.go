//go:build verif

package verifsim

import (
	"context"
	"reflect"

	admissionv1 "k8s.io/api/admissionregistration/v1"
	appsv1 "k8s.io/api/apps/v1"
	coordinationv1 "k8s.io/api/coordination/v1"
	corev1 "k8s.io/api/core/v1"
	rbacv1 "k8s.io/api/rbac/v1"
	extv1 "k8s.io/apiextensions-apiserver/pkg/apis/apiextensions/v1"
	"k8s.io/apimachinery/pkg/apis/meta/v1/unstructured"
	"k8s.io/apimachinery/pkg/runtime"
	"sigs.k8s.io/controller-runtime/pkg/client"

	"github.com/crossplane/crossplane/apis"
)

func reflectValue(o any) reflect.Value {
	v := reflect.ValueOf(o)
	if v.Kind() == reflect.Pointer {
		return v.Elem()
	}
	return reflect.Value{}
}

func reflectZero(v reflect.Value) reflect.Value { return reflect.Zero(v.Type()) }

// NewScheme returns a scheme with the built-in kinds Crossplane touches and all Crossplane APIs.
func NewScheme() *runtime.Scheme {
	s := runtime.NewScheme()
	for _, add := range []func(*runtime.Scheme) error{
		corev1.AddToScheme, rbacv1.AddToScheme, appsv1.AddToScheme, extv1.AddToScheme,
		admissionv1.AddToScheme, coordinationv1.AddToScheme, apis.AddToScheme,
	} {
		if err := add(s); err != nil {
			panic(err)
		}
	}
	return s
}

// MustCreate creates objects as the given actor and panics on error (test setup).
func (s *Sim) MustCreate(actor string, objs ...client.Object) {
	c := s.Client(actor)
	for _, o := range objs {
		if err := c.Create(context.Background(), o); err != nil {
			panic("verifsim.MustCreate: " + err.Error())
		}
	}
}

// U builds an unstructured object from JSON content.
func U(o Obj) *unstructured.Unstructured {
	return &unstructured.Unstructured{Object: DeepCopy(o)}
}
