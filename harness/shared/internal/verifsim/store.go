//go:build verif

package verifsim

import (
	"fmt"
	"reflect"
	"sort"
	"strings"

	jsonpatch "github.com/evanphx/json-patch"
	kerrors "k8s.io/apimachinery/pkg/api/errors"
	metav1 "k8s.io/apimachinery/pkg/apis/meta/v1"
	"k8s.io/apimachinery/pkg/apis/meta/v1/unstructured"
	"k8s.io/apimachinery/pkg/runtime/schema"
	"k8s.io/apimachinery/pkg/types"
	kjson "k8s.io/apimachinery/pkg/util/json"
	"k8s.io/apimachinery/pkg/util/validation/field"
	"sigs.k8s.io/yaml"
)

type reqOpts struct {
	actor   string
	dryRun  bool
	manager string
	force   bool
	sub     string
}

const defaultManager = "crossplane"

func gr(gvk schema.GroupVersionKind) schema.GroupResource {
	return schema.GroupResource{Group: gvk.Group, Resource: strings.ToLower(gvk.Kind) + "s"}
}

func (s *Sim) checkServed(gvk schema.GroupVersionKind) error {
	if s.Served != nil && !s.Served(&View{s}, gvk.GroupKind()) {
		return &metaNoMatch{gvk}
	}
	return nil
}

type metaNoMatch struct{ gvk schema.GroupVersionKind }

func (e *metaNoMatch) Error() string {
	return fmt.Sprintf("no matches for kind %q in version %q", e.gvk.Kind, e.gvk.GroupVersion())
}

// IsNoMatch reports whether err says the kind is not served.
func IsNoMatch(err error) bool {
	_, ok := err.(*metaNoMatch)
	return ok
}

func normalize(o any) (Obj, error) {
	b, err := kjson.Marshal(o)
	if err != nil {
		return nil, err
	}
	out := Obj{}
	if err := kjson.Unmarshal(b, &out); err != nil {
		return nil, err
	}
	return out, nil
}

func withoutRVAndTimes(o Obj) Obj {
	c := DeepCopy(o)
	m := Meta(c)
	if m == nil {
		return c
	}
	delete(m, "resourceVersion")
	if mf, ok := m["managedFields"].([]any); ok {
		for _, e := range mf {
			if em, ok := e.(map[string]any); ok {
				delete(em, "time")
			}
		}
	}
	return c
}

func sameContent(a, b Obj) bool {
	return reflect.DeepEqual(withoutRVAndTimes(a), withoutRVAndTimes(b))
}

func specPart(o Obj) Obj {
	c := Obj{}
	for k, v := range o {
		if k != "metadata" && k != "status" {
			c[k] = v
		}
	}
	return c
}

func validateMeta(gvk schema.GroupVersionKind, o Obj) error {
	name := MetaString(o, "name")
	var errs field.ErrorList
	controllers := 0
	for i, r := range OwnerRefs(o) {
		p := field.NewPath("metadata", "ownerReferences").Index(i)
		for _, f := range []string{"apiVersion", "kind", "name", "uid"} {
			if v, _ := r[f].(string); v == "" {
				errs = append(errs, field.Invalid(p.Child(f), v, f+" must not be empty"))
			}
		}
		if c, _ := r["controller"].(bool); c {
			controllers++
			if controllers > 1 {
				errs = append(errs, field.Invalid(field.NewPath("metadata", "ownerReferences"), "<refs>", fmt.Sprintf("Only one reference can have Controller set to true. Found \"true\" in references for %v/%v and another", r["kind"], r["name"])))
			}
		}
	}
	seen := map[string]bool{}
	for _, r := range OwnerRefs(o) {
		u, _ := r["uid"].(string)
		if seen[u] {
			errs = append(errs, field.Duplicate(field.NewPath("metadata", "ownerReferences"), u))
		}
		seen[u] = true
	}
	if len(errs) > 0 {
		return kerrors.NewInvalid(gvk.GroupKind(), name, errs)
	}
	return nil
}

// record logs a write and runs monitors.
func (s *Sim) record(w Write) {
	s.seq++
	w.Seq = s.seq
	s.log = append(s.log, w)
	v := &View{s}
	for _, m := range s.monitors {
		m(v, &s.log[len(s.log)-1])
	}
}

func (s *Sim) admit(op Op) error {
	v := &View{s}
	for _, a := range s.admissions {
		if err := a(v, op); err != nil {
			return err
		}
	}
	return nil
}

// persist stores next as the new state of key (nil = removed) and returns what is stored.
func (s *Sim) persist(key Key, old, next Obj) (Obj, bool) {
	e := s.objs[key]
	if e == nil {
		e = &entry{}
		s.objs[key] = e
	}
	if next == nil {
		if old == nil {
			return nil, false
		}
		s.rv++
		e.versions = append(e.versions, nil)
		return nil, true
	}
	if old != nil && sameContent(old, next) {
		return old, false
	}
	Meta(next)["resourceVersion"] = s.nextRV()
	e.versions = append(e.versions, next)
	return next, true
}

func ensureMeta(o Obj) map[string]any {
	m := Meta(o)
	if m == nil {
		m = map[string]any{}
		o["metadata"] = m
	}
	return m
}

func (s *Sim) doCreate(gvk schema.GroupVersionKind, in Obj, ro reqOpts, verb string) (Obj, error) {
	if err := s.checkServed(gvk); err != nil {
		return nil, err
	}
	o := DeepCopy(in)
	o["apiVersion"] = gvk.GroupVersion().String()
	o["kind"] = gvk.Kind
	m := ensureMeta(o)
	name, _ := m["name"].(string)
	if name == "" {
		gn, _ := m["generateName"].(string)
		if gn == "" {
			return nil, kerrors.NewInvalid(gvk.GroupKind(), "", field.ErrorList{field.Required(field.NewPath("metadata", "name"), "name or generateName is required")})
		}
		name = fmt.Sprintf("%s%05x", gn, (s.uid+1)*7919%0xfffff)
		m["name"] = name
	}
	key := Key{Group: gvk.Group, Kind: gvk.Kind, Namespace: MetaString(o, "namespace"), Name: name}
	w := Write{Actor: ro.actor, Verb: verb, Sub: ro.sub, GVK: gvk, Key: key, DryRun: ro.dryRun, Manager: ro.manager}
	fail := func(err error) (Obj, error) {
		w.Err = statusErr(err)
		s.record(w)
		return nil, err
	}
	if old := s.objs[key].cur(); old != nil {
		w.Before = old
		return fail(kerrors.NewAlreadyExists(gr(gvk), name))
	}
	if rv, _ := m["resourceVersion"].(string); rv != "" && verb == "create" {
		return fail(kerrors.NewBadRequest("resourceVersion should not be set on objects to be created"))
	}
	delete(m, "deletionTimestamp")
	delete(m, "deletionGracePeriodSeconds")
	m["creationTimestamp"] = s.now().UTC().Format("2006-01-02T15:04:05Z")
	m["generation"] = int64(1)
	if s.hasStatus(gvk.GroupKind()) && verb == "create" {
		delete(o, "status")
	}
	if err := validateMeta(gvk, o); err != nil {
		return fail(err)
	}
	if verb != "apply" {
		var err error
		if o, err = s.trackUpdate(gvk, ro.sub, Obj{"apiVersion": o["apiVersion"], "kind": o["kind"]}, o, ro.manager); err != nil {
			return fail(err)
		}
	}
	if err := s.admit(Op{Verb: "create", Sub: ro.sub, Key: key, GVK: gvk, New: o, DryRun: ro.dryRun, Actor: ro.actor}); err != nil {
		return fail(err)
	}
	if ro.dryRun {
		ensureMeta(o)["uid"] = "dry-run-uid"
		w.After = o
		s.record(w)
		return o, nil
	}
	ensureMeta(o)["uid"] = s.nextUID()
	s.stampTimes(nil, o)
	stored, changed := s.persist(key, nil, o)
	w.After, w.Changed = stored, changed
	s.record(w)
	return stored, nil
}

// finishUpdate applies the server-side rules common to update, patch and
// apply once the proposed new object is known.
func (s *Sim) finishUpdate(gvk schema.GroupVersionKind, key Key, old, proposed Obj, ro reqOpts, w Write, tracked bool) (Obj, error) {
	fail := func(err error) (Obj, error) {
		w.Err = statusErr(err)
		s.record(w)
		return nil, err
	}
	w.Before = old
	next := DeepCopy(proposed)
	next["apiVersion"] = gvk.GroupVersion().String()
	next["kind"] = gvk.Kind
	nm := ensureMeta(next)
	om := Meta(old)
	// Optimistic concurrency and identity.
	if rv, _ := nm["resourceVersion"].(string); rv != "" && rv != MetaString(old, "resourceVersion") {
		return fail(kerrors.NewConflict(gr(gvk), key.Name, fmt.Errorf("the object has been modified; please apply your changes to the latest version and try again")))
	}
	if uid, _ := nm["uid"].(string); uid != "" && uid != MetaString(old, "uid") {
		return fail(kerrors.NewConflict(gr(gvk), key.Name, fmt.Errorf("Precondition failed: UID in precondition: %v, UID in object meta: %v", uid, MetaString(old, "uid"))))
	}
	if n, _ := nm["name"].(string); n != "" && n != key.Name {
		return fail(kerrors.NewBadRequest("the name of the object does not match the name on the URL"))
	}
	nm["name"] = key.Name
	if key.Namespace != "" {
		nm["namespace"] = key.Namespace
	}
	// System-managed metadata is preserved.
	for _, f := range []string{"uid", "creationTimestamp", "deletionTimestamp", "deletionGracePeriodSeconds", "generation"} {
		if v, ok := om[f]; ok {
			nm[f] = v
		} else {
			delete(nm, f)
		}
	}
	delete(nm, "resourceVersion")
	hasStatus := s.hasStatus(gvk.GroupKind())
	switch {
	case ro.sub == "status":
		res := DeepCopy(old)
		if st, ok := next["status"]; ok {
			res["status"] = st
		} else {
			delete(res, "status")
		}
		if mf, ok := nm["managedFields"]; ok {
			Meta(res)["managedFields"] = mf
		}
		delete(Meta(res), "resourceVersion")
		next = res
		nm = Meta(next)
	case hasStatus:
		if st, ok := old["status"]; ok {
			next["status"] = st
		} else {
			delete(next, "status")
		}
	}
	if !tracked {
		var err error
		if next, err = s.trackUpdate(gvk, ro.sub, old, next, ro.manager); err != nil {
			return fail(err)
		}
		nm = Meta(next)
	}
	if err := validateMeta(gvk, next); err != nil {
		return fail(err)
	}
	if Terminating(old) {
		oldF := map[string]bool{}
		for _, f := range Finalizers(old) {
			oldF[f] = true
		}
		for _, f := range Finalizers(next) {
			if !oldF[f] {
				return fail(kerrors.NewForbidden(gr(gvk), key.Name, fmt.Errorf("no new finalizers can be added if the object is being deleted, found new finalizers %q", f)))
			}
		}
	}
	if !reflect.DeepEqual(specPart(old), specPart(next)) {
		g, _ := om["generation"].(int64)
		nm["generation"] = g + 1
	}
	if err := s.admit(Op{Verb: "update", Sub: ro.sub, Key: key, GVK: gvk, Old: old, New: next, DryRun: ro.dryRun, Actor: ro.actor}); err != nil {
		return fail(err)
	}
	if ro.dryRun {
		nm["resourceVersion"] = MetaString(old, "resourceVersion")
		w.After = next
		s.record(w)
		return next, nil
	}
	s.stampTimes(old, next)
	if Terminating(next) && len(Finalizers(next)) == 0 {
		s.persist(key, old, nil)
		w.After, w.Changed, w.Removed = nil, true, true
		s.record(w)
		nm["resourceVersion"] = MetaString(old, "resourceVersion")
		return next, nil
	}
	stored, changed := s.persist(key, old, next)
	w.After, w.Changed = stored, changed
	s.record(w)
	return stored, nil
}

func (s *Sim) doUpdate(gvk schema.GroupVersionKind, in Obj, ro reqOpts) (Obj, error) {
	if err := s.checkServed(gvk); err != nil {
		return nil, err
	}
	key := Key{Group: gvk.Group, Kind: gvk.Kind, Namespace: MetaString(in, "namespace"), Name: MetaString(in, "name")}
	w := Write{Actor: ro.actor, Verb: "update", Sub: ro.sub, GVK: gvk, Key: key, DryRun: ro.dryRun, Manager: ro.manager}
	old := s.objs[key].cur()
	if old == nil {
		err := kerrors.NewNotFound(gr(gvk), key.Name)
		w.Err = statusErr(err)
		s.record(w)
		return nil, err
	}
	return s.finishUpdate(gvk, key, old, in, ro, w, false)
}

func (s *Sim) doPatch(gvk schema.GroupVersionKind, key Key, pt types.PatchType, data []byte, ro reqOpts) (Obj, error) {
	if err := s.checkServed(gvk); err != nil {
		return nil, err
	}
	verb := "patch"
	if pt == types.ApplyPatchType {
		verb = "apply"
	}
	w := Write{Actor: ro.actor, Verb: verb, Sub: ro.sub, GVK: gvk, Key: key, DryRun: ro.dryRun, Manager: ro.manager}
	fail := func(err error) (Obj, error) {
		w.Err = statusErr(err)
		s.record(w)
		return nil, err
	}
	old := s.objs[key].cur()
	w.Before = old
	switch pt {
	case types.MergePatchType, types.JSONPatchType:
		if old == nil {
			return fail(kerrors.NewNotFound(gr(gvk), key.Name))
		}
		// The patch is applied to the object as served in the requested version.
		cur := DeepCopy(old)
		cur["apiVersion"] = gvk.GroupVersion().String()
		cb, err := kjson.Marshal(cur)
		if err != nil {
			return fail(kerrors.NewInternalError(err))
		}
		var nb []byte
		if pt == types.MergePatchType {
			nb, err = jsonpatch.MergePatch(cb, data)
		} else {
			var p jsonpatch.Patch
			if p, err = jsonpatch.DecodePatch(data); err == nil {
				nb, err = p.Apply(cb)
			}
		}
		if err != nil {
			return fail(kerrors.NewBadRequest(fmt.Sprintf("cannot apply patch: %v", err)))
		}
		next := Obj{}
		if err := kjson.Unmarshal(nb, &next); err != nil {
			return fail(kerrors.NewBadRequest(fmt.Sprintf("patched object is not valid JSON: %v", err)))
		}
		return s.finishUpdate(gvk, key, old, next, ro, w, false)
	case types.ApplyPatchType:
		if ro.manager == "" {
			return fail(kerrors.NewBadRequest("PatchOptions.meta.k8s.io \"\" is invalid: fieldManager: Required value: is required for apply patch"))
		}
		applied := Obj{}
		if err := yaml.Unmarshal(data, &applied); err != nil {
			return fail(kerrors.NewBadRequest(fmt.Sprintf("error decoding YAML: %v", err)))
		}
		applied, err := normalize(applied)
		if err != nil {
			return fail(kerrors.NewBadRequest(err.Error()))
		}
		if mf, ok := Meta(applied)["managedFields"]; ok && mf != nil {
			return fail(kerrors.NewBadRequest("metadata.managedFields must be nil"))
		}
		if fmt.Sprint(applied["kind"]) != gvk.Kind || fmt.Sprint(applied["apiVersion"]) != gvk.GroupVersion().String() {
			return fail(kerrors.NewBadRequest(fmt.Sprintf("patch apiVersion/kind %v/%v do not match %v", applied["apiVersion"], applied["kind"], gvk)))
		}
		if n := MetaString(applied, "name"); n != "" && n != key.Name {
			return fail(kerrors.NewBadRequest("the name of the object does not match the name on the URL"))
		}
		if old == nil {
			if ro.sub != "" {
				return fail(kerrors.NewNotFound(gr(gvk), key.Name))
			}
			if rv := MetaString(applied, "resourceVersion"); rv != "" {
				return fail(kerrors.NewConflict(gr(gvk), key.Name, fmt.Errorf("resourceVersion must not be set for a create-on-apply")))
			}
			if uid := MetaString(applied, "uid"); uid != "" {
				return fail(kerrors.NewConflict(gr(gvk), key.Name, fmt.Errorf("uid mismatch: the provided object specified uid %s, and no existing object was found", uid)))
			}
			live := Obj{"apiVersion": gvk.GroupVersion().String(), "kind": gvk.Kind}
			merged, err := s.trackApply(gvk, ro.sub, live, applied, ro.manager, ro.force)
			if err != nil {
				return fail(err)
			}
			ensureMeta(merged)["name"] = key.Name
			if key.Namespace != "" {
				Meta(merged)["namespace"] = key.Namespace
			}
			return s.doCreate(gvk, merged, ro, "apply")
		}
		if rv := MetaString(applied, "resourceVersion"); rv != "" && rv != MetaString(old, "resourceVersion") {
			return fail(kerrors.NewConflict(gr(gvk), key.Name, fmt.Errorf("the object has been modified; please apply your changes to the latest version and try again")))
		}
		if uid := MetaString(applied, "uid"); uid != "" && uid != MetaString(old, "uid") {
			return fail(kerrors.NewConflict(gr(gvk), key.Name, fmt.Errorf("Precondition failed: UID in precondition: %v, UID in object meta: %v", uid, MetaString(old, "uid"))))
		}
		live := DeepCopy(old)
		live["apiVersion"] = gvk.GroupVersion().String()
		merged, err := s.trackApply(gvk, ro.sub, live, applied, ro.manager, ro.force)
		if err != nil {
			return fail(err)
		}
		// The applied configuration's own resourceVersion was checked above.
		delete(ensureMeta(merged), "resourceVersion")
		return s.finishUpdate(gvk, key, old, merged, ro, w, true)
	default:
		return fail(fmt.Errorf("VERIF-INCONCLUSIVE: verifsim does not support patch type %q", pt))
	}
}

type delOpts struct {
	uid, rv     string
	propagation metav1.DeletionPropagation
}

func (s *Sim) doDelete(gvk schema.GroupVersionKind, key Key, do delOpts, ro reqOpts) error {
	if err := s.checkServed(gvk); err != nil {
		return err
	}
	w := Write{Actor: ro.actor, Verb: "delete", GVK: gvk, Key: key, DryRun: ro.dryRun}
	fail := func(err error) error {
		w.Err = statusErr(err)
		s.record(w)
		return err
	}
	old := s.objs[key].cur()
	w.Before = old
	if old == nil {
		return fail(kerrors.NewNotFound(gr(gvk), key.Name))
	}
	if do.uid != "" && do.uid != MetaString(old, "uid") {
		return fail(kerrors.NewConflict(gr(gvk), key.Name, fmt.Errorf("Precondition failed: UID in precondition: %v, UID in object meta: %v", do.uid, MetaString(old, "uid"))))
	}
	if do.rv != "" && do.rv != MetaString(old, "resourceVersion") {
		return fail(kerrors.NewConflict(gr(gvk), key.Name, fmt.Errorf("Precondition failed: ResourceVersion in precondition: %v, ResourceVersion in object meta: %v", do.rv, MetaString(old, "resourceVersion"))))
	}
	if err := s.admit(Op{Verb: "delete", Key: key, GVK: gvk, Old: old, DryRun: ro.dryRun, Actor: ro.actor}); err != nil {
		return fail(err)
	}
	if ro.dryRun {
		s.record(w)
		return nil
	}
	next := DeepCopy(old)
	nm := Meta(next)
	fins := Finalizers(next)
	if do.propagation == metav1.DeletePropagationForeground && !contains(fins, "foregroundDeletion") && s.hasDependents(MetaString(old, "uid")) {
		fins = append(fins, "foregroundDeletion")
	}
	if do.propagation == metav1.DeletePropagationOrphan && !contains(fins, "orphan") && s.hasDependents(MetaString(old, "uid")) {
		fins = append(fins, "orphan")
	}
	if len(fins) > 0 {
		fl := make([]any, len(fins))
		for i, f := range fins {
			fl[i] = f
		}
		nm["finalizers"] = fl
		if !Terminating(old) {
			nm["deletionTimestamp"] = s.now().UTC().Format("2006-01-02T15:04:05Z")
			nm["deletionGracePeriodSeconds"] = int64(0)
		}
		delete(nm, "resourceVersion")
		stored, changed := s.persist(key, old, next)
		w.After, w.Changed = stored, changed
		s.record(w)
		return nil
	}
	s.persist(key, old, nil)
	w.Changed, w.Removed = true, true
	s.record(w)
	return nil
}

func contains(l []string, s string) bool {
	for _, e := range l {
		if e == s {
			return true
		}
	}
	return false
}

func (s *Sim) hasDependents(uid string) bool {
	for _, e := range s.objs {
		if o := e.cur(); o != nil {
			for _, r := range OwnerRefs(o) {
				if u, _ := r["uid"].(string); u == uid {
					return true
				}
			}
		}
	}
	return false
}

// GCStep performs one action of the Kubernetes garbage collector: it finishes
// one foreground/orphan deletion whose dependents are handled, or deletes one
// object all of whose owners are gone. It reports whether it did anything.
func (s *Sim) GCStep() bool {
	s.mu.Lock()
	defer s.mu.Unlock()
	v := &View{s}
	keys := v.All()
	uids := map[string]bool{}
	for _, k := range keys {
		uids[MetaString(s.objs[k].cur(), "uid")] = true
	}
	ro := reqOpts{actor: "kube-gc", manager: "kube-controller-manager"}
	for _, k := range keys {
		o := s.objs[k].cur()
		fins := Finalizers(o)
		if Terminating(o) && contains(fins, "orphan") {
			// strip our owner reference from dependents, then drop the finalizer
			uid := MetaString(o, "uid")
			for _, dk := range keys {
				d := s.objs[dk].cur()
				if d == nil {
					continue
				}
				refs := OwnerRefs(d)
				keep := make([]any, 0, len(refs))
				for _, r := range refs {
					if u, _ := r["uid"].(string); u != uid {
						keep = append(keep, r)
					}
				}
				if len(keep) != len(refs) {
					n := DeepCopy(d)
					if len(keep) == 0 {
						delete(Meta(n), "ownerReferences")
					} else {
						Meta(n)["ownerReferences"] = keep
					}
					delete(Meta(n), "resourceVersion")
					gvk := gvkOf(d)
					_, _ = s.finishUpdate(gvk, dk, d, n, ro, Write{Actor: ro.actor, Verb: "update", GVK: gvk, Key: dk}, false)
				}
			}
			s.dropFinalizer(k, o, "orphan", ro)
			return true
		}
		if Terminating(o) && contains(fins, "foregroundDeletion") {
			uid := MetaString(o, "uid")
			blocked := false
			for _, dk := range keys {
				d := s.objs[dk].cur()
				for _, r := range OwnerRefs(d) {
					if u, _ := r["uid"].(string); u == uid {
						blocked = true
						if !Terminating(d) {
							_ = s.doDelete(gvkOf(d), dk, delOpts{propagation: metav1.DeletePropagationForeground}, ro)
							return true
						}
					}
				}
			}
			if !blocked {
				s.dropFinalizer(k, o, "foregroundDeletion", ro)
				return true
			}
		}
	}
	for _, k := range keys {
		o := s.objs[k].cur()
		refs := OwnerRefs(o)
		if len(refs) == 0 || Terminating(o) {
			continue
		}
		alive := 0
		for _, r := range refs {
			if u, _ := r["uid"].(string); uids[u] {
				alive++
			}
		}
		if alive == 0 {
			_ = s.doDelete(gvkOf(o), k, delOpts{propagation: metav1.DeletePropagationBackground}, ro)
			return true
		}
	}
	return false
}

func (s *Sim) dropFinalizer(k Key, o Obj, fin string, ro reqOpts) {
	n := DeepCopy(o)
	var keep []any
	for _, f := range Finalizers(o) {
		if f != fin {
			keep = append(keep, f)
		}
	}
	if len(keep) == 0 {
		delete(Meta(n), "finalizers")
	} else {
		Meta(n)["finalizers"] = keep
	}
	delete(Meta(n), "resourceVersion")
	gvk := gvkOf(o)
	_, _ = s.finishUpdate(gvk, k, o, n, ro, Write{Actor: ro.actor, Verb: "update", GVK: gvk, Key: k}, false)
}

func gvkOf(o Obj) schema.GroupVersionKind {
	u := unstructured.Unstructured{Object: o}
	return u.GroupVersionKind()
}

// stampTimes makes managedFields times deterministic: an entry that is
// unchanged keeps its old time, any other entry gets the simulated clock.
func (s *Sim) stampTimes(old, next Obj) {
	mf, _ := Meta(next)["managedFields"].([]any)
	if len(mf) == 0 {
		return
	}
	oldTimes := map[string]any{}
	if old != nil {
		omf, _ := Meta(old)["managedFields"].([]any)
		for _, e := range omf {
			if em, ok := e.(map[string]any); ok {
				oldTimes[mfIdent(em)] = em["time"]
			}
		}
	}
	now := s.now().UTC().Format("2006-01-02T15:04:05Z")
	for _, e := range mf {
		em, ok := e.(map[string]any)
		if !ok {
			continue
		}
		if t, ok := oldTimes[mfIdent(em)]; ok && t != nil {
			em["time"] = t
		} else {
			em["time"] = now
		}
	}
	// The field manager sorted the entries by the wall-clock times it stamped
	// itself. Re-sort by the simulated times with the API server's rule
	// (apimachinery managedfields: applies first, updates by time, then manager,
	// apiVersion, subresource), otherwise the stored order contradicts the stored
	// times and the next no-op write would reorder the entries, i.e. change bytes.
	str := func(e any, k string) string {
		m, _ := e.(map[string]any)
		s, _ := m[k].(string)
		return s
	}
	sort.SliceStable(mf, func(i, j int) bool {
		p, q := mf[i], mf[j]
		if a, b := str(p, "operation"), str(q, "operation"); a != b {
			return a < b
		}
		if a, b := str(p, "time"), str(q, "time"); str(p, "operation") == "Update" && a != b {
			return a < b
		}
		for _, k := range []string{"manager", "apiVersion", "subresource"} {
			if a, b := str(p, k), str(q, k); a != b {
				return a < b
			}
		}
		return false
	})
}

func mfIdent(em map[string]any) string {
	c := map[string]any{}
	for k, v := range em {
		if k != "time" {
			c[k] = v
		}
	}
	return ObjDigest(c)
}
