//go:build verif

package verifsim

import (
	"fmt"

	"k8s.io/apimachinery/pkg/apis/meta/v1/unstructured"
	"k8s.io/apimachinery/pkg/runtime"
	"k8s.io/apimachinery/pkg/runtime/schema"
	"k8s.io/apimachinery/pkg/util/managedfields"
	"sigs.k8s.io/structured-merge-diff/v4/fieldpath"
	"sigs.k8s.io/structured-merge-diff/v4/typed"
)

// The structured-merge-diff schema used for every kind: apiVersion, kind and
// a typed ObjectMeta (ownerReferences associative by uid, finalizers a set,
// labels/annotations granular maps), everything else "deduced" - which is what
// a CRD with x-kubernetes-preserve-unknown-fields and no list annotations gets
// (maps granular, lists atomic). Kinds can register a richer schema.
const baseSchema = `types:
- name: obj
  map:
    fields:
    - name: apiVersion
      type:
        scalar: string
    - name: kind
      type:
        scalar: string
    - name: metadata
      type:
        namedType: objectMeta
    elementType:
      namedType: __untyped_deduced_
- name: objectMeta
  map:
    fields:
    - name: name
      type:
        scalar: string
    - name: generateName
      type:
        scalar: string
    - name: namespace
      type:
        scalar: string
    - name: uid
      type:
        scalar: string
    - name: resourceVersion
      type:
        scalar: string
    - name: generation
      type:
        scalar: numeric
    - name: creationTimestamp
      type:
        namedType: __untyped_atomic_
    - name: deletionTimestamp
      type:
        namedType: __untyped_atomic_
    - name: deletionGracePeriodSeconds
      type:
        scalar: numeric
    - name: selfLink
      type:
        scalar: string
    - name: labels
      type:
        map:
          elementType:
            scalar: string
    - name: annotations
      type:
        map:
          elementType:
            scalar: string
    - name: ownerReferences
      type:
        list:
          elementType:
            namedType: ownerReference
          elementRelationship: associative
          keys:
          - uid
    - name: finalizers
      type:
        list:
          elementType:
            scalar: string
          elementRelationship: associative
    - name: managedFields
      type:
        list:
          elementType:
            namedType: __untyped_atomic_
          elementRelationship: atomic
- name: ownerReference
  map:
    fields:
    - name: apiVersion
      type:
        scalar: string
    - name: kind
      type:
        scalar: string
    - name: name
      type:
        scalar: string
    - name: uid
      type:
        scalar: string
    - name: controller
      type:
        scalar: boolean
    - name: blockOwnerDeletion
      type:
        scalar: boolean
    elementRelationship: atomic
- name: __untyped_atomic_
  scalar: untyped
  list:
    elementType:
      namedType: __untyped_atomic_
    elementRelationship: atomic
  map:
    elementType:
      namedType: __untyped_atomic_
    elementRelationship: atomic
- name: __untyped_deduced_
  scalar: untyped
  list:
    elementType:
      namedType: __untyped_atomic_
    elementRelationship: atomic
  map:
    elementType:
      namedType: __untyped_deduced_
    elementRelationship: separable
`

var baseParser = func() *typed.Parser {
	p, err := typed.NewParser(baseSchema)
	if err != nil {
		panic(fmt.Sprintf("verifsim: bad SMD schema: %v", err))
	}
	return p
}()

type typeConverter struct{ pt typed.ParseableType }

func (c typeConverter) ObjectToTyped(obj runtime.Object, opts ...typed.ValidationOptions) (*typed.TypedValue, error) {
	u, ok := obj.(*unstructured.Unstructured)
	if !ok {
		return nil, fmt.Errorf("verifsim: only unstructured objects are supported, got %T", obj)
	}
	return c.pt.FromUnstructured(u.UnstructuredContent(), opts...)
}

func (c typeConverter) TypedToObject(v *typed.TypedValue) (runtime.Object, error) {
	m, ok := v.AsValue().Unstructured().(map[string]interface{})
	if !ok {
		return nil, fmt.Errorf("verifsim: typed value is not an object")
	}
	return &unstructured.Unstructured{Object: m}, nil
}

// unstructured "conversion": all versions share storage, so converting only relabels apiVersion.
type objConverter struct{}

func (objConverter) Convert(in, out, _ interface{}) error {
	ui, ok1 := in.(*unstructured.Unstructured)
	uo, ok2 := out.(*unstructured.Unstructured)
	if !ok1 || !ok2 {
		return fmt.Errorf("verifsim: cannot convert %T to %T", in, out)
	}
	uo.Object = runtime.DeepCopyJSON(ui.Object)
	return nil
}

func (objConverter) ConvertToVersion(in runtime.Object, gv runtime.GroupVersioner) (runtime.Object, error) {
	u, ok := in.(*unstructured.Unstructured)
	if !ok {
		return nil, fmt.Errorf("verifsim: cannot convert %T", in)
	}
	kinds := []schema.GroupVersionKind{u.GroupVersionKind()}
	target, ok := gv.KindForGroupVersionKinds(kinds)
	if !ok {
		return in, nil
	}
	if target.GroupVersion() == u.GroupVersionKind().GroupVersion() {
		return in, nil
	}
	c := u.DeepCopy()
	c.SetAPIVersion(target.GroupVersion().String())
	return c, nil
}

func (objConverter) ConvertFieldLabel(_ schema.GroupVersionKind, label, value string) (string, string, error) {
	return label, value, nil
}

type objDefaulter struct{}

func (objDefaulter) Default(runtime.Object) {}

type objCreater struct{}

func (objCreater) New(gvk schema.GroupVersionKind) (runtime.Object, error) {
	u := &unstructured.Unstructured{}
	u.SetGroupVersionKind(gvk)
	return u, nil
}

type fmKey struct {
	gvk schema.GroupVersionKind
	sub string
}

func (s *Sim) fieldManager(gvk schema.GroupVersionKind, sub string) (*managedfields.FieldManager, error) {
	k := fmKey{gvk, sub}
	if fm, ok := s.fms[k]; ok {
		return fm, nil
	}
	reset := map[fieldpath.APIVersion]*fieldpath.Set{}
	if s.hasStatus(gvk.GroupKind()) {
		v := fieldpath.APIVersion(gvk.GroupVersion().String())
		if sub == "status" {
			reset[v] = fieldpath.NewSet(fieldpath.MakePathOrDie("spec"))
		} else {
			reset[v] = fieldpath.NewSet(fieldpath.MakePathOrDie("status"))
		}
	}
	fm, err := managedfields.NewDefaultCRDFieldManager(typeConverter{baseParser.Type("obj")}, objConverter{}, objDefaulter{}, objCreater{}, gvk, gvk.GroupVersion(), sub, reset)
	if err != nil {
		return nil, err
	}
	s.fms[k] = fm
	return fm, nil
}

// trackUpdate records field ownership for a non-apply write, as the API server does.
func (s *Sim) trackUpdate(gvk schema.GroupVersionKind, sub string, live, next Obj, manager string) (Obj, error) {
	fm, err := s.fieldManager(gvk, sub)
	if err != nil {
		return nil, err
	}
	if manager == "" {
		manager = defaultManager
	}
	l := &unstructured.Unstructured{Object: DeepCopy(live)}
	l.SetAPIVersion(gvk.GroupVersion().String())
	n := &unstructured.Unstructured{Object: DeepCopy(next)}
	out := fm.UpdateNoErrors(l, n, manager)
	u, ok := out.(*unstructured.Unstructured)
	if !ok {
		return nil, fmt.Errorf("verifsim: field manager returned %T", out)
	}
	return normalize(u.Object)
}

// trackApply performs a server-side apply merge.
func (s *Sim) trackApply(gvk schema.GroupVersionKind, sub string, live, applied Obj, manager string, force bool) (Obj, error) {
	fm, err := s.fieldManager(gvk, sub)
	if err != nil {
		return nil, err
	}
	l := &unstructured.Unstructured{Object: DeepCopy(live)}
	a := &unstructured.Unstructured{Object: DeepCopy(applied)}
	out, err := fm.Apply(l, a, manager, force)
	if err != nil {
		return nil, err
	}
	u, ok := out.(*unstructured.Unstructured)
	if !ok {
		return nil, fmt.Errorf("verifsim: field manager returned %T", out)
	}
	return normalize(u.Object)
}
