//go:build verif

package verifsim

import (
	"context"
	"errors"
	"fmt"
	kmeta "k8s.io/apimachinery/pkg/api/meta"
	"strings"

	kerrors "k8s.io/apimachinery/pkg/api/errors"
	"k8s.io/apimachinery/pkg/api/meta"
	metav1 "k8s.io/apimachinery/pkg/apis/meta/v1"
	"k8s.io/apimachinery/pkg/apis/meta/v1/unstructured"
	"k8s.io/apimachinery/pkg/fields"
	"k8s.io/apimachinery/pkg/labels"
	"k8s.io/apimachinery/pkg/runtime"
	"k8s.io/apimachinery/pkg/runtime/schema"
	"sigs.k8s.io/controller-runtime/pkg/client"
	"sigs.k8s.io/controller-runtime/pkg/client/apiutil"
)

// FaultKind is the outcome injected on one API call.
type FaultKind int

// Fault kinds (DESIGN.md §2.2).
const (
	NoFault     FaultKind = iota
	ErrBefore             // the call has no effect and returns an error
	ErrAfter              // the call takes effect, then returns an error (reply lost)
	CrashBefore           // as ErrBefore, and every later call of the run fails without effect
	CrashAfter            // as ErrAfter, and every later call of the run fails without effect
)

func (k FaultKind) String() string {
	return [...]string{"none", "err-before", "err-after", "crash-before", "crash-after"}[k]
}

// Fault is an injected outcome.
type Fault struct {
	Kind FaultKind
	// Err selects the error for ErrBefore/ErrAfter: "conflict", "server" (500), "timeout". Default "server".
	Err string
}

// ErrInjected marks every injected error.
var ErrInjected = errors.New("verifsim: injected fault")

// ErrCrashed is returned by every call after a crash point.
var ErrCrashed = fmt.Errorf("%w: process crashed (context canceled)", ErrInjected)

// IsInjected reports whether err stems from fault injection.
func IsInjected(err error) bool {
	return err != nil && (errors.Is(err, ErrInjected) || strings.Contains(err.Error(), "verifsim: injected"))
}

// A Run is one execution of a piece of controller code (typically one
// reconcile): it numbers the API calls made through its clients and injects
// the planned faults.
type Run struct {
	sim     *Sim
	Actor   string
	Plan    map[int]Fault
	N       int // API calls issued so far
	Crashed bool
	Calls   []string // verb+key of each call, for evidence and debugging
	// FirstWrite is the index of the first mutating call (-1 if none).
	FirstWrite int
}

// NewRun starts a run. plan maps call index (0-based) to a fault; nil means fault-free.
func (s *Sim) NewRun(actor string, plan map[int]Fault) *Run {
	return &Run{sim: s, Actor: actor, Plan: plan, FirstWrite: -1}
}

// LagHideNew is a lag value for StaleClient, see there.
const LagHideNew = -1

// Client returns a client bound to this run that reads live state.
func (r *Run) Client() *Client { return &Client{sim: r.sim, run: r} }

// StaleClient returns a client whose reads of the objects selected by lag
// return older versions (writes always hit the live store).
//
// A lag of LagHideNew hides an object that has been written exactly once (it was
// only just created and the cache has not seen it yet) and shows every other
// object as it is now.
func (r *Run) StaleClient(lag func(k Key) int) *Client { return &Client{sim: r.sim, run: r, lag: lag} }

// Client returns a fault-free client for the given actor.
func (s *Sim) Client(actor string) *Client { return s.NewRun(actor, nil).Client() }

func (r *Run) injectedErr(f Fault, gvk schema.GroupVersionKind, name string) error {
	switch f.Err {
	case "conflict":
		return kerrors.NewConflict(gr(gvk), name, fmt.Errorf("verifsim: injected conflict"))
	case "timeout":
		return kerrors.NewTimeoutError("verifsim: injected timeout", 1)
	case "nomatch":
		// what a client's REST mapper returns while discovery has not (yet, or any more) seen the kind
		return &kmeta.NoKindMatchError{GroupKind: gvk.GroupKind(), SearchedVersions: []string{gvk.Version}}
	default:
		return kerrors.NewInternalError(fmt.Errorf("verifsim: injected server error"))
	}
}

// begin is called (under the store lock) at the start of every API call. It returns
// (errBefore, after): if errBefore != nil the call must have no effect; if after != nil the
// call takes effect and then reports after.
func (r *Run) begin(verb string, write bool, gvk schema.GroupVersionKind, key Key) (error, error) {
	idx := r.N
	r.N++
	r.Calls = append(r.Calls, verb+" "+key.String())
	if r.Crashed {
		return ErrCrashed, nil
	}
	if write && r.FirstWrite < 0 {
		r.FirstWrite = idx
	}
	f, ok := r.Plan[idx]
	if !ok || f.Kind == NoFault {
		return nil, nil
	}
	switch f.Kind {
	case ErrBefore:
		return r.injectedErr(f, gvk, key.Name), nil
	case ErrAfter:
		return nil, r.injectedErr(f, gvk, key.Name)
	case CrashBefore:
		r.Crashed = true
		return ErrCrashed, nil
	case CrashAfter:
		r.Crashed = true
		return nil, ErrCrashed
	}
	return nil, nil
}

// Client implements client.Client against the simulated API server.
type Client struct {
	sim *Sim
	run *Run
	lag func(k Key) int
	sub string
}

var _ client.Client = &Client{}

// Run returns the run this client belongs to.
func (c *Client) Run() *Run { return c.run }

func (c *Client) gvkFor(obj runtime.Object) (schema.GroupVersionKind, error) {
	if u, ok := obj.(runtime.Unstructured); ok {
		gvk := u.GetObjectKind().GroupVersionKind()
		if gvk.Kind == "" {
			return gvk, fmt.Errorf("verifsim: unstructured object has no kind")
		}
		return gvk, nil
	}
	return apiutil.GVKForObject(obj, c.sim.Scheme)
}

func toObj(obj runtime.Object, gvk schema.GroupVersionKind) (Obj, error) {
	o, err := normalize(obj)
	if err != nil {
		return nil, err
	}
	o["apiVersion"] = gvk.GroupVersion().String()
	o["kind"] = gvk.Kind
	return o, nil
}

func fromObj(o Obj, gvk schema.GroupVersionKind, into runtime.Object) error {
	c := DeepCopy(o)
	c["apiVersion"] = gvk.GroupVersion().String()
	c["kind"] = gvk.Kind
	if u, ok := into.(runtime.Unstructured); ok {
		u.SetUnstructuredContent(c)
		return nil
	}
	// Reset the target so that absent fields do not keep stale values.
	zeroInto(into)
	return runtime.DefaultUnstructuredConverter.FromUnstructured(c, into)
}

func zeroInto(into runtime.Object) {
	defer func() { _ = recover() }()
	v := reflectValue(into)
	if v.IsValid() && v.CanSet() {
		v.Set(reflectZero(v))
	}
}

func keyFor(gvk schema.GroupVersionKind, ns, name string) Key {
	return Key{Group: gvk.Group, Kind: gvk.Kind, Namespace: ns, Name: name}
}

// Get implements client.Reader.
func (c *Client) Get(_ context.Context, key client.ObjectKey, obj client.Object, _ ...client.GetOption) error {
	gvk, err := c.gvkFor(obj)
	if err != nil {
		return err
	}
	k := keyFor(gvk, key.Namespace, key.Name)
	s := c.sim
	s.mu.Lock()
	defer s.mu.Unlock()
	eb, ea := c.run.begin("get", false, gvk, k)
	if eb != nil {
		return eb
	}
	if err := s.checkServed(gvk); err != nil {
		return err
	}
	var o Obj
	if e := s.objs[k]; e != nil {
		o = e.cur()
		if c.lag != nil {
			if n := c.lag(k); n == LagHideNew {
				if len(e.versions) == 1 {
					o = nil
				}
			} else if n > 0 {
				i := len(e.versions) - 1 - n
				if i < 0 {
					o = nil
				} else {
					o = e.versions[i]
				}
			}
		}
	}
	if s.LogReads {
		s.readLog = append(s.readLog, Read{Seq: s.seq, Actor: c.run.Actor, Key: k, RV: MetaString(o, "resourceVersion"), Found: o != nil})
	}
	if o == nil {
		return kerrors.NewNotFound(gr(gvk), key.Name)
	}
	if err := fromObj(o, gvk, obj); err != nil {
		return err
	}
	return ea
}

// List implements client.Reader.
func (c *Client) List(_ context.Context, list client.ObjectList, opts ...client.ListOption) error {
	lo := client.ListOptions{}
	lo.ApplyOptions(opts)
	lgvk, err := c.gvkFor(list)
	if err != nil {
		return err
	}
	gvk := lgvk
	gvk.Kind = strings.TrimSuffix(gvk.Kind, "List")
	s := c.sim
	s.mu.Lock()
	defer s.mu.Unlock()
	eb, ea := c.run.begin("list", false, gvk, Key{Group: gvk.Group, Kind: gvk.Kind, Namespace: lo.Namespace})
	if eb != nil {
		return eb
	}
	if err := s.checkServed(gvk); err != nil {
		return err
	}
	var sel labels.Selector
	if lo.LabelSelector != nil {
		sel = lo.LabelSelector
	}
	var reqs fields.Requirements
	if lo.FieldSelector != nil {
		reqs = lo.FieldSelector.Requirements()
	}
	v := &View{s}
	var items []runtime.Object
	for _, k := range v.List(gvk.GroupKind()) {
		if lo.Namespace != "" && k.Namespace != lo.Namespace {
			continue
		}
		e := s.objs[k]
		o := e.cur()
		if c.lag != nil {
			if n := c.lag(k); n == LagHideNew {
				if len(e.versions) == 1 {
					o = nil
				}
			} else if n > 0 {
				i := len(e.versions) - 1 - n
				if i < 0 {
					o = nil
				} else {
					o = e.versions[i]
				}
			}
		}
		if o == nil {
			continue
		}
		if sel != nil && !sel.Matches(labels.Set(Labels(o))) {
			continue
		}
		ok := true
		for _, r := range reqs {
			fn := s.indexes[gvk.GroupKind()][r.Field]
			if fn == nil {
				switch r.Field {
				case "metadata.name":
					ok = ok && k.Name == r.Value
					continue
				case "metadata.namespace":
					ok = ok && k.Namespace == r.Value
					continue
				}
				return fmt.Errorf("verifsim: List with field selector %q on %v but no index is registered", r.Field, gvk.GroupKind())
			}
			u := &unstructured.Unstructured{Object: DeepCopy(o)}
			u.SetAPIVersion(gvk.GroupVersion().String())
			var io client.Object = u
			if t, err := s.Scheme.New(gvk); err == nil {
				if co, isCO := t.(client.Object); isCO {
					if fromObj(o, gvk, co) == nil {
						io = co
					}
				}
			}
			found := false
			for _, val := range fn(io) {
				if val == r.Value {
					found = true
				}
			}
			ok = ok && found
		}
		if !ok {
			continue
		}
		var item runtime.Object
		if _, isU := list.(*unstructured.UnstructuredList); isU {
			u := &unstructured.Unstructured{}
			if err := fromObj(o, gvk, u); err != nil {
				return err
			}
			item = u
		} else {
			t, err := s.Scheme.New(gvk)
			if err != nil {
				return err
			}
			if err := fromObj(o, gvk, t); err != nil {
				return err
			}
			item = t
		}
		items = append(items, item)
	}
	if ul, ok := list.(*unstructured.UnstructuredList); ok {
		ul.Items = nil
		for _, it := range items {
			ul.Items = append(ul.Items, *it.(*unstructured.Unstructured))
		}
		ul.SetResourceVersion(fmt.Sprint(s.rv))
		return ea
	}
	if err := meta.SetList(list, items); err != nil {
		return err
	}
	return ea
}

func (c *Client) manager(fo string) string {
	if fo != "" {
		return fo
	}
	return defaultManager
}

func dryRun(l []string) bool {
	for _, d := range l {
		if d == metav1.DryRunAll {
			return true
		}
	}
	return false
}

// Create implements client.Writer.
func (c *Client) Create(_ context.Context, obj client.Object, opts ...client.CreateOption) error {
	co := client.CreateOptions{}
	co.ApplyOptions(opts)
	gvk, err := c.gvkFor(obj)
	if err != nil {
		return err
	}
	o, err := toObj(obj, gvk)
	if err != nil {
		return err
	}
	s := c.sim
	s.mu.Lock()
	defer s.mu.Unlock()
	eb, ea := c.run.begin("create", true, gvk, keyFor(gvk, obj.GetNamespace(), obj.GetName()))
	if eb != nil {
		return eb
	}
	out, err := s.doCreate(gvk, o, reqOpts{actor: c.run.Actor, dryRun: dryRun(co.DryRun), manager: c.manager(co.FieldManager)}, "create")
	if err != nil {
		return err
	}
	if ea != nil {
		return ea
	}
	return fromObj(out, gvk, obj)
}

// Update implements client.Writer.
func (c *Client) Update(_ context.Context, obj client.Object, opts ...client.UpdateOption) error {
	uo := client.UpdateOptions{}
	uo.ApplyOptions(opts)
	return c.update(obj, dryRun(uo.DryRun), uo.FieldManager, c.sub)
}

func (c *Client) update(obj client.Object, dry bool, fm, sub string) error {
	gvk, err := c.gvkFor(obj)
	if err != nil {
		return err
	}
	o, err := toObj(obj, gvk)
	if err != nil {
		return err
	}
	s := c.sim
	s.mu.Lock()
	defer s.mu.Unlock()
	verb := "update"
	if sub != "" {
		verb = "update/" + sub
	}
	eb, ea := c.run.begin(verb, true, gvk, keyFor(gvk, obj.GetNamespace(), obj.GetName()))
	if eb != nil {
		return eb
	}
	if sub == "status" && !s.hasStatus(gvk.GroupKind()) {
		return kerrors.NewNotFound(gr(gvk), obj.GetName()+"/status")
	}
	out, err := s.doUpdate(gvk, o, reqOpts{actor: c.run.Actor, dryRun: dry, manager: c.manager(fm), sub: sub})
	if err != nil {
		return err
	}
	if ea != nil {
		return ea
	}
	return fromObj(out, gvk, obj)
}

// Patch implements client.Writer.
func (c *Client) Patch(_ context.Context, obj client.Object, p client.Patch, opts ...client.PatchOption) error {
	po := client.PatchOptions{}
	po.ApplyOptions(opts)
	force := po.Force != nil && *po.Force
	return c.patch(obj, p, dryRun(po.DryRun), po.FieldManager, force, c.sub)
}

func (c *Client) patch(obj client.Object, p client.Patch, dry bool, fm string, force bool, sub string) error {
	gvk, err := c.gvkFor(obj)
	if err != nil {
		return err
	}
	data, err := p.Data(obj)
	if err != nil {
		return err
	}
	s := c.sim
	s.mu.Lock()
	defer s.mu.Unlock()
	k := keyFor(gvk, obj.GetNamespace(), obj.GetName())
	verb := "patch:" + string(p.Type())
	if sub != "" {
		verb += "/" + sub
	}
	eb, ea := c.run.begin(verb, true, gvk, k)
	if eb != nil {
		return eb
	}
	if sub == "status" && !s.hasStatus(gvk.GroupKind()) {
		return kerrors.NewNotFound(gr(gvk), obj.GetName()+"/status")
	}
	mgr := fm
	if p.Type() != "application/apply-patch+yaml" {
		mgr = c.manager(fm)
	}
	out, err := s.doPatch(gvk, k, p.Type(), data, reqOpts{actor: c.run.Actor, dryRun: dry, manager: mgr, force: force, sub: sub})
	if err != nil {
		return err
	}
	if ea != nil {
		return ea
	}
	return fromObj(out, gvk, obj)
}

// Delete implements client.Writer.
func (c *Client) Delete(_ context.Context, obj client.Object, opts ...client.DeleteOption) error {
	do := client.DeleteOptions{}
	do.ApplyOptions(opts)
	gvk, err := c.gvkFor(obj)
	if err != nil {
		return err
	}
	s := c.sim
	s.mu.Lock()
	defer s.mu.Unlock()
	k := keyFor(gvk, obj.GetNamespace(), obj.GetName())
	eb, ea := c.run.begin("delete", true, gvk, k)
	if eb != nil {
		return eb
	}
	d := delOpts{}
	if do.Preconditions != nil {
		if do.Preconditions.UID != nil {
			d.uid = string(*do.Preconditions.UID)
		}
		if do.Preconditions.ResourceVersion != nil {
			d.rv = *do.Preconditions.ResourceVersion
		}
	}
	if do.PropagationPolicy != nil {
		d.propagation = *do.PropagationPolicy
	}
	if err := s.doDelete(gvk, k, d, reqOpts{actor: c.run.Actor, dryRun: dryRun(do.DryRun)}); err != nil {
		return err
	}
	return ea
}

// DeleteAllOf implements client.Writer.
func (c *Client) DeleteAllOf(_ context.Context, obj client.Object, opts ...client.DeleteAllOfOption) error {
	dao := client.DeleteAllOfOptions{}
	dao.ApplyOptions(opts)
	gvk, err := c.gvkFor(obj)
	if err != nil {
		return err
	}
	s := c.sim
	s.mu.Lock()
	defer s.mu.Unlock()
	eb, ea := c.run.begin("deleteallof", true, gvk, Key{Group: gvk.Group, Kind: gvk.Kind, Namespace: dao.Namespace})
	if eb != nil {
		return eb
	}
	if err := s.checkServed(gvk); err != nil {
		return err
	}
	d := delOpts{}
	if dao.PropagationPolicy != nil {
		d.propagation = *dao.PropagationPolicy
	}
	for _, k := range (&View{s}).List(gvk.GroupKind()) {
		if dao.Namespace != "" && k.Namespace != dao.Namespace {
			continue
		}
		o := s.objs[k].cur()
		if dao.LabelSelector != nil && !dao.LabelSelector.Matches(labels.Set(Labels(o))) {
			continue
		}
		if err := s.doDelete(gvk, k, d, reqOpts{actor: c.run.Actor, dryRun: dryRun(dao.DryRun)}); err != nil && !kerrors.IsNotFound(err) {
			return err
		}
	}
	return ea
}

// Status implements client.StatusClient.
func (c *Client) Status() client.SubResourceWriter { return c.SubResource("status") }

// SubResource implements client.SubResourceClientConstructor.
func (c *Client) SubResource(sub string) client.SubResourceClient {
	return &subClient{c: c, sub: sub}
}

// Scheme implements client.Client.
func (c *Client) Scheme() *runtime.Scheme { return c.sim.Scheme }

// RESTMapper implements client.Client.
func (c *Client) RESTMapper() meta.RESTMapper { return restMapper{c.sim} }

// GroupVersionKindFor implements client.Client.
func (c *Client) GroupVersionKindFor(obj runtime.Object) (schema.GroupVersionKind, error) {
	return c.gvkFor(obj)
}

// IsObjectNamespaced implements client.Client.
func (c *Client) IsObjectNamespaced(obj runtime.Object) (bool, error) {
	gvk, err := c.gvkFor(obj)
	if err != nil {
		return false, err
	}
	if c.sim.ClusterScoped != nil {
		return !c.sim.ClusterScoped(gvk.GroupKind()), nil
	}
	if a, err := meta.Accessor(obj); err == nil {
		return a.GetNamespace() != "", nil
	}
	return false, nil
}

type subClient struct {
	c   *Client
	sub string
}

func (sc *subClient) Get(_ context.Context, _ client.Object, _ client.Object, _ ...client.SubResourceGetOption) error {
	return fmt.Errorf("VERIF-INCONCLUSIVE: verifsim does not support subresource get")
}

func (sc *subClient) Create(_ context.Context, _ client.Object, _ client.Object, _ ...client.SubResourceCreateOption) error {
	return fmt.Errorf("VERIF-INCONCLUSIVE: verifsim does not support subresource create")
}

func (sc *subClient) Update(_ context.Context, obj client.Object, opts ...client.SubResourceUpdateOption) error {
	uo := client.SubResourceUpdateOptions{}
	uo.ApplyOptions(opts)
	return sc.c.update(obj, dryRun(uo.DryRun), uo.FieldManager, sc.sub)
}

func (sc *subClient) Patch(_ context.Context, obj client.Object, p client.Patch, opts ...client.SubResourcePatchOption) error {
	po := client.SubResourcePatchOptions{}
	po.ApplyOptions(opts)
	force := po.Force != nil && *po.Force
	return sc.c.patch(obj, p, dryRun(po.DryRun), po.FieldManager, force, sc.sub)
}

type restMapper struct{ s *Sim }

func (m restMapper) KindFor(r schema.GroupVersionResource) (schema.GroupVersionKind, error) {
	return schema.GroupVersionKind{}, fmt.Errorf("verifsim: KindFor(%v) not supported", r)
}

func (m restMapper) KindsFor(r schema.GroupVersionResource) ([]schema.GroupVersionKind, error) {
	return nil, fmt.Errorf("verifsim: KindsFor(%v) not supported", r)
}

func (m restMapper) ResourceFor(r schema.GroupVersionResource) (schema.GroupVersionResource, error) {
	return r, nil
}

func (m restMapper) ResourcesFor(r schema.GroupVersionResource) ([]schema.GroupVersionResource, error) {
	return []schema.GroupVersionResource{r}, nil
}

func (m restMapper) RESTMapping(gk schema.GroupKind, versions ...string) (*meta.RESTMapping, error) {
	v := "v1"
	if len(versions) > 0 {
		v = versions[0]
	}
	var scope meta.RESTScope = meta.RESTScopeNamespace
	if m.s.ClusterScoped != nil && m.s.ClusterScoped(gk) {
		scope = meta.RESTScopeRoot
	}
	return &meta.RESTMapping{
		Resource:         schema.GroupVersionResource{Group: gk.Group, Version: v, Resource: strings.ToLower(gk.Kind) + "s"},
		GroupVersionKind: gk.WithVersion(v),
		Scope:            scope,
	}, nil
}

func (m restMapper) RESTMappings(gk schema.GroupKind, versions ...string) ([]*meta.RESTMapping, error) {
	rm, err := m.RESTMapping(gk, versions...)
	return []*meta.RESTMapping{rm}, err
}

func (m restMapper) ResourceSingularizer(resource string) (string, error) {
	return strings.TrimSuffix(resource, "s"), nil
}
