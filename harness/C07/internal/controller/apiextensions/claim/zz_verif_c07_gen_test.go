//go:build verif

package claim

// Generators for property C07: an XRD-like schema with nested user fields whose
// names may equal machinery names at other nesting levels, claims that are valid
// instances of the real generated claim CRD (pruned and defaulted the way the
// API server does), XRs that are valid instances of the generated XR CRD, a
// label/annotation key grammar, and the evolution steps between syncs.

import (
	"encoding/json"
	"fmt"
	"sort"
	"strings"

	"k8s.io/apiextensions-apiserver/pkg/apis/apiextensions"
	extv1 "k8s.io/apiextensions-apiserver/pkg/apis/apiextensions/v1"
	structuralschema "k8s.io/apiextensions-apiserver/pkg/apiserver/schema"
	"k8s.io/apiextensions-apiserver/pkg/apiserver/schema/defaulting"
	"k8s.io/apiextensions-apiserver/pkg/apiserver/schema/pruning"
	apiservervalidation "k8s.io/apiextensions-apiserver/pkg/apiserver/validation"
	metav1 "k8s.io/apimachinery/pkg/apis/meta/v1"
	"k8s.io/apimachinery/pkg/runtime"
	"pgregory.net/rapid"

	xpv1 "github.com/crossplane/crossplane-runtime/apis/common/v1"

	v1 "github.com/crossplane/crossplane/apis/apiextensions/v1"
	"github.com/crossplane/crossplane/internal/xcrd"
)

const (
	c07Group     = "example.org"
	c07Version   = "v1"
	c07APIV      = c07Group + "/" + c07Version
	c07ClaimKind = "Thing"
	c07XRKind    = "XThing"
	c07NS        = "ns1"
)

// Names a user may give to fields. Machinery names are allowed wherever they
// are not machinery: spec-machinery names below depth 1 of spec and anywhere in
// status, status-machinery names anywhere in spec and below depth 1 of status.
var (
	c07Ordinary      = []string{"parameters", "foo", "size", "region", "nested", "values", "tags", "x"}
	c07SpecMachNames = []string{
		"resourceRef", "resourceRefs", "claimRef", "compositionRef", "compositionRevisionRef", "compositionSelector",
		"compositionRevisionSelector", "compositionUpdatePolicy", "compositeDeletePolicy", "writeConnectionSecretToRef",
		"publishConnectionDetailsTo",
	}
	c07StatusMachNames = []string{"conditions", "connectionDetails", "claimConditionTypes"}
)

func c07IsMachName(n string) bool {
	for _, m := range c07SpecMachNames {
		if m == n {
			return true
		}
	}
	for _, m := range c07StatusMachNames {
		if m == n {
			return true
		}
	}
	return false
}

// A c07Node is one node of the user part of an XRD schema.
type c07Node struct {
	T        string // string | integer | boolean | object | array | map
	Props    map[string]*c07Node
	Items    *c07Node
	Preserve bool
}

func c07PropNames(n *c07Node) []string {
	out := make([]string, 0, len(n.Props))
	for k := range n.Props {
		out = append(out, k)
	}
	sort.Strings(out)
	return out
}

// c07GenObject draws an object node. top is "spec" or "status" for the direct
// children of spec/status and "" below.
func c07GenObject(t *rapid.T, depth int, top string) *c07Node {
	n := &c07Node{T: "object", Props: map[string]*c07Node{}}
	var pool []string
	switch top {
	case "spec":
		pool = append(append([]string{}, c07Ordinary...), c07StatusMachNames...)
	case "status":
		pool = append(append([]string{}, c07Ordinary...), c07SpecMachNames...)
	default:
		// Below the top level machinery names are over-represented on purpose.
		pool = append(append(append([]string{}, c07Ordinary[:4]...), c07SpecMachNames...), c07StatusMachNames...)
	}
	cnt := rapid.IntRange(1, 4).Draw(t, "nprops")
	for i := 0; i < cnt; i++ {
		name := rapid.SampledFrom(pool).Draw(t, "prop")
		if _, dup := n.Props[name]; dup {
			continue
		}
		n.Props[name] = c07GenNode(t, depth-1)
	}
	if top == "" && rapid.IntRange(0, 5).Draw(t, "preserve") == 0 {
		n.Preserve = true
	}
	return n
}

func c07GenNode(t *rapid.T, depth int) *c07Node {
	max := 7
	if depth <= 0 {
		max = 3
	}
	switch rapid.IntRange(0, max).Draw(t, "type") {
	case 0:
		return &c07Node{T: "string"}
	case 1:
		return &c07Node{T: "integer"}
	case 2:
		return &c07Node{T: "boolean"}
	case 3:
		return &c07Node{T: "map"}
	case 4:
		if rapid.Bool().Draw(t, "objitems") {
			return &c07Node{T: "array", Items: c07GenObject(t, depth-1, "")}
		}
		return &c07Node{T: "array", Items: &c07Node{T: "string"}}
	default:
		return c07GenObject(t, depth, "")
	}
}

func c07Schema(n *c07Node) extv1.JSONSchemaProps {
	switch n.T {
	case "object":
		p := extv1.JSONSchemaProps{Type: "object", Properties: map[string]extv1.JSONSchemaProps{}}
		for k, c := range n.Props {
			p.Properties[k] = c07Schema(c)
		}
		if n.Preserve {
			tr := true
			p.XPreserveUnknownFields = &tr
		}
		return p
	case "array":
		s := c07Schema(n.Items)
		return extv1.JSONSchemaProps{Type: "array", Items: &extv1.JSONSchemaPropsOrArray{Schema: &s}}
	case "map":
		return extv1.JSONSchemaProps{Type: "object", AdditionalProperties: &extv1.JSONSchemaPropsOrBool{Allows: true, Schema: &extv1.JSONSchemaProps{Type: "string"}}}
	default:
		return extv1.JSONSchemaProps{Type: n.T}
	}
}

// c07Any draws an arbitrary JSON value without nulls (for preserve-unknown objects).
func c07Any(t *rapid.T, depth int) any {
	max := 4
	if depth <= 0 {
		max = 2
	}
	switch rapid.IntRange(0, max).Draw(t, "anyshape") {
	case 0:
		return rapid.SampledFrom([]string{"", "a", "v1", "from-any"}).Draw(t, "anystr")
	case 1:
		return rapid.SampledFrom([]int64{0, 1, 7}).Draw(t, "anyint")
	case 2:
		return rapid.Bool().Draw(t, "anybool")
	case 3:
		m := map[string]any{}
		for i, c := 0, rapid.IntRange(0, 3).Draw(t, "anyn"); i < c; i++ {
			m[rapid.SampledFrom(append(append([]string{"a", "b"}, c07SpecMachNames...), c07StatusMachNames...)).Draw(t, "anykey")] = c07Any(t, depth-1)
		}
		return m
	default:
		l := []any{}
		for i, c := 0, rapid.IntRange(0, 2).Draw(t, "anyl"); i < c; i++ {
			l = append(l, c07Any(t, depth-1))
		}
		return l
	}
}

// c07Instance draws a valid instance of a node. tag makes string values
// recognisable ("c" for claim, "x" for XR) so that a leak can be attributed.
func c07Instance(t *rapid.T, n *c07Node, tag string) any {
	switch n.T {
	case "string":
		return rapid.SampledFrom([]string{"", "a", "b", tag + "-val", tag + "-other"}).Draw(t, "str")
	case "integer":
		return rapid.SampledFrom([]int64{0, 1, -1, 42}).Draw(t, "int")
	case "boolean":
		return rapid.Bool().Draw(t, "bool")
	case "map":
		m := map[string]any{}
		for i, c := 0, rapid.IntRange(0, 3).Draw(t, "mapn"); i < c; i++ {
			k := rapid.SampledFrom([]string{"a", "b", "resourceRef", "conditions", "claimRef", "k8s.io"}).Draw(t, "mapkey")
			m[k] = rapid.SampledFrom([]string{"", "1", tag + "-mv"}).Draw(t, "mapval")
		}
		return m
	case "array":
		l := []any{}
		for i, c := 0, rapid.IntRange(0, 3).Draw(t, "arrn"); i < c; i++ {
			l = append(l, c07Instance(t, n.Items, tag))
		}
		return l
	default:
		m := map[string]any{}
		for _, k := range c07PropNames(n) {
			if rapid.IntRange(0, 9).Draw(t, "has") < 7 {
				m[k] = c07Instance(t, n.Props[k], tag)
			}
		}
		if n.Preserve {
			for i, c := 0, rapid.IntRange(0, 2).Draw(t, "extran"); i < c; i++ {
				k := rapid.SampledFrom([]string{"extra", "resourceRef", "conditions", "compositionRef", "claimRef"}).Draw(t, "extrakey")
				if _, ok := n.Props[k]; ok {
					continue
				}
				m[k] = c07Any(t, 2)
			}
		}
		return m
	}
}

// c07AddJunk inserts fields the schema does not know into non-preserving
// objects. The API server prunes them; it returns how many it added.
// Top-level spec names the claim CRD knows (not junk there).
var xcrdClaimNames = map[string]bool{
	"resourceRef": true, "compositeDeletePolicy": true, "writeConnectionSecretToRef": true, "publishConnectionDetailsTo": true,
	"compositionRef": true, "compositionSelector": true, "compositionRevisionRef": true, "compositionRevisionSelector": true, "compositionUpdatePolicy": true,
}

func c07AddJunk(t *rapid.T, v any, n *c07Node, top bool) int {
	added := 0
	switch n.T {
	case "object":
		m, ok := v.(map[string]any)
		if !ok {
			return 0
		}
		for _, k := range c07PropNames(n) {
			if c, ok := m[k]; ok {
				added += c07AddJunk(t, c, n.Props[k], false)
			}
		}
		if !n.Preserve && rapid.IntRange(0, 3).Draw(t, "junk") == 0 {
			k := rapid.SampledFrom([]string{"junk", "resourceRef", "resourceRefs", "claimRef", "conditions", "compositeDeletePolicy"}).Draw(t, "junkkey")
			_, claimMach := xcrdClaimNames[k]
			if _, known := n.Props[k]; !known && !(top && claimMach) {
				if _, has := m[k]; !has {
					m[k] = c07Any(t, 1)
					added++
				}
			}
		}
	case "array":
		if l, ok := v.([]any); ok {
			for _, e := range l {
				added += c07AddJunk(t, e, n.Items, false)
			}
		}
	}
	return added
}

// c07Collisions counts keys at depth >= 2 below spec/status (i.e. below a
// top-level user field) whose name equals a machinery name.
func c07Collisions(v any, depth int) int {
	c := 0
	switch x := v.(type) {
	case map[string]any:
		for k, e := range x {
			if depth >= 2 && c07IsMachName(k) {
				c++
			}
			c += c07Collisions(e, depth+1)
		}
	case []any:
		for _, e := range x {
			c += c07Collisions(e, depth)
		}
	}
	return c
}

// ---------------------------------------------------------------------------
// The real generated CRDs

type c07World struct {
	spec, status *c07Node
	claimSS      *structuralschema.Structural
	xrSS         *structuralschema.Structural
	claimVal     apiservervalidation.SchemaValidator
	xrVal        apiservervalidation.SchemaValidator
}

func c07Structural(crd *extv1.CustomResourceDefinition) (*structuralschema.Structural, apiservervalidation.SchemaValidator, error) {
	in := &apiextensions.JSONSchemaProps{}
	if err := extv1.Convert_v1_JSONSchemaProps_To_apiextensions_JSONSchemaProps(crd.Spec.Versions[0].Schema.OpenAPIV3Schema.DeepCopy(), in, nil); err != nil {
		return nil, nil, err
	}
	ss, err := structuralschema.NewStructural(in)
	if err != nil {
		return nil, nil, err
	}
	val, _, err := apiservervalidation.NewSchemaValidator(in)
	if err != nil {
		return nil, nil, err
	}
	return ss, val, nil
}

// c07NewWorld builds the XRD from the user schema and derives both CRDs with
// the real xcrd code.
func c07NewWorld(spec, status *c07Node, defaultDelete, defaultUpdate string) (*c07World, error) {
	root := extv1.JSONSchemaProps{Type: "object", Properties: map[string]extv1.JSONSchemaProps{
		"spec":   c07Schema(spec),
		"status": c07Schema(status),
	}}
	raw, err := json.Marshal(root)
	if err != nil {
		return nil, err
	}
	xrd := &v1.CompositeResourceDefinition{
		ObjectMeta: metav1.ObjectMeta{Name: "xthings." + c07Group},
		Spec: v1.CompositeResourceDefinitionSpec{
			Group:      c07Group,
			Names:      extv1.CustomResourceDefinitionNames{Kind: c07XRKind, Plural: "xthings", Singular: "xthing", ListKind: "XThingList"},
			ClaimNames: &extv1.CustomResourceDefinitionNames{Kind: c07ClaimKind, Plural: "things", Singular: "thing", ListKind: "ThingList"},
			Versions: []v1.CompositeResourceDefinitionVersion{{
				Name: c07Version, Served: true, Referenceable: true,
				Schema: &v1.CompositeResourceValidation{OpenAPIV3Schema: runtime.RawExtension{Raw: raw}},
			}},
		},
	}
	if defaultDelete != "" {
		p := xpv1.CompositeDeletePolicy(defaultDelete)
		xrd.Spec.DefaultCompositeDeletePolicy = &p
	}
	if defaultUpdate != "" {
		p := xpv1.UpdatePolicy(defaultUpdate)
		xrd.Spec.DefaultCompositionUpdatePolicy = &p
	}
	ccrd, err := xcrd.ForCompositeResourceClaim(xrd)
	if err != nil {
		return nil, fmt.Errorf("ForCompositeResourceClaim: %w", err)
	}
	xcrdObj, err := xcrd.ForCompositeResource(xrd)
	if err != nil {
		return nil, fmt.Errorf("ForCompositeResource: %w", err)
	}
	w := &c07World{spec: spec, status: status}
	if w.claimSS, w.claimVal, err = c07Structural(ccrd); err != nil {
		return nil, fmt.Errorf("claim CRD is not structural: %w", err)
	}
	if w.xrSS, w.xrVal, err = c07Structural(xcrdObj); err != nil {
		return nil, fmt.Errorf("XR CRD is not structural: %w", err)
	}
	return w, nil
}

// c07Admit does to obj what the API server does to a custom resource on its way
// in: prune unknown fields, apply defaults, validate. It returns the validation
// errors (empty for a valid instance).
func c07Admit(obj map[string]any, ss *structuralschema.Structural, val apiservervalidation.SchemaValidator) []string {
	pruning.Prune(obj, ss, true)
	defaulting.Default(obj, ss)
	var out []string
	for _, e := range apiservervalidation.ValidateCustomResource(nil, obj, val) {
		out = append(out, e.Error())
	}
	return out
}

// ---------------------------------------------------------------------------
// Label / annotation keys

var (
	c07ReservedPrefixes  = []string{"kubernetes.io", "k8s.io", "x.kubernetes.io", "kubectl.kubernetes.io", "app.kubernetes.io", "x.k8s.io", "node.k8s.io", "a.b.k8s.io"}
	c07LookalikePrefixes = []string{"notkubernetes.io", "mykubernetes.io", "notk8s.io", "xk8s.io", "kubernetes.io.example.com", "k8s.io.example.org", "my-k8s.io", "kubernetes.iox"}
	c07OrdinaryPrefixes  = []string{"example.org", "acme.co", "crossplane.io", "kubernetes.com"}
	c07BareNames         = []string{"k8s.io", "kubernetes.io", "x.k8s.io", "notkubernetes.io", "app", "tier", "team"}
	c07KeyNames          = []string{"x", "name", "role", "last-applied-configuration", "managed-by", "k8s.io", "kubernetes.io"}
)

// c07Key draws a label/annotation key and its class.
func c07Key(t *rapid.T) (string, string) {
	switch rapid.IntRange(0, 3).Draw(t, "keyclass") {
	case 0:
		return rapid.SampledFrom(c07ReservedPrefixes).Draw(t, "rp") + "/" + rapid.SampledFrom(c07KeyNames).Draw(t, "kn"), "reserved"
	case 1:
		return rapid.SampledFrom(c07LookalikePrefixes).Draw(t, "lp") + "/" + rapid.SampledFrom(c07KeyNames).Draw(t, "kn"), "lookalike"
	case 2:
		return rapid.SampledFrom(c07BareNames).Draw(t, "bn"), "bare"
	default:
		return rapid.SampledFrom(c07OrdinaryPrefixes).Draw(t, "op") + "/" + rapid.SampledFrom(c07KeyNames).Draw(t, "kn"), "ordinary"
	}
}

// Keys the syncer (or the reconciler around it) gives a meaning of their own;
// they are set explicitly by the scenario, never by the random key grammar.
func c07SpecialKey(k string) bool {
	return strings.HasPrefix(k, "crossplane.io/claim-") || k == "crossplane.io/external-name" || k == "crossplane.io/paused" || k == "crossplane.io/composite"
}

func c07KeyMap(t *rapid.T, tag string, classes map[string]int) map[string]any {
	m := map[string]any{}
	for i, c := 0, rapid.IntRange(0, 4).Draw(t, "nkeys"); i < c; i++ {
		k, class := c07Key(t)
		if c07SpecialKey(k) {
			continue
		}
		m[k] = tag + "-" + rapid.SampledFrom([]string{"1", "2"}).Draw(t, "kv")
		if classes != nil {
			classes[class]++
		}
	}
	return m
}

// ---------------------------------------------------------------------------
// Objects

func c07LabelSel(t *rapid.T, tag string) map[string]any {
	m := map[string]any{}
	for i, c := 0, rapid.IntRange(1, 2).Draw(t, "seln"); i < c; i++ { // never empty: see note on SMD nulls in the test file
		m[rapid.SampledFrom([]string{"env", "tier", "resourceRef"}).Draw(t, "selk")] = tag + rapid.SampledFrom([]string{"-a", "-b"}).Draw(t, "selv")
	}
	return map[string]any{"matchLabels": m}
}

func c07Policy(t *rapid.T, label string) string {
	return rapid.SampledFrom([]string{"", "Manual", "Automatic"}).Draw(t, label)
}

// c07ClaimMachinery draws every subset of the claim-side machinery fields
// (resourceRef is managed by the scenario).
func c07ClaimMachinery(t *rapid.T, spec map[string]any) {
	if rapid.Bool().Draw(t, "cm.compositionRef") {
		spec["compositionRef"] = map[string]any{"name": "claim-comp-" + rapid.SampledFrom([]string{"a", "b"}).Draw(t, "v")}
	}
	if rapid.Bool().Draw(t, "cm.compositionSelector") {
		spec["compositionSelector"] = c07LabelSel(t, "claim")
	}
	if rapid.Bool().Draw(t, "cm.compositionRevisionRef") {
		spec["compositionRevisionRef"] = map[string]any{"name": "claim-rev-" + rapid.SampledFrom([]string{"a", "b"}).Draw(t, "v")}
	}
	if rapid.Bool().Draw(t, "cm.compositionRevisionSelector") {
		spec["compositionRevisionSelector"] = c07LabelSel(t, "claim")
	}
	if p := c07Policy(t, "cm.policy"); p != "" {
		spec["compositionUpdatePolicy"] = p
	}
	if p := rapid.SampledFrom([]string{"", "Background", "Foreground"}).Draw(t, "cm.deletePolicy"); p != "" {
		spec["compositeDeletePolicy"] = p
	}
	if rapid.Bool().Draw(t, "cm.writeConnectionSecretToRef") {
		spec["writeConnectionSecretToRef"] = map[string]any{"name": "claim-secret-" + rapid.SampledFrom([]string{"a", "b"}).Draw(t, "v")}
	}
	if rapid.Bool().Draw(t, "cm.publishConnectionDetailsTo") {
		p := map[string]any{"name": "claim-pub-" + rapid.SampledFrom([]string{"a", "b"}).Draw(t, "v")}
		if rapid.Bool().Draw(t, "pubmeta") {
			p["metadata"] = map[string]any{"labels": map[string]any{"claim": "yes"}}
		}
		if rapid.Bool().Draw(t, "pubcfg") {
			p["configRef"] = map[string]any{"name": "claim-cfg"}
		}
		spec["publishConnectionDetailsTo"] = p
	}
}

// c07XRMachinery draws every subset of the XR-side machinery fields (claimRef
// is managed by the scenario).
func c07XRMachinery(t *rapid.T, spec map[string]any, gen int) {
	sfx := fmt.Sprintf("%d", gen)
	if rapid.Bool().Draw(t, "xr.compositionRef") {
		spec["compositionRef"] = map[string]any{"name": "xr-comp-" + sfx}
	}
	if rapid.Bool().Draw(t, "xr.compositionSelector") {
		spec["compositionSelector"] = c07LabelSel(t, "xr")
	}
	if rapid.Bool().Draw(t, "xr.compositionRevisionRef") {
		spec["compositionRevisionRef"] = map[string]any{"name": "xr-rev-" + sfx}
	}
	if rapid.Bool().Draw(t, "xr.compositionRevisionSelector") {
		spec["compositionRevisionSelector"] = c07LabelSel(t, "xr")
	}
	if p := c07Policy(t, "xr.policy"); p != "" {
		spec["compositionUpdatePolicy"] = p
	}
	if rapid.Bool().Draw(t, "xr.resourceRefs") {
		l := []any{}
		for i, c := 0, rapid.IntRange(0, 3).Draw(t, "nrefs"); i < c; i++ {
			l = append(l, map[string]any{"apiVersion": "nop.example.org/v1", "kind": "Composed", "name": fmt.Sprintf("composed-%s-%d", sfx, i)})
		}
		spec["resourceRefs"] = l
	}
	if rapid.Bool().Draw(t, "xr.writeConnectionSecretToRef") {
		spec["writeConnectionSecretToRef"] = map[string]any{"name": "xr-secret-" + sfx, "namespace": "crossplane-system"}
	}
	if rapid.Bool().Draw(t, "xr.publishConnectionDetailsTo") {
		spec["publishConnectionDetailsTo"] = map[string]any{"name": "xr-pub-" + sfx, "configRef": map[string]any{"name": "xr-cfg"}}
	}
}

func c07Conditions(t *rapid.T, tag string) []any {
	l := []any{}
	for _, ty := range []string{"Ready", "Synced", "Custom"} {
		if !rapid.Bool().Draw(t, "cond."+ty) {
			continue
		}
		c := map[string]any{
			"type": ty, "status": rapid.SampledFrom([]string{"True", "False"}).Draw(t, "condstatus"),
			"reason": tag + "Reason", "lastTransitionTime": "2024-01-0" + rapid.SampledFrom([]string{"1", "2"}).Draw(t, "ltt") + "T00:00:00Z",
		}
		if rapid.Bool().Draw(t, "condmsg") {
			c["message"] = tag + " message"
		}
		l = append(l, c)
	}
	return l
}

// c07Status draws user status plus every subset of status machinery.
func c07Status(t *rapid.T, w *c07World, tag string, xrSide bool) map[string]any {
	st, _ := c07Instance(t, w.status, tag).(map[string]any)
	if st == nil {
		st = map[string]any{}
	}
	if rapid.Bool().Draw(t, tag+".conditions") {
		st["conditions"] = c07Conditions(t, tag)
	}
	if rapid.Bool().Draw(t, tag+".connectionDetails") {
		when := "2024-02-01T00:00:00Z"
		if xrSide {
			when = "2024-03-01T00:00:00Z"
		}
		st["connectionDetails"] = map[string]any{"lastPublishedTime": when}
	}
	if xrSide && rapid.Bool().Draw(t, tag+".claimConditionTypes") {
		st["claimConditionTypes"] = []any{"Custom"}
	}
	return st
}
