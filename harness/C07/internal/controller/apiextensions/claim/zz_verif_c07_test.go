//go:build verif

package claim

// Property C07: claim and XR exchange exactly the fields each side owns.
//
// Both syncers' Sync (first sync and re-sync) run against the simulated API
// server the way Reconcile calls them; the claim and the XR in the store before
// and after the call are compared field by field with an independent partition
// table written from the property statement (c07SpecTable / c07StatusTable).

import (
	"context"
	"encoding/json"
	"fmt"
	"reflect"
	"sort"
	"strings"
	"testing"

	kerrors "k8s.io/apimachinery/pkg/api/errors"
	"k8s.io/apimachinery/pkg/runtime/schema"
	"k8s.io/apimachinery/pkg/types"
	utilrand "k8s.io/apimachinery/pkg/util/rand"
	"pgregory.net/rapid"

	"github.com/crossplane/crossplane-runtime/pkg/resource/unstructured/claim"
	"github.com/crossplane/crossplane-runtime/pkg/resource/unstructured/composite"

	"github.com/crossplane/crossplane/internal/names"
	"github.com/crossplane/crossplane/internal/verifkit"
	"github.com/crossplane/crossplane/internal/verifsim"
	"github.com/crossplane/crossplane/internal/xcrd"
)

const (
	c07Prop          = "C07"
	c07KeyLateInit   = "csa-late-init-spec"
	c07ExternalName  = "crossplane.io/external-name"
	c07LabelClaimNm  = "crossplane.io/claim-name"
	c07LabelClaimNS  = "crossplane.io/claim-namespace"
	c07ActorUser     = "user"
	c07ActorXR       = "apiextensions.crossplane.io/composite"
	c07ActorSteer    = "verif-steer"
	c07ActorClaimCtl = "crossplane"
)

// ---------------------------------------------------------------------------
// The partition table, written from the property statement.

type c07Class int

const (
	// c07ClaimOnly: claim-only machinery; never copied into the XR.
	c07ClaimOnly c07Class = iota
	// c07EachSide: both objects have a field of this name and each side owns its
	// own value (connection secret settings): the claim's never reaches the XR,
	// the XR's own is preserved and never reaches the claim.
	c07EachSide
	// c07XROwned: owned by the XR side; preserved on the XR, never on the claim.
	c07XROwned
	// c07Binding: the XR's reference to its claim, written by the syncer.
	c07Binding
	// c07Selection: composition selection; flows claim -> XR.
	c07Selection
	// c07SelectionBack: composition selection that additionally flows XR -> claim
	// when the claim has none (the selected composition reference).
	c07SelectionBack
	// c07ByPolicy: the composition revision; claim -> XR under Manual, XR -> claim
	// under Automatic.
	c07ByPolicy
)

type c07Row struct {
	class   c07Class
	onClaim bool
	onXR    bool
}

var c07SpecTable = map[string]c07Row{
	"resourceRef":                 {c07ClaimOnly, true, false},
	"compositeDeletePolicy":       {c07ClaimOnly, true, false},
	"writeConnectionSecretToRef":  {c07EachSide, true, true},
	"publishConnectionDetailsTo":  {c07EachSide, true, true},
	"resourceRefs":                {c07XROwned, false, true},
	"claimRef":                    {c07Binding, false, true},
	"compositionRef":              {c07SelectionBack, true, true},
	"compositionSelector":         {c07Selection, true, true},
	"compositionRevisionSelector": {c07Selection, true, true},
	"compositionUpdatePolicy":     {c07Selection, true, true},
	"compositionRevisionRef":      {c07ByPolicy, true, true},
}

// Status machinery: belongs to each object's own controller and is never
// copied from the XR into the claim.
var c07StatusTable = map[string]bool{"conditions": true, "connectionDetails": true, "claimConditionTypes": true}

func c07SortedKeys[V any](m map[string]V) []string {
	out := make([]string, 0, len(m))
	for k := range m {
		out = append(out, k)
	}
	sort.Strings(out)
	return out
}

// c07TableDisagreements cross-checks the table with xcrd's field tables so that
// an edit to schemas.go shows up here instead of silently moving the oracle
// (the syncers filter by those tables, and so would an oracle derived from them).
func c07TableDisagreements() []string {
	var out []string
	var wantClaim, wantXR, wantProp []string
	for k, r := range c07SpecTable {
		if r.onClaim {
			wantClaim = append(wantClaim, k)
		}
		if r.onXR {
			wantXR = append(wantXR, k)
		}
		if r.class == c07Selection || r.class == c07SelectionBack {
			wantProp = append(wantProp, k)
		}
	}
	sort.Strings(wantClaim)
	sort.Strings(wantXR)
	sort.Strings(wantProp)
	if got := c07SortedKeys(xcrd.CompositeResourceClaimSpecProps()); !reflect.DeepEqual(got, wantClaim) {
		out = append(out, fmt.Sprintf("claim spec machinery: xcrd.CompositeResourceClaimSpecProps() has %v, the property's partition has %v", got, wantClaim))
	}
	if got := c07SortedKeys(xcrd.CompositeResourceSpecProps()); !reflect.DeepEqual(got, wantXR) {
		out = append(out, fmt.Sprintf("XR spec machinery: xcrd.CompositeResourceSpecProps() has %v, the property's partition has %v", got, wantXR))
	}
	if got := c07SortedKeys(xcrd.CompositeResourceStatusProps()); !reflect.DeepEqual(got, c07SortedKeys(c07StatusTable)) {
		out = append(out, fmt.Sprintf("status machinery: xcrd.CompositeResourceStatusProps() has %v, the property's partition has %v", got, c07SortedKeys(c07StatusTable)))
	}
	gotProp := append([]string{}, xcrd.PropagateSpecProps...)
	sort.Strings(gotProp)
	if !reflect.DeepEqual(gotProp, wantProp) {
		out = append(out, fmt.Sprintf("claim->XR selection fields: xcrd.PropagateSpecProps is %v, the property's partition has %v", gotProp, wantProp))
	}
	if xcrd.CompositionRevisionRef != "compositionRevisionRef" {
		out = append(out, "xcrd.CompositionRevisionRef is "+xcrd.CompositionRevisionRef)
	}
	return out
}

// c07Reserved is the independent definition of a Kubernetes-reserved key: the
// key has a prefix (the part before the slash) and the prefix is kubernetes.io,
// k8s.io or a sub-domain of either.
func c07Reserved(key string) bool {
	i := strings.IndexByte(key, '/')
	if i < 0 {
		return false
	}
	p := key[:i]
	for _, d := range []string{"kubernetes.io", "k8s.io"} {
		if p == d || strings.HasSuffix(p, "."+d) {
			return true
		}
	}
	return false
}

// ---------------------------------------------------------------------------
// JSON helpers

func c07M(v any) map[string]any {
	m, _ := v.(map[string]any)
	return m
}

// c07Clean drops null members (the API server drops nulls of non-nullable fields).
func c07Clean(v any) any {
	switch x := v.(type) {
	case map[string]any:
		out := map[string]any{}
		for k, e := range x {
			if e == nil {
				continue
			}
			out[k] = c07Clean(e)
		}
		return out
	case []any:
		out := make([]any, len(x))
		for i, e := range x {
			out[i] = c07Clean(e)
		}
		return out
	}
	return v
}

// c07HasNull reports whether v contains a null member anywhere.
func c07HasNull(v any) bool {
	switch x := v.(type) {
	case map[string]any:
		for _, e := range x {
			if e == nil || c07HasNull(e) {
				return true
			}
		}
	case []any:
		for _, e := range x {
			if e == nil || c07HasNull(e) {
				return true
			}
		}
	}
	return false
}

func c07Eq(a, b any) bool {
	if a == nil || b == nil {
		return a == nil && b == nil
	}
	return reflect.DeepEqual(c07Clean(a), c07Clean(b))
}

// c07Contains: every leaf of s is in a at the same path with the same value
// (lists are leaves; an empty object is contained in any object).
//
// Note on nulls: when a server-side apply removes the last entry a manager
// owned in a map, structured-merge-diff leaves null in place of the map
// (typed/remove.go, removingWalker.doMap). That is Kubernetes behaviour, not the
// syncer's; the oracle therefore reads null, an absent member and an empty
// object as the same thing, and the generator never draws an empty matchLabels
// (the XR CRD requires matchLabels to be an object, so a real server would
// refuse the apply that nulls it).
func c07Contains(a, s any) bool {
	sm, ok := s.(map[string]any)
	if !ok {
		return c07Eq(a, s)
	}
	if len(sm) == 0 && a == nil {
		return true // an empty object and an absent one say the same
	}
	am, ok := a.(map[string]any)
	if !ok {
		return false
	}
	for k, sv := range sm {
		if sv == nil {
			continue
		}
		av, ok := am[k]
		if svm, isMap := sv.(map[string]any); isMap && len(svm) == 0 && (!ok || av == nil) {
			continue // an empty object and an absent one say the same
		}
		if !ok || !c07Contains(av, sv) {
			return false
		}
	}
	return true
}

// c07Explained: every leaf of a has the same value at the same path in one of
// the sources. It returns the first unexplained path.
func c07Explained(path string, a any, srcs ...any) (string, bool) {
	am, ok := a.(map[string]any)
	if !ok {
		for _, s := range srcs {
			if s != nil && c07Eq(a, s) {
				return "", true
			}
		}
		return path, false
	}
	if len(am) == 0 {
		for _, s := range srcs {
			if _, ok := s.(map[string]any); ok {
				return "", true
			}
		}
		return path, false
	}
	for _, k := range c07SortedKeys(am) {
		if am[k] == nil {
			continue
		}
		var sub []any
		for _, s := range srcs {
			if sm, ok := s.(map[string]any); ok {
				if sv, ok := sm[k]; ok && sv != nil {
					sub = append(sub, sv)
				}
			}
		}
		if p, ok := c07Explained(path+"."+k, am[k], sub...); !ok {
			return p, false
		}
	}
	return "", true
}

func c07Spec(o verifsim.Obj) map[string]any    { return c07M(o["spec"]) }
func c07Status_(o verifsim.Obj) map[string]any { return c07M(o["status"]) }

func c07Str(v any) string {
	s, _ := v.(string)
	return s
}

// ---------------------------------------------------------------------------
// The oracle

type c07Obs struct {
	syncer   string // ssa | csa
	cmB, xrB verifsim.Obj
	cmA, xrA verifsim.Obj
	xrCount  int
}

// c07Judge returns every disagreement between what Sync left in the store and
// the partition table.
func c07Judge(o c07Obs) []string {
	var v []string
	bad := func(f string, a ...any) { v = append(v, fmt.Sprintf(f, a...)) }
	if o.cmA == nil {
		return []string{"the claim is gone after Sync"}
	}
	if o.xrA == nil {
		return []string{"no XR after Sync"}
	}
	cmBs, cmAs, xrAs := c07Spec(o.cmB), c07Spec(o.cmA), c07Spec(o.xrA)
	var xrBs, xrBst map[string]any
	if o.xrB != nil {
		xrBs, xrBst = c07Spec(o.xrB), c07Status_(o.xrB)
	}
	cmName, cmNS := verifsim.MetaString(o.cmB, "name"), verifsim.MetaString(o.cmB, "namespace")
	xrName := verifsim.MetaString(o.xrA, "name")

	// Update policy. The claim's policy, when set, is what the XR has after the
	// sync; otherwise the XR keeps its own. The clauses that depend on the policy
	// are strict only when that policy is also what the XR had before the sync
	// (the property does not say whose policy counts while the two differ).
	pCM, pXR := c07Str(cmBs["compositionUpdatePolicy"]), c07Str(xrBs["compositionUpdatePolicy"])
	eff := pCM
	if eff == "" {
		eff = pXR
	}
	// While the two differ an outcome is accepted if it is right under either reading.

	// ---- binding
	if o.xrCount != 1 {
		bad("expected exactly one XR in the store after Sync, found %d", o.xrCount)
	}
	if ref := c07M(cmBs["resourceRef"]); ref != nil {
		if c07Str(ref["name"]) != xrName {
			bad("claim referenced XR %q but XR %q was synced", ref["name"], xrName)
		}
	} else if !strings.HasPrefix(xrName, cmName+"-") {
		bad("new XR name %q is not derived from the claim name %q", xrName, cmName)
	}
	wantRR := map[string]any{"apiVersion": c07APIV, "kind": c07XRKind, "name": xrName}
	if !c07Eq(cmAs["resourceRef"], wantRR) {
		bad("claim spec.resourceRef = %s, want %s", verifkit.JSON(cmAs["resourceRef"]), verifkit.JSON(wantRR))
	}
	wantCR := map[string]any{"apiVersion": c07APIV, "kind": c07ClaimKind, "namespace": cmNS, "name": cmName}
	if !c07Eq(xrAs["claimRef"], wantCR) {
		bad("XR spec.claimRef = %s, want %s", verifkit.JSON(xrAs["claimRef"]), verifkit.JSON(wantCR))
	}

	// ---- claim -> XR: spec
	keys := map[string]bool{}
	for k := range xrAs {
		keys[k] = true
	}
	for k := range cmBs {
		keys[k] = true
	}
	for k := range xrBs {
		keys[k] = true
	}
	for _, k := range c07SortedKeys(keys) {
		got, cmv, xrv := xrAs[k], cmBs[k], xrBs[k]
		row, mach := c07SpecTable[k]
		switch {
		case !mach:
			// A user-defined field.
			if cmv != nil {
				if !c07Contains(got, cmv) {
					bad("claim->XR: user spec field %q of the claim did not reach the XR intact: claim %s, XR %s", k, verifkit.JSON(cmv), verifkit.JSON(got))
				}
				if p, ok := c07Explained("spec."+k, got, cmv, xrv); got != nil && !ok {
					bad("claim->XR: XR %s = %s comes neither from the claim's user field nor from the XR before the sync", p, verifkit.JSON(got))
				}
			} else if got != nil {
				if p, ok := c07Explained("spec."+k, got, xrv); !ok {
					bad("claim->XR: XR %s appeared out of nowhere: %s (claim has no such field, XR before: %s)", p, verifkit.JSON(got), verifkit.JSON(xrv))
				}
			}
		case row.class == c07ClaimOnly:
			if got != nil {
				bad("claim->XR: claim-only machinery %q reached the XR: %s", k, verifkit.JSON(got))
			}
		case row.class == c07EachSide || row.class == c07XROwned:
			if !c07Eq(got, xrv) {
				bad("XR-owned spec.%s was not preserved: before %s, after %s (claim: %s)", k, verifkit.JSON(xrv), verifkit.JSON(got), verifkit.JSON(cmv))
			}
		case row.class == c07Binding:
			// judged above
		case row.class == c07Selection || row.class == c07SelectionBack:
			if cmv != nil {
				// Selector maps merge key by key with entries another manager
				// already owns on the XR (server-side apply), like user fields.
				if !c07Contains(got, cmv) {
					bad("claim->XR: composition selection field %q: claim has %s, XR has %s", k, verifkit.JSON(cmv), verifkit.JSON(got))
				}
				if p, ok := c07Explained("spec."+k, got, cmv, xrv); got != nil && !ok {
					bad("claim->XR: XR %s = %s comes neither from the claim nor from the XR before the sync", p, verifkit.JSON(got))
				}
			} else if got != nil && !c07Eq(got, xrv) {
				bad("claim->XR: XR spec.%s = %s comes neither from the claim nor from the XR before the sync (%s)", k, verifkit.JSON(got), verifkit.JSON(xrv))
			}
		case row.class == c07ByPolicy:
			rule := func(p string) bool {
				if p == "Manual" && cmv != nil {
					return c07Eq(got, cmv) // the claim is authoritative
				}
				return got == nil || c07Eq(got, xrv) // the XR side is authoritative
			}
			if !rule(eff) && !rule(pXR) {
				bad("claim->XR: spec.%s under policy claim=%q/XR=%q: claim %s, XR before %s, XR after %s (Manual: the claim's must reach the XR; otherwise the claim's must not overwrite the XR's)", k, pCM, pXR, verifkit.JSON(cmv), verifkit.JSON(xrv), verifkit.JSON(got))
			}
		}
	}

	// ---- claim -> XR: labels and annotations
	for _, kind := range []string{"labels", "annotations"} {
		cmM, xrBM, xrAM := c07M(verifsim.Meta(o.cmB)[kind]), map[string]any(nil), c07M(verifsim.Meta(o.xrA)[kind])
		if o.xrB != nil {
			xrBM = c07M(verifsim.Meta(o.xrB)[kind])
		}
		for _, k := range c07SortedKeys(cmM) {
			if c07Reserved(k) || k == c07LabelClaimNm || k == c07LabelClaimNS {
				continue
			}
			want := cmM[k]
			if k == c07ExternalName && kind == "annotations" && c07Str(xrBM[k]) != "" {
				want = xrBM[k] // an existing external name is preserved
			}
			if !c07Eq(xrAM[k], want) {
				bad("claim->XR: non-reserved %s key %q = %q of the claim: XR has %s, want %q", kind, k, cmM[k], verifkit.JSON(xrAM[k]), want)
			}
		}
		for _, k := range c07SortedKeys(xrAM) {
			got := xrAM[k]
			switch {
			case kind == "labels" && k == c07LabelClaimNm:
				if c07Str(got) != cmName {
					bad("XR label %s = %q, want %q", k, got, cmName)
				}
			case kind == "labels" && k == c07LabelClaimNS:
				if c07Str(got) != cmNS {
					bad("XR label %s = %q, want %q", k, got, cmNS)
				}
			case c07Reserved(k):
				if !c07Eq(got, xrBM[k]) {
					bad("claim->XR: Kubernetes-reserved %s key %q reached the XR: claim %s, XR before %s, XR after %s", kind, k, verifkit.JSON(cmM[k]), verifkit.JSON(xrBM[k]), verifkit.JSON(got))
				}
			default:
				if !c07Eq(got, cmM[k]) && !c07Eq(got, xrBM[k]) {
					bad("XR %s key %q = %s comes neither from the claim (%s) nor from the XR before (%s)", kind, k, verifkit.JSON(got), verifkit.JSON(cmM[k]), verifkit.JSON(xrBM[k]))
				}
			}
		}
		if kind == "labels" {
			if _, ok := xrAM[c07LabelClaimNm]; !ok {
				bad("XR lacks the %s label", c07LabelClaimNm)
			}
		}
		if en := c07Str(xrBM[c07ExternalName]); kind == "annotations" && en != "" && c07Str(xrAM[c07ExternalName]) != en {
			bad("the XR's existing external name %q was not preserved: now %s", en, verifkit.JSON(xrAM[c07ExternalName]))
		}
	}

	// ---- the XR's own status is untouched
	if o.xrB != nil && !c07Eq(o.xrA["status"], o.xrB["status"]) {
		bad("Sync changed the XR's status: before %s, after %s", verifkit.JSON(o.xrB["status"]), verifkit.JSON(o.xrA["status"]))
	}

	// ---- XR -> claim: spec
	keys = map[string]bool{}
	for k := range cmBs {
		keys[k] = true
	}
	for k := range cmAs {
		if cmAs[k] != nil {
			keys[k] = true
		}
	}
	for _, k := range c07SortedKeys(keys) {
		before, after := cmBs[k], cmAs[k]
		row, mach := c07SpecTable[k]
		switch {
		case k == "resourceRef":
			// judged above
		case mach && row.class == c07SelectionBack:
			want := before
			if want == nil && xrBs != nil {
				want = xrBs[k]
			}
			if !c07Eq(after, want) {
				bad("XR->claim: claim spec.%s = %s, want %s (claim before: %s, XR: %s)", k, verifkit.JSON(after), verifkit.JSON(want), verifkit.JSON(before), verifkit.JSON(xrBs[k]))
			}
		case mach && row.class == c07ByPolicy:
			xrv := xrBs[k]
			rule := func(p string) bool {
				if p == "Automatic" && xrv != nil {
					return c07Eq(after, xrv) // the XR's revision reaches the claim
				}
				if p == "Automatic" {
					return after == nil || c07Eq(after, before)
				}
				return c07Eq(after, before) // the XR's revision must not reach the claim
			}
			if !rule(eff) && !rule(pXR) {
				bad("XR->claim: spec.%s under policy claim=%q/XR=%q: claim before %s, XR %s, claim after %s (Automatic: the XR's must reach the claim; otherwise it must not)", k, pCM, pXR, verifkit.JSON(before), verifkit.JSON(xrv), verifkit.JSON(after))
			}
		default:
			if !c07Eq(after, before) {
				what := "user-defined"
				if mach {
					what = "machinery"
				}
				bad("XR->claim: %s claim spec field %q changed: before %s, after %s (XR before: %s)", what, k, verifkit.JSON(before), verifkit.JSON(after), verifkit.JSON(xrBs[k]))
			}
		}
	}

	// ---- XR -> claim: metadata
	for _, kind := range []string{"labels", "annotations"} {
		want := map[string]any{}
		for k, e := range c07M(verifsim.Meta(o.cmB)[kind]) {
			want[k] = e
		}
		if kind == "annotations" && o.xrB != nil {
			if en := c07Str(c07M(verifsim.Meta(o.xrB)[kind])[c07ExternalName]); en != "" {
				want[c07ExternalName] = en
			}
		}
		got := c07M(verifsim.Meta(o.cmA)[kind])
		if got == nil {
			got = map[string]any{}
		}
		if !c07Eq(got, want) {
			bad("XR->claim: claim %s after Sync %s, want %s", kind, verifkit.JSON(got), verifkit.JSON(want))
		}
	}

	// ---- XR -> claim: status
	cmBst, cmAst := c07Status_(o.cmB), c07Status_(o.cmA)
	keys = map[string]bool{}
	for _, m := range []map[string]any{cmBst, cmAst, xrBst} {
		for k, e := range m {
			if e != nil {
				keys[k] = true
			}
		}
	}
	for _, k := range c07SortedKeys(keys) {
		before, after, xrv := cmBst[k], cmAst[k], xrBst[k]
		if c07StatusTable[k] {
			if !c07SameMachineryStatus(k, before, after) {
				bad("XR->claim: claim status.%s is machinery of the claim and changed: before %s, after %s (XR has %s)", k, verifkit.JSON(before), verifkit.JSON(after), verifkit.JSON(xrv))
			}
			continue
		}
		if xrv != nil {
			// The client-side syncer documents that it cannot merge into a claim
			// that has no status object yet ("can occur early on in reconciliation");
			// the reconciler writes conditions right after Sync, so this lasts one
			// reconcile. Not asserted for that one call.
			if o.syncer == "csa" && o.cmB["status"] == nil {
				continue
			}
			if !c07Contains(after, xrv) {
				bad("XR->claim: user-defined status field %q of the XR did not reach the claim intact: XR %s, claim before %s, claim after %s", k, verifkit.JSON(xrv), verifkit.JSON(before), verifkit.JSON(after))
			}
			if p, ok := c07Explained("status."+k, after, xrv, before); after != nil && !ok {
				bad("XR->claim: claim %s comes neither from the XR's user status nor from the claim before", p)
			}
		} else if after != nil && !c07Eq(after, before) {
			bad("XR->claim: claim status.%s = %s appeared out of nowhere (claim before %s, XR has none)", k, verifkit.JSON(after), verifkit.JSON(before))
		}
	}
	return v
}

// c07SameMachineryStatus compares the claim's own status machinery before and
// after. Conditions are compared as a set keyed by type (the syncer may rewrite
// the list through its typed representation).
func c07SameMachineryStatus(k string, before, after any) bool {
	if k != "conditions" {
		return c07Eq(before, after)
	}
	idx := func(v any) map[string]any {
		out := map[string]any{}
		l, _ := v.([]any)
		for _, e := range l {
			m := c07M(e)
			out[c07Str(m["type"])] = m
		}
		return out
	}
	return c07Eq(idx(before), idx(after))
}

// ---------------------------------------------------------------------------
// Running Sync the way Reconcile does

// The scheme is only read by the simulated server; building it is the most
// expensive part of a case, so it is shared.
var c07Scheme = verifsim.NewScheme()

var (
	c07ClaimGVK = schema.GroupVersionKind{Group: c07Group, Version: c07Version, Kind: c07ClaimKind}
	c07XRGVK    = schema.GroupVersionKind{Group: c07Group, Version: c07Version, Kind: c07XRKind}
	c07ClaimGK  = schema.GroupKind{Group: c07Group, Kind: c07ClaimKind}
	c07XRGK     = schema.GroupKind{Group: c07Group, Kind: c07XRKind}
)

func c07ClaimKey(name string) verifsim.Key {
	return verifsim.Key{Group: c07Group, Kind: c07ClaimKind, Namespace: c07NS, Name: name}
}
func c07XRKey(name string) verifsim.Key {
	return verifsim.Key{Group: c07Group, Kind: c07XRKind, Name: name}
}

// c07Put writes content as the given actor: create if absent, otherwise replace
// metadata labels/annotations and spec, and (if present in content) status.
func c07Put(s *verifsim.Sim, actor string, content verifsim.Obj) error {
	ctx := context.Background()
	c := s.Client(actor)
	key := verifsim.KeyOf(content)
	cur := s.Get(key)
	u := verifsim.U(content)
	if cur == nil {
		if err := c.Create(ctx, u); err != nil {
			return err
		}
	} else {
		n := verifsim.U(cur)
		n.Object["spec"] = verifsim.DeepCopy(content)["spec"]
		md := verifsim.Meta(n.Object)
		for _, f := range []string{"labels", "annotations"} {
			if v, ok := verifsim.Meta(content)[f]; ok {
				md[f] = verifsim.DeepCopy(verifsim.Obj{"x": v})["x"]
			} else {
				delete(md, f)
			}
		}
		if err := c.Update(ctx, n); err != nil {
			return err
		}
		u = n
	}
	if st, ok := content["status"]; ok {
		n := verifsim.U(s.Get(key))
		n.Object["status"] = verifsim.DeepCopy(verifsim.Obj{"x": st})["x"]
		if err := c.Status().Update(ctx, n); err != nil {
			return err
		}
	}
	return nil
}

// c07Sync runs one Sync the way Reconciler.Reconcile reaches it and returns the
// observation for the oracle.
func c07Sync(s *verifsim.Sim, syncer, claimName string) (c07Obs, error) {
	ctx := context.Background()
	c := s.Client(c07ActorClaimCtl)
	obs := c07Obs{syncer: syncer}
	obs.cmB = s.Get(c07ClaimKey(claimName))

	cm := claim.New(claim.WithGroupVersionKind(c07ClaimGVK))
	if err := c.Get(ctx, types.NamespacedName{Namespace: c07NS, Name: claimName}, cm); err != nil {
		return obs, fmt.Errorf("harness: cannot get claim: %w", err)
	}
	xr := composite.New(composite.WithGroupVersionKind(c07XRGVK))
	if ref := cm.GetResourceReference(); ref != nil {
		obs.xrB = s.Get(c07XRKey(ref.Name))
		if err := c.Get(ctx, types.NamespacedName{Name: ref.Name}, xr); err != nil && !kerrors.IsNotFound(err) {
			return obs, fmt.Errorf("harness: cannot get XR: %w", err)
		}
	}
	var sy interface {
		Sync(ctx context.Context, cm *claim.Unstructured, xr *composite.Unstructured) error
	}
	switch syncer {
	case "ssa":
		if err := NewPatchingManagedFieldsUpgrader(c).Upgrade(ctx, xr, FieldOwnerXR); err != nil {
			return obs, fmt.Errorf("managed fields upgrade: %w", err)
		}
		sy = NewServerSideCompositeSyncer(c, names.NewNameGenerator(c))
	default:
		sy = NewClientSideCompositeSyncer(c, names.NewNameGenerator(c))
	}
	err := sy.Sync(ctx, cm, xr)
	obs.cmA = s.Get(c07ClaimKey(claimName))
	obs.xrCount = len(s.Keys(c07XRGK))
	if ref := c07M(c07Spec(obs.cmA)["resourceRef"]); ref != nil {
		obs.xrA = s.Get(c07XRKey(c07Str(ref["name"])))
	}
	return obs, err
}

// c07LateInitPaths lists the paths of the XR's spec that the client-side
// syncer's late initialisation would copy into the claim: present on the XR,
// absent on the claim, and not below a field only the XR has a use for.
func c07LateInitPaths(cmSpec, xrSpec map[string]any) [][]string {
	var out [][]string
	var walk func(path []string, c, x map[string]any)
	walk = func(path []string, c, x map[string]any) {
		for _, k := range c07SortedKeys(x) {
			if len(path) == 0 {
				if r, ok := c07SpecTable[k]; ok && (r.class == c07XROwned || r.class == c07EachSide || r.class == c07Binding || r.class == c07ByPolicy || r.class == c07SelectionBack) {
					continue
				}
			}
			p := append(append([]string{}, path...), k)
			cv, ok := c[k]
			if !ok || cv == nil {
				out = append(out, p)
				continue
			}
			cm, cIsMap := cv.(map[string]any)
			xm, xIsMap := x[k].(map[string]any)
			if cIsMap && xIsMap {
				walk(p, cm, xm)
			}
		}
	}
	walk(nil, cmSpec, xrSpec)
	return out
}

func c07DeletePath(m map[string]any, p []string) {
	for i := 0; i < len(p)-1; i++ {
		m = c07M(m[p[i]])
		if m == nil {
			return
		}
	}
	delete(m, p[len(p)-1])
}

func c07Dump(o c07Obs) string {
	j := func(v any) string { b, _ := json.Marshal(v); return string(b) }
	strip := func(o verifsim.Obj) verifsim.Obj {
		if o == nil {
			return nil
		}
		c := verifsim.DeepCopy(o)
		delete(verifsim.Meta(c), "managedFields")
		return c
	}
	return fmt.Sprintf("syncer=%s\n claim before: %s\n XR before:    %s\n claim after:  %s\n XR after:     %s", o.syncer, j(strip(o.cmB)), j(strip(o.xrB)), j(strip(o.cmA)), j(strip(o.xrA)))
}

// ---------------------------------------------------------------------------
// The generated scenario

func c07ClaimContent(t *rapid.T, w *c07World, name string, keep map[string]any, classes map[string]int) (verifsim.Obj, int) {
	spec, _ := c07Instance(t, w.spec, "c").(map[string]any)
	if spec == nil {
		spec = map[string]any{}
	}
	want := verifsim.DeepCopy(spec)
	junk := c07AddJunk(t, spec, w.spec, true)
	c07ClaimMachinery(t, spec)
	for _, k := range []string{"resourceRefs", "claimRef", "junk"} {
		if rapid.IntRange(0, 5).Draw(t, "topjunk") == 0 {
			spec[k] = c07Any(t, 1)
			junk++
		}
	}
	for k, v := range keep {
		spec[k] = v
	}
	md := map[string]any{"name": name, "namespace": c07NS}
	if l := c07KeyMap(t, "cl", classes); len(l) > 0 {
		md["labels"] = l
	}
	// The claim's annotation set: mixed keys (with or without an external name
	// of its own), none at all, or only Kubernetes-reserved ones (what kubectl
	// and friends leave behind) - in the last two nothing survives the
	// reserved-key filter on the way to the XR.
	ann := map[string]any{}
	switch rapid.SampledFrom([]string{"mixed", "mixed", "none", "reserved-only"}).Draw(t, "cm.annotationMode") {
	case "mixed":
		ann = c07KeyMap(t, "ca", classes)
		if rapid.Bool().Draw(t, "cm.externalName") {
			ann[c07ExternalName] = "claim-ext-name"
		}
	case "reserved-only":
		for i, c := 0, rapid.IntRange(1, 3).Draw(t, "nreserved"); i < c; i++ {
			k := rapid.SampledFrom([]string{"kubectl.kubernetes.io/last-applied-configuration", "sub.kubernetes.io/x", "deep.sub.k8s.io/y", "kubernetes.io/change-cause", "k8s.io/x"}).Draw(t, "reservedkey")
			ann[k] = "ca-reserved"
			if classes != nil {
				classes["reserved"]++
			}
		}
	}
	if len(ann) > 0 {
		md["annotations"] = ann
	}
	o := verifsim.Obj{"apiVersion": c07APIV, "kind": c07ClaimKind, "metadata": md, "spec": spec}
	if errs := c07Admit(o, w.claimSS, w.claimVal); len(errs) > 0 {
		t.Fatalf("HARNESS: generated claim is not a valid instance of the claim CRD: %v\n%s", errs, verifkit.JSON(o))
	}
	// Self-check of the generator: pruning removed exactly the junk.
	for k, v := range want {
		if !c07Eq(c07Spec(o)[k], v) {
			t.Fatalf("HARNESS: pruning changed user field %q: drew %s, pruned %s", k, verifkit.JSON(v), verifkit.JSON(c07Spec(o)[k]))
		}
	}
	for k := range c07Spec(o) {
		if _, user := want[k]; !user {
			if r, ok := c07SpecTable[k]; !ok || !r.onClaim {
				t.Fatalf("HARNESS: unknown top-level spec field %q survived pruning", k)
			}
		}
	}
	return o, junk
}

func c07XRContent(t *rapid.T, w *c07World, name string, gen int, userSpec bool, keep map[string]any) verifsim.Obj {
	spec := map[string]any{}
	if userSpec {
		if m, ok := c07Instance(t, w.spec, "x").(map[string]any); ok {
			spec = m
		}
	}
	c07XRMachinery(t, spec, gen)
	for k, v := range keep {
		spec[k] = v
	}
	md := map[string]any{"name": name}
	if l := c07KeyMap(t, "xl", nil); len(l) > 0 {
		md["labels"] = l
	}
	ann := c07KeyMap(t, "xa", nil)
	if rapid.Bool().Draw(t, "xr.externalName") {
		ann[c07ExternalName] = "xr-ext-name"
	}
	if len(ann) > 0 {
		md["annotations"] = ann
	}
	o := verifsim.Obj{"apiVersion": c07APIV, "kind": c07XRKind, "metadata": md, "spec": spec}
	if rapid.IntRange(0, 3).Draw(t, "xr.hasStatus") > 0 {
		o["status"] = c07Status(t, w, "XR", true)
	}
	if errs := c07Admit(o, w.xrSS, w.xrVal); len(errs) > 0 {
		t.Fatalf("HARNESS: generated XR is not a valid instance of the XR CRD: %v\n%s", errs, verifkit.JSON(o))
	}
	return o
}

func c07Case(t *rapid.T, rec *verifkit.Recorder, lateInitOpen bool) {
	rec.Eval()
	utilrand.Seed(rapid.Int64().Draw(t, "namesSeed"))
	syncer := rapid.SampledFrom([]string{"ssa", "csa"}).Draw(t, "syncer")
	w, err := c07NewWorld(c07GenObject(t, 2, "spec"), c07GenObject(t, 2, "status"),
		rapid.SampledFrom([]string{"", "", "Foreground"}).Draw(t, "defaultDelete"),
		rapid.SampledFrom([]string{"", "", "Automatic", "Manual"}).Draw(t, "defaultUpdate"))
	if err != nil {
		t.Fatalf("HARNESS: %v", err)
	}
	s := verifsim.New(c07Scheme)
	s.ClusterScoped = func(gk schema.GroupKind) bool { return gk == c07XRGK }
	claimName := rapid.SampledFrom([]string{"c", "my-claim"}).Draw(t, "claimName")
	mode := rapid.SampledFrom([]string{"fresh", "fresh", "existing-unbound", "existing-bound"}).Draw(t, "mode")
	classes := map[string]int{}
	keepCM := map[string]any{}
	xrName := ""
	if mode != "fresh" {
		xrName = "static-xr"
		keepXR := map[string]any{}
		if mode == "existing-bound" {
			keepXR["claimRef"] = map[string]any{"apiVersion": c07APIV, "kind": c07ClaimKind, "namespace": c07NS, "name": claimName}
		}
		xr := c07XRContent(t, w, xrName, 0, true, keepXR)
		if mode == "existing-bound" {
			l := c07M(verifsim.Meta(xr)["labels"])
			if l == nil {
				l = map[string]any{}
				verifsim.Meta(xr)["labels"] = l
			}
			l[c07LabelClaimNm], l[c07LabelClaimNS] = claimName, c07NS
		}
		if err := c07Put(s, c07ActorUser, xr); err != nil {
			t.Fatalf("HARNESS: cannot create XR: %v", err)
		}
		keepCM["resourceRef"] = map[string]any{"apiVersion": c07APIV, "kind": c07XRKind, "name": xrName}
	}
	cm, junk := c07ClaimContent(t, w, claimName, keepCM, classes)
	if rapid.Bool().Draw(t, "cm.hasStatus") {
		cm["status"] = c07Status(t, w, "Claim", false)
		if errs := c07Admit(cm, w.claimSS, w.claimVal); len(errs) > 0 {
			t.Fatalf("HARNESS: claim with status invalid: %v", errs)
		}
	}
	if err := c07Put(s, c07ActorUser, cm); err != nil {
		t.Fatalf("HARNESS: cannot create claim: %v", err)
	}
	if junk > 0 {
		rec.Label("gen:pruned-unknown-fields")
	}

	nsync := rapid.IntRange(1, 4).Draw(t, "nsync")
	for i := 0; i < nsync; i++ {
		if i > 0 {
			cur := s.Get(c07ClaimKey(claimName))
			xrName = c07Str(c07M(c07Spec(cur)["resourceRef"])["name"])
			// The XR's controller reconciles: it owns resourceRefs, its own
			// connection secret ref, the selected composition and revision, status.
			if rapid.IntRange(0, 3).Draw(t, "xrActs") > 0 {
				xcur, _ := c07Clean(map[string]any(s.Get(c07XRKey(xrName)))).(map[string]any)
				keep := map[string]any{}
				// The XR controller never rewrites what the claim controller owns.
				for k, v := range c07Spec(xcur) {
					if r, ok := c07SpecTable[k]; !ok || r.class == c07Binding || r.class == c07Selection {
						keep[k] = v
					}
				}
				nx := c07XRContent(t, w, xrName, i, false, keep)
				if p := c07Str(c07Spec(xcur)["compositionUpdatePolicy"]); p != "" {
					c07Spec(nx)["compositionUpdatePolicy"] = p
				} else {
					delete(c07Spec(nx), "compositionUpdatePolicy")
				}
				if p := c07Str(c07Spec(xcur)["compositionUpdatePolicy"]); p == "Manual" && c07Spec(xcur)["compositionRevisionRef"] != nil {
					c07Spec(nx)["compositionRevisionRef"] = c07Spec(xcur)["compositionRevisionRef"]
				}
				if v, ok := c07Spec(xcur)["compositionRef"]; ok {
					c07Spec(nx)["compositionRef"] = v
				}
				for _, k := range []string{"compositionSelector", "compositionRevisionSelector"} {
					if v, ok := c07Spec(xcur)[k]; ok {
						c07Spec(nx)[k] = v
					} else {
						delete(c07Spec(nx), k)
					}
				}
				md := verifsim.Meta(nx)
				md["labels"], md["annotations"] = verifsim.Meta(xcur)["labels"], verifsim.Meta(xcur)["annotations"]
				// The XR side may name the external resource itself (a composition
				// function or an operator annotating the XR); an existing name is
				// never changed.
				if c07Str(c07M(md["annotations"])[c07ExternalName]) == "" && rapid.IntRange(0, 2).Draw(t, "xrNamesExternal") == 0 {
					a := map[string]any{}
					for k, v := range c07M(md["annotations"]) {
						a[k] = v
					}
					a[c07ExternalName] = "xr-side-ext-name"
					md["annotations"] = a
					rec.Label("evolve:xr-side-set-external-name")
				}
				if md["labels"] == nil {
					delete(md, "labels")
				}
				if md["annotations"] == nil {
					delete(md, "annotations")
				}
				if err := c07Put(s, c07ActorXR, nx); err != nil {
					t.Fatalf("HARNESS: XR controller write failed: %v", err)
				}
				rec.Label("evolve:xr-controller-wrote")
			}
			// The user edits the claim.
			if rapid.IntRange(0, 3).Draw(t, "userActs") > 0 {
				keep := map[string]any{"resourceRef": c07Spec(cur)["resourceRef"]}
				nc, _ := c07ClaimContent(t, w, claimName, keep, classes)
				_, redrewOwn := c07M(verifsim.Meta(nc)["annotations"])[c07ExternalName]
				en, had := c07M(verifsim.Meta(cur)["annotations"])[c07ExternalName]
				if had && !redrewOwn {
					// An edit that keeps some ordinary annotation may keep the name too.
					for k := range c07M(verifsim.Meta(nc)["annotations"]) {
						if !c07Reserved(k) {
							redrewOwn = rapid.Bool().Draw(t, "userKeepsExternalName")
							break
						}
					}
				}
				switch {
				case had && !redrewOwn:
					// The user replaced the annotations (kubectl replace / apply of a
					// manifest without it): the external name that came back from the
					// XR is gone from the claim.
					rec.Label("evolve:user-removed-external-name-from-claim")
				case had:
					// Otherwise the name that came back from the XR stays.
					a := c07M(verifsim.Meta(nc)["annotations"])
					if a == nil {
						a = map[string]any{}
						verifsim.Meta(nc)["annotations"] = a
					}
					a[c07ExternalName] = en
				}
				if err := c07Put(s, c07ActorUser, nc); err != nil {
					t.Fatalf("HARNESS: user write failed: %v", err)
				}
				rec.Label("evolve:user-edited-claim")
			}
		}
		// Known finding csa-late-init-spec: steer away from XR spec fields the
		// claim lacks when the client-side syncer runs.
		if syncer == "csa" && lateInitOpen && xrName != "" {
			cur, xcur := s.Get(c07ClaimKey(claimName)), s.Get(c07XRKey(xrName))
			if xcur != nil {
				if paths := c07LateInitPaths(c07Spec(cur), c07Spec(xcur)); len(paths) > 0 {
					rec.Excluded()
					rec.Label("excluded:csa-late-init-spec")
					nx := verifsim.DeepCopy(xcur)
					for _, p := range paths {
						c07DeletePath(c07Spec(nx), p)
					}
					delete(nx, "status")
					if err := c07Put(s, c07ActorSteer, nx); err != nil {
						t.Fatalf("HARNESS: steer write failed: %v", err)
					}
				}
			}
		}

		obs, err := c07Sync(s, syncer, claimName)
		step := "first-sync"
		if obs.xrB != nil {
			step = "resync"
			if i == 0 {
				step = "bind-existing"
			}
		}
		rec.Label("step:" + syncer + ":" + step)
		if err != nil {
			t.Fatalf("Sync returned an error on a fault-free API server: %v\n%s", err, c07Dump(obs))
		}
		c07Classify(rec, obs, step, classes)
		if v := c07Judge(obs); len(v) > 0 {
			t.Fatalf("C07 violated (%s, sync #%d, %d finding(s)):\n  - %s\n%s", step, i+1, len(v), strings.Join(v, "\n  - "), c07Dump(obs))
		}
		// Reconcile goes on to set the claim's conditions and writes its status.
		if err := c07ReconcilerStatusWrite(s, claimName); err != nil {
			t.Fatalf("HARNESS: claim status write failed: %v", err)
		}
		// structured-merge-diff leaves null where a server-side apply removed the
		// last member a manager owned in an object (see c07Contains). The CRD's
		// schema validation refuses null for a non-nullable object, so a real
		// server would not have stored this write and nothing that follows from
		// the stored state is reachable: the sync itself was judged (null reads
		// as absent), the history ends here.
		if c07HasNull(obs.xrA["spec"]) || c07HasNull(obs.cmA["spec"]) {
			rec.Label("model:apply-left-null-in-spec(history ends)")
			break
		}
	}
}

// c07ReconcilerStatusWrite does what Reconcile does after a successful Sync:
// it sets the claim's Synced/Ready conditions and updates the status.
func c07ReconcilerStatusWrite(s *verifsim.Sim, claimName string) error {
	cur := verifsim.U(s.Get(c07ClaimKey(claimName)))
	st := c07M(cur.Object["status"])
	if st == nil {
		st = map[string]any{}
		cur.Object["status"] = st
	}
	keep := []any{}
	for _, e := range func() []any { l, _ := st["conditions"].([]any); return l }() {
		if ty := c07Str(c07M(e)["type"]); ty != "Synced" && ty != "Ready" {
			keep = append(keep, e)
		}
	}
	st["conditions"] = append(keep,
		map[string]any{"type": "Synced", "status": "True", "reason": "ClaimReason", "lastTransitionTime": "2024-01-03T00:00:00Z"},
		map[string]any{"type": "Ready", "status": "False", "reason": "ClaimReason", "lastTransitionTime": "2024-01-03T00:00:00Z", "message": "Claim message"})
	return s.Client(c07ActorClaimCtl).Status().Update(context.Background(), cur)
}

func c07Classify(rec *verifkit.Recorder, o c07Obs, step string, classes map[string]int) {
	coll := c07Collisions(c07Spec(o.cmB), 1)
	if o.xrB != nil {
		coll += c07Collisions(c07Status_(o.xrB), 1)
	}
	owned := false
	if o.xrB != nil {
		s := c07Spec(o.xrB)
		owned = s["resourceRefs"] != nil || s["writeConnectionSecretToRef"] != nil || c07Str(c07M(verifsim.Meta(o.xrB)["annotations"])[c07ExternalName]) != ""
	}
	pCM, pXR := c07Str(c07Spec(o.cmB)["compositionUpdatePolicy"]), ""
	if o.xrB != nil {
		pXR = c07Str(c07Spec(o.xrB)["compositionUpdatePolicy"])
	}
	or := func(s string) string {
		if s == "" {
			return "unset"
		}
		return s
	}
	rec.Labelf("policy:claim=%s,xr=%s", or(pCM), or(pXR))
	if pCM != "" && pCM != pXR {
		rec.Label("policy:claim-and-xr-differ(revision clause accepts either reading)")
	}
	if o.xrB != nil && c07Str(c07M(verifsim.Meta(o.xrB)["annotations"])[c07ExternalName]) != "" {
		surviving := 0
		for k := range c07M(verifsim.Meta(o.cmB)["annotations"]) {
			if !c07Reserved(k) {
				surviving++
			}
		}
		if surviving == 0 {
			rec.Label("extname:" + o.syncer + ":xr-has-external-name&&claim-has-no-surviving-annotation")
			if c07ManagerOwnsExternalName(o.xrB, FieldOwnerXR) {
				rec.Label("extname:ssa:...and-claim-field-manager-owns-the-xr-annotation")
			}
		} else {
			rec.Label("extname:" + o.syncer + ":xr-has-external-name&&claim-has-surviving-annotation")
		}
	}
	if coll > 0 {
		rec.Label("nontrivial:machinery-name-collision-at-depth>=2")
	}
	if owned {
		rec.Label("nontrivial:xr-owned-fields-present")
	}
	for k, n := range classes {
		if n > 0 {
			rec.Label("keys:" + k)
		}
	}
	if o.xrB != nil && c07Status_(o.xrB) != nil {
		rec.Label("xr-has-status")
		if o.syncer == "csa" && o.cmB["status"] == nil {
			rec.Label("lenient:csa-claim-without-status-object(status copy not asserted)")
		}
	}
	if coll > 0 || owned {
		key := o.syncer + "|" + verifsim.ObjDigest(c07StripVolatile(o.cmB)) + "|" + verifsim.ObjDigest(c07StripVolatile(o.xrB))
		rec.NonTrivial(key, func() any {
			return map[string]any{"syncer": o.syncer, "step": step, "claim": c07StripVolatile(o.cmB), "xr": c07StripVolatile(o.xrB)}
		})
	}
}

// c07ManagerOwnsExternalName reports whether the named field manager owns the
// external-name annotation of o (managedFields, FieldsV1).
func c07ManagerOwnsExternalName(o verifsim.Obj, manager string) bool {
	l, _ := verifsim.Meta(o)["managedFields"].([]any)
	for _, e := range l {
		m := c07M(e)
		if c07Str(m["manager"]) != manager {
			continue
		}
		ann := c07M(c07M(c07M(m["fieldsV1"])["f:metadata"])["f:annotations"])
		if _, ok := ann["f:"+c07ExternalName]; ok {
			return true
		}
	}
	return false
}

func c07StripVolatile(o verifsim.Obj) verifsim.Obj {
	if o == nil {
		return nil
	}
	c := verifsim.DeepCopy(o)
	md := verifsim.Meta(c)
	for _, f := range []string{"managedFields", "resourceVersion", "uid", "creationTimestamp", "generation"} {
		delete(md, f)
	}
	return c
}

// ---------------------------------------------------------------------------
// Tests

// TestVerifC07Tables: the partition table written from the property agrees with
// the field tables the syncers filter by.
func TestVerifC07Tables(t *testing.T) {
	rec := verifkit.New(t, c07Prop, "cross-check of the independent partition table with xcrd's machinery field tables")
	rec.Eval()
	if d := c07TableDisagreements(); len(d) > 0 {
		t.Fatalf("the machinery field tables in internal/xcrd/schemas.go no longer partition the fields the way property C07 states:\n  - %s", strings.Join(d, "\n  - "))
	}
}

// TestVerifC07Sync is the generated search.
func TestVerifC07Sync(t *testing.T) {
	if d := c07TableDisagreements(); len(d) > 0 {
		t.Fatalf("partition table disagreement:\n  - %s", strings.Join(d, "\n  - "))
	}
	rec := verifkit.New(t, c07Prop, "rapid: XRD user schema (nested fields, names may equal machinery names at other levels) -> real claim/XR CRDs (xcrd) -> pruned+defaulted+validated claim/XR instances; every subset of machinery fields; policy in {unset,Manual,Automatic} on each side; reserved/look-alike/bare/ordinary label and annotation keys; fresh, bind-existing and re-sync steps with XR-controller and user edits in between; both syncers. Non-trivial = a user field named like machinery at depth >= 2, or a (re-)sync with XR-owned fields present; distinct by (syncer, claim, XR) content")
	open := verifkit.OpenFinding(c07Prop, c07KeyLateInit)
	rapid.Check(t, func(t *rapid.T) { c07Case(t, rec, open) })
}

// TestVerifC07ReservedKeys: withoutReservedK8sEntries drops exactly the keys
// whose prefix is kubernetes.io, k8s.io or a sub-domain of either.
func TestVerifC07ReservedKeys(t *testing.T) {
	rec := verifkit.New(t, c07Prop, "rapid: maps over the label-key grammar (reserved, look-alike, bare, ordinary); kept keys must be exactly the non-reserved ones")
	rapid.Check(t, func(t *rapid.T) {
		rec.Eval()
		in := map[string]string{}
		for i, c := 0, rapid.IntRange(0, 6).Draw(t, "n"); i < c; i++ {
			k, class := c07Key(t)
			in[k] = "v"
			rec.Label("keys:" + class)
		}
		cp := map[string]string{}
		for k, v := range in {
			cp[k] = v
		}
		out := withoutReservedK8sEntries(cp)
		for k := range in {
			_, kept := out[k]
			if kept == c07Reserved(k) {
				t.Fatalf("withoutReservedK8sEntries(%v): key %q kept=%v but Kubernetes-reserved=%v", in, k, kept, c07Reserved(k))
			}
		}
	})
}

// ---------------------------------------------------------------------------
// Pinned rows

func c07PinnedWorld(t *testing.T) *c07World {
	t.Helper()
	spec := &c07Node{T: "object", Props: map[string]*c07Node{
		"parameters": {T: "object", Props: map[string]*c07Node{"resourceRef": {T: "string"}, "compositionRef": {T: "object", Props: map[string]*c07Node{"name": {T: "string"}}}, "size": {T: "integer"}}},
		"foo":        {T: "string"},
		"conditions": {T: "string"},
	}}
	status := &c07Node{T: "object", Props: map[string]*c07Node{
		"x":           {T: "object", Props: map[string]*c07Node{"conditions": {T: "string"}, "connectionDetails": {T: "string"}}},
		"ready":       {T: "boolean"},
		"resourceRef": {T: "string"},
	}}
	w, err := c07NewWorld(spec, status, "", "")
	if err != nil {
		t.Fatalf("HARNESS: %v", err)
	}
	return w
}

type c07Pin struct {
	name   string
	claim  verifsim.Obj
	xr     verifsim.Obj // nil: first sync creates it
	syncs  int
	expect func(t *testing.T, o c07Obs)
	// between runs before every sync but the first (edits by the user or by
	// the XR side).
	between func(t *testing.T, s *verifsim.Sim, i int)
}

func c07PinClaim(labels, ann, spec, status map[string]any) verifsim.Obj {
	md := map[string]any{"name": "c", "namespace": c07NS}
	if labels != nil {
		md["labels"] = labels
	}
	if ann != nil {
		md["annotations"] = ann
	}
	o := verifsim.Obj{"apiVersion": c07APIV, "kind": c07ClaimKind, "metadata": md, "spec": spec}
	if status != nil {
		o["status"] = status
	}
	return o
}

func c07PinXR(labels, ann, spec, status map[string]any) verifsim.Obj {
	md := map[string]any{"name": "static-xr"}
	if labels != nil {
		md["labels"] = labels
	}
	if ann != nil {
		md["annotations"] = ann
	}
	o := verifsim.Obj{"apiVersion": c07APIV, "kind": c07XRKind, "metadata": md, "spec": spec}
	if status != nil {
		o["status"] = status
	}
	return o
}

func c07Pins() []c07Pin {
	mixed := func() map[string]any {
		return map[string]any{
			"notkubernetes.io/x": "lookalike", "mykubernetes.io/x": "lookalike", "notk8s.io/name": "lookalike",
			"kubernetes.io.example.com/x": "lookalike", "k8s.io": "bare", "kubernetes.io": "bare", "x.k8s.io": "bare",
			"example.org/x": "ordinary", "app": "ordinary",
			"app.kubernetes.io/name": "reserved", "k8s.io/x": "reserved", "kubernetes.io/x": "reserved", "node.k8s.io/x": "reserved",
		}
	}
	xrRef := map[string]any{"apiVersion": c07APIV, "kind": c07XRKind, "name": "static-xr"}
	condsXR := []any{map[string]any{"type": "Ready", "status": "True", "reason": "XRReason", "lastTransitionTime": "2024-01-01T00:00:00Z"}}
	condsCM := []any{map[string]any{"type": "Ready", "status": "False", "reason": "ClaimReason", "lastTransitionTime": "2024-01-02T00:00:00Z"}}
	return []c07Pin{
		{
			// Suspect B: keys that merely end in kubernetes.io / k8s.io, and bare
			// keys, are not Kubernetes-reserved and must reach the XR.
			name:  "lookalike-and-bare-keys-propagate",
			claim: c07PinClaim(mixed(), mixed(), map[string]any{"foo": "a"}, nil),
			syncs: 2,
			expect: func(t *testing.T, o c07Obs) {
				for _, kind := range []string{"labels", "annotations"} {
					m := c07M(verifsim.Meta(o.xrA)[kind])
					for k, class := range mixed() {
						_, has := m[k]
						if has == (class == "reserved") {
							t.Errorf("XR %s: key %q (%s) present=%v", kind, k, class, has)
						}
					}
				}
			},
		},
		{
			name: "collisions-at-depth-2-and-every-machinery-field",
			claim: c07PinClaim(nil, map[string]any{c07ExternalName: "claim-ext"}, map[string]any{
				"parameters": map[string]any{"resourceRef": "user-value", "compositionRef": map[string]any{"name": "user-comp"}, "size": int64(0)},
				"conditions": "user-spec-conditions", "foo": "",
				"resourceRef": xrRef, "compositeDeletePolicy": "Foreground",
				"writeConnectionSecretToRef":  map[string]any{"name": "claim-secret"},
				"publishConnectionDetailsTo":  map[string]any{"name": "claim-pub", "configRef": map[string]any{"name": "claim-cfg"}},
				"compositionSelector":         map[string]any{"matchLabels": map[string]any{"resourceRef": "x"}},
				"compositionRevisionSelector": map[string]any{"matchLabels": map[string]any{"a": "b"}},
				"compositionUpdatePolicy":     "Automatic", "compositionRevisionRef": map[string]any{"name": "claim-rev"},
			}, map[string]any{"conditions": condsCM, "connectionDetails": map[string]any{"lastPublishedTime": "2024-02-01T00:00:00Z"}, "ready": true, "x": map[string]any{"conditions": "old"}}),
			xr: c07PinXR(map[string]any{"kubernetes.io/own": "xr"}, map[string]any{c07ExternalName: "xr-ext"}, map[string]any{
				"parameters": map[string]any{"resourceRef": "xr-value"}, "foo": "",
				"compositionRef": map[string]any{"name": "xr-comp"}, "compositionRevisionRef": map[string]any{"name": "xr-rev"}, "compositionUpdatePolicy": "Automatic",
				"resourceRefs":               []any{map[string]any{"apiVersion": "nop.example.org/v1", "kind": "Composed", "name": "a"}},
				"writeConnectionSecretToRef": map[string]any{"name": "xr-secret", "namespace": "crossplane-system"},
				"publishConnectionDetailsTo": map[string]any{"name": "xr-pub", "configRef": map[string]any{"name": "xr-cfg"}},
			}, map[string]any{"conditions": condsXR, "connectionDetails": map[string]any{"lastPublishedTime": "2024-03-01T00:00:00Z"}, "claimConditionTypes": []any{"Custom"},
				"ready": false, "resourceRef": "user-status", "x": map[string]any{"conditions": "user-cond", "connectionDetails": "user-cd"}}),
			syncs: 2,
			expect: func(t *testing.T, o c07Obs) {
				eq := func(what string, got, want any) {
					if !c07Eq(got, want) {
						t.Errorf("%s = %s, want %s", what, verifkit.JSON(got), verifkit.JSON(want))
					}
				}
				xs, cs, cst := c07Spec(o.xrA), c07Spec(o.cmA), c07Status_(o.cmA)
				eq("XR spec.parameters.resourceRef", c07M(xs["parameters"])["resourceRef"], "user-value")
				eq("XR spec.parameters.compositionRef", c07M(xs["parameters"])["compositionRef"], map[string]any{"name": "user-comp"})
				eq("XR spec.conditions", xs["conditions"], "user-spec-conditions")
				eq("XR spec.resourceRef", xs["resourceRef"], nil)
				eq("XR spec.compositeDeletePolicy", xs["compositeDeletePolicy"], nil)
				eq("XR spec.writeConnectionSecretToRef", xs["writeConnectionSecretToRef"], map[string]any{"name": "xr-secret", "namespace": "crossplane-system"})
				eq("XR spec.compositionRevisionRef", xs["compositionRevisionRef"], map[string]any{"name": "xr-rev"})
				eq("XR external name", c07M(verifsim.Meta(o.xrA)["annotations"])[c07ExternalName], "xr-ext")
				eq("claim external name", c07M(verifsim.Meta(o.cmA)["annotations"])[c07ExternalName], "xr-ext")
				eq("claim spec.compositionRef", cs["compositionRef"], map[string]any{"name": "xr-comp"})
				eq("claim spec.compositionRevisionRef", cs["compositionRevisionRef"], map[string]any{"name": "xr-rev"})
				eq("claim status.x", cst["x"], map[string]any{"conditions": "user-cond", "connectionDetails": "user-cd"})
				eq("claim status.ready", cst["ready"], false)
				eq("claim status.resourceRef", cst["resourceRef"], "user-status")
				eq("claim status.claimConditionTypes", cst["claimConditionTypes"], nil)
				eq("claim status.connectionDetails", cst["connectionDetails"], map[string]any{"lastPublishedTime": "2024-02-01T00:00:00Z"})
			},
		},
		{
			// The XR's external name, once set, survives a sync from a claim that
			// has no annotation left after the reserved-key filter: the name came
			// from the claim at first (so the claim's field manager owns it on the
			// XR under server-side apply), then the user replaced the claim's
			// annotations by none (sync 2) and by reserved-only ones (sync 3).
			name:  "external-name-survives-claim-without-surviving-annotations",
			claim: c07PinClaim(nil, map[string]any{c07ExternalName: "claim-ext", "example.org/x": "v"}, map[string]any{"foo": "a"}, nil),
			syncs: 3,
			between: func(t *testing.T, s *verifsim.Sim, i int) {
				cur := s.Get(c07ClaimKey("c"))
				md := verifsim.Meta(cur)
				delete(md, "annotations")
				if i == 2 {
					md["annotations"] = map[string]any{"kubectl.kubernetes.io/last-applied-configuration": "{}", "deep.sub.k8s.io/y": "v"}
				}
				delete(cur, "status")
				if err := c07Put(s, c07ActorUser, cur); err != nil {
					t.Fatalf("HARNESS: %v", err)
				}
			},
			expect: func(t *testing.T, o c07Obs) {
				if got := c07Str(c07M(verifsim.Meta(o.xrA)["annotations"])[c07ExternalName]); got != "claim-ext" {
					t.Errorf("XR external name = %q, want \"claim-ext\"", got)
				}
			},
		},
		{
			// Same, with a name the XR side chose itself after the first sync.
			name:  "xr-side-external-name-survives-claim-without-annotations",
			claim: c07PinClaim(nil, nil, map[string]any{"foo": "a"}, nil),
			syncs: 4,
			between: func(t *testing.T, s *verifsim.Sim, i int) {
				cm := s.Get(c07ClaimKey("c"))
				switch i {
				case 1: // the XR side names the external resource
					xr := s.Get(c07XRKey(c07Str(c07M(c07Spec(cm)["resourceRef"])["name"])))
					verifsim.Meta(xr)["annotations"] = map[string]any{c07ExternalName: "xr-side-ext"}
					delete(xr, "status")
					if err := c07Put(s, c07ActorXR, xr); err != nil {
						t.Fatalf("HARNESS: %v", err)
					}
				default: // the user drops the name that came back to the claim
					delete(verifsim.Meta(cm), "annotations")
					delete(cm, "status")
					if err := c07Put(s, c07ActorUser, cm); err != nil {
						t.Fatalf("HARNESS: %v", err)
					}
				}
			},
			expect: func(t *testing.T, o c07Obs) {
				if o.xrB != nil && c07Str(c07M(verifsim.Meta(o.xrB)["annotations"])[c07ExternalName]) != "" {
					if got := c07Str(c07M(verifsim.Meta(o.xrA)["annotations"])[c07ExternalName]); got != "xr-side-ext" {
						t.Errorf("XR external name = %q, want \"xr-side-ext\"", got)
					}
				}
			},
		},
		{
			name: "manual-policy-claim-revision-reaches-xr-and-xr-revision-stays-off-claim",
			claim: c07PinClaim(nil, nil, map[string]any{"foo": "a", "resourceRef": xrRef, "compositionUpdatePolicy": "Manual", "compositionRevisionRef": map[string]any{"name": "claim-rev"}},
				map[string]any{"conditions": condsCM}),
			xr:    c07PinXR(nil, nil, map[string]any{"foo": "a", "compositionUpdatePolicy": "Manual", "compositionRevisionRef": map[string]any{"name": "xr-rev"}}, nil),
			syncs: 2,
			expect: func(t *testing.T, o c07Obs) {
				if got := c07Spec(o.xrA)["compositionRevisionRef"]; !c07Eq(got, map[string]any{"name": "claim-rev"}) {
					t.Errorf("XR revision = %s, want the claim's", verifkit.JSON(got))
				}
				if got := c07Spec(o.cmA)["compositionRevisionRef"]; !c07Eq(got, map[string]any{"name": "claim-rev"}) {
					t.Errorf("claim revision = %s, want its own", verifkit.JSON(got))
				}
			},
		},
	}
}

func c07RunPin(t *testing.T, w *c07World, syncer string, p c07Pin) {
	s := verifsim.New(c07Scheme)
	s.ClusterScoped = func(gk schema.GroupKind) bool { return gk == c07XRGK }
	utilrand.Seed(1)
	if p.xr != nil {
		xr := verifsim.DeepCopy(p.xr)
		if errs := c07Admit(xr, w.xrSS, w.xrVal); len(errs) > 0 {
			t.Fatalf("HARNESS: pinned XR invalid: %v", errs)
		}
		if err := c07Put(s, c07ActorUser, xr); err != nil {
			t.Fatalf("HARNESS: %v", err)
		}
	}
	cm := verifsim.DeepCopy(p.claim)
	if errs := c07Admit(cm, w.claimSS, w.claimVal); len(errs) > 0 {
		t.Fatalf("HARNESS: pinned claim invalid: %v", errs)
	}
	if err := c07Put(s, c07ActorUser, cm); err != nil {
		t.Fatalf("HARNESS: %v", err)
	}
	for i := 0; i < p.syncs; i++ {
		if i > 0 && p.between != nil {
			p.between(t, s, i)
		}
		obs, err := c07Sync(s, syncer, "c")
		if err != nil {
			t.Fatalf("Sync #%d: %v\n%s", i+1, err, c07Dump(obs))
		}
		if v := c07Judge(obs); len(v) > 0 {
			t.Errorf("C07 violated (sync #%d):\n  - %s\n%s", i+1, strings.Join(v, "\n  - "), c07Dump(obs))
		}
		if p.expect != nil {
			p.expect(t, obs)
		}
		if err := c07ReconcilerStatusWrite(s, "c"); err != nil {
			t.Fatalf("HARNESS: %v", err)
		}
	}
}

// TestVerifC07Pinned: hand-written rows (regressions and the classes the
// generated search must not lose).
func TestVerifC07Pinned(t *testing.T) {
	rec := verifkit.New(t, c07Prop, "pinned rows x both syncers")
	w := c07PinnedWorld(t)
	for _, p := range c07Pins() {
		for _, syncer := range []string{"ssa", "csa"} {
			p, syncer := p, syncer
			t.Run(p.name+"/"+syncer, func(t *testing.T) {
				rec.Eval()
				rec.Label("pinned:" + p.name)
				c07RunPin(t, w, syncer, p)
			})
		}
	}
	for _, row := range []struct {
		key  string
		keep bool
	}{
		{"kubernetes.io/x", false}, {"k8s.io/x", false}, {"kubectl.kubernetes.io/last-applied-configuration", false}, {"a.b.k8s.io/x", false},
		{"notkubernetes.io/x", true}, {"notk8s.io/x", true}, {"k8s.io", true}, {"kubernetes.io", true}, {"x.k8s.io", true},
		{"kubernetes.io.example.com/x", true}, {"example.org/kubernetes.io", true}, {"app", true},
	} {
		rec.Eval()
		_, kept := withoutReservedK8sEntries(map[string]string{row.key: "v"})[row.key]
		if kept != row.keep {
			t.Errorf("withoutReservedK8sEntries: key %q kept=%v, want %v (reserved = prefix before the slash is kubernetes.io, k8s.io or a sub-domain)", row.key, kept, row.keep)
		}
	}
}

// TestVerifC07KnownLateInit is the pinned reproducer of the known finding
// csa-late-init-spec (see known_findings.d/C07.json).
func TestVerifC07KnownLateInit(t *testing.T) {
	rec := verifkit.New(t, c07Prop, "known-finding reproducer: client-side syncer late-initialises claim spec from XR spec")
	rec.Eval()
	w := c07PinnedWorld(t)
	s := verifsim.New(c07Scheme)
	s.ClusterScoped = func(gk schema.GroupKind) bool { return gk == c07XRGK }
	utilrand.Seed(1)
	xr := c07PinXR(nil, nil, map[string]any{
		"parameters": map[string]any{"resourceRef": "same", "size": int64(2)}, "foo": "from-xr", "compositionUpdatePolicy": "Automatic",
		"compositionSelector": map[string]any{"matchLabels": map[string]any{"env": "xr"}},
	}, nil)
	cm := c07PinClaim(nil, nil, map[string]any{
		"parameters":  map[string]any{"resourceRef": "same"},
		"resourceRef": map[string]any{"apiVersion": c07APIV, "kind": c07XRKind, "name": "static-xr"},
	}, map[string]any{"ready": true})
	for _, o := range []verifsim.Obj{xr, cm} {
		ss, val := w.xrSS, w.xrVal
		if o["kind"] == c07ClaimKind {
			ss, val = w.claimSS, w.claimVal
		}
		if errs := c07Admit(o, ss, val); len(errs) > 0 {
			t.Fatalf("HARNESS: invalid object: %v", errs)
		}
		if err := c07Put(s, c07ActorUser, o); err != nil {
			t.Fatalf("HARNESS: %v", err)
		}
	}
	obs, err := c07Sync(s, "csa", "c")
	if err != nil {
		t.Fatalf("Sync: %v", err)
	}
	var leaks, other []string
	for _, v := range c07Judge(obs) {
		if strings.HasPrefix(v, "XR->claim:") && strings.Contains(v, "claim spec field") {
			leaks = append(leaks, v)
		} else {
			other = append(other, v)
		}
	}
	if len(other) > 0 {
		t.Fatalf("C07 violated beyond the known finding:\n  - %s\n%s", strings.Join(other, "\n  - "), c07Dump(obs))
	}
	// Classifier: every leaked path is an XR spec path the claim lacked.
	want := c07LateInitPaths(c07Spec(obs.cmB), c07Spec(obs.xrB))
	if len(leaks) > 0 && len(want) == 0 {
		t.Fatalf("claim spec changed although the XR had nothing the claim lacked:\n  - %s", strings.Join(leaks, "\n  - "))
	}
	switch {
	case len(leaks) > 0 && verifkit.OpenFinding(c07Prop, c07KeyLateInit):
		rec.KnownReproduced(fmt.Sprintf("key=%s the client-side syncer copied XR spec fields the claim lacked into the claim (%d top-level fields: user field foo, nested parameters.size, compositionSelector, compositionUpdatePolicy)", c07KeyLateInit, len(leaks)))
	case len(leaks) > 0:
		t.Fatalf("the client-side syncer copied XR spec fields into the claim:\n  - %s\n%s", strings.Join(leaks, "\n  - "), c07Dump(obs))
	}
}
