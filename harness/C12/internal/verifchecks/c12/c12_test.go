//go:build verif

// Package c12 decides property C12: composition revisions form a faithful,
// monotonic history, and XRs select revisions according to their update policy.
//
// The real composition.Reconciler (revision controller) and the real
// composite.APIRevisionFetcher (XR side) run against the simulated API server.
// The oracle is a small history model that does not use the content hash: a
// revision is attributed to the content the Composition had at the instant the
// revision was created (write monitor), and all invariants are stated over
// the stored objects and the write log.
package c12

import (
	"context"
	"encoding/json"
	"fmt"
	"reflect"
	"sort"
	"strings"
	"testing"
	"time"

	corev1 "k8s.io/api/core/v1"
	metav1 "k8s.io/apimachinery/pkg/apis/meta/v1"
	"k8s.io/apimachinery/pkg/runtime"
	"k8s.io/apimachinery/pkg/types"
	"k8s.io/client-go/util/workqueue"
	"pgregory.net/rapid"
	"sigs.k8s.io/controller-runtime/pkg/client"
	kevent "sigs.k8s.io/controller-runtime/pkg/event"
	"sigs.k8s.io/controller-runtime/pkg/manager"
	"sigs.k8s.io/controller-runtime/pkg/reconcile"

	xpv1 "github.com/crossplane/crossplane-runtime/apis/common/v1"
	"github.com/crossplane/crossplane-runtime/pkg/logging"
	"github.com/crossplane/crossplane-runtime/pkg/resource"

	v1 "github.com/crossplane/crossplane/apis/apiextensions/v1"
	"github.com/crossplane/crossplane/internal/controller/apiextensions/composite"
	"github.com/crossplane/crossplane/internal/controller/apiextensions/composition"
	"github.com/crossplane/crossplane/internal/controller/apiextensions/definition"
	"github.com/crossplane/crossplane/internal/verifenv"
	"github.com/crossplane/crossplane/internal/verifkit"
	"github.com/crossplane/crossplane/internal/verifsim"
)

const (
	compName = "comp"
	apiGroup = "apiextensions.crossplane.io"
)

var (
	compKey = verifsim.Key{Group: apiGroup, Kind: "Composition", Name: compName}
	revGK   = v1.CompositionRevisionGroupVersionKind.GroupKind()
)

// ---------------------------------------------------------------------------
// contents

// content is one "content" of the Composition: what the documentation of
// v1.LatestRevision calls the state that decides whether a new revision is
// needed (labels, annotations and spec).
type content struct {
	Spec   int               `json:"spec"`
	Labels map[string]string `json:"labels"`
	Ann    int               `json:"ann"`
}

const (
	nSpecs = 4
	nAnns  = 3
)

func raw(s string) *runtime.RawExtension { return &runtime.RawExtension{Raw: []byte(s)} }

func specVariant(i int) v1.CompositionSpec {
	pipeline := v1.CompositionModePipeline
	resources := v1.CompositionModeResources
	tr := v1.TypeReference{APIVersion: "example.org/v1", Kind: "XThing"}
	switch i {
	case 0:
		return v1.CompositionSpec{CompositeTypeRef: tr, Mode: &pipeline, Pipeline: []v1.PipelineStep{{Step: "a", FunctionRef: v1.FunctionReference{Name: "fn-a"}}}}
	case 1:
		return v1.CompositionSpec{CompositeTypeRef: tr, Mode: &pipeline, Pipeline: []v1.PipelineStep{
			{Step: "a", FunctionRef: v1.FunctionReference{Name: "fn-a"}},
			{Step: "b", FunctionRef: v1.FunctionReference{Name: "fn-b"}, Input: raw(`{"apiVersion":"fn.example.org/v1","kind":"Input","v":1}`)},
		}}
	case 2:
		ns := "conn"
		name := "r"
		return v1.CompositionSpec{CompositeTypeRef: tr, Mode: &resources, WriteConnectionSecretsToNamespace: &ns,
			Resources: []v1.ComposedTemplate{{Name: &name, Base: runtime.RawExtension{Raw: []byte(`{"apiVersion":"example.org/v1","kind":"KindA","spec":{"v":"x"}}`)}}}}
	default:
		return v1.CompositionSpec{CompositeTypeRef: tr, Mode: &pipeline, Pipeline: []v1.PipelineStep{{Step: "a", FunctionRef: v1.FunctionReference{Name: "fn-a"}}},
			PublishConnectionDetailsWithStoreConfigRef: &v1.StoreConfigReference{Name: "default"}}
	}
}

// Label keys a Composition (and an XR's compositionRevisionSelector) may use:
// plain keys and keys under the crossplane.io domain, e.g. the documented
// crossplane.io/xrd. Domain restriction, stated precisely: ONLY the two keys the
// revision controller itself sets on a revision - v1.LabelCompositionName
// (crossplane.io/composition-name) and v1.LabelCompositionHash
// (crossplane.io/composition-hash) - are never used as Composition labels or
// selector keys; every other key, under crossplane.io/ or not, is in scope.
var labelKeys = []string{"channel", "tier", "crossplane.io/xrd", "crossplane.io/foo", "sub.crossplane.io/x"}

var labelVals = map[string][]string{
	"channel":             {"stable", "beta"},
	"tier":                {"gold", "silver"},
	"crossplane.io/xrd":   {"xthings.example.org", "xothers.example.org"},
	"crossplane.io/foo":   {"a", "b"},
	"sub.crossplane.io/x": {"1", "2"},
}

func reservedLabel(k string) bool {
	return k == v1.LabelCompositionName || k == v1.LabelCompositionHash
}

func xpDomain(k string) bool { return strings.Contains(k, "crossplane.io/") }

func hasXPDomainKey(m map[string]string) bool {
	for k := range m {
		if xpDomain(k) {
			return true
		}
	}
	return false
}

func copyLabels(m map[string]string) map[string]string {
	if len(m) == 0 {
		return nil
	}
	o := make(map[string]string, len(m))
	for k, v := range m {
		o[k] = v
	}
	return o
}

// withoutReserved returns labels minus the two keys the revision controller sets itself.
func withoutReserved(m map[string]string) map[string]string {
	o := map[string]string{}
	for k, v := range m {
		if !reservedLabel(k) {
			o[k] = v
		}
	}
	return o
}

func sameLabels(a, b map[string]string) bool {
	if len(a) != len(b) {
		return false
	}
	for k, v := range a {
		if bv, ok := b[k]; !ok || bv != v {
			return false
		}
	}
	return true
}

// genLabels draws 0-3 labels from the key pool.
func genLabels(t *rapid.T) map[string]string {
	m := map[string]string{}
	for i, n := 0, rapid.IntRange(0, 3).Draw(t, "nlabels"); i < n; i++ {
		k := rapid.SampledFrom(labelKeys).Draw(t, "labelkey")
		m[k] = rapid.SampledFrom(labelVals[k]).Draw(t, "labelval")
	}
	return copyLabels(m)
}

// changeLabels returns labels that differ from base in exactly one key (added, removed, or other value).
func changeLabels(t *rapid.T, base map[string]string) map[string]string {
	out := map[string]string{}
	for k, v := range base {
		out[k] = v
	}
	k := rapid.SampledFrom(labelKeys).Draw(t, "dlabelkey")
	cur, ok := base[k]
	switch {
	case !ok:
		out[k] = rapid.SampledFrom(labelVals[k]).Draw(t, "dlabelval")
	case rapid.Bool().Draw(t, "dlabelremove"):
		delete(out, k)
	default:
		for _, v := range labelVals[k] {
			if v != cur {
				out[k] = v
			}
		}
	}
	return copyLabels(out)
}

func annVariant(i int) map[string]string {
	switch i {
	case 0:
		return nil
	case 1:
		return map[string]string{"example.org/note": "one"}
	default:
		return map[string]string{"example.org/note": "two"}
	}
}

// genSelector draws the matchLabels of an XR's compositionRevisionSelector (nil = no
// selector). matchLabels is required by the XR CRD schema (internal/xcrd), so a selector always
// has it (possibly empty). Selectors are mostly built from the labels of one of the contents, so
// that they match something; sometimes from an arbitrary pair of the key pool.
func genSelector(t *rapid.T, pool []content) (map[string]string, string) {
	switch rapid.IntRange(0, 5).Draw(t, "selkind") {
	case 0:
		return nil, "none"
	case 1:
		return map[string]string{}, "empty"
	case 2:
		k := rapid.SampledFrom(labelKeys).Draw(t, "selkey")
		return map[string]string{k: rapid.SampledFrom(labelVals[k]).Draw(t, "selval")}, "any-pair"
	default:
		c := pool[rapid.IntRange(0, len(pool)-1).Draw(t, "selcontent")]
		ks := make([]string, 0, len(c.Labels))
		for k := range c.Labels {
			ks = append(ks, k)
		}
		sort.Strings(ks)
		m := map[string]string{}
		for _, k := range ks {
			if rapid.IntRange(0, 3).Draw(t, "selkeep") != 0 {
				m[k] = c.Labels[k]
			}
		}
		return m, "from-content"
	}
}

// genPool draws 4 pairwise distinct contents: a base, a spec-only change of
// it, a label-only change of it, and an annotation-only change of it.
func genPool(t *rapid.T) []content {
	b := content{Spec: rapid.IntRange(0, nSpecs-1).Draw(t, "spec"), Labels: genLabels(t), Ann: rapid.IntRange(0, nAnns-1).Draw(t, "ann")}
	s := content{Spec: (b.Spec + rapid.IntRange(1, nSpecs-1).Draw(t, "dspec")) % nSpecs, Labels: b.Labels, Ann: b.Ann}
	l := content{Spec: b.Spec, Labels: changeLabels(t, b.Labels), Ann: b.Ann}
	a := content{Spec: b.Spec, Labels: b.Labels, Ann: (b.Ann + rapid.IntRange(1, nAnns-1).Draw(t, "dann")) % nAnns}
	return []content{b, s, l, a}
}

// ---------------------------------------------------------------------------
// world: simulated API server + history model

type fakeManager struct {
	manager.Manager
	c client.Client
}

func (m fakeManager) GetClient() client.Client { return m.c }

// switchClient is the client a long-lived Reconciler holds; each reconcile run plugs its own
// fault-injecting verifsim client in.
type switchClient struct{ client.Client }

type xrSlot struct {
	name string
	made bool
}

type world struct {
	fail func(format string, a ...any)
	sim  *verifsim.Sim
	pool []content

	cur      int            // index into pool of the Composition's current content
	specJSON map[int]string // content -> stored JSON of the Composition's spec when it had that content
	revOf    map[int]string // content -> name of the revision created while the Composition had that content
	ofRev    map[string]int
	done     map[int]bool // contents for which a reconcile succeeded while they were current
	synced   bool         // a reconcile succeeded since the last edit / backup-restore
	seen     map[int]bool // contents the Composition has had

	xrs  []xrSlot
	hist []string

	// Watch-driven XR reconciles. pending are CompositionRevision create events not yet delivered
	// to the XR controller's watch handler; queue is the XR controller's work queue (XR names);
	// unnotified counts changes of revisions for which no create event exists (renumbering,
	// adoption, loss of owner references); fetchEpoch is the value of unnotified at an XR's last
	// reconcile that was not cut short by an injected fault.
	// The revision controller is ONE long-lived composition.Reconciler, as in a running
	// Crossplane: it is rebuilt only where the controller process would restart (after an
	// injected crash, on the drawn "restart" action, and for each rewound branch of a fault sweep).
	rc       *composition.Reconciler
	rcClient *switchClient
	rcRuns   int // reconciles served by the current instance
	// class counters: metadata-only edits (generation unchanged) followed by a reconcile of the same instance
	metaOnlyPending bool
	metaOnlySameRC  int

	pending    []*v1.CompositionRevision
	queue      map[string]bool
	unnotified int
	fetchEpoch map[string]int
	label      func(string) // evidence labels (nil in pinned tests)

	// per-history statistics
	renumbers, adoptions, creates, strips, faultHits int
}

func newWorld(pool []content, first int, fail func(string, ...any)) *world {
	w := &world{fail: fail, sim: verifsim.New(verifsim.NewScheme()), pool: pool, cur: first,
		specJSON: map[int]string{}, revOf: map[int]string{}, ofRev: map[string]int{}, done: map[int]bool{}, seen: map[int]bool{},
		queue: map[string]bool{}, fetchEpoch: map[string]int{}}
	for i := 0; i < 3; i++ {
		w.xrs = append(w.xrs, xrSlot{name: fmt.Sprintf("xr%d", i)})
	}
	w.sim.AddMonitor(w.monitor)
	c := w.pool[first]
	comp := &v1.Composition{ObjectMeta: metav1.ObjectMeta{Name: compName, Labels: copyLabels(c.Labels), Annotations: annVariant(c.Ann)}, Spec: specVariant(c.Spec)}
	if err := w.sim.Client("user").Create(context.Background(), comp); err != nil {
		panic(err)
	}
	w.noteContent()
	w.hist = append(w.hist, fmt.Sprintf("create(%d)", first))
	return w
}

func (w *world) noteContent() {
	w.seen[w.cur] = true
	b, _ := json.Marshal(w.sim.Get(compKey)["spec"])
	w.specJSON[w.cur] = string(b)
}

func (w *world) failf(format string, a ...any) {
	w.fail("%s\n  pool: %s\n  history: %s\n  revisions: %s", fmt.Sprintf(format, a...), verifkit.JSON(w.pool), strings.Join(w.hist, " ; "), w.describeRevs())
}

func specMinusRevision(o verifsim.Obj) string {
	spec, _ := o["spec"].(map[string]any)
	m := map[string]any{}
	for k, v := range spec {
		if k != "revision" {
			m[k] = v
		}
	}
	b, _ := json.Marshal(m)
	return string(b)
}

func revNumber(o verifsim.Obj) int64 {
	switch n := verifsim.Nested(o, "spec", "revision").(type) {
	case int64:
		return n
	case float64:
		return int64(n)
	case int:
		return int64(n)
	case json.Number:
		i, _ := n.Int64()
		return i
	}
	return 0
}

// monitor is called at the instant of every committed or refused write.
func (w *world) monitor(v *verifsim.View, wr *verifsim.Write) {
	if wr.Key.GK() != revGK || wr.Err != "" || wr.DryRun {
		return
	}
	name := wr.Key.Name
	switch {
	case wr.Before == nil && wr.After != nil: // create
		w.creates++
		comp := v.Get(compKey)
		cs, _ := json.Marshal(comp["spec"])
		if got := specMinusRevision(wr.After); got != string(cs) {
			v.Violate("faithful: revision %s was created with spec (minus revision) %s but the Composition's spec is %s", name, got, cs)
		}
		// A faithful copy carries ALL labels of the Composition (that is what revision selectors
		// match), and nothing but them and the two labels the controller sets itself.
		if cl, rl := verifsim.Labels(comp), withoutReserved(verifsim.Labels(wr.After)); !sameLabels(cl, rl) {
			v.Violate("faithful: revision %s was created with labels %v (apart from %s and %s) but the Composition's labels are %v", name, rl, v1.LabelCompositionName, v1.LabelCompositionHash, cl)
		}
		if other, ok := w.revOf[w.cur]; ok {
			v.Violate("exactly-one: revision %s was created for content %d %+v which is already captured by revision %s", name, w.cur, w.pool[w.cur], other)
			return
		}
		w.revOf[w.cur] = name
		w.ofRev[name] = w.cur
		// The watch of the XR controller will see a create event with this object.
		ev := &v1.CompositionRevision{}
		if err := runtime.DefaultUnstructuredConverter.FromUnstructured(wr.After, ev); err != nil {
			panic(err)
		}
		w.pending = append(w.pending, ev)
	case wr.Removed || wr.After == nil:
		v.Violate("history: revision %s was deleted by %s", name, wr.Actor)
	default:
		b, a := revNumber(wr.Before), revNumber(wr.After)
		if a < b {
			v.Violate("monotonic: %s %s changed the number of revision %s from %d DOWN to %d", wr.Actor, wr.Verb, name, b, a)
		}
		if a > b {
			w.renumbers++
		}
		if a != b || verifsim.ControllerUID(wr.Before) != verifsim.ControllerUID(wr.After) {
			// Which revision is the highest-numbered controlled one may change here, and the XR
			// controller's watch handler only handles create events.
			w.unnotified++
		}
		if sb, sa := specMinusRevision(wr.Before), specMinusRevision(wr.After); sb != sa {
			v.Violate("immutable: %s %s edited the spec of revision %s beyond its number:\n before %s\n after  %s", wr.Actor, wr.Verb, name, sb, sa)
		}
		if lb, la := verifsim.Labels(wr.Before), verifsim.Labels(wr.After); !reflect.DeepEqual(lb, la) {
			v.Violate("immutable: %s %s edited the labels of revision %s: %v -> %v", wr.Actor, wr.Verb, name, lb, la)
		}
		if verifsim.ControllerUID(wr.Before) == "" && verifsim.ControllerUID(wr.After) != "" {
			w.adoptions++
		}
	}
}

func (w *world) drain(ctx string) {
	if vs := w.sim.TakeViolations(); len(vs) > 0 {
		w.failf("%s: %s", ctx, strings.Join(vs, "\n"))
	}
}

// revs returns the stored revisions that carry this Composition's name label, by name.
func (w *world) revs() map[string]verifsim.Obj {
	out := map[string]verifsim.Obj{}
	for _, k := range w.sim.Keys(revGK) {
		o := w.sim.Get(k)
		if verifsim.Labels(o)[v1.LabelCompositionName] == compName {
			out[k.Name] = o
		}
	}
	return out
}

func (w *world) describeRevs() string {
	var out []string
	uid := verifsim.MetaString(w.sim.Get(compKey), "uid")
	for _, k := range w.sim.Keys(revGK) {
		o := w.sim.Get(k)
		c, ok := w.ofRev[k.Name]
		cs := "?"
		if ok {
			cs = fmt.Sprint(c)
		}
		out = append(out, fmt.Sprintf("%s#%d(content %s, controlled=%v)", k.Name, revNumber(o), cs, verifsim.ControllerUID(o) == uid))
	}
	return "[" + strings.Join(out, " ") + "] current content " + fmt.Sprint(w.cur)
}

// checkHistory evaluates the state invariants of the property.
func (w *world) checkHistory(ctx string) {
	w.drain(ctx)
	revs := w.revs()
	// Every content that was reconciled successfully is captured by exactly one revision
	// (uniqueness is enforced at creation by the monitor) whose spec equals that content.
	idxs := make([]int, 0, len(w.done))
	for i := range w.done {
		idxs = append(idxs, i)
	}
	sort.Ints(idxs)
	for _, i := range idxs {
		name, ok := w.revOf[i]
		if !ok {
			w.failf("%s: captured: content %d %+v was reconciled successfully but no revision was ever created for it", ctx, i, w.pool[i])
		}
		o, ok := revs[name]
		if !ok {
			w.failf("%s: captured: revision %s of content %d no longer exists (or lost its composition-name label)", ctx, name, i)
		}
		if got := specMinusRevision(o); got != w.specJSON[i] {
			w.failf("%s: faithful: revision %s of content %d has spec (minus revision) %s, the content's spec is %s", ctx, name, i, got, w.specJSON[i])
		}
		if got := withoutReserved(verifsim.Labels(o)); !sameLabels(got, w.pool[i].Labels) {
			w.failf("%s: faithful: revision %s of content %d has labels %v (apart from the two set by the controller), the content's labels are %v", ctx, name, i, got, w.pool[i].Labels)
		}
	}
	if !w.synced {
		return
	}
	// After a successful reconcile the revision of the current content has the strictly highest number.
	name, ok := w.revOf[w.cur]
	if !ok {
		w.failf("%s: captured: reconcile succeeded but the current content %d has no revision", ctx, w.cur)
	}
	curRev, ok := revs[name]
	if !ok {
		w.failf("%s: captured: revision %s of the current content is gone", ctx, name)
	}
	n := revNumber(curRev)
	if n < 1 {
		w.failf("%s: revision %s of the current content has number %d (<1)", ctx, name, n)
	}
	names := make([]string, 0, len(revs))
	for k := range revs {
		names = append(names, k)
	}
	sort.Strings(names)
	uid := verifsim.MetaString(w.sim.Get(compKey), "uid")
	for _, other := range names {
		// "controlled by its Composition" is what makes a revision eligible for XRs: the revision
		// controller's documented contract is to re-add the owner reference to all revisions of the
		// Composition, so after a successful reconcile none may be left uncontrolled in the store.
		if verifsim.ControllerUID(revs[other]) != uid {
			w.failf("%s: adopted: after a successful reconcile revision %s is not controlled by the Composition (owner references %v)", ctx, other, verifsim.OwnerRefs(revs[other]))
		}
		if other == name {
			continue
		}
		if m := revNumber(revs[other]); m >= n {
			w.failf("%s: highest: after a successful reconcile revision %s of the current content %d has number %d, but revision %s has number %d (must be strictly lower)", ctx, name, w.cur, n, other, m)
		}
	}
}

// --- actions ---------------------------------------------------------------

// edit: the user changes the Composition to pool[i].
func (w *world) edit(i int) string {
	c := w.pool[i]
	cl := w.sim.Client("user")
	comp := &v1.Composition{}
	if err := cl.Get(context.Background(), types.NamespacedName{Name: compName}, comp); err != nil {
		panic(err)
	}
	comp.SetLabels(copyLabels(c.Labels))
	comp.SetAnnotations(annVariant(c.Ann))
	comp.Spec = specVariant(c.Spec)
	genBefore := comp.GetGeneration()
	if err := cl.Update(context.Background(), comp); err != nil {
		panic(err)
	}
	old := w.pool[w.cur]
	// The API server bumps metadata.generation on spec changes only: a label- or
	// annotation-only edit is a real update that leaves the generation unchanged.
	specChanged := c.Spec != old.Spec
	if got := comp.GetGeneration(); specChanged && got != genBefore+1 || !specChanged && got != genBefore {
		panic(fmt.Sprintf("harness: generation %d -> %d on an edit with spec change = %v", genBefore, got, specChanged))
	}
	if !specChanged && i != w.cur {
		w.metaOnlyPending = true
	}
	kind := "noop"
	switch {
	case i == w.cur:
	case w.seen[i]:
		kind = "revert"
	case c.Spec != old.Spec:
		kind = "spec"
	case !sameLabels(c.Labels, old.Labels):
		kind = "label-only"
	case c.Ann != old.Ann:
		kind = "annotation-only"
	}
	if i != w.cur {
		w.synced = false
	}
	w.cur = i
	w.noteContent()
	w.hist = append(w.hist, fmt.Sprintf("edit(%d)", i))
	return kind
}

// restart replaces the revision controller by a fresh instance (process restart).
func (w *world) restart() {
	w.rcClient = &switchClient{}
	w.rc = composition.NewReconciler(fakeManager{c: w.rcClient})
	w.rcRuns = 0
	w.metaOnlyPending = false
}

// reconcileRevisions runs the long-lived revision controller once with a fault plan.
func (w *world) reconcileRevisions(plan map[int]verifsim.Fault) (*verifsim.Run, reconcile.Result, error) {
	if w.rc == nil {
		w.restart()
	}
	run := w.sim.NewRun("revision-controller", plan)
	w.rcClient.Client = run.Client()
	if w.metaOnlyPending && w.rcRuns > 0 {
		w.metaOnlySameRC++
		if w.label != nil {
			w.label("reconcile:metadata-only edit, generation unchanged, same reconciler instance")
		}
	}
	w.metaOnlyPending = false
	w.rcRuns++
	res, err := w.rc.Reconcile(context.Background(), reconcile.Request{NamespacedName: types.NamespacedName{Name: compName}})
	if run.Crashed {
		// The injected crash kills the controller process: the next reconcile is served by a new instance.
		w.restart()
	}
	return run, res, err
}

func planString(plan map[int]verifsim.Fault) string {
	if len(plan) == 0 {
		return ""
	}
	ks := make([]int, 0, len(plan))
	for k := range plan {
		ks = append(ks, k)
	}
	sort.Ints(ks)
	var out []string
	for _, k := range ks {
		out = append(out, fmt.Sprintf("%s/%s@%d", plan[k].Kind, plan[k].Err, k))
	}
	return strings.Join(out, ",")
}

// reconcile is the "revision controller reconciles" action. It returns whether the reconcile succeeded.
func (w *world) reconcile(plan map[int]verifsim.Fault) (run *verifsim.Run, ok bool) {
	w.hist = append(w.hist, "reconcile("+planString(plan)+")")
	run, res, err := w.reconcileRevisions(plan)
	ok = err == nil && !res.Requeue && res.RequeueAfter == 0
	hit := false
	for k := range plan {
		if k < run.N {
			hit = true
		}
	}
	if hit {
		w.faultHits++
	}
	if !hit && !ok {
		w.failf("reconcile: a fault-free reconcile of the Composition does not succeed: result %+v, error %v", res, err)
	}
	if ok {
		w.done[w.cur] = true
		w.synced = true
	}
	w.checkHistory(w.hist[len(w.hist)-1])
	return run, ok
}

// strip is the backup/restore action: every revision loses its owner references.
func (w *world) strip() {
	w.hist = append(w.hist, "backup-restore")
	cl := w.sim.Client("backup-restore")
	for _, k := range w.sim.Keys(revGK) {
		rev := &v1.CompositionRevision{}
		if err := cl.Get(context.Background(), types.NamespacedName{Name: k.Name}, rev); err != nil {
			panic(err)
		}
		rev.SetOwnerReferences(nil)
		if err := cl.Update(context.Background(), rev); err != nil {
			panic(err)
		}
	}
	w.strips++
	w.synced = false
	w.checkHistory("backup-restore")
}

// xrSet: the user creates XR slot i, or changes its update policy / revision selector.
func (w *world) xrSet(i, pol int, sel map[string]string) {
	s := &w.xrs[i]
	w.hist = append(w.hist, fmt.Sprintf("xrSet(%s,pol=%d,sel=%s)", s.name, pol, selString(sel)))
	cl := w.sim.Client("user")
	xr := verifenv.NewUnstructuredXR(verifenv.XRGVKDefault, s.name)
	if s.made {
		if err := cl.Get(context.Background(), types.NamespacedName{Name: s.name}, xr); err != nil {
			panic(err)
		}
	}
	xr.SetCompositionReference(&corev1.ObjectReference{Name: compName})
	spec, _ := xr.Object["spec"].(map[string]any)
	switch pol {
	case 0:
		delete(spec, "compositionUpdatePolicy")
	case 1:
		spec["compositionUpdatePolicy"] = string(xpv1.UpdateAutomatic)
	default:
		spec["compositionUpdatePolicy"] = string(xpv1.UpdateManual)
	}
	if sel == nil {
		delete(spec, "compositionRevisionSelector")
	} else {
		ml := map[string]any{}
		for k, v := range sel {
			ml[k] = v
		}
		spec["compositionRevisionSelector"] = map[string]any{"matchLabels": ml}
	}
	var err error
	if s.made {
		err = cl.Update(context.Background(), xr)
	} else {
		err = cl.Create(context.Background(), xr)
	}
	if err != nil {
		panic(err)
	}
	s.made = true
	w.queue[s.name] = true // the XR controller watches its own kind
}

func selString(sel map[string]string) string {
	if sel == nil {
		return "none"
	}
	return verifkit.JSON(sel)
}

func xrRef(o verifsim.Obj) string {
	s, _ := verifsim.Nested(o, "spec", "compositionRevisionRef", "name").(string)
	return s
}

func subset(sel, labels map[string]string) bool {
	for k, v := range sel {
		if lv, ok := labels[k]; !ok || lv != v {
			return false
		}
	}
	return true
}

// xrPolicy reads the update policy ("" = unset) and the revision selector of a stored XR.
func xrPolicy(o verifsim.Obj) (pol string, sel map[string]string, hasSel bool) {
	pol, _ = verifsim.Nested(o, "spec", "compositionUpdatePolicy").(string)
	if m, ok := verifsim.Nested(o, "spec", "compositionRevisionSelector", "matchLabels").(map[string]any); ok {
		hasSel = true
		sel = map[string]string{}
		for k, v := range m {
			sel[k], _ = v.(string)
		}
	}
	return pol, sel, hasSel
}

// acceptedSelectors returns the label restriction(s) under which a non-pinned XR selects its
// revision (more than one = the property leaves the reading open), and the class of the XR.
func acceptedSelectors(pol string, sel map[string]string, hasSel bool) ([]map[string]string, string) {
	switch {
	case pol == string(xpv1.UpdateAutomatic) && hasSel:
		if hasXPDomainKey(sel) {
			return []map[string]string{sel}, "xr-automatic+selector(crossplane.io key)"
		}
		return []map[string]string{sel}, "xr-automatic+selector"
	case pol == string(xpv1.UpdateAutomatic):
		return []map[string]string{nil}, "xr-automatic"
	case pol == string(xpv1.UpdateManual):
		// Manual without a reference: the first selection. The property does not say
		// which revision; the code documents "the latest". The selector belongs to Automatic.
		return []map[string]string{nil}, "xr-manual-first-selection"
	case hasSel:
		// Policy unset (only reachable when the XRD sets no default; the fetcher treats it as
		// Automatic): the property is silent on whether the selector applies; both readings are accepted.
		return []map[string]string{nil, sel}, "xr-unset+selector"
	default:
		return []map[string]string{nil}, "xr-unset"
	}
}

// maxQualifying returns the highest-numbered revision(s) controlled by the Composition whose
// content's labels contain restrict. The selector clause is evaluated against the content the
// revision captures (the independent attribution), not against the labels the revision carries.
func (w *world) maxQualifying(ctx string, restrict map[string]string) map[string]bool {
	uid := verifsim.MetaString(w.sim.Get(compKey), "uid")
	var max int64
	names := map[string]bool{}
	for n, o := range w.revs() {
		c, attributed := w.ofRev[n]
		if !attributed {
			w.failf("%s: revision %s exists but was never seen being created", ctx, n)
		}
		if verifsim.ControllerUID(o) != uid || !subset(restrict, w.pool[c].Labels) {
			continue
		}
		switch m := revNumber(o); {
		case m > max:
			max, names = m, map[string]bool{n: true}
		case m == max:
			names[n] = true
		}
	}
	return names
}

func (w *world) xrKey(name string) verifsim.Key {
	return verifsim.Key{Group: verifenv.XRGVKDefault.Group, Kind: verifenv.XRGVKDefault.Kind, Name: name}
}

// recQueue is the XR controller's work queue as far as a watch handler can tell: it records what is added.
type recQueue struct {
	workqueue.TypedRateLimitingInterface[reconcile.Request]
	added []reconcile.Request
}

func (q *recQueue) Add(r reconcile.Request)                       { q.added = append(q.added, r) }
func (q *recQueue) AddRateLimited(r reconcile.Request)            { q.added = append(q.added, r) }
func (q *recQueue) AddAfter(r reconcile.Request, _ time.Duration) { q.added = append(q.added, r) }

// deliverEvents hands every pending CompositionRevision create event to the real watch handler of
// the XR controller (definition.EnqueueForCompositionRevision, wired as in the XRD controller) and
// judges what it enqueues: every XR of the kind that references the revision's Composition and
// whose EFFECTIVE update policy is Automatic - effective as the revision fetcher defines it, i.e.
// unset counts as Automatic - must be enqueued. More may be enqueued (harmless).
func (w *world) deliverEvents() {
	for len(w.pending) > 0 {
		rev := w.pending[0]
		w.pending = w.pending[1:]
		w.hist = append(w.hist, "event(created "+rev.GetName()+")")
		ctx := w.hist[len(w.hist)-1]
		q := &recQueue{}
		h := definition.EnqueueForCompositionRevision(resource.CompositeKind(verifenv.XRGVKDefault), w.sim.Client("xr-watch-handler"), logging.NewNopLogger())
		h.Create(context.Background(), kevent.CreateEvent{Object: rev}, q)
		enq := map[string]bool{}
		for _, r := range q.added {
			enq[r.Name] = true
		}
		classes := map[string]bool{}
		for _, s := range w.xrs {
			if !s.made {
				continue
			}
			o := w.sim.Get(w.xrKey(s.name))
			pol, _, _ := xrPolicy(o)
			ref, _ := verifsim.Nested(o, "spec", "compositionRef", "name").(string)
			switch {
			case pol == "":
				classes["revision-create-event:unset-policy-xr-present"] = true
			case pol == string(xpv1.UpdateAutomatic):
				classes["revision-create-event:automatic-xr-present"] = true
			default:
				classes["revision-create-event:manual-xr-present"] = true
			}
			if ref == rev.GetLabels()[v1.LabelCompositionName] && pol != string(xpv1.UpdateManual) && !enq[s.name] {
				w.failf("%s: enqueue: a new revision %s of Composition %s was created, but the XR controller's watch handler did not enqueue XR %s (update policy %q, which the revision fetcher treats as Automatic); enqueued: %v", ctx, rev.GetName(), ref, s.name, pol, keys(enq))
			}
		}
		if len(classes) == 0 {
			classes["revision-create-event:no-xr"] = true
		}
		if w.label != nil {
			for c := range classes {
				w.label(c)
			}
		}
		for _, s := range w.xrs {
			if s.made && enq[s.name] {
				w.queue[s.name] = true
			}
		}
	}
}

// drainQueue delivers the pending events and reconciles exactly the enqueued XRs (the first
// attempt of each with the given fault plan, retried fault-free), then evaluates the watch-driven
// final-state clause.
func (w *world) drainQueue(plan map[int]verifsim.Fault) {
	w.deliverEvents()
	for i, s := range w.xrs {
		if !w.queue[s.name] {
			continue
		}
		c := w.xrFetch(i, plan)
		if w.queue[s.name] {
			c = w.xrFetch(i, nil)
		}
		if w.label != nil {
			w.label("watch-driven:" + c)
		}
	}
	w.checkWatchDriven("queue drained")
}

// checkWatchDriven: with no event pending and the queue empty, every XR whose effective policy
// is Automatic references the highest-numbered qualifying revision - although XRs are only
// reconciled when something enqueued them. An XR is not judged if, since its last reconcile, a
// revision was renumbered, adopted or lost its owner references: no create event exists for
// such changes (the handler's contract is "a newly created CompositionRevision"); the XR follows
// at its next poll, which this clause deliberately does not provide.
func (w *world) checkWatchDriven(ctx string) {
	if len(w.pending) > 0 || len(w.queue) > 0 {
		return
	}
	for _, s := range w.xrs {
		if !s.made {
			continue
		}
		o := w.sim.Get(w.xrKey(s.name))
		pol, sel, hasSel := xrPolicy(o)
		if pol == string(xpv1.UpdateManual) {
			continue
		}
		polName := pol
		if pol == "" {
			polName = "unset"
		}
		if e, ok := w.fetchEpoch[s.name]; !ok || e != w.unnotified {
			if w.label != nil {
				w.label("watch-driven-final:not-judged(renumbered/adopted/restored since last reconcile):" + polName)
			}
			continue
		}
		accept, _ := acceptedSelectors(pol, sel, hasSel)
		okNames := map[string]bool{}
		for _, r := range accept {
			for n := range w.maxQualifying(ctx, r) {
				okNames[n] = true
			}
		}
		if len(okNames) == 0 {
			if w.label != nil {
				w.label("watch-driven-final:none-qualifies:" + polName)
			}
			continue
		}
		if ref := xrRef(o); !okNames[ref] {
			w.failf("%s: watch-driven: every event was delivered and every enqueued XR reconciled, but XR %s (update policy %q, selector %v) still references revision %q; the highest-numbered qualifying revision is %v", ctx, s.name, pol, sel, ref, keys(okNames))
		}
		if w.label != nil {
			w.label("watch-driven-final:judged:" + polName)
		}
	}
}

// xrFetch: the XR controller selects the revision for XR slot i, built like
// composite.NewReconciler builds its CompositionRevisionFetcher. Returns a
// classification for the label histogram.
func (w *world) xrFetch(i int, plan map[int]verifsim.Fault) string {
	s := &w.xrs[i]
	if !s.made {
		return "xr-absent"
	}
	w.hist = append(w.hist, fmt.Sprintf("xrFetch(%s,%s)", s.name, planString(plan)))
	ctx := w.hist[len(w.hist)-1]
	key := verifsim.Key{Group: verifenv.XRGVKDefault.Group, Kind: verifenv.XRGVKDefault.Kind, Name: s.name}
	before := w.sim.Get(key)
	oldRef := xrRef(before)
	pol, sel, hasSel := xrPolicy(before)
	// Candidates from the store, before the fetch (the fetch never writes revisions).
	maxOf := func(restrict map[string]string) map[string]bool { return w.maxQualifying(ctx, restrict) }

	logStart := w.sim.LogLen()
	run := w.sim.NewRun("xr-controller", plan)
	c := run.Client()
	xr := verifenv.NewUnstructuredXR(verifenv.XRGVKDefault, s.name)
	if err := w.sim.Client("xr-controller").Get(context.Background(), types.NamespacedName{Name: s.name}, xr); err != nil {
		panic(err)
	}
	f := composite.NewAPIRevisionFetcher(resource.ClientApplicator{Client: c, Applicator: resource.NewAPIPatchingApplicator(c)})
	got, err := f.Fetch(context.Background(), xr)
	w.drain(ctx)
	hit := false
	for k := range plan {
		if k < run.N {
			hit = true
		}
	}
	if hit {
		w.queue[s.name] = true // a reconcile that fails is retried
	} else {
		delete(w.queue, s.name)
		w.fetchEpoch[s.name] = w.unnotified
	}
	after := w.sim.Get(key)
	newRef := xrRef(after)
	// Apart from the revision reference the XR's spec must be left alone.
	if a, b := withoutRef(before), withoutRef(after); a != b {
		w.failf("%s: the revision fetcher changed the XR beyond spec.compositionRevisionRef:\n before %s\n after  %s", ctx, a, b)
	}

	if pol == string(xpv1.UpdateManual) && oldRef != "" {
		// Manual: the XR keeps using the revision it references.
		if newRef != oldRef {
			w.failf("%s: manual: XR %s (Manual) referenced revision %s, now references %q", ctx, s.name, oldRef, newRef)
		}
		for _, wr := range w.sim.Log()[logStart:] {
			if wr.Key == key && wr.Changed {
				w.failf("%s: manual: XR %s (Manual) was written by the revision fetcher", ctx, s.name)
			}
		}
		if err == nil && got.GetName() != oldRef {
			w.failf("%s: manual: XR %s (Manual) references revision %s but the fetcher returned %s", ctx, s.name, oldRef, got.GetName())
		}
		if err != nil && !hit {
			w.failf("%s: manual: fetching the referenced revision %s fails without any fault: %v", ctx, oldRef, err)
		}
		if w.synced && oldRef != w.revOf[w.cur] {
			return "xr-manual-pinned:behind-current"
		}
		return "xr-manual-pinned"
	}

	// Automatic (or nothing selected yet): the highest-numbered revision controlled by the
	// Composition, restricted by the revision selector if the policy is Automatic.
	accept, class := acceptedSelectors(pol, sel, hasSel)
	okNames := map[string]bool{}
	for _, r := range accept {
		for n := range maxOf(r) {
			okNames[n] = true
		}
	}
	switch {
	case err == nil:
		if !okNames[got.GetName()] {
			w.failf("%s: automatic: XR %s (policy %q, selector %v) was given revision %s; the highest-numbered controlled matching revision(s): %v", ctx, s.name, pol, sel, got.GetName(), keys(okNames))
		}
		if newRef != got.GetName() {
			w.failf("%s: automatic: the fetcher returned revision %s but XR %s references %q", ctx, got.GetName(), s.name, newRef)
		}
		// End to end: once the revision controller has succeeded for the current content, an
		// Automatic XR whose selector admits the current content's labels uses the current content.
		if w.synced && len(accept) == 1 && subset(accept[0], w.pool[w.cur].Labels) && got.GetName() != w.revOf[w.cur] {
			w.failf("%s: automatic: the Composition's current content %d is captured by revision %s, but XR %s (policy %q, selector %v) was moved to revision %s (content %v)", ctx, w.cur, w.revOf[w.cur], s.name, pol, sel, got.GetName(), w.ofRev[got.GetName()])
		}
		if newRef != oldRef {
			class += ":moved"
		} else {
			class += ":stays"
		}
	case !hit:
		if len(okNames) > 0 {
			w.failf("%s: automatic: fetch fails without any fault (%v) although revisions %v qualify", ctx, err, keys(okNames))
		}
		if newRef != oldRef {
			w.failf("%s: automatic: fetch failed but XR %s now references %q (was %q)", ctx, s.name, newRef, oldRef)
		}
		if w.synced && len(accept) == 1 && subset(accept[0], w.pool[w.cur].Labels) {
			w.failf("%s: automatic: the revision controller has succeeded for the current content %d (labels %v, revision %s) but XR %s (policy %q, selector %v) finds no revision: %v", ctx, w.cur, w.pool[w.cur].Labels, w.revOf[w.cur], s.name, pol, sel, err)
		}
		class += ":none-qualifies"
	default:
		if newRef != oldRef && !okNames[newRef] {
			w.failf("%s: automatic: after a faulted fetch XR %s references %q, neither its old reference %q nor a qualifying revision %v", ctx, s.name, newRef, oldRef, keys(okNames))
		}
		class += ":faulted"
	}
	return class
}

func withoutRef(o verifsim.Obj) string {
	c := verifsim.DeepCopy(o)
	if spec, ok := c["spec"].(map[string]any); ok {
		delete(spec, "compositionRevisionRef")
	}
	if m := verifsim.Meta(c); m != nil {
		delete(m, "resourceVersion")
		delete(m, "managedFields")
		delete(m, "generation")
	}
	b, _ := json.Marshal(c)
	return string(b)
}

func keys(m map[string]bool) []string {
	out := make([]string, 0, len(m))
	for k := range m {
		out = append(out, k)
	}
	sort.Strings(out)
	return out
}

// ---------------------------------------------------------------------------
// fault sweep of one revision-controller reconcile

var faultKinds = []verifsim.Fault{
	{Kind: verifsim.ErrBefore, Err: "conflict"},
	{Kind: verifsim.ErrBefore, Err: "server"},
	{Kind: verifsim.ErrAfter, Err: "timeout"},
	{Kind: verifsim.CrashBefore},
	{Kind: verifsim.CrashAfter},
}

type modelSnap struct {
	revOf                                            map[int]string
	ofRev                                            map[string]int
	done                                             map[int]bool
	synced                                           bool
	hist                                             int
	renumbers, adoptions, creates, strips, faultHits int
	pending                                          []*v1.CompositionRevision
	queue                                            map[string]bool
	fetchEpoch                                       map[string]int
	unnotified                                       int
}

func (w *world) snapModel() modelSnap {
	m := modelSnap{revOf: map[int]string{}, ofRev: map[string]int{}, done: map[int]bool{}, synced: w.synced, hist: len(w.hist),
		renumbers: w.renumbers, adoptions: w.adoptions, creates: w.creates, strips: w.strips, faultHits: w.faultHits}
	for k, v := range w.revOf {
		m.revOf[k] = v
	}
	for k, v := range w.ofRev {
		m.ofRev[k] = v
	}
	for k, v := range w.done {
		m.done[k] = v
	}
	m.pending = append([]*v1.CompositionRevision(nil), w.pending...)
	m.queue, m.fetchEpoch, m.unnotified = map[string]bool{}, map[string]int{}, w.unnotified
	for k, v := range w.queue {
		m.queue[k] = v
	}
	for k, v := range w.fetchEpoch {
		m.fetchEpoch[k] = v
	}
	return m
}

func (w *world) restoreModel(m modelSnap) {
	w.revOf, w.ofRev, w.done = map[int]string{}, map[string]int{}, map[int]bool{}
	for k, v := range m.revOf {
		w.revOf[k] = v
	}
	for k, v := range m.ofRev {
		w.ofRev[k] = v
	}
	for k, v := range m.done {
		w.done[k] = v
	}
	w.pending = append([]*v1.CompositionRevision(nil), m.pending...)
	w.queue, w.fetchEpoch, w.unnotified = map[string]bool{}, map[string]int{}, m.unnotified
	for k, v := range m.queue {
		w.queue[k] = v
	}
	for k, v := range m.fetchEpoch {
		w.fetchEpoch[k] = v
	}
	w.synced = m.synced
	w.hist = w.hist[:m.hist]
	w.renumbers, w.adoptions, w.creates, w.strips, w.faultHits = m.renumbers, m.adoptions, m.creates, m.strips, m.faultHits
}

// sweep injects every fault kind at every API call index of the next
// revision-controller reconcile; after each, a second faulted-or-not edit is
// not made: one fault-free reconcile must succeed and restore all invariants.
// With then set, the Composition is edited to pool[then] between the faulted
// and the fault-free reconcile (the user does not wait for the controller).
// The world is rewound afterwards. Returns the number of faulted runs.
func (w *world) sweep(then int) int {
	base, mb := w.sim.Snapshot(), w.snapModel()
	cur, seen, specs := w.cur, copySeen(w.seen), copySpecs(w.specJSON)
	if outer := w.label; outer != nil {
		w.label = func(l string) { outer("in-sweep:" + l) }
		defer func() { w.label = outer }()
	}
	// The long-lived controller instance must not carry memory from one rewound branch into
	// another (a real process cannot): the probe and every branch get a fresh instance (= the
	// controller restarted at the snapshot), and the outer instance, which has seen nothing of
	// the sweep, continues afterwards.
	orc, ocl, oruns, opend := w.rc, w.rcClient, w.rcRuns, w.metaOnlyPending
	defer func() { w.rc, w.rcClient, w.rcRuns, w.metaOnlyPending = orc, ocl, oruns, opend }()
	w.restart()
	probe, _ := w.reconcile(nil)
	K := probe.N
	n := 0
	for k := 0; k < K; k++ {
		for _, f := range faultKinds {
			w.sim.Restore(base)
			w.restoreModel(mb)
			w.cur, w.seen, w.specJSON = cur, copySeen(seen), copySpecs(specs)
			w.hist = append(w.hist, fmt.Sprintf("[sweep call %d of %d: %s]", k, K, probe.Calls[k]))
			w.restart()
			w.reconcile(map[int]verifsim.Fault{k: f})
			if then >= 0 {
				w.edit(then)
			}
			w.reconcile(nil)
			if len(w.pending) > len(mb.pending) {
				// A revision was created on this branch (possibly by the faulted reconcile whose reply
				// was lost): its create event reaches the XR controller's watch handler.
				w.drainQueue(nil)
			}
			n++
		}
	}
	w.sim.Restore(base)
	w.restoreModel(mb)
	w.cur, w.seen, w.specJSON = cur, seen, specs
	return n
}

func copySeen(m map[int]bool) map[int]bool {
	o := map[int]bool{}
	for k, v := range m {
		o[k] = v
	}
	return o
}

func copySpecs(m map[int]string) map[int]string {
	o := map[int]string{}
	for k, v := range m {
		o[k] = v
	}
	return o
}

// ---------------------------------------------------------------------------
// properties

func genPlan(t *rapid.T, maxCall int) map[int]verifsim.Fault {
	plan := map[int]verifsim.Fault{}
	switch rapid.IntRange(0, 5).Draw(t, "nfaults") {
	case 0, 1, 2:
	case 3, 4:
		plan[rapid.IntRange(0, maxCall).Draw(t, "call")] = rapid.SampledFrom(faultKinds).Draw(t, "fault")
	default:
		plan[rapid.IntRange(0, maxCall).Draw(t, "call")] = rapid.SampledFrom(faultKinds).Draw(t, "fault")
		plan[rapid.IntRange(0, maxCall).Draw(t, "call2")] = rapid.SampledFrom(faultKinds).Draw(t, "fault2")
	}
	return plan
}

// TestVerifC12Histories is the state machine: edits, faulted revision-controller
// reconciles, backup/restore, XR policy changes and XR revision fetches.
func TestVerifC12Histories(t *testing.T) {
	rec := verifkit.New(t, "C12", "state machine over {edit to one of 4 contents (base, spec-only, label-only, annotation-only change), revision-controller reconcile with 0-2 faults at drawn API call indexes, fault sweep of a reconcile (every call index x 5 fault kinds, then fault-free reconcile, optionally with an edit in between), backup/restore stripping all owner references, XR create/policy/selector change, XR revision fetch with 0-1 faults}; non-trivial = history with >= 2 revisions and at least one of: renumbering on revert, adoption after backup/restore, a fault that hit a reconcile")
	rapid.Check(t, func(t *rapid.T) {
		pool := genPool(t)
		rec.Eval()
		w := newWorld(pool, rapid.IntRange(0, len(pool)-1).Draw(t, "first"), func(f string, a ...any) { t.Fatalf(f, a...) })
		w.label = rec.Label
		// In poll-free histories XRs are reconciled only when something enqueued them (their own
		// creation or change, or the watch handler for CompositionRevision create events).
		pollFree := rapid.Bool().Draw(t, "pollFree")
		rec.Labelf("history:poll-free=%v", pollFree)
		sweeps := 0
		t.Repeat(map[string]func(*rapid.T){
			"restart": func(t *rapid.T) {
				// Controllers restart rarely compared with edits and reconciles.
				if rapid.IntRange(0, 3).Draw(t, "restartnow") != 0 {
					t.Skip("no restart now")
				}
				w.restart()
				w.hist = append(w.hist, "restart")
				rec.Label("restart")
			},
			"drain": func(t *rapid.T) {
				if len(w.pending) == 0 && len(w.queue) == 0 {
					t.Skip("nothing pending")
				}
				plan := map[int]verifsim.Fault{}
				if rapid.IntRange(0, 3).Draw(t, "faulty") == 0 {
					plan[rapid.IntRange(0, 3).Draw(t, "call")] = rapid.SampledFrom(faultKinds).Draw(t, "fault")
				}
				w.drainQueue(plan)
				rec.Label("drain")
			},
			"edit": func(t *rapid.T) {
				// Mostly a real change; now and then a write that changes nothing.
				i := (w.cur + rapid.IntRange(1, len(pool)-1).Draw(t, "content")) % len(pool)
				if rapid.IntRange(0, 9).Draw(t, "noop") == 0 {
					i = w.cur
				}
				old := pool[w.cur].Labels
				kind := w.edit(i)
				rec.Label("edit:" + kind)
				if kind == "label-only" || kind == "revert" {
					for _, k := range labelKeys {
						if xpDomain(k) && old[k] != pool[i].Labels[k] {
							rec.Label("edit:changes-crossplane.io-label")
							break
						}
					}
				}
			},
			"reconcile": func(t *rapid.T) {
				plan := genPlan(t, 9)
				run, ok := w.reconcile(plan)
				rec.Labelf("reconcile:ok=%v", ok)
				for k, f := range plan {
					if k < run.N {
						rec.Labelf("reconcile:fault-hit:%s", f.Kind)
					}
				}
			},
			"reconcile2": func(*rapid.T) { // a plain reconcile, so that histories make progress
				_, ok := w.reconcile(nil)
				rec.Labelf("reconcile:ok=%v", ok)
			},
			"sweep": func(t *rapid.T) {
				if sweeps >= 2 {
					t.Skip("enough sweeps in this history")
				}
				sweeps++
				then := rapid.IntRange(-1, len(pool)-1).Draw(t, "then")
				n := w.sweep(then)
				rec.AddExtra("sweep_fault_runs", n)
				rec.Labelf("sweep:edit-between=%v", then >= 0)
			},
			"backup-restore": func(t *rapid.T) {
				// Backups are restored far less often than Compositions are edited.
				if len(w.revs()) == 0 || rapid.IntRange(0, 2).Draw(t, "restore") != 0 {
					t.Skip("no backup/restore now")
				}
				w.strip()
				rec.Label("backup-restore")
			},
			"xrSet": func(t *rapid.T) {
				pol := rapid.IntRange(0, 2).Draw(t, "policy")
				sel, kind := genSelector(t, pool)
				w.xrSet(rapid.IntRange(0, len(w.xrs)-1).Draw(t, "xr"), pol, sel)
				rec.Labelf("xrSet:policy=%s,selector=%s", []string{"unset", "Automatic", "Manual"}[pol], kind)
				if hasXPDomainKey(sel) {
					rec.Labelf("xrSet:policy=%s,selector-has-crossplane.io-key", []string{"unset", "Automatic", "Manual"}[pol])
				}
			},
			"xrFetch": func(t *rapid.T) {
				plan := map[int]verifsim.Fault{}
				if rapid.IntRange(0, 3).Draw(t, "faulty") == 0 {
					plan[rapid.IntRange(0, 3).Draw(t, "call")] = rapid.SampledFrom(faultKinds).Draw(t, "fault")
				}
				var made []int
				for i, s := range w.xrs {
					if s.made {
						made = append(made, i)
					}
				}
				if len(made) == 0 || pollFree {
					t.Skip("no XR yet, or no polling in this history")
				}
				rec.Label(w.xrFetch(rapid.SampledFrom(made).Draw(t, "xr"), plan))
			},
			"": func(*rapid.T) { w.checkHistory("invariant") },
		})
		// Faults stop: one reconcile must succeed and establish every invariant; then every XR is fetched.
		w.reconcile(nil)
		// Watch-driven end: deliver the events, reconcile only what was enqueued, judge. Then poll every XR.
		w.drainQueue(nil)
		for i := range w.xrs {
			if c := w.xrFetch(i, nil); c != "xr-absent" {
				rec.Label("final:" + c)
			}
		}
		rec.Labelf("revisions=%d", len(w.revs()))
		if len(w.revs()) >= 2 && (w.renumbers > 0 || w.adoptions > 0 || w.faultHits > 0) {
			if w.renumbers > 0 {
				rec.Label("history:renumbered")
			}
			if w.adoptions > 0 {
				rec.Label("history:adopted")
			}
			if w.faultHits > 0 {
				rec.Label("history:fault-hit")
			}
			rec.NonTrivial(verifkit.JSON(pool)+strings.Join(w.hist, ";"), func() any { return map[string]any{"pool": pool, "history": w.hist} })
		}
	})
}

// --- pinned histories --------------------------------------------------------

type step struct {
	op   string
	arg  int
	arg2 int
	sel  map[string]string // xrSet: matchLabels of the revision selector (nil = no selector)
	plan map[int]verifsim.Fault
}

var pinnedPool = []content{{0, nil, 0}, {1, nil, 0}, {0, map[string]string{"channel": "stable"}, 0}, {0, nil, 1}}

// xpPool: contents whose labels live under the crossplane.io domain (but are not the two
// labels the revision controller sets itself), e.g. the documented crossplane.io/xrd.
var xpPool = []content{
	{0, map[string]string{"crossplane.io/xrd": "xthings.example.org"}, 0},
	{1, map[string]string{"crossplane.io/xrd": "xthings.example.org", "sub.crossplane.io/x": "1"}, 0},
	{0, map[string]string{"crossplane.io/xrd": "xthings.example.org", "crossplane.io/foo": "a", "channel": "stable"}, 0},
	{0, nil, 0},
}

func runPinned(fail func(string, ...any), steps []step) *world {
	return runPinnedPool(pinnedPool, fail, steps)
}

func runPinnedPool(pool []content, fail func(string, ...any), steps []step) *world {
	w := newWorld(pool, steps[0].arg, fail)
	for _, s := range steps[1:] {
		switch s.op {
		case "edit":
			w.edit(s.arg)
		case "reconcile":
			w.reconcile(s.plan)
		case "strip":
			w.strip()
		case "xrSet":
			w.xrSet(s.arg, s.arg2, s.sel)
		case "xrFetch":
			w.xrFetch(s.arg, s.plan)
		case "sweep":
			w.sweep(s.arg)
		case "drain":
			w.drainQueue(s.plan)
		case "restart":
			w.restart()
		default:
			panic(s.op)
		}
	}
	w.checkHistory("end")
	return w
}

var crashAfter = verifsim.Fault{Kind: verifsim.CrashAfter}

// TestVerifC12Pinned: regression rows for every failure found so far, plus the
// documented A-B-A example of the CompositionRevision type.
func TestVerifC12Pinned(t *testing.T) {
	rows := []struct {
		name  string
		steps []step
	}{
		// Found on the unchanged tree: latestRev is computed from controlled revisions only, before
		// the uncontrolled ones are adopted in the same loop. A#1 B#2, all owner references stripped,
		// content == B: B is renumbered to 0+1 = 1 (number goes DOWN, permanent tie with A#1).
		{"restore-renumbers-latest-down", []step{{op: "create", arg: 0}, {op: "reconcile"}, {op: "edit", arg: 1}, {op: "reconcile"}, {op: "strip"}, {op: "reconcile"}}},
		// Same cause, content reverted to A (older) and restored before the next reconcile: A stays #1 below B#2 although it is current.
		{"restore-current-not-highest", []step{{op: "create", arg: 0}, {op: "reconcile"}, {op: "edit", arg: 1}, {op: "reconcile"}, {op: "edit", arg: 0}, {op: "strip"}, {op: "reconcile"}}},
		// Same cause, new content after restore: C is created as #1 and ties with A#1 below B#2.
		{"restore-then-new-content", []step{{op: "create", arg: 0}, {op: "reconcile"}, {op: "edit", arg: 1}, {op: "reconcile"}, {op: "strip"}, {op: "edit", arg: 2}, {op: "reconcile"}}},
		// Same cause, adoption interrupted after the first revision: only A#1 is controlled when C is created -> C#2 ties with B#2.
		{"restore-partial-adoption", []step{{op: "create", arg: 0}, {op: "reconcile"}, {op: "edit", arg: 1}, {op: "reconcile"}, {op: "strip"}, {op: "reconcile", plan: map[int]verifsim.Fault{2: crashAfter}}, {op: "edit", arg: 2}, {op: "reconcile"}}},
		// The end-to-end consequence: an Automatic XR is moved to stale content after the restore.
		{"restore-automatic-xr-stale", []step{{op: "create", arg: 0}, {op: "reconcile"}, {op: "edit", arg: 1}, {op: "reconcile"}, {op: "xrSet", arg: 0, arg2: 1}, {op: "xrFetch", arg: 0}, {op: "strip"}, {op: "reconcile"}, {op: "xrFetch", arg: 0}}},
		// Documented behaviour: A -> B -> A keeps two revisions and renumbers A to 3.
		{"a-b-a", []step{{op: "create", arg: 0}, {op: "reconcile"}, {op: "edit", arg: 1}, {op: "reconcile"}, {op: "edit", arg: 0}, {op: "reconcile"}, {op: "sweep", arg: 1}}},
	}
	for _, r := range rows {
		t.Run(r.name, func(t *testing.T) {
			runPinned(func(f string, a ...any) { t.Fatalf(f, a...) }, r.steps)
		})
	}
}

// TestVerifC12PinnedDomainLabels: Composition labels under the crossplane.io domain that are not
// one of the two labels the controller sets itself (e.g. the documented crossplane.io/xrd) are part
// of the content: they are copied to the revision, and revision selectors on them work. (Class of a
// seeded change that dropped every crossplane.io/ label when copying labels to a new revision.)
func TestVerifC12PinnedDomainLabels(t *testing.T) {
	xrd := map[string]string{"crossplane.io/xrd": "xthings.example.org"}
	w := runPinnedPool(xpPool, func(f string, a ...any) { t.Fatalf(f, a...) }, []step{{op: "create", arg: 0}, {op: "reconcile"},
		{op: "xrSet", arg: 0, arg2: 1, sel: xrd}, {op: "xrFetch", arg: 0},
		{op: "edit", arg: 1}, {op: "reconcile"}, {op: "xrFetch", arg: 0},
		{op: "xrSet", arg: 1, arg2: 1, sel: map[string]string{"sub.crossplane.io/x": "1"}}, {op: "xrFetch", arg: 1},
		{op: "edit", arg: 2}, {op: "reconcile"},
		{op: "xrSet", arg: 2, arg2: 1, sel: map[string]string{"crossplane.io/foo": "a", "channel": "stable"}},
		{op: "xrFetch", arg: 0}, {op: "xrFetch", arg: 1}, {op: "xrFetch", arg: 2},
		{op: "edit", arg: 3}, {op: "reconcile"}, {op: "strip"}, {op: "reconcile"},
		{op: "xrFetch", arg: 0}, {op: "xrFetch", arg: 1}, {op: "xrFetch", arg: 2}})
	ref := func(i int) string {
		return xrRef(w.sim.Get(verifsim.Key{Group: verifenv.XRGVKDefault.Group, Kind: verifenv.XRGVKDefault.Kind, Name: w.xrs[i].name}))
	}
	if ref(0) != w.revOf[2] || ref(1) != w.revOf[1] || ref(2) != w.revOf[2] {
		t.Fatalf("XR references: selector crossplane.io/xrd -> %s (want %s), sub.crossplane.io/x -> %s (want %s), crossplane.io/foo+channel -> %s (want %s); %s",
			ref(0), w.revOf[2], ref(1), w.revOf[1], ref(2), w.revOf[2], w.describeRevs())
	}
	for c, name := range w.revOf {
		if got := withoutReserved(verifsim.Labels(w.revs()[name])); !sameLabels(got, xpPool[c].Labels) {
			t.Fatalf("revision %s of content %d has labels %v, want %v", name, c, got, xpPool[c].Labels)
		}
	}
}

// TestVerifC12PinnedLongLived: ONE revision controller instance serves the whole history, and
// label-only / annotation-only edits leave metadata.generation unchanged. Every distinct content
// must still get its revision, and a metadata-only revert must still be renumbered. (Class of a
// seeded change that memoized Composition.Hash() per UID and generation inside the Reconciler.)
func TestVerifC12PinnedLongLived(t *testing.T) {
	w := runPinned(func(f string, a ...any) { t.Fatalf(f, a...) }, []step{{op: "create", arg: 0}, {op: "reconcile"},
		{op: "edit", arg: 2}, {op: "reconcile"}, // label-only
		{op: "edit", arg: 3}, {op: "reconcile"}, // label removed + annotation added, spec unchanged
		{op: "edit", arg: 0}, {op: "reconcile"}, // metadata-only revert
		{op: "edit", arg: 1}, {op: "reconcile"}, // spec change
		{op: "edit", arg: 3}, {op: "reconcile"}, {op: "restart"}, {op: "edit", arg: 2}, {op: "reconcile"}})
	if w.metaOnlySameRC != 3 {
		t.Fatalf("expected 3 reconciles of the same instance after metadata-only edits, got %d", w.metaOnlySameRC)
	}
	if len(w.revs()) != 4 || w.creates != 4 || w.renumbers != 3 {
		t.Fatalf("expected 4 revisions, 4 creates, 3 renumbers; got %s creates=%d renumbers=%d", w.describeRevs(), w.creates, w.renumbers)
	}
}

// TestVerifC12PinnedWatchDriven: XRs are reconciled only when enqueued. The watch handler for
// CompositionRevision create events must enqueue every XR of the Composition whose policy the
// revision fetcher treats as Automatic - including XRs without spec.compositionUpdatePolicy.
// (Class of a seeded change that made the handler skip XRs whose policy is unset.)
func TestVerifC12PinnedWatchDriven(t *testing.T) {
	w := runPinned(func(f string, a ...any) { t.Fatalf(f, a...) }, []step{{op: "create", arg: 0}, {op: "reconcile"},
		{op: "xrSet", arg: 0, arg2: 0}, {op: "xrSet", arg: 1, arg2: 1}, {op: "xrSet", arg: 2, arg2: 2}, {op: "drain"},
		{op: "edit", arg: 1}, {op: "reconcile"}, {op: "drain"},
		{op: "edit", arg: 2}, {op: "reconcile", plan: map[int]verifsim.Fault{2: {Kind: verifsim.ErrAfter, Err: "timeout"}}}, {op: "drain"}})
	ref := func(i int) string { return xrRef(w.sim.Get(w.xrKey(w.xrs[i].name))) }
	if ref(0) != w.revOf[2] || ref(1) != w.revOf[2] || ref(2) != w.revOf[0] {
		t.Fatalf("XR references after the queue drained: unset=%s automatic=%s (want %s) manual=%s (want %s); %s", ref(0), ref(1), w.revOf[2], ref(2), w.revOf[0], w.describeRevs())
	}
	if len(w.pending) != 0 || len(w.queue) != 0 {
		t.Fatalf("pending events %d, queue %v", len(w.pending), w.queue)
	}
}

// TestVerifC12Sanity guards against a vacuous harness: the controllers really
// create, renumber and adopt revisions, and XRs really move.
func TestVerifC12Sanity(t *testing.T) {
	fail := func(f string, a ...any) { t.Fatalf(f, a...) }
	w := runPinned(fail, []step{{op: "create", arg: 0}, {op: "reconcile"}, {op: "edit", arg: 2}, {op: "reconcile"}, {op: "edit", arg: 3}, {op: "reconcile"}, {op: "edit", arg: 0}, {op: "reconcile"},
		{op: "xrSet", arg: 0, arg2: 1}, {op: "xrSet", arg: 1, arg2: 2}, {op: "xrSet", arg: 2, arg2: 1, sel: map[string]string{"channel": "stable"}},
		{op: "xrFetch", arg: 0}, {op: "xrFetch", arg: 1}, {op: "xrFetch", arg: 2}, {op: "edit", arg: 3}, {op: "reconcile"},
		{op: "xrFetch", arg: 0}, {op: "xrFetch", arg: 1}, {op: "xrFetch", arg: 2}})
	revs := w.revs()
	if len(revs) != 3 || w.creates != 3 || w.renumbers != 2 {
		t.Fatalf("expected 3 revisions, 3 creates, 2 renumbers; got %s creates=%d renumbers=%d", w.describeRevs(), w.creates, w.renumbers)
	}
	want := map[int]int64{0: 4, 2: 2, 3: 5}
	for c, n := range want {
		if got := revNumber(revs[w.revOf[c]]); got != n {
			t.Fatalf("content %d: expected revision number %d, got %d (%s)", c, n, got, w.describeRevs())
		}
	}
	ref := func(i int) string {
		return xrRef(w.sim.Get(verifsim.Key{Group: verifenv.XRGVKDefault.Group, Kind: verifenv.XRGVKDefault.Kind, Name: w.xrs[i].name}))
	}
	if ref(0) != w.revOf[3] || ref(1) != w.revOf[0] || ref(2) != w.revOf[2] {
		t.Fatalf("XR references: automatic=%s (want %s) manual=%s (want %s) automatic+selector(channel=stable)=%s (want %s)", ref(0), w.revOf[3], ref(1), w.revOf[0], ref(2), w.revOf[2])
	}
	w.strip()
	w.reconcile(nil)
	if w.adoptions != 3 {
		t.Fatalf("expected 3 adoptions after backup/restore, got %d", w.adoptions)
	}
	// The monitor must notice a number that goes down and an edited spec (oracle self-test).
	cl := w.sim.Client("tamper")
	rev := &v1.CompositionRevision{}
	if err := cl.Get(context.Background(), types.NamespacedName{Name: w.revOf[3]}, rev); err != nil {
		t.Fatal(err)
	}
	rev.Spec.Revision--
	rev.Spec.Pipeline = nil
	if err := cl.Update(context.Background(), rev); err != nil {
		t.Fatal(err)
	}
	if vs := w.sim.TakeViolations(); len(vs) != 2 {
		t.Fatalf("oracle self-test: expected a monotonic and an immutable violation, got %v", vs)
	}
}
