//go:build verif

package roles_test

// C18, binding side: the system role of a revision is bound only to service
// accounts of deployments that revision owns, and the binding refers to that
// revision's own system role. (External test package: rbac/provider/binding
// imports package roles.)

import (
	"context"
	"fmt"
	"testing"

	appsv1 "k8s.io/api/apps/v1"
	rbacv1 "k8s.io/api/rbac/v1"
	metav1 "k8s.io/apimachinery/pkg/apis/meta/v1"
	"k8s.io/apimachinery/pkg/runtime"
	"k8s.io/apimachinery/pkg/types"
	"pgregory.net/rapid"
	"sigs.k8s.io/controller-runtime/pkg/client"
	"sigs.k8s.io/controller-runtime/pkg/manager"
	"sigs.k8s.io/controller-runtime/pkg/reconcile"

	pkgv1 "github.com/crossplane/crossplane/apis/pkg/v1"
	"github.com/crossplane/crossplane/internal/controller/rbac/provider/binding"
	"github.com/crossplane/crossplane/internal/controller/rbac/provider/roles"
	"github.com/crossplane/crossplane/internal/verifkit"
	"github.com/crossplane/crossplane/internal/verifsim"
)

var c18bScheme = verifsim.NewScheme()

type c18bMgr struct {
	manager.Manager
	c client.Client
}

func (m c18bMgr) GetClient() client.Client   { return m.c }
func (m c18bMgr) GetScheme() *runtime.Scheme { return c18bScheme }

type c18bDeployment struct {
	Namespace, Name, ServiceAccount string
	Owners                          []string // revision names
}

func TestVerifC18Binding(t *testing.T) {
	rec := verifkit.New(t, "C18", "two provider revisions and 0-4 deployments owned by either, both or neither; one binding Reconcile on verifsim; non-trivial = a binding with subjects was written; distinct=deployments")
	rapid.Check(t, func(t *rapid.T) {
		revs := []string{"provider-a-rev1", "provider-b-rev1"}
		var deps []c18bDeployment
		for i := 0; i < rapid.IntRange(0, 4).Draw(t, "ndeployments"); i++ {
			deps = append(deps, c18bDeployment{
				Namespace:      rapid.SampledFrom([]string{"crossplane-system", "other"}).Draw(t, "ns"),
				Name:           fmt.Sprintf("deployment-%d", i),
				ServiceAccount: rapid.SampledFrom([]string{"provider-a", "provider-b", "crossplane", "default", ""}).Draw(t, "sa"),
				Owners:         rapid.SliceOfNDistinct(rapid.SampledFrom(revs), 0, 2, rapid.ID[string]).Draw(t, "owners"),
			})
		}
		rec.Eval()
		ctx := context.Background()
		s := verifsim.New(c18bScheme)
		setup := s.Client("package-manager")
		uids := map[string]types.UID{}
		for _, n := range revs {
			pr := &pkgv1.ProviderRevision{ObjectMeta: metav1.ObjectMeta{Name: n}}
			pr.Spec.Package = "acme/" + n + ":v1.0.0"
			if err := setup.Create(ctx, pr); err != nil {
				t.Fatalf("setup: %v", err)
			}
			uids[n] = pr.GetUID()
		}
		type sa struct{ ns, name string }
		allowed := map[sa]bool{}
		for _, d := range deps {
			o := &appsv1.Deployment{ObjectMeta: metav1.ObjectMeta{Namespace: d.Namespace, Name: d.Name}}
			o.Spec.Template.Spec.ServiceAccountName = d.ServiceAccount
			for _, ow := range d.Owners {
				o.OwnerReferences = append(o.OwnerReferences, metav1.OwnerReference{APIVersion: "pkg.crossplane.io/v1", Kind: "ProviderRevision", Name: ow, UID: uids[ow]})
				if ow == revs[0] {
					allowed[sa{d.Namespace, d.ServiceAccount}] = true
				}
			}
			if err := setup.Create(ctx, o); err != nil {
				t.Fatalf("setup: %v", err)
			}
		}
		c := s.Client("rbac-manager")
		r := binding.NewReconciler(c18bMgr{c: c})
		before := s.LogLen()
		if _, err := r.Reconcile(ctx, reconcile.Request{NamespacedName: types.NamespacedName{Name: revs[0]}}); err != nil {
			t.Fatalf("Reconcile: %v", err)
		}
		want := roles.SystemClusterRoleName(revs[0])
		subjects := 0
		for _, w := range s.Log()[before:] {
			if w.Key.Group != rbacv1.GroupName {
				continue
			}
			if w.Key.Kind != "ClusterRoleBinding" {
				t.Fatalf("the binding reconciler wrote %s", w.Key)
			}
			if w.Err != "" || w.After == nil {
				continue
			}
			rb := &rbacv1.ClusterRoleBinding{}
			if err := runtime.DefaultUnstructuredConverter.FromUnstructured(w.After, rb); err != nil {
				t.Fatalf("decode: %v", err)
			}
			if rb.RoleRef.Kind != "ClusterRole" || rb.RoleRef.APIGroup != rbacv1.GroupName || rb.RoleRef.Name != want {
				t.Fatalf("binding %s refers to %+v, want the revision's own system role %q", rb.Name, rb.RoleRef, want)
			}
			for _, sub := range rb.Subjects {
				if sub.Kind != rbacv1.ServiceAccountKind || !allowed[sa{sub.Namespace, sub.Name}] {
					t.Fatalf("binding %s grants the system role of %s to %+v, which is not the service account of a deployment that revision owns\ndeployments: %s", rb.Name, revs[0], sub, verifkit.JSON(deps))
				}
				subjects++
			}
		}
		rec.Labelf("subjects=%d", subjects)
		if subjects > 0 {
			rec.NonTrivial(verifkit.JSON(deps), func() any { return map[string]any{"deployments": deps, "subjects": subjects} })
		}
	})
}

// Histories: the set of deployments a revision owns changes over time and the
// REAL binding reconciler (default APIUpdatingApplicator + AllowUpdateIf
// predicate) runs after every step against the binding it stored earlier.
// After every successful reconcile the subjects of the binding to the
// revision's system role are exactly the service accounts of the deployments
// the revision owns at that moment.
func TestVerifC18BindingHistories(t *testing.T) {
	rec := verifkit.New(t, "C18", "histories of 2-8 steps (create/delete a deployment owned by the revision, by another revision, by both or by nobody; change a deployment's service account; deactivate = delete all owned deployments) with a binding Reconcile on verifsim after every step; oracle after each reconcile: binding subjects == service accounts of currently owned deployments; non-trivial = the owned service-account set shrank while a binding existed; distinct=history")
	rapid.Check(t, func(t *rapid.T) {
		ctx := context.Background()
		s := verifsim.New(c18bScheme)
		setup := s.Client("package-manager")
		revs := []string{"provider-a-rev1", "provider-b-rev1"}
		uids := map[string]types.UID{}
		for _, n := range revs {
			pr := &pkgv1.ProviderRevision{ObjectMeta: metav1.ObjectMeta{Name: n}}
			pr.Spec.Package = "acme/" + n + ":v1.0.0"
			pr.Spec.DesiredState = pkgv1.PackageRevisionActive
			if err := setup.Create(ctx, pr); err != nil {
				t.Fatalf("setup: %v", err)
			}
			uids[n] = pr.GetUID()
		}
		target := revs[0]
		bindingKey := verifsim.Key{Group: rbacv1.GroupName, Kind: "ClusterRoleBinding", Name: roles.SystemClusterRoleName(target)}
		r := binding.NewReconciler(c18bMgr{c: s.Client("rbac-manager")})

		type sa struct{ ns, name string }
		type dep struct {
			ns, name, account string
			owned             bool // by the target revision
		}
		live := map[string]*dep{}
		next := 0
		var history []string
		rec.Eval()
		prev := map[sa]bool{}
		hadBinding := false
		shrank, emptied := false, false

		nsteps := rapid.IntRange(2, 8).Draw(t, "nsteps")
		for step := 0; step < nsteps; step++ {
			keys := make([]string, 0, len(live))
			for k := range live {
				keys = append(keys, k)
			}
			sortStrings(keys)
			op := rapid.IntRange(0, 9).Draw(t, "op")
			if step == 0 {
				op = 0
			}
			switch {
			case op <= 3 || len(keys) == 0: // create a deployment
				d := &dep{
					ns:      rapid.SampledFrom([]string{"crossplane-system", "other"}).Draw(t, "ns"),
					name:    fmt.Sprintf("deployment-%d", next),
					account: rapid.SampledFrom([]string{"sa-a", "sa-b", "sa-c", "crossplane"}).Draw(t, "sa"),
				}
				next++
				o := &appsv1.Deployment{ObjectMeta: metav1.ObjectMeta{Namespace: d.ns, Name: d.name}}
				o.Spec.Template.Spec.ServiceAccountName = d.account
				ctrl := true
				owner := rapid.SampledFrom([]string{"target", "target", "target", "other", "both", "none"}).Draw(t, "owner")
				switch owner {
				case "target":
					d.owned = true
					o.OwnerReferences = []metav1.OwnerReference{{APIVersion: "pkg.crossplane.io/v1", Kind: "ProviderRevision", Name: target, UID: uids[target], Controller: &ctrl}}
				case "other":
					o.OwnerReferences = []metav1.OwnerReference{{APIVersion: "pkg.crossplane.io/v1", Kind: "ProviderRevision", Name: revs[1], UID: uids[revs[1]], Controller: &ctrl}}
				case "both":
					d.owned = true
					o.OwnerReferences = []metav1.OwnerReference{
						{APIVersion: "pkg.crossplane.io/v1", Kind: "ProviderRevision", Name: target, UID: uids[target], Controller: &ctrl},
						{APIVersion: "pkg.crossplane.io/v1", Kind: "ProviderRevision", Name: revs[1], UID: uids[revs[1]]},
					}
				}
				if err := setup.Create(ctx, o); err != nil {
					t.Fatalf("setup: %v", err)
				}
				live[d.ns+"/"+d.name] = d
				history = append(history, fmt.Sprintf("create %s/%s sa=%s owner=%s", d.ns, d.name, d.account, owner))
			case op <= 6: // delete one deployment
				k := rapid.SampledFrom(keys).Draw(t, "del")
				d := live[k]
				if err := setup.Delete(ctx, &appsv1.Deployment{ObjectMeta: metav1.ObjectMeta{Namespace: d.ns, Name: d.name}}); err != nil {
					t.Fatalf("setup delete: %v", err)
				}
				delete(live, k)
				history = append(history, "delete "+k)
			case op == 7: // the deployment switches to another service account
				k := rapid.SampledFrom(keys).Draw(t, "upd")
				d := live[k]
				o := &appsv1.Deployment{}
				if err := setup.Get(ctx, types.NamespacedName{Namespace: d.ns, Name: d.name}, o); err != nil {
					t.Fatalf("setup get: %v", err)
				}
				d.account = rapid.SampledFrom([]string{"sa-a", "sa-b", "sa-c"}).Draw(t, "newsa")
				o.Spec.Template.Spec.ServiceAccountName = d.account
				if err := setup.Update(ctx, o); err != nil {
					t.Fatalf("setup update: %v", err)
				}
				history = append(history, "set-sa "+k+" "+d.account)
			default: // the revision is deactivated: its deployments are deleted
				pr := &pkgv1.ProviderRevision{}
				if err := setup.Get(ctx, types.NamespacedName{Name: target}, pr); err != nil {
					t.Fatalf("setup get: %v", err)
				}
				pr.Spec.DesiredState = pkgv1.PackageRevisionInactive
				if err := setup.Update(ctx, pr); err != nil {
					t.Fatalf("setup update: %v", err)
				}
				for _, k := range keys {
					if d := live[k]; d.owned {
						if err := setup.Delete(ctx, &appsv1.Deployment{ObjectMeta: metav1.ObjectMeta{Namespace: d.ns, Name: d.name}}); err != nil {
							t.Fatalf("setup delete: %v", err)
						}
						delete(live, k)
					}
				}
				history = append(history, "deactivate")
			}

			if _, err := r.Reconcile(ctx, reconcile.Request{NamespacedName: types.NamespacedName{Name: target}}); err != nil {
				t.Fatalf("Reconcile after %v: %v", history, err)
			}
			want := map[sa]bool{}
			for _, d := range live {
				if d.owned {
					want[sa{d.ns, d.account}] = true
				}
			}
			if hadBinding {
				lost := false
				for k := range prev {
					if !want[k] {
						lost = true
					}
				}
				if lost {
					shrank = true
					rec.Label("history:owned-set-shrank-since-binding-written")
					if len(want) == 0 {
						emptied = true
						rec.Label("history:owned-set-became-empty")
					}
				} else if len(want) > len(prev) {
					rec.Label("history:owned-set-grew")
				} else {
					rec.Label("history:owned-set-unchanged")
				}
			}
			obj := s.Get(bindingKey)
			got := map[sa]bool{}
			if obj != nil {
				rb := &rbacv1.ClusterRoleBinding{}
				if err := runtime.DefaultUnstructuredConverter.FromUnstructured(obj, rb); err != nil {
					t.Fatalf("decode: %v", err)
				}
				if rb.RoleRef.Kind != "ClusterRole" || rb.RoleRef.Name != roles.SystemClusterRoleName(target) {
					t.Fatalf("binding refers to %+v", rb.RoleRef)
				}
				for _, sub := range rb.Subjects {
					k := sa{sub.Namespace, sub.Name}
					if sub.Kind != rbacv1.ServiceAccountKind || !want[k] {
						t.Fatalf("after %v and a successful reconcile, the system role of %s is still bound to %+v, which is not the service account of a deployment the revision owns now (owned now: %v)", history, target, sub, want)
					}
					got[k] = true
				}
				hadBinding = true
			}
			for k := range want {
				if !got[k] {
					t.Fatalf("after %v and a successful reconcile, the system role of %s is not bound to %v, the service account of a deployment the revision owns (binding present: %v)", history, target, k, obj != nil)
				}
			}
			prev = want
		}
		_ = emptied
		if shrank {
			rec.NonTrivial(fmt.Sprint(history), func() any { return map[string]any{"history": history} })
		}
	})
}

func sortStrings(l []string) {
	for i := 1; i < len(l); i++ {
		for j := i; j > 0 && l[j] < l[j-1]; j-- {
			l[j], l[j-1] = l[j-1], l[j]
		}
	}
}
