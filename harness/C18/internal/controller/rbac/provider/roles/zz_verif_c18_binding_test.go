//go:build verif

package roles_test

// C18, binding side: the system role of a revision is bound only to service
// accounts of deployments that revision owns, and the binding refers to that
// revision's own system role. (External test package: rbac/provider/binding
// imports package roles.)

import (
	"context"
	"fmt"
	"testing"

	appsv1 "k8s.io/api/apps/v1"
	rbacv1 "k8s.io/api/rbac/v1"
	metav1 "k8s.io/apimachinery/pkg/apis/meta/v1"
	"k8s.io/apimachinery/pkg/runtime"
	"k8s.io/apimachinery/pkg/types"
	"pgregory.net/rapid"
	"sigs.k8s.io/controller-runtime/pkg/client"
	"sigs.k8s.io/controller-runtime/pkg/manager"
	"sigs.k8s.io/controller-runtime/pkg/reconcile"

	pkgv1 "github.com/crossplane/crossplane/apis/pkg/v1"
	"github.com/crossplane/crossplane/internal/controller/rbac/provider/binding"
	"github.com/crossplane/crossplane/internal/controller/rbac/provider/roles"
	"github.com/crossplane/crossplane/internal/verifkit"
	"github.com/crossplane/crossplane/internal/verifsim"
)

var c18bScheme = verifsim.NewScheme()

type c18bMgr struct {
	manager.Manager
	c client.Client
}

func (m c18bMgr) GetClient() client.Client   { return m.c }
func (m c18bMgr) GetScheme() *runtime.Scheme { return c18bScheme }

type c18bDeployment struct {
	Namespace, Name, ServiceAccount string
	Owners                          []string // revision names
}

func TestVerifC18Binding(t *testing.T) {
	rec := verifkit.New(t, "C18", "two provider revisions and 0-4 deployments owned by either, both or neither; one binding Reconcile on verifsim; non-trivial = a binding with subjects was written; distinct=deployments")
	rapid.Check(t, func(t *rapid.T) {
		revs := []string{"provider-a-rev1", "provider-b-rev1"}
		var deps []c18bDeployment
		for i := 0; i < rapid.IntRange(0, 4).Draw(t, "ndeployments"); i++ {
			deps = append(deps, c18bDeployment{
				Namespace:      rapid.SampledFrom([]string{"crossplane-system", "other"}).Draw(t, "ns"),
				Name:           fmt.Sprintf("deployment-%d", i),
				ServiceAccount: rapid.SampledFrom([]string{"provider-a", "provider-b", "crossplane", "default", ""}).Draw(t, "sa"),
				Owners:         rapid.SliceOfNDistinct(rapid.SampledFrom(revs), 0, 2, rapid.ID[string]).Draw(t, "owners"),
			})
		}
		rec.Eval()
		ctx := context.Background()
		s := verifsim.New(c18bScheme)
		setup := s.Client("package-manager")
		uids := map[string]types.UID{}
		for _, n := range revs {
			pr := &pkgv1.ProviderRevision{ObjectMeta: metav1.ObjectMeta{Name: n}}
			pr.Spec.Package = "acme/" + n + ":v1.0.0"
			if err := setup.Create(ctx, pr); err != nil {
				t.Fatalf("setup: %v", err)
			}
			uids[n] = pr.GetUID()
		}
		type sa struct{ ns, name string }
		allowed := map[sa]bool{}
		for _, d := range deps {
			o := &appsv1.Deployment{ObjectMeta: metav1.ObjectMeta{Namespace: d.Namespace, Name: d.Name}}
			o.Spec.Template.Spec.ServiceAccountName = d.ServiceAccount
			for _, ow := range d.Owners {
				o.OwnerReferences = append(o.OwnerReferences, metav1.OwnerReference{APIVersion: "pkg.crossplane.io/v1", Kind: "ProviderRevision", Name: ow, UID: uids[ow]})
				if ow == revs[0] {
					allowed[sa{d.Namespace, d.ServiceAccount}] = true
				}
			}
			if err := setup.Create(ctx, o); err != nil {
				t.Fatalf("setup: %v", err)
			}
		}
		c := s.Client("rbac-manager")
		r := binding.NewReconciler(c18bMgr{c: c})
		before := s.LogLen()
		if _, err := r.Reconcile(ctx, reconcile.Request{NamespacedName: types.NamespacedName{Name: revs[0]}}); err != nil {
			t.Fatalf("Reconcile: %v", err)
		}
		want := roles.SystemClusterRoleName(revs[0])
		subjects := 0
		for _, w := range s.Log()[before:] {
			if w.Key.Group != rbacv1.GroupName {
				continue
			}
			if w.Key.Kind != "ClusterRoleBinding" {
				t.Fatalf("the binding reconciler wrote %s", w.Key)
			}
			if w.Err != "" || w.After == nil {
				continue
			}
			rb := &rbacv1.ClusterRoleBinding{}
			if err := runtime.DefaultUnstructuredConverter.FromUnstructured(w.After, rb); err != nil {
				t.Fatalf("decode: %v", err)
			}
			if rb.RoleRef.Kind != "ClusterRole" || rb.RoleRef.APIGroup != rbacv1.GroupName || rb.RoleRef.Name != want {
				t.Fatalf("binding %s refers to %+v, want the revision's own system role %q", rb.Name, rb.RoleRef, want)
			}
			for _, sub := range rb.Subjects {
				if sub.Kind != rbacv1.ServiceAccountKind || !allowed[sa{sub.Namespace, sub.Name}] {
					t.Fatalf("binding %s grants the system role of %s to %+v, which is not the service account of a deployment that revision owns\ndeployments: %s", rb.Name, revs[0], sub, verifkit.JSON(deps))
				}
				subjects++
			}
		}
		rec.Labelf("subjects=%d", subjects)
		if subjects > 0 {
			rec.NonTrivial(verifkit.JSON(deps), func() any { return map[string]any{"deployments": deps, "subjects": subjects} })
		}
	})
}
